"""C07 - cmp is a total preorder over mixed types; sort / dictable.sort follow it stably."""
import datetime, json, os, re, random, zlib
from harness.core import Machinery
import numpy as np, pandas as pd
from harness.enc import IdMap
from harness.x_order import xtag as tag, xuntag as untag   # enc.tag / untag + numbers beyond 2**31 (OrderBig)
from pyg_base import cmp, sort, Cmp, dictable

STRS = ["", "B", "a", "ab", "abc", "b", "ba", "j", "k", "xyz"]


def safe_cmp(x, y):
    try:
        c = cmp(x, y)
        return int(c) if c in (-1, 0, 1) else 9
    except Exception:
        return 9


def universe():
    nan1, nan2, nan3 = float('nan'), float('nan'), np.float64('nan')
    d1, d2 = datetime.datetime(2000, 1, 1), datetime.datetime(2000, 1, 1, 1, 0, 0, 5)
    sc = [None, True, False, np.bool_(True), 0, 1, 2, -1, np.int64(1), np.int32(2), 1.0, 2.5, -0.5, np.float64(1.0),
          np.float32(2.5), nan1, nan2, nan3, np.float32('nan'), np.float16('nan'), np.float32(1.0), float('inf'), float('-inf')] + STRS[:7] + [d1, d2, datetime.datetime(1999, 12, 31, 23, 59, 59)]
    sc += [datetime.date(2000, 1, 1), datetime.date(1999, 12, 31), datetime.date(2000, 1, 2), datetime.datetime(2000, 1, 2), np.float64(2.5), np.int64(2)]      # datetime.date objects (tag "date")
    do1 = {'a': 1, 'b': 2}; do2 = {}; do2['b'] = 1; do2['a'] = 2     # same keys, other insertion order, values crossing
    do3 = {}; do3['k'] = 2; do3['j'] = 1
    co = [do1, do2, do3, (np.float32('nan'), 1), (True,), (False,), (0,), [True], [1], (True, 'a'), (1, 'a'), {'k': True}, {'k': 0}, {'k': False},
          (), [], {}, dict(), list(), (1,), (1.0,), (nan1,), (nan2,), (None,), ('a',), [1], [nan1], ['a'], [None],
          (1, 2), (1, nan1), (1, None), (nan1, 1), (nan2, 1), ('a', 1), (None, None), (2, 1), (1.0, 2),
          [1, 2], [1, 'a'], [None, 'a'], ['a', 'b'],
          {'k': 1}, {'k': nan1}, {'k': None}, {'j': 1}, {'k': 'a'}, {'j': 1, 'k': 2}, {'j': 1, 'k': nan1}, {'j': None, 'k': 2},
          ((1,), 2), ((nan1,), 2), ((1,), None), [[1], [2]], [(1, 2), (1, 3)], (1, 2, 3), (1, 2, nan1), (d1, 1), (d2, 1), (d1, 'a'),
          (datetime.date(2000, 1, 1), 1), (datetime.date(2000, 1, 2),), [datetime.date(1999, 12, 31)], {'k': datetime.date(2000, 1, 1)}, (np.int64(2), 1), [np.float64(2.5)]]
    return sc + co + big_universe()


BIG = 2 ** 53
DMAX = 1.7976931348623157e308


def big_universe():
    """numbers of large magnitude (spec/OrderBig.tla): ints beyond 2**53 that share a double with a neighbour, the
    doubles at the edge of integer precision, ints just outside TLC's range, huge and tiny floats, the negative
    mirror images, numpy spellings, and containers holding them"""
    ints = [BIG - 1, BIG, BIG + 1, BIG + 2, BIG + 3, 2 ** 54 + 2, -BIG, -BIG - 1, -BIG - 2, 10 ** 17, 10 ** 17 + 1, 2 ** 31, -2 ** 31,
            2 ** 63 - 1, 2 ** 63, 2 ** 64, 2 ** 64 + 1, 10 ** 30, 10 ** 30 + 1, int(DMAX), int(DMAX) + 1, -int(DMAX)]
    flts = [float(BIG - 1), float(BIG), float(BIG + 2), float(BIG + 4), -float(BIG), -float(BIG + 2), 1e17, 2.0 ** 31, 2.0 ** 63, 2.0 ** 64, 1e30,
            DMAX, -DMAX, 5e-324, -5e-324, 2.2250738585072014e-308, 1e-300, 1e300, -1e300, 0.1, 1 / 3, 0.0, -0.0, 1e-17]
    nps = [np.int64(BIG + 1), np.int64(-BIG - 1), np.uint64(2 ** 64 - 1), np.uint64(BIG + 1), np.float64(float(BIG)), np.float32(2.0 ** 60), np.float32(1e38), np.float32(1e-45),
           np.uint8(1), np.uint16(2), np.uint32(0), np.uint64(1), np.int8(-1), np.int16(2)]       # small numpy ints of every signedness ride along
    beyond = [10 ** 400, -10 ** 400, 2 ** 1024, 2 ** 1024 - 2 ** 970, -2 ** 1024, 10 ** 400 + 1]       # ints no double can hold
    co = [(BIG,), (BIG + 1,), (float(BIG),), [BIG + 1], [float(BIG)], {'k': BIG + 1}, {'k': float(BIG)}, {'k': BIG}, (BIG + 1, 1), (float(BIG), 2), (BIG, 2),
          ((BIG + 1,), None), (1e300, 'a'), [5e-324], (-BIG - 1, 0), (-float(BIG), 0), (10 ** 400,), [2 ** 1024], {'k': 10 ** 400}, (10 ** 400 + 1, 1), (np.uint8(1),)]
    return ints + flts + nps + beyond + co


def set_universe(vals):
    def special(v):
        return type(v).__module__ == 'numpy' or (isinstance(v, datetime.date) and not isinstance(v, datetime.datetime))
    fixed = [i + 1 for i, v in enumerate(vals) if special(v)][:14] + [i + 1 for i, v in enumerate(vals) if isinstance(v, tuple) and v and special(v[0])][:3]
    plain = [None, 1, 2, 1.0, 2.5, 'a', datetime.datetime(2000, 1, 1), datetime.datetime(2000, 1, 2)]
    for w in plain:
        fixed.append(next(i + 1 for i, v in enumerate(vals) if type(v) is type(w) and v == w))
    nan = next(i + 1 for i, v in enumerate(vals) if type(v) is float and v != v)
    UNI['vals'] = vals; UNI['fixed'] = sorted(set(fixed + [nan]))


def matrix_obs(ctx, vals):
    ids = IdMap()
    tags = [tag(v, ids) for v in vals]
    M = [[safe_cmp(x, y) for y in vals] for x in vals]
    path = os.path.join(ctx.tmp, 'cmp_matrix.json')
    with open(path, 'w') as f:
        json.dump({'vals': tags, 'M': M}, f)
    return path, tags, M, [{'kind': 'cmprow', 'i': i + 1} for i in range(len(vals))]


def sort_obs(xs_tags, how):
    ids = IdMap()
    xs = [untag(t, ids) for t in xs_tags]
    try:      # how: sort(list) | sorted(list, key = Cmp) | sort(tuple) | sort(iterator) | sort(dict keys) | sort(object array)
        out = sort(xs) if how == 'sort' else sorted(xs, key=Cmp) if how == 'Cmp' else sort(tuple(xs)) if how == 'sort_tuple' else \
              sort(iter(xs)) if how == 'sort_iter' else sort(np.array(xs + [None], dtype=object)[:-1])
        raised = ''
    except Exception as e:
        return {'kind': 'sort', 'how': how, 'xs': xs_tags, 'raised': type(e).__name__, 'out': [], 'adj': [], 'far': [], 'after': xs_tags}
    n = len(out) if len(out) <= 16 else 0      # every pair i < j of a short result, not only the adjacent ones
    return {'kind': 'sort', 'how': how, 'xs': xs_tags, 'raised': raised, 'out': [tag(v, ids) for v in out], 'after': [tag(v, ids) for v in xs],
            'adj': [safe_cmp(out[i], out[i + 1]) for i in range(len(out) - 1)],
            'far': [[i + 1, j + 1, safe_cmp(out[i], out[j])] for i in range(n) for j in range(i + 2, n)]}


FNS = {'swap': (lambda a, b: b, ['b']), 'const': (lambda: 0, []), 'pair': (lambda a, b: (b, a), ['b', 'a'])}


def rows_table(rows, ids):
    cols = list(rows[0]) if rows else ['a', 'b', 'id']
    if not rows:
        return dictable([], cols)
    return dictable({c: [untag(r[c], ids) for r in rows] for c in cols})


def proj_rows(d, ids):
    cols = list(dict.keys(d))
    n = len(d)
    return [{c: tag(dict.__getitem__(d, c)[i], ids) for c in cols} for i in range(n)]


def dsort_obs(rows, by):
    """by: list of column names, or ['fn', name]"""
    ids = IdMap()
    d = rows_table(rows, ids)
    keycols = FNS[by[1]][1] if by and by[0] == 'fn' else by
    o = {'kind': 'dsort', 'rows': rows, 'by': by, 'keycols': keycols, 'raised': '', 'out': [], 'colcmp': [], 'again': True, 'after': []}
    try:
        if by and by[0] == 'fn':
            res = d.sort(FNS[by[1]][0])
        else:
            res = d.sort(*by) if len(by) != 1 else d.sort(by[0])
        out = proj_rows(res, ids)
        o['out'] = out
        o['colcmp'] = [[safe_cmp(dict.__getitem__(res, c)[p], dict.__getitem__(res, c)[p + 1]) for c in keycols] for p in range(len(res) - 1)]
        again = (res.sort(FNS[by[1]][0]) if by and by[0] == 'fn' else res.sort(*by))
        o['again'] = proj_rows(again, ids) == out
    except Exception as e:
        o['raised'] = type(e).__name__
    o['after'] = proj_rows(d, ids)
    return o


def dsortval_obs(rows, orders):
    ids = IdMap()
    d = rows_table(rows, ids)
    o = {'kind': 'dsortval', 'rows': rows, 'orders': orders, 'raised': '', 'out': [], 'after': []}
    try:
        def spell(vals, k):
            return [vals, tuple(vals), dict.fromkeys(vals).keys(), np.array(vals + [None], dtype=object)[:-1]][k % 4]
        res = d.sort(**{c: spell([untag(v, ids) for v in vs], len(rows) + j) for j, (c, vs) in enumerate(orders)})
        o['out'] = proj_rows(res, ids)
    except Exception as e:
        o['raised'] = type(e).__name__
    o['after'] = proj_rows(d, ids)
    return o


def universe2():
    """dicts whose keys are not (all) strings - 'dicts of these' as the statement says - with a few ordinary partners"""
    d1 = datetime.datetime(2000, 1, 1)
    m1 = {}; m1['b'] = 2; m1[1] = 'a'
    i2 = {}; i2[2] = 'b'; i2[1] = 'a'
    return [{1: 'a', 'b': 2}, {1: 'a', 'b': 3}, m1, {1: 'a', 2: 'b'}, i2, {1: 'a', 2: 'c'}, {1: 2}, {'a': 2}, {2: 2}, {1.5: 1}, {None: 1}, {None: 1, 'a': 2}, {1.5: 1, 2: 2},
            {True: 1, 'a': 2}, {True: 1}, {(1, 2): 1}, {(1, 2): 1, 'a': 2}, {d1: 1}, {d1: 1, 1: 1}, {'a': 1, 'b': 2}, {'a': 1, 'b': 3}, {}, {1: 'a'}, {1: 'b'},
            (1, 'a'), [1, 'a'], 1, 'a', None, ({1: 'a', 'b': 2},), [{1: 'a', 2: 'b'}]]


def matrix2_obs(ctx, vals):
    ids = IdMap()
    tags = [tag(v, ids) for v in vals]
    M = [[safe_cmp(x, y) for y in vals] for x in vals]
    path = os.path.join(ctx.tmp, 'cmp_matrix2.json')
    with open(path, 'w') as f:
        json.dump({'vals': tags, 'M': M}, f)
    return path, tags, M, [{'kind': 'cmprow2', 'i': i + 1} for i in range(len(vals))]


class Bare(object):
    """a bare object: no order, no length - outside the statement's universe"""


UNI = {}      # the concrete cmp universe of this run (vals, sample indices that are always part of a cmps step)


def np_real(v):
    """the numpy realisation of a number (rendering only: the abstract value is the same)"""
    if isinstance(v, bool) or v is None: return v
    if isinstance(v, int): return np.int64(v)
    if isinstance(v, float): return np.float64(v)
    return v


def raising_call(how, d):
    """every way cmp / Cmp / sort / dictable.sort legitimately raise (OrderSess.RaiseStep); d = the heap table for the table ways"""
    if how == 'cmp_complex': return cmp(1j, 2j)
    if how == 'cmp_object': return cmp(Bare(), Bare())
    if how == 'cmp_nested': return cmp((1, [2, 1j]), (1, [2, 2j]))                 # the raise comes from two levels down
    if how == 'cmp_dictval': return cmp({'k': 1j}, {'k': 2j})
    if how == 'Cmp_lt': return Cmp(1j) < Cmp(2j)
    if how == 'Cmp_sorted': return sorted([2j, 1j, 3j], key=Cmp)
    if how == 'sort_complex': return sort([(1, 2j), (1, 1j), None])
    if how == 'sort_object': return sort([Bare(), Bare(), 1])
    if how == 'sort_notiter': return sort(5)
    if how == 'dsort_complex': return dictable(a=[2j, 1j, 2j], id=[1, 2, 3]).sort('a')
    if how == 'dsort_object': return dictable(a=[Bare(), None, Bare()], id=[1, 2, 3]).sort('a')
    if how == 'nocol': return d.sort('zz')
    if how == 'nocol2': return d.sort('a', 'zz')
    if how == 'valnocol': return d.sort(zz=[1])
    if how == 'fnraise': return d.sort(lambda a: 1 // 0)
    if how == 'fnnoarg': return d.sort(lambda zz: zz)
    if how == 'fncomplex': return d.sort(lambda a, id: id * 1j)
    if how == 'unhashable': return d.sort(a=[[1], [2]])
    if how == 'valnotiter': return d.sort(a=5)
    raise ValueError(how)


def cmps_sample(hist):
    """indices (1-based) into the universe for one cmps step: the numpy / date realisations and their plain partners always, a few others by the history"""
    rnd = random.Random(zlib.crc32(json.dumps(hist, sort_keys=True).encode()))
    rest = [i for i in range(1, len(UNI['vals']) + 1) if i not in UNI['fixed']]
    return UNI['fixed'] + sorted(rnd.sample(rest, 8))


def session_obs(c):
    """replays one sort session TLC generated (spec/OrderSess.tla): renders the seed heap, performs every step through the
    public API and records, per step, the outcome of the call and every live table and list afterwards"""
    ids = IdMap()
    tabs = [rows_table(rows, ids) for rows in c['init']['tabs']]
    lsts = [[untag(v, ids) for v in l] for l in c['init']['lsts']]
    for k in c.get('np', []):      # numpy realisations of the numbers in these rows / at these positions (the same abstract values)
        for d in tabs:
            for col in ('a', 'b'):
                if col in dict.keys(d) and k <= len(d):
                    dict.__getitem__(d, col)[k - 1] = np_real(dict.__getitem__(d, col)[k - 1])
        for l in lsts:
            if k <= len(l):
                l[k - 1] = np_real(l[k - 1])
    steps = []
    for st in c['hist']:
        o = {'raised': '', 'out': [], 'colcmp': [], 'again': True, 'adj': [], 'far': []}
        op = st['op']
        try:
            if op in ('sort', 'sortfn', 'sortval'):
                d = tabs[st['src'] - 1]
                if op == 'sort':
                    call = lambda t: t.sort(*st['by']); keycols = st['by']
                elif op == 'sortfn':
                    call = lambda t: t.sort(FNS[st['fn']][0]); keycols = FNS[st['fn']][1]
                else:
                    call = lambda t: t.sort(**{col: lsts[l - 1] for col, l in st['ords']}); keycols = []      # the caller's list objects themselves
                res = call(d)
                o['out'] = proj_rows(res, ids)
                o['colcmp'] = [[safe_cmp(dict.__getitem__(res, k)[p], dict.__getitem__(res, k)[p + 1]) for k in keycols] for p in range(len(res) - 1)]
                if op != 'sortval':
                    o['again'] = proj_rows(call(res), ids) == o['out']
                tabs.append(res)
            elif op == 'listsort':
                xs = lsts[st['lst'] - 1]
                out = sort(xs) if st['how'] == 'sort' else sorted(xs, key=Cmp)
                o['out'] = [tag(v, ids) for v in out]
                o['adj'] = [safe_cmp(out[i], out[i + 1]) for i in range(len(out) - 1)]
                o['far'] = [[i + 1, j + 1, safe_cmp(out[i], out[j])] for i in range(len(out)) for j in range(i + 2, len(out))]
                lsts.append(out)
            elif op == 'setcol':
                d = tabs[st['src'] - 1]
                vals = [untag(v, ids) for v in st['vals']]
                if st['how'] == 'item':
                    d[st['col']] = vals
                elif st['how'] == 'attr':
                    setattr(d, st['col'], vals)
                elif st['how'] == 'update':
                    d.update({st['col']: vals})
                else:
                    getattr(d, st['col'])[st['pos'] - 1] = vals[st['pos'] - 1]      # one element of the column the table holds
            elif op == 'setlst':
                lsts[st['lst'] - 1][:] = [untag(v, ids) for v in st['vals']]          # in place: the object stays the same
            elif op == 'raise':
                raising_call(st['how'], tabs[st['src'] - 1] if st['src'] else None)   # whatever it returns is dropped
            elif op == 'cmps':
                idx = cmps_sample(c['hist'])
                o['idx'] = idx
                o['M'] = [[safe_cmp(UNI['vals'][i - 1], UNI['vals'][j - 1]) for j in idx] for i in idx]
        except Exception as e:
            o['raised'] = type(e).__name__
        o['tabs'] = [proj_rows(t, ids) for t in tabs]
        o['lsts'] = [[tag(v, ids) for v in l] for l in lsts]
        steps.append(o)
        if o['raised'] and op != 'raise':
            break
    steps += [steps[-1]] * (len(c['hist']) - len(steps))      # a step that raised ends the session: the verdict stops there
    return {'kind': 'session', 'seed': c['seed'], 'dup': c['dup'], 'np': c.get('np', []), 'init': c['init'], 'hist': c['hist'], 'obs': steps}


def scale_rows(base, layout, k):
    """the big table of Trace_Order.ScRows: k copies of every base row, 'block' = the base k times over, 'each' = every row k times in a run"""
    n = len(base)
    src = [(p % n) if layout == 'block' else (p // k) for p in range(n * k)]
    return [dict(base[i], id=["i", p + 1]) for p, i in enumerate(src)], src


def dscale_obs(base, by, layout, k, reps):
    """C2S beyond TLC's sizes: dictable.sort of a base pattern scaled up k times; the cmp of the key cells is observed between base rows only"""
    ids = IdMap()
    rows, src = scale_rows(base, layout, k)
    cells = [{c: untag(r[c], ids) for c in ('a', 'b')} for r in base]      # one object per base cell: every copy of a row holds the same key objects
    d = dictable(a=[cells[i]['a'] for i in src], b=[cells[i]['b'] for i in src], id=list(range(1, len(rows) + 1)))
    o = {'kind': 'dscale', 'base': base, 'by': by, 'keycols': by, 'layout': layout, 'k': k, 'reps': reps, 'raised': '', 'out': [], 'again': True, 'same': True, 'after': [],
         'basecmp': [[[safe_cmp(x[c], y[c]) if c != 'id' else 0 for c in by] for y in cells] for x in cells]}
    try:
        res = d.sort(*by)
        o['out'] = proj_rows(res, ids)
        for _ in range(reps - 1):      # the same call again and again on the one table object
            if proj_rows(d.sort(*by), ids) != o['out']:
                o['same'] = False
        o['again'] = proj_rows(res.sort(*by), ids) == o['out']
    except Exception as e:
        o['raised'] = type(e).__name__
    o['after'] = proj_rows(d, ids)
    return o


def sscale_obs(base, how, layout, k, reps):
    ids = IdMap()
    vals = [untag(t, ids) for t in base]
    n = len(base)
    xs = [vals[(p % n) if layout == 'block' else (p // k)] for p in range(n * k)]
    o = {'kind': 'sscale', 'base': base, 'how': how, 'layout': layout, 'k': k, 'reps': reps, 'raised': '', 'out': [], 'same': True, 'after': [],
         'basecmp': [[[safe_cmp(x, y)] for y in vals] for x in vals]}
    try:
        f = (lambda: sort(xs)) if how == 'sort' else (lambda: sorted(xs, key=Cmp))
        out = f()
        o['out'] = [tag(v, ids) for v in out]
        for _ in range(reps - 1):
            if [tag(v, ids) for v in f()] != o['out']:
                o['same'] = False
    except Exception as e:
        o['raised'] = type(e).__name__
    o['after'] = [tag(v, ids) for v in xs]
    return o


def short_step(st):
    keep = {'sort': ('src', 'by'), 'sortfn': ('src', 'fn'), 'sortval': ('src', 'ords'), 'listsort': ('lst', 'how'),
            'setcol': ('src', 'col', 'how', 'pos'), 'setlst': ('lst',), 'raise': ('how', 'src'), 'cmps': ()}[st['op']]
    return ' '.join([st['op']] + ['%s=%s' % (k, json.dumps(st[k], separators=(',', ':'))) for k in keep])


def case_of(o, tags=None):
    if o['kind'] == 'session':
        return {'op': 'session', 'seed': o['seed'], 'dup_in_order': o['dup'], 'np': o.get('np', []), 'steps': [short_step(st) for st in o['hist']],
                'ops': '+'.join(st['op'] for st in o['hist']), 'init': o['init'], 'hist': o['hist']}
    if o['kind'] == 'sort':
        return {'op': o['how'], 'xs': o['xs']}
    if o['kind'] == 'dsort':
        return {'op': 'dictable.sort', 'rows': o['rows'], 'by': o['by']}
    if o['kind'] == 'dscale':
        return {'op': 'dictable.sort scaled', 'base': o['base'], 'by': o['by'], 'layout': o['layout'], 'k': o['k'], 'reps': o['reps']}
    if o['kind'] == 'sscale':
        return {'op': 'sort scaled', 'base': o['base'], 'how': o['how'], 'layout': o['layout'], 'k': o['k'], 'reps': o['reps']}
    if o['kind'] == 'dsortval':
        return {'op': 'dictable.sort(**byval)', 'rows': o['rows'], 'orders': o['orders']}
    return {'op': 'cmp', 'i': o['i']}


def shape(t):
    """abstract pattern of a value for known-finding matching: kind and emptiness"""
    k = t[0]
    if k in ('t', 'l', 'm'):
        return k + ('0' if not t[1] else '+')
    return k


def run(ctx):
    ctx.rule = ('cmp: full matrix over a concrete mixed-type universe (incl. ints beyond 2**53 with the doubles they round to, huge / '
                'tiny floats, negatives, crossing TLC\'s 32-bit integers as exact binary expansions), axioms per row/pair/triple. '
                'sort / dictable.sort: every list / table TLC enumerates (S2C inputs with the CmpModel / CmpModelX result, small and '
                'large-magnitude universes) plus random longer ones, judged by Trace_Order against the real cmp (adjacent and distant '
                'pairs of a sorted list). Sort SESSIONS (spec/OrderSess.tla): TLC enumerates, over seed heaps of two tables (one without '
                'column a), two caller-owned order lists and a value list, every single call (sort by names / key function / explicit value '
                'orders given as the caller\'s list objects / sort() and sorted(key=Cmp) of a list), every ordered pair of calls, and every '
                '"call ; the caller edits an object the call touched - operand, RESULT or order list; item / attribute / update / element '
                'assignment; reversed, rotated, re-typed int<->float - ; the same call again on the operand or on the result" (thorough: '
                'also simulated sessions of 6 free steps); the trace specification tracks the heap and judges every call by the '
                'single-call clauses on the operands as they are at that moment, plus: no call changes an existing object, an edit changes '
                'the edited object only. A second cmp matrix holds dicts whose keys are not strings. '
                'ERROR PATHS: the session machine has an action for every way cmp / Cmp / sort / dictable.sort legitimately raise (complex numbers and '
                'bare objects through cmp - also nested and as dict values -, Cmp.__lt__, sorted(key=Cmp), sort, dictable.sort; a missing column by '
                'name and by keyword, a key function that raises / names an unknown column / returns complex numbers, an unhashable listed value, a '
                'value order that is no sequence, sort of a non-iterable; 19 ways) - state unchanged - and TLC generates every "raise ; call" and '
                '"raise ; cmp sample" history, also over a seed heap with numpy scalars, datetime.date objects and a NaN; a cmp sample after a raise '
                'must satisfy the axioms AND equal the matrix recorded in the fresh process. Every cmp entry observed next to a sort (neighbours of '
                'a result) is held to the pinned values too. SIZES: base patterns of 2-6 rows / values whose keys are cmp-equal but distinct '
                'objects (NaN identities, a date and the datetime of its day, 1 and 1.0) scaled up to 8..40, 65, 101, 257, 1025 rows (thorough 2049) '
                'in block (interleaved) and run layout, 1-3 keys in one call, up to 65 calls on one object; judged by the scaling law of Trace_Order. Non-trivial = input not already '
                'sorted; distinct by input / by history.')
    if os.environ.get('VERIF_C07_REPORT_PROPOSED') != '1':      # proposed known findings (props/c07.known.json): reported as KNOWN-FINDING, not as violations
        with open(os.path.join(os.path.dirname(os.path.abspath(__file__)), 'c07.known.json')) as f:
            have = {k['id'] for k in ctx.known}
            ctx.known += [k for k in json.load(f)['known'] if k['id'] not in have]
    ctx.mc('MC_Order', 'MC_Order_laws.cfg')
    ctx.mc('MC_Order', 'MC_Order_lists3.cfg')
    ctx.mc('MC_Order', 'MC_Order_big2.cfg' if ctx.quick else 'MC_Order_big3.cfg')      # law rows are the same; sort laws on lists <= 2 / <= 3
    if not ctx.quick:
        ctx.mc('MC_Order', 'MC_Order_tuples3.cfg')
    # sort sessions (OrderSess): the constructive level satisfies the single-call law at every call of every history <= 2, is idempotent,
    # and frames; the focused family does hold a history in which "already sorted on these keys" is stale (EditsBite must fail)
    ctx.mc('MC_OrderSess', 'MC_OrderSess_quick.cfg' if ctx.quick else 'MC_OrderSess_thorough.cfg')
    ctx.mc('MC_OrderSess', 'MC_OrderSess_bite.cfg', must_fail='EditsBite')
    ctx.mc('MC_OrderSess', 'MC_OrderSess_err.cfg', must_fail='NoRaiseThenCall')      # the family does hold "a call that raises ; an ordinary call"
    obs = []
    # --- cmp matrix, and a second one over dicts whose keys are not strings ---
    vals = universe()
    set_universe(vals)
    mat_path, tags, M, rows = matrix_obs(ctx, vals)      # recorded FIRST: the fresh process, before any call has raised
    obs += rows
    vals2 = universe2()
    mat2_path, tags2, M2, rows2 = matrix2_obs(ctx, vals2)
    obs += rows2
    # --- S2C: sort sessions enumerated by TLC (every call, every ordered pair of calls, call ; edit of a touched object ; same call again) ---
    sessions = ctx.generate('MC_OrderSess', 'MC_OrderSess_gen.cfg' if ctx.quick else 'MC_OrderSess_gent.cfg')
    if not ctx.quick:
        sessions += ctx.generate('MC_OrderSess', 'MC_OrderSess_sim.cfg', simulate=1200, depth=8, seed=ctx.seed + 1, workers=1)      # free sessions of 6 steps
    seen, uniq = set(), []
    for c in sessions:
        k = json.dumps([c['seed'], c['hist']])
        if k not in seen:
            seen.add(k); uniq.append(c)
    sessions = uniq
    sess_disagree = 0
    raise_steps = raised_as_modelled = not_raised = 0
    for c in sessions:
        o = session_obs(c); obs.append(o)
        for k, st in enumerate(c['hist']):
            if st['op'] == 'raise':
                raise_steps += 1
                raised_as_modelled += o['obs'][k]['raised'] == c['exc'][k]
                not_raised += o['obs'][k]['raised'] == ''
        last = o['obs'][-1]
        if [last['tabs'], last['lsts']] != [c['model']['tabs'], c['model']['lsts']]:
            sess_disagree += 1
        ctx.note(('session', c['seed'], json.dumps(c['hist'])))
        ctx.evals += len(c['hist'])
    ctx.sample({'s2c_session': {'seed': sessions[len(sessions) // 2]['seed'], 'steps': [short_step(st) for st in sessions[len(sessions) // 2]['hist']]}})
    ctx.extra['sessions'] = len(sessions)
    ctx.extra['raising_steps'] = {'replayed': raise_steps, 'raised_the_class_OrderSess.ExcOf_names_(informational)': raised_as_modelled, 'did_not_raise': not_raised}
    ctx.extra['sessions_raise_then_call'] = sum(1 for c in sessions if len(c['hist']) >= 2 and c['hist'][0]['op'] == 'raise')
    if raise_steps and not_raised == raise_steps:
        raise Machinery('vacuous: none of the %d raising steps of the sessions raised' % raise_steps)
    ctx.extra['session_final_heaps_differing_from_CmpModel_(informational; the trace spec judges)'] = sess_disagree
    # --- S2C: lists and tables enumerated by TLC ---
    gens = ['MC_Order_gen_lists3.cfg', 'MC_Order_gen_tuples2.cfg', 'MC_Order_gen_tables2.cfg', 'MC_Order_gen_big3.cfg'] if ctx.quick else \
           ['MC_Order_gen_lists4.cfg', 'MC_Order_gen_tuples3.cfg', 'MC_Order_gen_tables3.cfg', 'MC_Order_gen_big4.cfg']
    disagreements = 0
    for g in gens:
        cases = ctx.generate('MC_Order', g)
        if ctx.quick and len(cases) > (8000 if 'big' in g else 6000):
            cases = ctx.rng.sample(cases, 8000 if 'big' in g else 6000)
        if not ctx.quick and len(cases) > (30000 if 'big' in g else 60000):
            cases = ctx.rng.sample(cases, 30000 if 'big' in g else 60000)
        for c in cases:
            if c['kind'] == 'sort':
                for how in ('sort', 'Cmp'):
                    o = sort_obs(c['xs'], how); obs.append(o)
                    if o['out'] != c['model']:
                        disagreements += 1
                if c['xs'] != c['model']:
                    ctx.note(('sort', json.dumps(c['xs'])))
            else:
                o = dsort_obs(c['rows'], c['by']); obs.append(o)
                if o['out'] != c['model']:
                    disagreements += 1
                if c['rows'] != c['model']:
                    ctx.note(('dsort', json.dumps([c['rows'], c['by']])))
        ctx.sample({'s2c_case': cases[len(cases) // 2]})
    ctx.extra['s2c_disagreements_with_CmpModel_(informational; the trace spec judges)'] = disagreements
    # --- C2S: random longer lists / tables, key functions, explicit value orders ---
    pool = [["n", 0], ["i", 0], ["i", 1], ["i", 2], ["i", -3], ["f", [1, 1]], ["f", [5, 2]], ["f", [-1, 2]], ["nan", 1], ["nan", 2], ["nan", 3]] + \
           [["s", s] for s in STRS[:7]] + [["d", [730120, 0, 0]], ["d", [730120, 3600, 5]], ["d", [730000, 0, 0]]]
    bigpool = [tag(v) for v in [BIG - 1, BIG, BIG + 1, BIG + 2, BIG + 3, float(BIG), float(BIG + 2), -BIG, -BIG - 1, -float(BIG), 10 ** 17, 10 ** 17 + 1, 1e17,
                                2 ** 64, 2 ** 64 + 1, 2.0 ** 64, 1e300, -1e300, 5e-324, 1e-300, 0.1, DMAX, int(DMAX) + 1, 2 ** 31, 10 ** 400, 10 ** 400 + 1, -10 ** 400]]
    rng = ctx.rng
    numpool = [t for t in pool if t[0] in ('i', 'f', 'nan')]
    n = 300 if ctx.quick else 4000
    for i in range(n):
        # four kinds of rounds: any types; numbers and NaNs only (Python's own order never raises TypeError there, so sort's
        # own choice between the native order and the Cmp key is what decides); large magnitudes mixed in; large numbers and NaNs only
        if i % 4 == 0:
            sub = rng.sample(pool, rng.choice([2, 3, 5, 8, len(pool)]))
        elif i % 4 == 1:
            sub = rng.sample(numpool, rng.choice([2, 3, 5, len(numpool)]))
        elif i % 4 == 2:
            sub = rng.sample(pool, rng.choice([0, 2, 4])) + rng.sample(bigpool, rng.choice([2, 3, 6, len(bigpool)]))
        else:
            sub = rng.sample(numpool, rng.choice([1, 2, 4])) + rng.sample(bigpool, rng.choice([2, 3, 6]))
        xs = [rng.choice(sub) for _ in range(rng.choice([0, 1, 2, 5, 9, 14]))]
        if rng.random() < 0.4:
            w = rng.choice([1, 2, 3])
            xs = [["t", [rng.choice(sub) for _ in range(w)]] for _ in range(rng.choice([2, 4, 7]))]
        obs.append(sort_obs(xs, rng.choice(['sort', 'Cmp', 'sort', 'Cmp', 'sort_tuple', 'sort_iter', 'sort_array'])))
        rows = [{'a': rng.choice(sub), 'b': rng.choice(sub), 'id': ["i", k + 1]} for k in range(rng.choice([0, 1, 2, 2, 3, 4, 8, 15]))]
        by = rng.choice([['a'], ['b'], ['a', 'b'], ['b', 'a'], ['fn', 'swap'], ['fn', 'const'], ['fn', 'pair'], []])
        obs.append(dsort_obs(rows, by))
        if i % 25 == 0:
            nums = [["i", 1], ["i", 2], ["f", [1, 1]], ["i", 3], ["f", [5, 2]]][:rng.choice([2, 3, 5])] + (bigpool[1:3] + bigpool[5:6] if i % 50 == 0 else [])
            big = [{'a': rng.choice(nums), 'b': rng.choice(nums), 'id': ["i", k + 1]} for k in range(rng.choice([65, 70, 130, 300]))]
            obs.append(dsort_obs(big, rng.choice([['a'], ['b'], ['a', 'b']])))
        hashable = [v for v in sub]
        orders = []
        for c in rng.sample(['a', 'b'], rng.choice([1, 2])):
            k = min(rng.choice([0, 1, 2, 3, 5, 8]), len(hashable))
            vs = []
            for t in rng.sample(hashable, k):      # listed values are distinct as a dict sees them (1 and 1.0 are one key)
                if not any(untag(t) == untag(u) for u in vs):
                    vs.append(t)
            orders.append([c, vs])
        obs.append(dsortval_obs(rows, orders))
        ctx.note(('c2s', i))
    # --- C2S beyond TLC's sizes: a small base pattern scaled up (Trace_Order: scaling law) ---
    # keys that are equal under cmp and different objects / different dict keys: NaN objects, a date and the datetime of its day,
    # 1 and 1.0 and True-free numbers; sizes around the usual thresholds (8..40, 65, 101, 257, 1025); repeated calls on one object
    T = {'n1': ["nan", 1], 'n2': ["nan", 2], 'n3': ["nan", 3], 'day': ["date", 730120], 'dt': ["d", [730120, 0, 0]], 'dt1h': ["d", [730120, 3600, 0]],
         'day2': ["date", 730121], 'dt2': ["d", [730121, 0, 0]], 'i1': ["i", 1], 'f1': ["f", [1, 1]], 'i2': ["i", 2], 'f25': ["f", [5, 2]], 'none': ["n", 0], 'a': ["s", "a"], 'b': ["s", "b"]}
    kinds = {'nan': ['n1', 'n2', 'n3'], 'day': ['day', 'dt', 'dt1h'], 'num': ['i1', 'f1', 'i2', 'f25'], 'nanmix': ['n1', 'n2', 'i1', 'a', 'none'],
             'daymix': ['day', 'dt', 'day2', 'dt2', 'none'], 'nanday': ['n1', 'n2', 'day', 'dt'], 'any': sorted(T)}
    plan = [(size, kind) for size in [8, 12, 17, 24, 33, 40, 65, 70, 101, 129, 257] for kind in sorted(kinds)] + [(1025, kind) for kind in ('nan', 'nanmix', 'num', 'day')]
    if not ctx.quick:
        plan = plan * 4 + [(size, kind) for size in [258, 513, 1030, 2049] for kind in sorted(kinds)]
    scale_n = 0
    sizes = [size for size, kind in plan]
    for j, (size, kind) in enumerate(plan):      # every size bucket meets every kind of base: by plan, not by the random stream
        names = kinds[kind] if kind != 'any' else rng.sample(kinds[kind], rng.choice([3, 4, 6]))
        sub = [T[x] for x in names]
        n = min(rng.choice([2, 3, 4, 5, 6]), size // 2)
        base = [{'a': sub[i % len(sub)] if i < len(sub) else rng.choice(sub), 'b': rng.choice(sub), 'id': ["i", 0]} for i in range(n)]      # column a starts with distinct tied objects
        k = max(2, -(-size // n))
        layout = ['block', 'block', 'each'][j % 3]
        reps = [1, 2, 17, 65][j % 4] if size <= 70 else 1
        by = [['a'], ['b'], ['a', 'b'], ['b', 'a'], ['a', 'b', 'id'], ['b', 'id', 'a'], ['a']][(j // 7 + j) % 7]
        obs.append(dscale_obs(base, by, layout, k, reps))
        vs = []
        for t in sub:
            if t not in vs:
                vs.append(t)
        obs.append(sscale_obs(vs, ['sort', 'Cmp'][j % 2], layout, max(2, -(-size // len(vs))), reps))
        scale_n += 1
        ctx.note(('scale', j))
    ctx.extra['scaled_observations'] = {'tables_and_lists': scale_n, 'largest': max(sizes)}
    ctx.sample({'c2s_scaled': {kk: obs[-1][kk] for kk in ('kind', 'base', 'layout', 'k', 'reps')}})
    ctx.evals += len(obs) + len(vals) ** 2 + len(vals2) ** 2
    bad = ctx.validate('Trace_Order', obs, env={'MAT_FILE': mat_path, 'MAT2_FILE': mat2_path})
    tags1, vals1, M1 = tags, vals, M
    for line, clause in bad:
        o = obs[line - 1]
        if o['kind'] in ('cmprow', 'cmprow2'):
            tags, vals, M = (tags1, vals1, M1) if o['kind'] == 'cmprow' else (tags2, vals2, M2)
            name, w = clause.split(':')
            a, b = [int(z) for z in w.split(',')]
            i = o['i']
            if name == 'cmp_not_transitive':
                trip = [i, a, b]
            else:
                trip = [a, b]
            case = {'op': 'cmp', 'universe': 1 if o['kind'] == 'cmprow' else 2, 'pattern': [shape(tags[k - 1]) for k in trip], 'values': [repr(vals[k - 1])[:60] for k in trip]}
            ctx.violation(name, case, {'indices': trip, 'entries': [[M[p - 1][q - 1] for q in trip] for p in trip]})
        elif o['kind'] == 'session':
            ctx.violation(clause, case_of(o), {'steps': [{k: ob[k] for k in ('raised', 'out', 'colcmp', 'again')} for ob in o['obs']]})
        else:
            ctx.violation(clause, case_of(o), {k: o[k] for k in ('out', 'raised', 'adj', 'colcmp', 'again', 'after') if k in o})
    ctx.sample({'cmp_universe_size': len(vals), 'large_magnitude_values': len(big_universe()), 'first_values': [repr(v) for v in vals[:12]]})
    ctx.sample({'c2s_observation': obs[-2]})
    ctx.exhaustive = False
    ctx.assumptions += ['string order is specified extensionally on the universe StrOrder of spec/Order.tla',
                        'cross-type ranking is not pinned by the property and is not checked beyond the preorder axioms',
                        'on two scalars of one kind (numbers, strings, datetimes) cmp is required to be Python\'s native order',
                        'numbers beyond 2**31 cross as exact binary expansions (harness/x_order.py renders, OrderBig.tla orders them); on a pair '
                        'with an int of that size cmp may tie numbers that differ (CoarseTie: the statement pins 0 only for equal numbers) but '
                        'never order them against the exact order; two floats follow the native order; transitivity decides which ties are lawful',
                        'dictable.sort may order rows by cmp or by cmp refined with the exact numeric order on CoarseTie pairs (Python\'s own order)',
                        'a value listed twice in an explicit order may take the position of its first or of its last occurrence (DupReading); every '
                        'listed value ranks before every unlisted one',
                        'sessions: key columns are given by name (sort(*names)); sort([names]) - a list as ONE positional argument - is not a '
                        'call form of the statement (today it orders by the alphabetically sorted names) and is not exercised; a sort without keys '
                        'and a sort of an empty table return a shallow copy that shares the column lists and are not part of the sessions',
                        'a datetime.date against a datetime.datetime is not pinned by the statement (Python has no order between them): such entries are '
                        'held by the preorder axioms and by history-independence only (OrdDayVsDatetime); two dates follow their native order',
                        'calls outside the statement\'s universe / domain (OutsideDomain): whether and with which class they raise is recorded, not judged; '
                        'judged is what they leave behind (heap unchanged, every later call the single-call law, cmp as in the fresh process); the run '
                        'is a machinery failure if none of them raises (vacuity)',
                        'scaled tables: every copy of a base row holds the same key objects; the comparison of two big rows is the observed cmp of their base rows',
                        'proposed known findings props/c07.known.json are applied unless VERIF_C07_REPORT_PROPOSED=1',
                        ]


def replay(ctx, body):
    c = body['case']
    if c['op'] in ('sort', 'Cmp', 'sort_tuple', 'sort_iter', 'sort_array'): obs = [sort_obs(c['xs'], c['op'])]
    elif c['op'] == 'dictable.sort': obs = [dsort_obs(c['rows'], c['by'])]
    elif c['op'] == 'dictable.sort(**byval)': obs = [dsortval_obs(c['rows'], c['orders'])]
    elif c['op'] == 'dictable.sort scaled': obs = [dscale_obs(c['base'], c['by'], c['layout'], c['k'], c['reps'])]
    elif c['op'] == 'sort scaled': obs = [sscale_obs(c['base'], c['how'], c['layout'], c['k'], c['reps'])]
    elif c['op'] == 'session':
        set_universe(universe())
        path, tags, M, rows = matrix_obs(ctx, UNI['vals'])      # the fresh matrix first, then the session
        obs = [session_obs({'seed': c['seed'], 'dup': c['dup_in_order'], 'np': c.get('np', []), 'init': c['init'], 'hist': c['hist']})]
        bad = ctx.validate('Trace_Order', obs, env={'MAT_FILE': path})
        print('replay:', 'REJECTED %s' % bad if bad else 'accepted')
        return 1 if bad else 0
    else:
        path, tags, M, rows = matrix_obs(ctx, universe()); path2, tags2, M2, rows2 = matrix2_obs(ctx, universe2())
        obs = rows if c.get('universe', 1) == 1 else rows2
        bad = ctx.validate('Trace_Order', obs, env={'MAT_FILE': path, 'MAT2_FILE': path2})
        print('replay (whole cmp matrix):', 'REJECTED %s' % bad[:5] if bad else 'accepted'); return 1 if bad else 0
    path, tags, M, rows = matrix_obs(ctx, [None, 1])
    bad = ctx.validate('Trace_Order', obs, env={'MAT_FILE': path})
    print('replay:', 'REJECTED %s' % bad if bad else 'accepted')
    return 1 if bad else 0
