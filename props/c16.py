"""C16 - ulist, dictattr and Dict implement ordered set / key algebra without side effects.

Python renders the abstract inputs of spec/Algebra.tla (tagged values, mappings as [key, value] sequences with a
class beside them, dependency graphs as key -> parameter names with the kind of every parameter - required, defaulted,
keyword-only -, *args / **kwargs and the shape of the callable) into real ulist / dictattr / Dict objects and
synthesised functions / callable objects / partials, performs ONE public call, and encodes the outcome together with every operand before
and after the call.  S2C compares with == against what TLC printed; mismatches, a sample of the matches and all
C2S observations are judged and named by spec/Trace_Algebra.tla."""
import itertools, json
from harness.core import Machinery
from harness.enc import tag, untag
from harness.x_obslog import Log, judge

_API = {}


def api():
    if not _API:
        import pyg_base as p
        class SubDA(p.dictattr):
            pass
        class SubD(p.Dict):
            pass
        class SubU(p.ulist):
            pass
        import collections
        _API.update(ulist=p.ulist, SubU=SubU, classes={'dictattr': p.dictattr, 'Dict': p.Dict, 'SubDA': SubDA, 'SubD': SubD},
                    others={'dict': dict, 'dictattr': p.dictattr, 'Dict': p.Dict},
                    # the realisations of a value that is a mapping itself: every dict class
                    nests={'dict': dict, 'dictattr': p.dictattr, 'Dict': p.Dict, 'OrderedDict': collections.OrderedDict,
                           'defaultdict': lambda: collections.defaultdict(int), 'SubD': SubD, 'SubDA': SubDA})
    return _API


CLS = ('dictattr', 'Dict', 'SubDA', 'SubD')


def cls_name(x):
    for n, c in api()['classes'].items():
        if type(x) is c:
            return n
    return type(x).__name__


def outcome(f):
    try:
        return f()
    except Exception as e:
        return {'kind': 'exc', 'cls': type(e).__name__}


def tags(xs):
    return [tag(v) for v in xs]


NESTS = ('dict', 'dictattr', 'Dict', 'OrderedDict', 'defaultdict', 'SubD', 'SubDA')


def tagv(v):
    """a value of a mapping: a nested mapping of any dict class is ["m", {key: value}] (a deep snapshot), anything else a tagged value"""
    if isinstance(v, dict):
        return ['m', {str(k): tagv(x) for k, x in v.items()}]
    return tag(v)


def untagv(v, nest='dict'):
    if v[0] == 'm':
        d = api()['nests'][nest]()
        for k, x in objmap(v[1]).items():
            d[k] = untagv(x, nest)                  # (through the class's own __setitem__: an OrderedDict keeps its order beside the dict)
        return d
    return untag(v)


def normv(v):
    """what TLC printed -> the canonical encoding (TLC writes the empty function as [])"""
    if isinstance(v, list) and len(v) == 2 and v[0] == 'm':
        return ['m', {k: normv(x) for k, x in objmap(v[1]).items()}]
    return v


def norm_items(items):
    return [[k, normv(v)] for k, v in items]


def norm_fun(f):
    return {k: normv(v) for k, v in objmap(f).items()}


def enc_items(d):
    return [[str(k), tagv(v)] for k, v in dict.items(d)]


def enc_map(d, *operands):
    """a returned mapping: class, items, and whether it is a new object (none of the operands itself)"""
    return {'kind': 'map', 'cls': cls_name(d), 'items': enc_items(d), 'is_new': all(d is not x for x in operands)}


def build_map(cls, items, table=None, nest='dict'):
    d = (table or api()['classes'])[cls]()
    for k, v in items:
        dict.__setitem__(d, k, untagv(v, nest))
    return d


def real_x(x):
    return untag(x[1]) if x[0] == 'elem' else [untag(v) for v in x[1]]


def enc_x(x, real):
    return ['elem', tag(real)] if x[0] == 'elem' else ['list', tags(real)]


def objmap(j):
    """TLC writes the empty function as []"""
    return j if isinstance(j, dict) else {}


# ---- ulist -----------------------------------------------------------------------------------
def obs_ulist_new(raw, sub=False):
    A = api()
    real = [untag(v) for v in raw]
    r = outcome(lambda: (A['SubU'] if sub else A['ulist'])(real))
    exc = r['cls'] if isinstance(r, dict) else ''
    return {'op': 'ulist_new', 'raw': raw, 'out': [] if exc else tags(r), 'exc': exc,
            'is_ulist': bool(not exc and isinstance(r, A['ulist'])), 'raw_after': tags(real)}, (None if exc else r)


FN = {'add': lambda u, x: u + x, 'or': lambda u, x: u | x, 'sub': lambda u, x: u - x, 'and': lambda u, x: u & x}


def obs_ulist_op(raw, x, fn, sub=False):
    A = api()
    u = (A['SubU'] if sub else A['ulist'])([untag(v) for v in raw])
    rx = real_x(x)
    before = tags(u)
    r = outcome(lambda: FN[fn](u, rx))
    exc = r['cls'] if isinstance(r, dict) else ''
    return {'op': 'ulist_op', 'fn': fn, 'form': x[0], 'raw': raw, 'u': before, 'x': x, 'out': [] if exc else tags(r), 'exc': exc,
            'is_ulist': bool(not exc and isinstance(r, A['ulist'])), 'u_after': tags(u), 'x_after': enc_x(x, rx)}, (None if exc else r)


# ---- mappings ----------------------------------------------------------------------------------
def obs_sel(op, cls, items, x):
    d = build_map(cls, items)
    before = enc_items(d)
    keys = x[1] if x[0] == 'elem' else list(x[1])
    out = outcome(lambda: enc_map(d - keys if op == 'minus' else d & keys, d))
    o = {'op': op, 'form': x[0], 'd': {'cls': cls, 'items': before}, 'x': x, 'out': out, 'd_after': enc_items(d)}
    if op == 'minus':
        o['keys_lhs'] = outcome(lambda: {'kind': 'list', 'items': tags((d - keys).keys())})
        o['keys_rhs'] = outcome(lambda: {'kind': 'list', 'items': tags(d.keys() - keys)})
    return o


def obs_path(op, cls, items, path, nest='dict'):
    """d - path (op minus_path) or x = d; x -= path (isub_path) with the path tuple into values that are mappings, realised by `nest`"""
    d = build_map(cls, items, nest=nest)
    def call():
        if op == 'minus_path':
            return d - tuple(path)
        x = d
        x -= tuple(path)
        return x
    out = outcome(lambda: enc_map(call(), d))
    return {'op': op, 'form': nest, 'd': {'cls': cls, 'items': items}, 'path': list(path), 'nest': nest, 'out': out, 'd_after': enc_items(d)}


def obs_select(cls, items, ks):
    d = build_map(cls, items)
    out = outcome(lambda: enc_map(d[list(ks)], d))
    return {'op': 'select', 'd': {'cls': cls, 'items': items}, 'ks': ks, 'out': out, 'd_after': enc_items(d)}


def obs_multiget(cls, items, ks):
    d = build_map(cls, items)
    out = outcome(lambda: {'kind': 'list', 'items': tags(d[tuple(ks)])})
    return {'op': 'multiget', 'd': {'cls': cls, 'items': items}, 'ks': ks, 'out': out, 'd_after': enc_items(d)}


def obs_plus(op, cls, items, ocls, oitems, nest='dict'):
    """nest: the dict class that realises the values of d which are mappings themselves (those of `other` are plain dicts)"""
    d = build_map(cls, items, nest=nest)
    other = build_map(ocls, oitems, api()['others'])
    out = outcome(lambda: enc_map(d + other if op == 'plus' else d | other, d, other))
    o = {'op': op, 'form': ocls, 'd': {'cls': cls, 'items': items}, 'o': {'cls': ocls, 'items': oitems}, 'out': out,
         'd_after': enc_items(d), 'o_after': enc_items(other)}
    if nest != 'dict':
        o['nest'] = nest
        o['form'] = ocls + '/' + nest
    return o


def obs_relabel(cls, items, blanket, indiv, form):
    """one relabel call: the blanket rule (["none"], ["prefix", s], ["suffix", s], ["map", old -> new] spelled as a dict or as
    a callable: `form`) together with the individual keyword relabels"""
    d = build_map(cls, items)
    if blanket[0] == 'none' and form == 'kw':
        call = lambda: d.relabel(**indiv)
    elif blanket[0] in ('prefix', 'suffix') and form == blanket[0]:
        call = lambda: d.relabel(blanket[1], **indiv)
    elif blanket[0] == 'map' and form == 'dict':
        call = lambda: d.relabel(dict(blanket[1]), **indiv)
    elif blanket[0] == 'map' and form == 'callable':
        call = lambda: d.rename(lambda k: blanket[1].get(k, k), **indiv)
    else:
        raise ValueError(form)
    out = outcome(lambda: enc_map(call(), d))
    return {'op': 'relabel', 'form': form + ('+kw' if indiv and form != 'kw' else ''), 'd': {'cls': cls, 'items': items}, 'blanket': blanket, 'indiv': indiv,
            'out': out, 'd_after': enc_items(d)}


def obs_attr(cls, items, k):
    d = build_map(cls, items)
    item = outcome(lambda: {'kind': 'val', 'v': tag(d[k])})
    attr = outcome(lambda: {'kind': 'val', 'v': tag(getattr(d, k))})
    return {'op': 'attr', 'd': {'cls': cls, 'items': items}, 'k': k, 'item': item, 'attr': attr, 'd_after': enc_items(d)}


# ---- Dict.__call__ -------------------------------------------------------------------------------
_FN = {}


def fn_source(k, params, kinds, star, shape='def'):
    """def k_of(p1, p2=('default', 'k', 'p2'), *rest, q, r=('default', 'k', 'r'), **kw): return ('k', p1, p2, q, r)
    - the declaration the abstract definition (names, kinds, stars) spells; the value identifies the evaluation that
    produced it: the key and what arrived through every named parameter.  shape 'obj': the declaration is that of the
    __call__ method of an object; 'partial': k_of has a first parameter _tag which functools.partial binds to the key"""
    decl, starred = [], False
    for name, kind in zip(params, kinds):
        if kind in ('kwreq', 'kwopt') and not starred:
            decl.append('*rest' if 'args' in star else '*')
            starred = True
        decl.append(name if kind in ('req', 'kwreq') else '%s=(%r, %r, %r)' % (name, 'default', k, name))
    if 'args' in star and not starred:
        decl.append('*rest')
    if 'kw' in star:
        decl.append('**kw')
    ret = '(%s,%s)' % ('_tag' if shape == 'partial' else repr(k), ''.join(' %s,' % q for q in params))
    if shape == 'obj':
        return 'class %s_cls(object):\n    def __call__(%s):\n        return %s\n%s_of = %s_cls()\n' % (k, ', '.join(['self'] + decl), ret, k, k)
    if shape == 'partial':
        return 'import functools\ndef %s_fn(%s):\n    return %s\n%s_of = functools.partial(%s_fn, %r)\n' % (k, ', '.join(['_tag'] + decl), ret, k, k, k)
    return 'def %s_of(%s):\n    return %s\n' % (k, ', '.join(decl), ret)


def make_fn(k, params, kinds=None, star='', shape='def'):
    kinds = list(kinds) if kinds is not None else ['req'] * len(params)
    key = (k, tuple(params), tuple(kinds), star, shape)
    if key not in _FN:
        ns = {}
        exec(fn_source(k, params, kinds, star, shape), ns)
        _FN[key] = ns['%s_of' % k]
    return _FN[key]


def obs_call(cls, base, plain, par, order, kin=None, star=None, shape=None):
    A = api()
    kin = kin if kin is not None else {k: ['req'] * len(ps) for k, ps in par.items()}
    star = star if star is not None else {k: '' for k in par}
    shape = shape if shape is not None else {k: 'def' for k in par}
    d = A['classes'][cls](**{k: untag(v) for k, v in base.items()})
    before = enc_items(d)
    kwargs = {}
    for k in order:
        kwargs[k] = make_fn(k, par[k], kin[k], star[k], shape[k]) if k in par else untag(plain[k])
    out = outcome(lambda: enc_map(d(**kwargs), d))
    return {'op': 'call', 'cls': cls, 'base': base, 'plain': plain, 'par': par, 'kin': kin, 'star': star, 'shape': shape, 'order': list(order), 'out': out,
            'd_after': enc_items(d), 'd_before': before}


# ---- sessions: histories on the SAME objects (Algebra.tla section 4) ----------------------------------------------
def edit_list(l, e):
    """the list API, in place: e as in Algebra!EditL (1-based positions)"""
    k = e[0]
    if k == 'set':
        l[e[1] - 1] = untag(e[2])
    elif k == 'append':
        l.append(untag(e[1]))
    elif k == 'pop':
        l.pop()
    elif k == 'popappend':
        l.pop(); l.append(untag(e[1]))
    elif k == 'reverse':
        l.reverse()
    elif k == 'insert':
        l.insert(e[1] - 1, untag(e[2]))
    elif k == 'del':
        del l[e[1] - 1]
    elif k == 'clear':
        del l[:]
    else:
        raise ValueError(k)


def obs_useq(init, hist, sub=False):
    """ONE ulist object through a history of calls, edits by its owner and edits of the results"""
    A = api()
    cls = A['SubU'] if sub else A['ulist']
    u = cls([untag(v) for v in init])
    obs, last = [], None
    for k, a in hist:
        s = {'out': [], 'exc': '', 'is_ulist': False, 'x_after': []}
        if k == 'call':
            if a[0] == 'op':
                rx = real_x(a[2])
                r = outcome(lambda: FN[a[1]](u, rx))
                s['x_after'] = tags(rx) if a[2][0] == 'list' else []
            elif a[0] == 'rop':
                w = [untag(v) for v in a[2]]
                r = outcome(lambda: FN[a[1]](A['ulist'](w), u))
                s['x_after'] = tags(w)
            else:
                e = untag(a[1])
                r = outcome(lambda: [e in u])
            if isinstance(r, dict):
                s['exc'], last = r['cls'], None
            else:
                s['out'], s['is_ulist'], last = tags(r), isinstance(r, A['ulist']), r
        elif k == 'edit':
            edit_list(u, a)
        else:
            edit_list(last, a)
        s['u'] = tags(u)
        obs.append(s)
    return {'op': 'useq', 'form': ';'.join(a[0] for _, a in hist), 'sub': sub, 'init': init, 'hist': hist, 'obs': obs}


def enc_state(o):
    return {'d': enc_items(o['d']), 'e': enc_items(o['e']), 'K': list(o['K']), 'O': enc_items(o['O']), 'M': [[k, v] for k, v in o['M'].items()]}


def obs_mses(cls, init, hist, nest='dict', ocls='dict'):
    """the caller's objects d, e, K, O, M through a history of calls (the SAME K / O / M objects every time), edits by
    their owner and edits of the results"""
    A = api()
    o = {'d': build_map(cls['d'], init['d'], nest=nest), 'e': build_map(cls['e'], init['e'], nest=nest), 'K': list(init['K']),
         'O': build_map(ocls, init['O'], A['others']), 'M': {k: v for k, v in init['M']}}
    obs, last = [], None
    for k, a in hist:
        s = {'out': {'kind': 'none'}}
        if k == 'call':
            r, K, O, M = o[a[1]], o['K'], o['O'], o['M']
            f = {'minus': lambda: r - K, 'and': lambda: r & K, 'select': lambda: r[K], 'multiget': lambda: r[tuple(K)],
                 'plus': lambda: r + O, 'or': lambda: r | O, 'keys': lambda: r.keys(),
                 'relabel': lambda: r.relabel(M, **{p: q for p, q in a[2]})}[a[0]]
            try:
                last = f()
                if a[0] == 'multiget':
                    s['out'] = {'kind': 'list', 'items': [tagv(v) for v in last]}
                elif a[0] == 'keys':
                    s['out'] = {'kind': 'list', 'items': tags(last)}
                else:
                    s['out'] = enc_map(last, o['d'], o['e'], o['O'], o['M'])
            except Exception as e:
                s['out'], last = {'kind': 'exc', 'cls': type(e).__name__}, None
        elif k == 'edit':
            if a[0] == 'set':
                o[a[1]][a[2]] = a[3] if a[1] == 'M' else untagv(a[3])
            elif a[0] == 'del':
                del o[a[1]][a[2]]
            elif a[0] == 'clear':
                o[a[1]].clear()
            elif a[0] == 'appendK':
                o['K'].append(a[1])
            elif a[0] == 'popK':
                o['K'].pop()
            else:
                raise ValueError(a[0])
        else:
            if a[0] == 'rset':
                last[a[1]] = untag(a[2])
            elif a[0] == 'rclear':
                last.clear()
            elif a[0] == 'rappend':
                last.append(untag(a[1]))
            else:
                raise ValueError(a[0])
        s['after'] = enc_state(o)
        obs.append(s)
    form = ';'.join(a[0] for _, a in hist) + ('/' + nest if nest != 'dict' else '')
    return {'op': 'mses', 'form': form, 'cls': cls, 'nest': nest, 'ocls': ocls, 'init': init, 'hist': hist, 'obs': obs}


def norm_state(st):
    return {'d': norm_items(st['d']), 'e': norm_items(st['e']), 'K': list(st['K']), 'O': norm_items(st['O']), 'M': [list(p) for p in st['M']]}


def norm_arg(a):
    return [normv(x) if isinstance(x, list) and len(x) == 2 and x[0] == 'm' else x for x in a]


def s2c_sessions(ctx, log, cases, all_nests=False):
    """replay every history TLC printed on real objects; per step the outcome and what the caller's objects hold afterwards
    are compared with == against what the specification expects"""
    nu = nm = 0
    for n, c in enumerate(cases):
        hist = [[h['k'], norm_arg(h['a'])] for h in c['hist']]
        if c['op'] == 'useq':
            o = obs_useq(c['init'], hist, sub=nu % 3 == 2)
            nu += 1
            f = []
            for h, s in zip(c['hist'], o['obs']):
                if h['k'] == 'call':
                    want = [untag(v) for v in h['out']]
                    if s['exc'] or not ([untag(v) for v in s['out']] == want):       # Python's ==: what the property means by "equal"
                        f.append('out')
                    if h['a'][0] != 'in' and not s['is_ulist']:
                        f.append('is_ulist')
                    if s['x_after'] != (h['a'][2][1] if h['a'][0] == 'op' and h['a'][2][0] == 'list' else h['a'][2] if h['a'][0] == 'rop' else []):
                        f.append('x_after')
                if s['u'] != h['st']:
                    f.append('u')
            log.s2c(o, tuple(sorted(set(f))))
            if any(h['k'] == 'call' and h['out'] != c['hist'][0]['out'] for h in c['hist'][1:]):
                ctx.note(('useq', json.dumps([c['init'], hist])))
        else:
            init, cls = norm_state(c['init']), c['cls']
            nests = NESTS if all_nests else (NESTS[nm % 7],)
            for nest in nests:
                o = obs_mses(cls, init, hist, nest=nest, ocls=('dict', 'dictattr', 'Dict')[nm % 3])
                f = []
                for h, s in zip(c['hist'], o['obs']):
                    if h['k'] == 'call':
                        w = h['out']
                        if w[0] == 'exc':
                            ok = s['out'] == {'kind': 'exc', 'cls': w[1]}
                        elif w[0] == 'map':
                            ok = map_ok(s['out'], cls[h['a'][1]], norm_fun(w[1]))
                        else:
                            ok = s['out'] == {'kind': 'list', 'items': [normv(v) for v in w[1]]}
                        if not ok:
                            f.append('out')
                    if s['after'] != norm_state(h['st']):
                        f.append('after')
                log.s2c(o, tuple(sorted(set(f))))
            nm += 1
            if any(h['k'] == 'edit' for h in c['hist']):
                ctx.note(('mses', json.dumps([c['init'], cls, hist], sort_keys=True)))
        ctx.traces += 1
        if n % 9973 == 4321:
            ctx.sample({'s2c_session': c})


CASE_KEYS = ('op', 'fn', 'form', 'raw', 'u', 'x', 'd', 'ks', 'o', 'blanket', 'indiv', 'k', 'cls', 'base', 'plain', 'par', 'kin', 'star', 'shape', 'order',
             'nest', 'ocls', 'sub', 'init', 'hist', 'path')


# ---- S2C -----------------------------------------------------------------------------------------
def s2c_ulist(ctx, log, cases):
    A = api()
    for n, c in enumerate(cases):
        raw, x = c['raw'], c['x']
        want_u = [untag(v) for v in c['ulist']]
        if x[0] == 'elem' or n % 7 == 0:          # the constructor: once per raw list is plenty
            o, r = obs_ulist_new(raw, sub=n % 2 == 1)
            log.s2c(o, r is not None and list(r) == want_u and o['is_ulist'] and o['raw_after'] == raw)
        for fn, field in (('add', 'add'), ('or', 'add'), ('sub', 'sub'), ('and', 'and')):
            o, r = obs_ulist_op(raw, x, fn, sub=n % 2 == 1)
            want = [untag(v) for v in c[field]]
            f = []
            if r is None or not (list(r) == want):            # Python's ==: what the property means by "equal"
                f.append('out')
            if not o['is_ulist']:
                f.append('is_ulist')
            if not ([untag(v) for v in o['u']] == want_u):
                f.append('u')
            if o['u_after'] != o['u']:
                f.append('u_after')
            if o['x_after'] != x:
                f.append('x_after')
            log.s2c(o, tuple(f))
        if len(c['ulist']) >= 2 and 0 < len(c['and']) < len(c['ulist']):
            ctx.note(('ulist', json.dumps([raw, x])))
        ctx.traces += 1
        if n % 4999 == 77:
            ctx.sample({'s2c_ulist': c})


def as_dict(items):
    return {k: v for k, v in items}


def map_ok(out, cls, want_fun):
    return (out.get('kind') == 'map' and out['cls'] == cls and out['is_new']
            and as_dict(out['items']) == want_fun and len(out['items']) == len(want_fun))


def s2c_map(ctx, log, cases):
    for n, c in enumerate(cases):
        items, (kind, arg), want = c['d'], c['arg'], c['out']
        cls = CLS[n % 4]
        if kind == 'sel':
            o = obs_sel('minus', cls, items, arg)
            ok = (map_ok(o['out'], cls, as_dict(want['minus'])) and o['out']['items'] == want['minus']
                  and o['keys_lhs'] == o['keys_rhs'] == {'kind': 'list', 'items': [tag(k) for k, _ in want['minus']]} and o['d_after'] == items)
            log.s2c(o, ok)
            o = obs_sel('and', cls, items, arg)
            log.s2c(o, map_ok(o['out'], cls, as_dict(want['and'])) and o['d_after'] == items)
            if want['minus'] and want['and']:
                ctx.note(('sel', json.dumps([items, arg])))
            if arg[0] == 'elem':
                o = obs_attr(cls, items, arg[1])
                present = arg[1] in as_dict(items)
                ok = (o['item'] == o['attr'] == {'kind': 'val', 'v': as_dict(items)[arg[1]]}) if present else \
                     (o['item'].get('kind') == 'exc' and o['attr'].get('kind') == 'exc')
                log.s2c(o, ok and o['d_after'] == items)
        elif kind == 'keys':
            o = obs_select(cls, items, arg)
            w = want['select']
            ok = (o['out'] == {'kind': 'exc', 'cls': w[1]}) if w[0] == 'exc' else map_ok(o['out'], cls, objmap(w[1]))
            log.s2c(o, ok and o['d_after'] == items)
            o = obs_multiget(cls, items, arg)
            w = want['multiget']
            ok = (o['out'] == {'kind': 'exc', 'cls': w[1]}) if w[0] == 'exc' else o['out'] == {'kind': 'list', 'items': w[1]}
            log.s2c(o, ok and o['d_after'] == items)
            if w[0] != 'exc' and arg:
                ctx.note(('keys', json.dumps([items, arg])))
        elif kind == 'other':
            ocls = ('dict', 'dictattr', 'Dict')[n % 3]
            items, arg = norm_items(items), norm_items(arg)
            # values of d that are mappings themselves are realised by every dict class (quick tier: two of the seven per case)
            nests = ('dict',) if not any(v[0] == 'm' for _, v in items) else NESTS if not ctx.quick else (NESTS[n % 7], NESTS[(n + 3) % 7])
            for nest in nests:
                for op in ('plus', 'or'):
                    o = obs_plus(op, cls, items, ocls, arg, nest)
                    w = want['tplus'] if op == 'plus' and cls in ('Dict', 'SubD') else want['plus']      # Dict + other is tree_update
                    log.s2c(o, map_ok(o['out'], cls, norm_fun(w)) and o['d_after'] == items and o['o_after'] == arg)
            if items and arg and set(as_dict(items)) & set(as_dict(arg)):
                ctx.note(('plus', json.dumps([items, arg])))
                if want['tplus'] != want['plus']:
                    ctx.note(('tplus', json.dumps([items, arg])))
        elif kind == 'path':                               # delete a branch: d - (k1, .., kn), x = d; x -= (k1, .., kn)
            items = norm_items(items)
            w = norm_items(want['minus'])
            for nest in (NESTS if not ctx.quick else (NESTS[n % 7], NESTS[(n + 3) % 7])):
                for op in ('minus_path', 'isub_path'):
                    o = obs_path(op, cls, items, arg, nest)
                    log.s2c(o, map_ok(o['out'], cls, as_dict(w)) and o['out']['items'] == w and o['d_after'] == items)
            if w != items:
                ctx.note(('path', json.dumps([items, arg])))
        elif kind == 'ren':
            if want['collides']:
                continue                                   # outside the property: two keys renamed onto one
            ren = objmap(arg)
            for form in (('kw', 'dict', 'callable')[n % 3], 'kw'):
                o = obs_relabel(cls, items, ['none'] if form == 'kw' else ['map', ren], ren if form == 'kw' else {}, form)
                log.s2c(o, map_ok(o['out'], cls, objmap(want['relabel'])) and o['d_after'] == items)
            if any(k in ren and ren[k] != k for k, _ in items):
                ctx.note(('ren', json.dumps([items, ren], sort_keys=True)))
        elif kind == 'ren2':                               # a blanket rule and individual relabels in one call
            if want['collides']:
                continue
            blanket, indiv = [arg[0][0], objmap(arg[0][1]) if arg[0][0] == 'map' else arg[0][1]], objmap(arg[1])
            form = ('dict', 'callable')[n % 2] if blanket[0] == 'map' else blanket[0]
            o = obs_relabel(cls, items, blanket, indiv, form)
            log.s2c(o, map_ok(o['out'], cls, objmap(want['relabel'])) and o['d_after'] == items)
            if any(k in indiv for k, _ in items):
                ctx.note(('ren2', json.dumps([items, blanket, indiv], sort_keys=True)))
        ctx.traces += 1
        if n % 3999 == 123:
            ctx.sample({'s2c_map': c})


def s2c_call(ctx, log, cases):
    for n, c in enumerate(cases):
        par, kin, star, shape, base, want = objmap(c['par']), objmap(c['kin']), objmap(c['star']), objmap(c['shape']), c['base'], c['out']
        cls = ('Dict', 'SubD')[n % 2]
        orders = list(itertools.permutations(sorted(par)))          # EVERY keyword order ...
        if ctx.quick and len(par) == 4 and want[0] == 'exc':         # ... (quick tier: 6 of the 24 for the cyclic graphs on 4 keys)
            orders = [orders[0], orders[-1]] + ctx.rng.sample(orders[1:-1], 4)
        for order in orders:
            o = obs_call(cls, base, {}, par, order, kin, star, shape)
            if want[0] == 'exc':
                ok = o['out'] == {'kind': 'exc', 'cls': want[1]}
            else:
                ok = map_ok(o['out'], cls, objmap(want[1]))
            log.s2c(o, ok and as_dict(o['d_after']) == base)
            ctx.traces += 1
        if len(par) >= 2 and want[0] != 'exc' and any(set(ps) & set(par) for ps in par.values()):
            ctx.note(('call', json.dumps([par, kin], sort_keys=True)))
        if n % 997 == 500:
            ctx.sample({'s2c_call': c})


# ---- C2S -------------------------------------------------------------------------------------------
ELEMS = [["i", 0], ["i", 1], ["i", 2], ["i", -3], ["b", 0], ["b", 1], ["f", [1, 1]], ["f", [5, 2]], ["s", ""], ["s", "a"], ["s", "b"],
         ["n", 0], ["t", []], ["t", [["i", 1], ["i", 2]]], ["t", [["s", "a"], ["n", 0]]], ["i", 1000]]
MKEYS = ['a', 'b', 'c', 'd', 'e', 'key', 'k2', 'Name', 'x_y', 'z9']
MVALS = [["n", 0], ["i", 0], ["i", 1], ["i", -4], ["s", ""], ["s", "v"], ["l", []], ["l", [["i", 1], ["s", "a"]]], ["t", [["i", 1]]], ["f", [1, 2]], ["b", 1]]


def rand_items(rng, keys, nmax):
    ks = rng.sample(keys, rng.randint(0, min(nmax, len(keys))))
    return [[k, rng.choice(MVALS)] for k in ks]


def c2s_ulist(ctx, log, n):
    rng = ctx.rng
    for i in range(n):
        pool = rng.sample(ELEMS, rng.choice([2, 3, 5, 8, len(ELEMS)]))
        raw = [rng.choice(pool) for _ in range(rng.choice([0, 1, 2, 3, 5, 8, 13]))]
        sub = rng.random() < 0.3
        log.c2s(obs_ulist_new(raw, sub)[0])
        for _ in range(3):
            x = ['elem', rng.choice(pool + ELEMS[:3])] if rng.random() < 0.4 else \
                ['list', [rng.choice(pool + [rng.choice(ELEMS)]) for _ in range(rng.choice([0, 1, 2, 4, 7]))]]
            o = obs_ulist_op(raw, x, rng.choice(['add', 'or', 'sub', 'and']), sub)[0]
            log.c2s(o)
            if 0 < len(o['out']) and o['out'] != o['u']:
                ctx.note(('c2s-ulist', json.dumps([raw, x, o['fn']])))


def c2s_map(ctx, log, n):
    rng = ctx.rng
    for i in range(n):
        keys = rng.sample(MKEYS, rng.choice([3, 5, len(MKEYS)]))
        items = rand_items(rng, keys, 6)
        cls = rng.choice(CLS)
        have = [k for k, _ in items]
        def sel():
            pool = have + rng.sample(MKEYS, 2)
            return ['elem', rng.choice(pool)] if rng.random() < 0.35 else ['list', [rng.choice(pool) for _ in range(rng.choice([0, 1, 2, 3, 5]))]]
        for op in ('minus', 'and'):
            x = sel()
            o = obs_sel(op, cls, items, x)
            log.c2s(o)
            if o['out'].get('kind') == 'map' and 0 < len(o['out']['items']) < len(items):
                ctx.note(('c2s-' + op, json.dumps([items, x])))
        ks = [rng.choice(have + [rng.choice(MKEYS)]) if rng.random() < 0.25 or not have else rng.choice(have) for _ in range(rng.choice([0, 1, 2, 3, 4]))]
        log.c2s(obs_select(cls, items, ks))
        log.c2s(obs_multiget(cls, items, ks))
        oitems = rand_items(rng, keys, 5)
        log.c2s(obs_plus(rng.choice(['plus', 'or']), cls, items, rng.choice(['dict', 'dictattr', 'Dict']), oitems))
        log.c2s(obs_attr(cls, items, rng.choice(have + [rng.choice(MKEYS)])))
        # a collision-free renaming: some keys to fresh names, possibly a swap, plus keys d does not have
        fresh = ['n%d' % j for j in range(len(have))]
        ren = {}
        for j, k in enumerate(have):
            if rng.random() < 0.5:
                ren[k] = fresh[j]
        if len(have) >= 2 and rng.random() < 0.4:
            p, q = rng.sample(have, 2)
            ren[p], ren[q] = q, p
        if rng.random() < 0.3:
            ren['absent_key'] = 'whatever'
        # the blanket rule: none / a prefix / a suffix / the renaming as a dict or a callable; beside it individual relabels
        # (none, or the renaming of some keys to other fresh names, or of a key d does not have)
        indiv = {}
        if rng.random() < 0.5:
            for j, k in enumerate(have):
                if rng.random() < 0.4:
                    indiv[k] = 'i%d' % j
            if rng.random() < 0.2:
                indiv['absent_too'] = 'i_whatever'
        r = rng.random()
        if r < 0.2:
            log.c2s(obs_relabel(cls, items, ['prefix', 'x_'], indiv, 'prefix'))
        elif r < 0.4:
            log.c2s(obs_relabel(cls, items, ['suffix', '_x'], indiv, 'suffix'))
        elif r < 0.6:
            log.c2s(obs_relabel(cls, items, ['none'], ren, 'kw'))
        else:
            log.c2s(obs_relabel(cls, items, ['map', ren], indiv, rng.choice(['dict', 'callable'])))


def rand_graph(rng, nd):
    """definitions over nd derived keys: a random DAG along a random order, sometimes with back edges (cycles);
    base keys, some of them redefined (shadowed) by a definition; plain (non-callable) keywords"""
    names = ['d%d' % j for j in range(nd)]
    base_keys = ['p', 'q', 'r']
    base = {k: rng.choice(MVALS) for k in base_keys}
    if rng.random() < 0.3:
        names[rng.randrange(nd)] = 'p'                     # a definition that replaces a base key
    order = names[:]
    rng.shuffle(order)
    dens = rng.choice([0.15, 0.3, 0.6])
    deps = {k: set() for k in names}
    for i, k in enumerate(order):
        for j in range(i):
            if rng.random() < dens:
                deps[k].add(order[j])
    if rng.random() < 0.35:                                # back edges
        for _ in range(rng.choice([1, 1, 2])):
            i, j = sorted(rng.sample(range(nd), 2))
            deps[order[i]].add(order[j])
    plain = {}
    if rng.random() < 0.5:
        plain['s'] = rng.choice(MVALS)
    if rng.random() < 0.3 and 'p' not in names:
        plain['p'] = rng.choice(MVALS)                     # a plain keyword that overwrites a base key first
    readable = [k for k in base_keys + [x for x in plain if x not in base_keys] if k not in names]
    # kinds of parameters: all required (the plain definitions), or a mix of required / defaulted / keyword-only ones;
    # defaulted parameters may also name something nobody provides (then the default is what the definition receives)
    mix = rng.choice([None, ['req', 'opt'], ['req', 'opt', 'kwreq', 'kwopt'], ['opt', 'kwopt']])
    rank = {'req': 1, 'opt': 2, 'kwreq': 3, 'kwopt': 3}
    par, kin, star, shape = {}, {}, {}, {}
    for k in names:
        ps = sorted(deps[k]) + [b for b in readable if rng.random() < 0.3]
        rng.shuffle(ps)
        ks = ['req' if mix is None else rng.choice(mix) for _ in ps]
        if mix is not None:
            for nobody in ('n1', 'n2'):
                if rng.random() < 0.25:
                    ps.append(nobody)
                    ks.append(rng.choice(['opt', 'kwopt']))
        decl = sorted(zip(ps, ks), key=lambda e: rank[e[1]])          # a legal declaration order (stable: random within a rank)
        par[k], kin[k] = [e[0] for e in decl], [e[1] for e in decl]
        star[k] = '' if mix is None else rng.choice(['', '', 'args', 'kw', 'args_kw'])
        shape[k] = rng.choice(['def', 'def', 'obj', 'partial'])
    return base, plain, par, kin, star, shape


def c2s_call(ctx, log, ngraphs, norders):
    rng = ctx.rng
    for i in range(ngraphs):
        nd = rng.choice([5, 6])
        base, plain, par, kin, star, shape = rand_graph(rng, nd)
        keys = sorted(par) + sorted(plain)
        cls = rng.choice(['Dict', 'SubD'])
        for _ in range(norders):
            order = keys[:]
            rng.shuffle(order)
            o = obs_call(cls, base, plain, par, order, kin, star, shape)
            log.c2s(o)
        if o['out'].get('kind') == 'map':
            ctx.note(('c2s-call', json.dumps([par, kin], sort_keys=True)))
        if i % 17 == 3:
            ctx.sample({'c2s_call': o})


def c2s_useq(ctx, log, n):
    """random longer sessions on one ulist: calls, edits by the owner that keep it duplicate-free, edits of results"""
    rng = ctx.rng
    for i in range(n):
        pool = rng.sample(ELEMS, rng.choice([3, 5, 8]))
        cur = []
        for v in (rng.choice(pool) for _ in range(rng.choice([1, 2, 3, 5]))):
            if untag(v) not in [untag(w) for w in cur]:
                cur.append(v)
        init, hist, can_redit = list(cur), [], False
        for _ in range(rng.choice([4, 6, 9, 12])):
            r = rng.random()
            fresh = [v for v in pool if untag(v) not in [untag(w) for w in cur]]
            if r < 0.5:
                q = rng.random()
                if q < 0.5:
                    a = ['op', rng.choice(['add', 'or', 'sub', 'and']), ['elem', rng.choice(pool)] if rng.random() < 0.6 else
                         ['list', [rng.choice(pool) for _ in range(rng.choice([0, 1, 2, 4]))]]]
                elif q < 0.75:
                    a = ['rop', rng.choice(['add', 'or', 'sub', 'and']), [rng.choice(pool) for _ in range(rng.choice([1, 2, 4]))]]
                else:
                    a = ['in', rng.choice(pool)]
                hist.append(['call', a]); can_redit = a[0] != 'in'
                continue
            if r < 0.6 and can_redit:
                hist.append(['redit', rng.choice([['append', rng.choice(pool)], ['clear'], ['reverse']])]); can_redit = False
                continue
            kinds = ['reverse', 'clear'] + (['pop', 'del'] if cur else []) + (['append', 'insert'] + (['set', 'set', 'popappend', 'popappend'] if cur else []) if fresh else [])
            k = rng.choice(kinds)
            if k == 'set':
                e = ['set', rng.randint(1, len(cur)), rng.choice(fresh)]; cur[e[1] - 1] = e[2]
            elif k == 'append':
                e = ['append', rng.choice(fresh)]; cur.append(e[1])
            elif k == 'insert':
                e = ['insert', rng.randint(1, len(cur) + 1), rng.choice(fresh)]; cur.insert(e[1] - 1, e[2])
            elif k == 'popappend':
                e = ['popappend', rng.choice(fresh + [cur[-1]])]; cur[-1] = e[1]
            elif k == 'pop':
                e = ['pop']; cur.pop()
            elif k == 'del':
                e = ['del', rng.randint(1, len(cur))]; del cur[e[1] - 1]
            elif k == 'reverse':
                e = ['reverse']; cur.reverse()
            else:
                e = ['clear']; cur = []
            hist.append(['edit', e]); can_redit = False
        o = obs_useq(init, hist, sub=rng.random() < 0.3)
        log.c2s(o)
        if sum(1 for k, _ in hist if k == 'call') >= 2 and any(k == 'edit' for k, _ in hist):
            ctx.note(('c2s-useq', json.dumps([init, hist])))
        if i % 499 == 7:
            ctx.sample({'c2s_useq': o})


def c2s_mses(ctx, log, n):
    """random longer sessions on the caller's mappings: the same K / O / M objects through calls on two receivers, edits, edits of results"""
    rng = ctx.rng
    nestv = lambda: ['m', {k: rng.choice(MVALS[:6]) for k in rng.sample(['x', 'y', 'z'], rng.randint(1, 3))}]
    val = lambda p: nestv() if rng.random() < p else rng.choice(MVALS)
    for i in range(n):
        keys = rng.sample(MKEYS, 5)
        init = {'d': [[k, val(0.3)] for k in rng.sample(keys, rng.randint(1, 4))], 'e': [[k, val(0.3)] for k in rng.sample(keys, rng.randint(0, 3))],
                'K': [rng.choice(keys + ['absent']) for _ in range(rng.randint(0, 3))],
                'O': [[k, val(0.4)] for k in rng.sample(keys, rng.randint(0, 3))],
                'M': [[k, 'n_' + k] for k in rng.sample(keys, rng.randint(0, 3))]}           # fresh names: collision-free whatever the receiver holds
        cls = {'d': rng.choice(CLS), 'e': rng.choice(CLS)}
        hist, lastkind, nfresh = [], None, 0
        for _ in range(rng.choice([3, 5, 8])):
            r = rng.random()
            if r < 0.55:
                name = rng.choice(['minus', 'and', 'select', 'multiget', 'plus', 'plus', 'or', 'keys', 'relabel', 'relabel'])
                a = [name, rng.choice(['d', 'e'])]
                if name == 'relabel':
                    nfresh += 1
                    a.append([[k, 'i%d_%s' % (nfresh, k)] for k in rng.sample(keys, rng.choice([0, 1, 2]))])
                hist.append(['call', a]); lastkind = 'list' if name in ('multiget', 'keys') else 'map'
            elif r < 0.65 and lastkind:
                hist.append(['redit', ['rappend', ['s', 'zz']] if lastkind == 'list' else rng.choice([['rset', rng.choice(keys), ['i', 99]], ['rclear']])])
                lastkind = None             # (a call that raised has no result: such a redit is skipped by the driver)
            else:
                q = rng.random()
                if q < 0.45:
                    e = ['set', rng.choice(['d', 'e', 'O']), rng.choice(keys), val(0.3)]
                elif q < 0.6:
                    nfresh += 1
                    e = ['set', 'M', rng.choice(keys), 'm%d' % nfresh]
                elif q < 0.75:
                    e = ['clear', rng.choice(['O', 'M', 'e'])]
                elif q < 0.9:
                    e = ['appendK', rng.choice(keys)]
                else:
                    e = ['popK']
                hist.append(['edit', e]); lastkind = None
        o = obs_mses_safe(cls, init, hist, nest=rng.choice(NESTS), ocls=rng.choice(['dict', 'dictattr', 'Dict']))
        log.c2s(o)
        ctx.note(('c2s-mses', json.dumps([init, hist], sort_keys=True)))
        if i % 499 == 7:
            ctx.sample({'c2s_mses': o})


def obs_mses_safe(cls, init, hist, nest, ocls):
    """random histories may hold a step that cannot be performed (K.pop() on an empty list, an edit of the result of a call
    that raised): the history is cut before it"""
    for cut in range(len(hist), -1, -1):
        try:
            return obs_mses(cls, init, hist[:cut], nest=nest, ocls=ocls)
        except (IndexError, AttributeError, TypeError, KeyError):
            continue


def gen(ctx, module, cfg):
    """TLC's workers print the cases in an order that varies from run to run: sort them, so that everything the
    driver derives from the position of a case (class rotation, seeded choices, samples) is reproducible"""
    return sorted(ctx.generate(module, cfg), key=lambda c: json.dumps(c, sort_keys=True))


def run(ctx):
    ctx.rule = ('S2C: every (raw list, operand) of the TLC universe through ulist(), +, |, -, & (ulist and a subclass); every '
                '(mapping, argument) through -, &, [list], [k1, k2], +, |, relabel (individual keywords, dict, callable; prefix / suffix / dict / callable rule combined with individual keywords), attribute access on dictattr, Dict and a '
                'subclass of each; every dependency graph without self-loops on <= 4 derived keys whose edges are required parameters (incl. redefinition of a base key), '
                'and every graph on <= 3 keys whose edges carry a kind - required / defaulted / keyword-only / keyword-only defaulted parameter (quick: all four kinds on <= 2 keys, '
                'required / defaulted on 3; thorough: all four on 3 and required / defaulted on 4 keys with <= 4 edges) - where the definitions also read the mapping through parameters '
                'of every kind, name keys that nobody provides through defaulted ones, three of them declare *args / **kwargs, two are objects with __call__ and one a functools.partial, '
                'through Dict(**base)(**definitions) in EVERY keyword order (quick tier: 6 of the 24 orders for cyclic graphs on 4 keys), definitions synthesised with exec so that each value '
                'is the tuple (key, what arrived through each named parameter; a default is the marker ("default", key, parameter)).  Operands are encoded before and after every call.  C2S: random lists over 16 '
                'elements (1 == True == 1.0, tuples), random mappings over 10 keys, 5-6 derived keys with random (a)cyclic graphs whose parameters are all required or a mix of the four kinds '
                '(defaulted ones also naming nothing), *args / **kwargs, functions / callable objects / partials, shadowing and plain keywords in seeded random orders, judged by Trace_Algebra.  Non-trivial = intersection neither '
                'empty nor everything / selection that removes some but not all keys / overlapping update / renaming that renames / '
                'acyclic graph with >= 1 dependency among definitions; distinct by abstract input.  '
                'VALUES THAT ARE MAPPINGS: every mapping over 3 keys with >= 1 nested value x every other mapping (flat / nested values) through d + other and d | other, the nested values of d '
                'realised by every dict class (dict, dictattr, Dict, OrderedDict, defaultdict, subclasses of Dict / dictattr; quick: two of the seven per case), d and other compared DEEPLY before / after.  '
                'DELETE A BRANCH: d - (k1, .., kn) and x = d; x -= (k1, .., kn) for every path of 2-3 names (present, absent at any depth) into every mapping over 2 keys whose values are flat, a mapping or a mapping of mappings, '
                'nested values in every dict class: the tree without that path, same class, new object, d DEEPLY unchanged.  '
                'SESSIONS (MC_AlgebraSes; law: a call has no memory and owns nothing of the caller): histories call ; edit ; call on the SAME objects, enumerated by TLC with the outcome expected for the '
                'objects as they are at that moment - (a) one ulist: u fn x / ulist(w) fn u / e in u ; the owner edits u in place through the list API keeping it duplicate-free (u[i] = v, append, pop, '
                'pop + append, reverse, del, clear, insert) or edits the RESULT in place ; any call; (b) the caller\'s d, e (two receivers of different classes, nested values in every realisation), key list K, '
                'other mapping O, renaming dict M: r - K, r & K, r[K], r[tuple(K)], r + O, r | O, r.keys(), r.relabel(M, **individual) ; the owner edits d / O / M / K or the RESULT ; any call; after EVERY step all '
                'five objects are compared with what the specification says they hold (clauses d_modified, argument_changed, result_aliases_*).  Thorough: 1 == True among the elements, more '
                'classes / edits, and TLC-simulated free sessions of 7 steps.  C2S: random sessions of 3-12 steps on both families judged step by step by Trace_Algebra (JudgeU / JudgeM).')
    ctx.mc('MC_Algebra', 'MC_Algebra_quick.cfg' if ctx.quick else 'MC_Algebra_thorough.cfg')
    if not ctx.quick:
        # mechanisms that order the evaluation by the required / by the positional parameters only do not implement the law
        ctx.mc('MC_Algebra', 'MC_Algebra_reqonly.cfg', must_fail='ReqOnlyIsLaw', coverage=False)
        ctx.mc('MC_Algebra', 'MC_Algebra_posonly.cfg', must_fail='PositionalIsLaw', coverage=False)
    log = Log(ctx, 1500 if ctx.quick else 20000)
    cases = gen(ctx, 'MC_Algebra', 'MC_Algebra_gen.cfg' if ctx.quick else 'MC_Algebra_gent.cfg')   # all three families in one TLC run
    s2c_ulist(ctx, log, [c for c in cases if c['op'] == 'ulist'])
    s2c_map(ctx, log, [c for c in cases if c['op'] == 'map' and c['arg'][0] != 'path'])
    s2c_map(ctx, log, [c for c in cases if c['op'] == 'map' and c['arg'][0] == 'path'])      # (apart: the class rotation of the other cases stays what it was)
    s2c_call(ctx, log, [c for c in cases if c['op'] == 'call'])
    # sessions: histories call ; edit by the owner / of the result ; call on the SAME objects, enumerated by TLC (the invariants
    # of MC_AlgebraSes are checked in the same run); thorough: also TLC-simulated free sessions of 7 steps and the two
    # mechanism models that must break the law (a membership memo keyed on the length; relabel adopting the caller's dict)
    s2c_sessions(ctx, log, gen(ctx, 'MC_AlgebraSes', 'MC_AlgebraSes_gen.cfg' if ctx.quick else 'MC_AlgebraSes_gent.cfg'), all_nests=False)
    if not ctx.quick:
        ctx.mc('MC_Algebra', 'MC_Algebra_rootonly.cfg', must_fail='PathLeavesOperand', coverage=False)   # shallow copy of the root, deletion in the shared branch
        ctx.mc('MC_AlgebraSes', 'MC_AlgebraSes_memo.cfg', must_fail='MemoIsMembers', coverage=False)
        ctx.mc('MC_AlgebraSes', 'MC_AlgebraSes_adopt.cfg', must_fail='CallsOwnNothing', coverage=False)
        sim = sorted(ctx.generate('MC_AlgebraSes', 'MC_AlgebraSes_sim.cfg', simulate=1500, depth=12, seed=ctx.seed + 16),
                     key=lambda c: json.dumps(c, sort_keys=True))
        s2c_sessions(ctx, log, sim, all_nests=False)
    c2s_useq(ctx, log, 500 if ctx.quick else 6000)
    c2s_mses(ctx, log, 500 if ctx.quick else 6000)
    c2s_ulist(ctx, log, 600 if ctx.quick else 8000)
    c2s_map(ctx, log, 600 if ctx.quick else 8000)
    c2s_call(ctx, log, 40 if ctx.quick else 600, 60)
    judge(ctx, log, 'Trace_Algebra', CASE_KEYS, group_keys=('op', 'fn', 'form'))
    ctx.exhaustive = False
    ctx.assumptions += [
        'elements are hashable values without NaN; "duplicate" and "equal" are Python ==, so 1, True and 1.0 are one element',
        'mapping keys are identifier-like strings without ".", without a leading "_" and not names of dict/dictattr attributes; values are flat (None, numbers, strings, lists, tuples) or non-empty mappings of flat values (two levels in the sessions), realised by any dict class on the side of d; '
        'named deviation DictPlusIsTreeUpdate: where BOTH d and other hold a mapping under a key, Dict + other (tree_update) holds their recursive merge (the law of C15) while dictattr + other and every d | other hold other\'s value ({**d, **o}); '
        'the nested values of `other` are plain dicts (tree_update treats another dict class on the update side as a leaf, which the two statements do not settle)',
        'd - path: a path one of whose proper prefixes ends in a value that is not a mapping (PathThroughLeaf) is outside the domain; the classes define no __isub__, so d -= path rebinds the name to d - path',
        'sessions: the owner\'s in-place edits of a ulist keep it duplicate-free (OwnerKeepsUnique - list.append of a duplicate is outside the property); sharing VALUE objects between d and a result is what {**d, **o} means, so results are only edited at their top level; '
        'relabel in sessions is spelled with the dict M plus individual keywords, collision-free',
        'relabel is exercised with collision-free renamings: individual keyword relabels alone, and a blanket rule (prefix "x_", suffix "_x", dict, callable) alone or TOGETHER WITH individual keyword relabels, which then win for the keys they name; the positional-list spelling is not',
        'definitions handed to Dict.__call__ never take their own key as a parameter (that means "previous value" in the code); parameters WITHOUT a default only name what the mapping or another definition provides; a parameter called "key" is only used when the mapping has an entry "key" (the code passes a hidden key=<name> otherwise)',
        'every NAMED parameter of a definition - with or without a default, positional or keyword-only - is an argument taken by name from the mapping and an edge of the dependency graph; the default is what arrives only when nobody provides the name.  What arrives in *args / **kwargs is not judged',
        'dictable (a dictattr subclass with row semantics for + - & []) is covered by C01, not here',
        'small scope: MC/S2C lists <= 3 (thorough 4) over 5 elements, mappings over 3 keys, <= 4 derived keys; C2S lists <= 13, mappings <= 6 keys, 5-6 derived keys x 60 orders',
    ]


def replay(ctx, body):
    c = body['case']
    op = c['op']
    if op == 'ulist_new':
        o = obs_ulist_new(c['raw'])[0]
    elif op == 'ulist_op':
        o = obs_ulist_op(c['raw'], c['x'], c['fn'])[0]
    elif op in ('minus', 'and'):
        o = obs_sel(op, c['d']['cls'], c['d']['items'], c['x'])
    elif op == 'select':
        o = obs_select(c['d']['cls'], c['d']['items'], c['ks'])
    elif op == 'multiget':
        o = obs_multiget(c['d']['cls'], c['d']['items'], c['ks'])
    elif op in ('minus_path', 'isub_path'):
        o = obs_path(op, c['d']['cls'], c['d']['items'], c['path'], c.get('nest', 'dict'))
    elif op == 'useq':
        o = obs_useq(c['init'], c['hist'], c.get('sub', False))
    elif op == 'mses':
        o = obs_mses(c['cls'], c['init'], c['hist'], c.get('nest', 'dict'), c.get('ocls', 'dict'))
    elif op in ('plus', 'or'):
        o = obs_plus(op, c['d']['cls'], c['d']['items'], c['o']['cls'], c['o']['items'], c.get('nest', 'dict'))
    elif op == 'relabel':
        o = obs_relabel(c['d']['cls'], c['d']['items'], c['blanket'], c['indiv'], c['form'].split('+')[0])
    elif op == 'attr':
        o = obs_attr(c['d']['cls'], c['d']['items'], c['k'])
    else:
        o = obs_call(c['cls'], c['base'], c['plain'], c['par'], c['order'], c.get('kin'), c.get('star'), c.get('shape'))
    bad = ctx.validate('Trace_Algebra', [o])
    print(json.dumps(o, indent=1))
    print('verdict:', bad[0][1] if bad else 'accepted')
    return 1 if bad else 0
