"""C03 - alignment puts all timeseries on the prescribed common index, values intact.

MC   spec/MC_Sync.tla: the clauses of the property on the law-level operators of spec/Series.tla.
     spec/SyncLaw.tla: column policies ij / oj / lj / rj / explicit set / none; dict containers with their class
     and their keys in insertion order.
S2C  TLC enumerates collections (pairs / triples of small series, frames, bare arrays in several
     container shapes - dicts with non-sorted keys, nested, OrderedDict / pyg Dict - and triples of frames over
     the column-set shapes) with the outcome expected for every join policy x fill method x column
     policy; each is replayed through df_index, df_reindex, df_sync and a presync-decorated recorder
     (named parameters; **kwargs, which shows the order in which the keywords arrive).
SESS spec/SyncSess.tla + MC_SyncSess.tla: the caller's heap (timeseries objects, a container referring to them - one object
     possibly at several places, objects built on one shared Index / columns object -, the fill-method object spelled None /
     str / list / tuple) as a state machine: one action per public call (leaves the heap as it is; judged by the law on the
     heap of that moment) plus the caller's in-place edits between calls (re-date / append / drop / overwrite an operand,
     change or clear the method list, put another object into the container, edit the latest result).  TLC enumerates the
     sessions, the driver replays each on ONE real heap and records outcome + heap after every step, Trace_Sync judges.
C2S  seeded random collections (<= 6 timeseries over 30 timestamps, frames with 1-3 columns, nested
     lists / dicts of four classes with shuffled keys, non-timeseries members; separately bare arrays of
     lengths 0-6) are run through the same public calls and the log is validated by spec/Trace_Sync.tla.
Python only renders, calls, projects and compares with ==.
"""
import json
import warnings
import pandas as pd
from harness.x_series import (Registry, build_c, proj_c, outcome, collapse, leaves, nested_multi, index_of, dict_class, NLEAVES)

warnings.simplefilter('ignore')

POS = ['p1', 'p2', 'p3', 'p4', 'p5', 'p6', 'p7', 'p8']
KWS = ['x', 'y', 'z', 'u', 'w', 'v']
CLASSES = ['dict', 'dict', 'odict', 'Dict', 'dictattr']


def recorders():
    calls = []

    def rec_pos(p1=None, p2=None, p3=None, p4=None, p5=None, p6=None, p7=None, p8=None):
        calls.append(dict(p1=p1, p2=p2, p3=p3, p4=p4, p5=p5, p6=p6, p7=p7, p8=p8))

    def rec_kw(x=None, y=None, z=None, u=None, w=None, v=None):
        calls.append(dict(x=x, y=y, z=z, u=u, w=w, v=v))

    def rec_var(**kwargs):          # the keywords in the order in which they arrive
        calls.append(kwargs)
    return calls, rec_pos, rec_kw, rec_var


def join_arg(pol, form=0):
    """the Python spelling of a join policy"""
    if pol['how'] != 'ex':
        return {'ij': ['ij', 'inner', 'i'], 'oj': ['oj', 'outer', 'o'], 'lj': ['lj', 'left', 'l'], 'rj': ['rj', 'right', 'r']}[pol['how']][form % 3]
    if 'n' in pol:
        return int(pol['n'])
    idx = index_of(pol['t'])
    if form % 3 == 1:
        return pd.Series(0.0, idx)          # a timeseries stands for its index
    return idx


SPELL = {'ij': ['ij', 'inner', 'i'], 'oj': ['oj', 'outer', 'o'], 'lj': ['lj', 'left', 'l'], 'rj': ['rj', 'right', 'r']}


def col_arg(cp, form=0):
    """the Python spelling of a column policy (a record of SyncLaw.tla)"""
    if cp['how'] == 'none':
        return None
    if cp['how'] == 'ex':
        return pd.Index(list(cp['c']))      # the column set explicitly supplied (an Index is the spelling the API accepts)
    return SPELL[cp['how']][(form // 3) % 3]


def call(api, tree, pol, m, cols, form=0, rng=None):
    """one public call on a freshly built collection -> observation"""
    import pyg_base as pg
    reg = Registry()
    proj = proj_c
    obj = build_c(tree, reg, rng, int_series=True, colorder=form)
    method = None if m == 'none' else m
    columns = col_arg(cols, form)
    calls = None
    var_kw = False
    if api == 'sync':
        err, res = outcome(lambda: pg.df_sync(obj, join_arg(pol, 0 if pol['how'] == 'ex' else form), method, columns))
    elif api == 'reindex':
        err, res = outcome(lambda: pg.df_reindex(obj, join_arg(pol, form), method))
    elif api == 'index':
        err, res = outcome(lambda: pg.df_index(obj, join_arg(pol, form)))
    elif api == 'presync':
        calls, rec_pos, rec_kw, rec_var = recorders()
        kw = dict(index=join_arg(pol, 0 if pol['how'] == 'ex' else form), method=method, columns=False if columns is None else columns)
        if tree['k'] == 'l':
            n = len(obj)
            npos = n if form % 2 == 0 else n // 2       # some of them positionally, the rest by keyword
            f = pg.presync(rec_pos, **kw)
            err, res = outcome(lambda: f(*obj[:npos], **{POS[i]: obj[i] for i in range(npos, n)}))
        else:
            var_kw = form % 3 == 2 or any(k not in KWS for k in tree['keys'])
            f = pg.presync(rec_var if var_kw else rec_kw, **kw)
            err, res = outcome(lambda: f(**obj))
    else:
        raise ValueError(api)
    o = {'api': api, 'tree': tree, 'pol': pol, 'm': m, 'cols': cols, 'form': form, 'after': proj(obj, reg)}
    if err is not None:
        o['out'] = err
    elif api == 'index':
        if res is None:
            v = {'k': 'none'}
        elif isinstance(res, pd.Index):
            p = proj(pd.Series(0.0, res))
            v = {'k': 'idx', 't': p['t']} if p['k'] == 's' else p
        elif isinstance(res, int):
            v = {'k': 'len', 'n': res}
        else:
            v = proj(res, reg)
        o['out'] = {'kind': 'val', 'v': v}
    elif api == 'presync':
        out = []
        for c in calls:
            if tree['k'] == 'l':
                out.append({'k': 'l', 'items': [proj(c[POS[i]], reg) for i in range(len(tree['items']))]})
            elif var_kw:        # the keyword arguments as received, in the order received (they are not a container of a class)
                out.append({'k': 'd', 'cls': tree['cls'], 'keys': list(c.keys()), 'items': [proj(v, reg) for v in c.values()]})
            else:
                out.append({'k': 'd', 'cls': tree['cls'], 'keys': list(tree['keys']), 'items': [proj(c[k], reg) for k in tree['keys']]})
        o['out'] = {'kind': 'calls', 'calls': out}
    else:
        o['out'] = {'kind': 'val', 'v': proj(res, reg)}
    return o


def call_history(tree, dec, hist, form=0, rng=None, inforce=None):
    """a history of calls / derivations on ONE presync-decorated recorder (and the objects derived from it), every call on
    the same argument objects -> one observation: what the recorder received step by step"""
    import pyg_base as pg
    reg = Registry()
    obj = build_c(tree, reg, rng, int_series=True, colorder=form)
    calls, rec_pos, rec_kw, rec_var = recorders()
    spell = lambda how: SPELL[how][form % 3]
    meth = lambda m: None if m == 'none' else m
    is_list = tree['k'] == 'l'
    var_kw = not is_list and (form % 2 == 1 or any(k not in KWS for k in tree['keys']))
    objs = [pg.presync(rec_pos if is_list else rec_var if var_kw else rec_kw, index=spell(dec['join']), method=meth(dec['m']), columns=spell(dec['cols']))]
    steps = []
    for st in hist:
        if st['op'] == 'derive':
            objs.append(getattr(objs[st['f'] - 1], st['v']))        # f.ij / .oj / .lj / .rj / .ffill / .bfill
            steps.append({'kind': 'derived'})
            continue
        f, ov, kw = objs[st['f'] - 1], st['ov'], {}
        if ov['join'] != '-':
            kw['join'] = spell(ov['join'])
        if ov['m'] != '-':
            kw['method'] = meth(ov['m'])
        if ov['cols'] != '-':
            kw['columns'] = spell(ov['cols'])
        del calls[:]
        err, _ = outcome((lambda: f(*obj, **kw)) if is_list else (lambda: f(**obj, **kw)))
        if err is not None:
            steps.append(err)
            continue
        out = []
        for c in calls:
            if is_list:
                out.append({'k': 'l', 'items': [proj_c(c[POS[i]], reg) for i in range(len(tree['items']))]})
            elif var_kw:
                out.append({'k': 'd', 'cls': tree['cls'], 'keys': list(c.keys()), 'items': [proj_c(v, reg) for v in c.values()]})
            else:
                out.append({'k': 'd', 'cls': tree['cls'], 'keys': list(tree['keys']), 'items': [proj_c(c[k], reg) for k in tree['keys']]})
        steps.append({'kind': 'calls', 'calls': out})
    o = {'api': 'history', 'tree': tree, 'dec': dec, 'hist': hist, 'form': form, 'after': proj_c(obj, reg), 'out': {'kind': 'hist', 'steps': steps}}
    if inforce is not None:
        o['inforce'] = inforce          # what TLC's state machine printed (evidence; Trace_Sync recomputes it)
    return o


# ---- sessions: ONE heap of caller-owned objects, several calls and in-place edits (spec/SyncSess.tla) --------
def build_heap(h, reg):
    """the caller's objects: one pandas object per slot (slot j on the Index / columns OBJECTS of slot share[j]), the
    container referring to them, the method object in the caller's spelling"""
    import numpy as np
    slots = []
    for j, (x, sh) in enumerate(zip(h['ops'], h['share'])):
        o = build_c(x, reg)
        if sh - 1 != j:             # built on the index object of an earlier slot ("price * 2")
            base = slots[sh - 1]
            if x['k'] == 's':
                o = pd.Series(o.values, index=base.index)
            else:
                o = pd.DataFrame(o[list(base.columns)].values, index=base.index, columns=base.columns)
        slots.append(o)

    def cont(x):
        if x['k'] == 'r':
            return slots[x['n'] - 1]
        if x['k'] == 'l':
            return [cont(i) for i in x['items']]
        if x['k'] == 'd':
            d = {}
            for key, i in zip(x['keys'], x['items']):
                d[key] = cont(i)
            return d
        return reg.obj(x['id'])
    m = h['meth']
    meth = None if m['ty'] == 'none' else m['v'][0] if m['ty'] == 'str' else list(m['v']) if m['ty'] == 'list' else tuple(m['v'])
    return slots, cont(h['cont']), meth


def proj_heap(slots, cont, meth, reg):
    def pc(o):
        for j, s in enumerate(slots):
            if o is s:
                return {'k': 'r', 'n': j + 1}
        if reg.ident(o) is not None:
            return proj_c(o, reg)
        if isinstance(o, dict):
            return {'k': 'd', 'cls': dict_class(o), 'keys': [str(k) for k in o.keys()], 'items': [pc(i) for i in o.values()]}
        if isinstance(o, list):
            return {'k': 'l', 'items': [pc(i) for i in o]}
        return proj_c(o, reg)
    ty = 'none' if meth is None else 'str' if isinstance(meth, str) else 'list' if isinstance(meth, list) else 'tuple' if isinstance(meth, tuple) else 'other'
    v = [] if meth is None else [meth] if isinstance(meth, str) else [x if isinstance(x, str) else repr(x) for x in meth]
    return {'ops': [proj_c(s) for s in slots], 'cont': pc(cont), 'meth': {'ty': ty, 'v': v}}


def caller_edit(st, slots, cont, meth, is_list, last):
    """one in-place edit of the caller's own objects (spec/SyncSess.tla, HeapStep)"""
    op = st['op']
    if op == 'redate':
        ts = slots[st['slot'] - 1]
        ts.index = ts.index + pd.Timedelta(days=1)
    elif op == 'append':
        slots[st['slot'] - 1].loc[index_of([st['x']])[0]] = 99.0
    elif op == 'drop':
        ts = slots[st['slot'] - 1]
        ts.drop(ts.index[st['p'] - 1], inplace=True)
    elif op == 'setcell':
        ts = slots[st['slot'] - 1]
        if isinstance(ts, pd.Series):
            ts.iloc[st['p'] - 1] = 77.0
        else:
            ts.iloc[st['p'] - 1, :] = 77.0
    elif op == 'methset':
        meth[0] = st['v']
    elif op == 'methclear':
        del meth[:]
    elif op == 'contset':
        key = st['p'] - 1 if is_list else list(cont.keys())[st['p'] - 1]
        cont[key] = slots[st['n'] - 1]
    elif op == 'resedit':
        edit_result(last)
    else:
        raise ValueError(op)


def call_session(h, steps, form=0, final=None):
    """a session replayed on ONE heap -> one observation: outcome and heap after every step"""
    import pyg_base as pg
    reg = Registry()
    slots, cont, meth = build_heap(h, reg)
    is_list = h['cont']['k'] == 'l'
    calls, rec_pos, rec_kw, rec_var = recorders()
    spell = lambda how: SPELL[how][form % 3]
    pres, last, out_steps = None, None, []
    for n, st in enumerate(steps):
        op, out = st['op'], None
        if op == 'call':
            api, how, cols = st['api'], st['pol']['how'], st['cols']['how']
            kwm = (form + n) % 2 == 1               # the method object positionally / by keyword
            if how == 'ex':                         # the explicit index is one of the caller's own timeseries (or its Index object)
                ts = slots[st['pol']['slot'] - 1]
                join = ts if (form + n) % 3 else ts.index
            else:
                join = spell(how)
            if api == 'sync':
                err, res = outcome((lambda: pg.df_sync(cont, join, method=meth, columns=spell(cols))) if kwm else (lambda: pg.df_sync(cont, join, meth, spell(cols))))
            elif api == 'reindex':
                err, res = outcome((lambda: pg.df_reindex(cont, join, method=meth)) if kwm else (lambda: pg.df_reindex(cont, join, meth)))
            elif api == 'index':
                err, res = outcome(lambda: pg.df_index(cont, join))
            else:
                # ONE presync-ed recorder per session, decorated with the policy of its first call and the caller's method
                # object; later calls override what differs at call time (an explicit index is always given at call time)
                if pres is None:
                    var_kw = (not is_list) and form % 3 == 2
                    pres = (pg.presync(rec_pos if is_list else rec_var if var_kw else rec_kw, index=join, method=meth, columns=spell(cols)), how, cols, var_kw)
                f, how0, cols0, var_kw = pres
                kw = {}
                if how != how0 or how == 'ex':
                    kw['join'] = join
                if cols != cols0:
                    kw['columns'] = spell(cols)
                if kwm:
                    kw['method'] = meth
                del calls[:]
                err, res = outcome((lambda: f(*cont, **kw)) if is_list else (lambda: f(**cont, **kw)))
            if err is not None:
                out = err
            elif api == 'index':
                if res is None:
                    v = {'k': 'none'}
                elif isinstance(res, pd.Index):
                    p = proj_c(pd.Series(0.0, res))
                    v = {'k': 'idx', 't': p['t']} if p['k'] == 's' else p
                else:
                    v = proj_c(res, reg)
                out = {'kind': 'val', 'v': v}
            elif api == 'presync':
                got = []
                for c in calls:
                    if is_list:
                        got.append({'k': 'l', 'items': [proj_c(c[POS[i]], reg) for i in range(len(cont))]})
                    elif pres[3]:
                        got.append({'k': 'd', 'cls': 'dict', 'keys': list(c.keys()), 'items': [proj_c(v, reg) for v in c.values()]})
                    else:
                        got.append({'k': 'd', 'cls': 'dict', 'keys': list(cont.keys()), 'items': [proj_c(c[k], reg) for k in cont.keys()]})
                out = {'kind': 'calls', 'calls': got}
            else:
                out = {'kind': 'val', 'v': proj_c(res, reg)}
                last = res
        else:
            # the caller's own edit; when it cannot be made on the real objects (an earlier call has damaged them: the heap
            # recorded after that call shows it) the session ends with the steps made so far
            err, _ = outcome(lambda: caller_edit(st, slots, cont, meth, is_list, last))
            if err is not None:
                steps = steps[:n]
                break
        rec = {'heap': proj_heap(slots, cont, meth, reg)}
        if out is not None:
            rec['out'] = out
        out_steps.append(rec)
    o = {'api': 'session', 'heap': h, 'steps': steps, 'form': form, 'out': {'kind': 'sess', 'steps': out_steps}}
    if final is not None:
        o['final'] = final          # the heap TLC's state machine ended with (evidence; Trace_Sync recomputes it)
    return o


def edit_result(res):
    """the caller edits the result of a call through its public interface: every cell of every timeseries in it is
    overwritten, then the first member of every container is replaced"""
    if isinstance(res, (pd.Series, pd.DataFrame)):
        if len(res):
            res.iloc[:] = 55.0
    elif isinstance(res, dict):
        for v in res.values():
            edit_result(v)
        for k in list(res.keys())[:1]:
            res[k] = None
    elif isinstance(res, list):
        for v in res:
            edit_result(v)
        if res:
            res[0] = None


def kind_of(tree):
    ks = {l['k'] for l in leaves(tree)}
    return 'frames' if 'f' in ks else 'series' if 's' in ks else 'arrays' if 'a' in ks else 'plain'


def nodes(x):
    return [x] + ([n for i in x['items'] for n in nodes(i)] if x['k'] in ('l', 't', 'd') else [])


def case_key(o, want=None):
    """the matchable description of a failing case"""
    if o['api'] == 'session':
        h, steps = o['heap'], o['steps']
        cs = [st for st in steps if st['op'] == 'call']
        places = [x['n'] if x['k'] == 'r' else 0 for x in leaves(h['cont'])]
        return {'api': 'session', 'kind': 'frames' if any(x['k'] == 'f' for x in h['ops']) else 'series', 'apis': [c['api'] for c in cs],
                'how': [c['pol']['how'] for c in cs], 'cols': [c['cols']['how'] for c in cs], 'edits': [st['op'] for st in steps if st['op'] != 'call'],
                'method': h['meth'], 'method_spelling': h['meth']['ty'], 'share': h['share'], 'places': places, 'container': h['cont']['k'],
                'nested': nested_multi(h['cont']), 'raised': next((st['out'].get('cls', '') for st in o['out']['steps'] if st.get('out', {}).get('kind') == 'exc'), ''),
                'form': o['form'], 'empty_frame_filled': False, 'heap': h, 'steps': steps}
    tree = o['tree']
    if o['api'] == 'history':
        return {'api': 'history', 'kind': kind_of(tree), 'how': o['dec']['join'], 'method': o['dec']['m'], 'cols': o['dec']['cols'], 'nested': nested_multi(tree),
                'raised': next((s.get('cls', '') for s in o['out']['steps'] if s['kind'] == 'exc'), ''), 'form': o['form'], 'empty_frame_filled': False,
                'overrides': [s['ov'] for s in o['hist'] if s['op'] == 'call'], 'derived': [s['v'] for s in o['hist'] if s['op'] == 'derive'],
                'tree': tree, 'dec': o['dec'], 'hist': o['hist']}
    c = {'api': o['api'], 'kind': kind_of(tree), 'how': o['pol']['how'], 'method': o['m'], 'cols': o['cols']['how'], 'colpol': o['cols'],
         'nested': nested_multi(tree), 'raised': o['out'].get('cls', ''), 'form': o['form'],
         'dict_classes': sorted({x['cls'] for x in nodes(tree) if x['k'] == 'd'}),
         'empty_frame_filled': o['m'] != 'none' and any(l['k'] == 'f' and not l['t'] for l in leaves(tree)),
         'tree': tree, 'pol': o['pol']}
    if c['kind'] == 'arrays' and want is not None and want.get('k') == 'len':
        c['common_length'] = want['n']
    return c


class Reporter(object):
    """at most a few violations per signature, so that one defect does not bury another"""
    def __init__(self, ctx, per=2):
        self.ctx, self.per, self.seen = ctx, per, {}

    def __call__(self, clause, case, detail):
        sig = (clause, case['api'], case['kind'], case['raised'], case['nested'], case.get('common_length') == 0, case['empty_frame_filled'])
        self.seen[sig] = self.seen.get(sig, 0) + 1
        if self.seen[sig] <= self.per:
            self.ctx.violation(clause, case, detail)

    def summary(self):
        return [{'clause': s[0], 'api': s[1], 'kind': s[2], 'raised': s[3], 'nested': s[4], 'zero_length': s[5], 'empty_frame_filled': s[6], 'count': n} for s, n in sorted(self.seen.items(), key=str)]


def s2c(ctx, report, cases, budget):
    """replay TLC's cases: plain equality with (one of) the expected outcome(s)"""
    cases = sorted(cases, key=lambda c: json.dumps(c['tree'], sort_keys=True))       # TLC's workers print in any order
    for c in cases:
        c['exp'].sort(key=lambda e: json.dumps([e['pol'], e['m'], e['cols']], sort_keys=True))
    work = [(ci, ei) for ci, c in enumerate(cases) for ei in range(len(c['exp']))]
    if budget and len(work) > budget:
        work = ctx.rng.sample(work, budget)
        ctx.exhaustive = False
    for n, (ci, ei) in enumerate(work):
        tree, e = cases[ci]['tree'], cases[ci]['exp'][ei]
        pol, m, cols = e['pol'], e['m'], e['cols']
        kind = kind_of(tree)
        want = e['sync']                     # as printed: dict keys in their order, containers with their class
        emptied = kind == 'arrays' and e['index'].get('n') == 0      # the arrays are expected to end with no rows
        only_reindex = kind == 'arrays' and pol['how'] == 'ex'      # an explicit length is df_reindex's business only
        apis = [] if only_reindex else ['sync']
        if cols['how'] == 'none' or kind != 'frames':
            apis.append('reindex')          # the index only
        if kind != 'frames' and not only_reindex:
            apis.append('presync')          # one call with the synchronised arguments
        if m == 'none' and not only_reindex:
            apis.append('index')
        for api in apis:
            o = call(api, tree, pol, m, cols, form=(7 * ci + ei) % 36)
            ctx.evals += 1
            out = o['out']
            if o['after'] != tree:
                report('operand_changed', case_key(o, e['index']), {'after': o['after']})
            elif out['kind'] == 'exc':
                report('raised', case_key(o, e['index']), {'expected_one_of': e['sync'], 'observed': out})
            elif api == 'index':
                if out['v'] != e['index']:
                    report('joint_index', case_key(o, e['index']), {'expected': e['index'], 'observed': out['v']})
            elif api == 'presync':
                got = [collapse(c) for c in out['calls']]
                if len(got) != 1 or got[0] not in [collapse(w) for w in want]:
                    report('presync_array_not_emptied' if emptied else 'presync_arguments', case_key(o, e['index']),
                           {'expected_one_call_with': e['sync'], 'observed': out['calls']})
            else:
                if out['v'] not in want:
                    report('array_not_emptied' if emptied else 'aligned', case_key(o, e['index']), {'expected_one_of': e['sync'], 'observed': out['v']})
        if want[0] != tree:
            ctx.note(('s2c', ci, ei))
        if n % 1499 == 0:
            ctx.sample({'s2c_case': {'tree': tree, 'expect': e}})
        ctx.traces += 1


# ---- C2S: random collections --------------------------------------------------------------------------
def rand_index(rng, T, prev):
    style = rng.random()
    if style < 0.08:
        return []
    if style < 0.25 and prev:
        base = rng.choice(prev)                                     # nested in an earlier index
        return sorted(rng.sample(base, rng.randint(0, len(base))))
    if style < 0.40 and prev:
        base = rng.choice(prev)                                     # irregular data on the span of an earlier index: the same first and
        if len(base) >= 3 and base[-1] - base[0] >= len(base):      # last timestamp, (mostly) as many timestamps, other ones in between
            n = len(base) - 2 if rng.random() < 0.8 else rng.randint(0, base[-1] - base[0] - 1)
            return [base[0]] + sorted(rng.sample(range(base[0] + 1, base[-1]), n)) + [base[-1]]
    if style < 0.45:
        lo = rng.randint(1, T); hi = rng.randint(lo, min(T, lo + rng.randint(0, 12)))   # a contiguous block (blocks are often disjoint)
        return list(range(lo, hi + 1))
    dens = rng.choice([0.15, 0.4, 0.8])
    return [t for t in range(1, T + 1) if rng.random() < dens]


def rand_cell(rng, i, t, pnan):
    if rng.random() < pnan:
        return ["nan", 0]
    r = rng.random()
    if r < 0.7:
        return ["f", [100 * i + t, 1]]
    if r < 0.85:
        return ["f", [rng.choice([0, 1, -3, 7]), 1]]
    return ["f", [2 * rng.randint(-9, 9) + 1, 2]]


def rand_ts(rng, i, T, prev, frames=True):
    idx = rand_index(rng, T, prev)
    prev.append(idx)
    pnan = rng.choice([0.0, 0.15, 0.5])
    r = rng.random()
    if not frames or r < 0.55:
        return {"k": "s", "t": idx, "v": [rand_cell(rng, i, t, pnan) for t in idx]}
    ncol = 1 if r < 0.68 else rng.choice([2, 2, 3])
    cols = sorted(rng.sample(["a", "b", "c", "d"] if ncol > 1 else ["a", "q"], ncol))
    v = [[rand_cell(rng, 10 * i + j, t, pnan) for t in idx] for j, _ in enumerate(cols)]
    if idx and rng.random() < 0.4:                                  # an all-NaN row
        r0 = rng.randrange(len(idx))
        for col in v:
            col[r0] = ["nan", 0]
    return {"k": "f", "t": idx, "c": cols, "v": v}


def rand_array(rng, j):
    n = rng.randint(0, 6)
    r = rng.random()
    if r < 0.2:
        return {"k": "a", "v": [["b", rng.randint(0, 1)] for _ in range(n)]}
    if r < 0.5:
        return {"k": "a", "v": [["f", [rng.choice([100 * j + p, 0, 1, -3]), 1]] for p in range(1, n + 1)]}        # integers, no NaN
    return {"k": "a", "v": [rand_cell(rng, j, p, 0.2) for p in range(1, n + 1)]}


def rand_history(rng):
    """a presync-ed function, 2-5 steps: calls (each part of the policy overridden with probability 0.3) and derivations"""
    joins, meths = ['ij', 'oj', 'lj', 'rj'], ['none', 'ffill', 'bfill']
    dec = {'join': rng.choice(joins), 'm': rng.choice(meths), 'cols': rng.choice(joins)}
    hist, nobj = [], 1
    for _ in range(rng.randint(2, 5)):
        if rng.random() < 0.25 and nobj < 4:
            hist.append({'op': 'derive', 'f': rng.randint(1, nobj), 'v': rng.choice(joins + meths[1:])})
            nobj += 1
        else:
            hist.append({'op': 'call', 'f': rng.randint(1, nobj),
                         'ov': {'join': rng.choice(joins) if rng.random() < 0.3 else '-', 'm': rng.choice(meths) if rng.random() < 0.3 else '-',
                                'cols': rng.choice(joins) if rng.random() < 0.3 else '-'}})
    if hist[-1]['op'] != 'call':
        hist.append({'op': 'call', 'f': nobj, 'ov': {'join': '-', 'm': '-', 'cols': '-'}})
    return dec, hist


def rand_tree(rng, members, top_dict_keys=None):
    """group the members (in order) into a random nesting of lists / dicts"""
    def group(items, depth):
        if len(items) <= 1 and depth > 0 and rng.random() < 0.5:
            return items
        out, i = [], 0
        while i < len(items):
            if depth < 3 and rng.random() < 0.3:
                n = rng.randint(1, min(3, len(items) - i))
                sub = group(items[i:i + n], depth + 1)
                if rng.random() < 0.5:
                    out.append({"k": "l", "items": sub})
                else:
                    keys = rng.sample(['k1', 'k2', 'k3', 'zz', 'a b'], len(sub))       # in any order: the order is part of the container
                    out.append({"k": "d", "cls": rng.choice(CLASSES), "keys": keys, "items": sub})
                i += n
            else:
                out.append(items[i]); i += 1
        return out
    items = group(members, 0)[:6]
    if rng.random() < 0.4:
        return {"k": "d", "cls": rng.choice(CLASSES), "keys": rng.sample(KWS, len(items)), "items": items}
    return {"k": "l", "items": items}


def rand_cols(rng):
    """a column policy: the four joins, none, or an explicit set (possibly with a column nobody has, possibly a single one)"""
    r = rng.random()
    if r < 0.7:
        return {"how": rng.choice(["ij", "oj", "lj", "rj"]), "c": []}
    if r < 0.82:
        return {"how": "none", "c": []}
    return {"how": "ex", "c": sorted(rng.sample(["a", "b", "c", "d", "e"], rng.choice([1, 2, 2, 3])))}


def rand_pol(rng, T, arrays=False, nmax=6):
    r = rng.random()
    if r < 0.75:
        return {"how": rng.choice(["ij", "oj", "lj", "rj"]), "t": []}
    if arrays:
        return {"how": "ex", "t": [], "n": rng.randint(0, nmax + 1)}
    return {"how": "ex", "t": sorted(rng.sample(range(1, T + 4), min(T + 3, rng.choice([0, 1, 3, 8]))))}


def s2c_histories(ctx, cases, budget):
    """TLC's histories of a presync-ed function replayed on one real object each -> observations for Trace_Sync"""
    cases = sorted(cases, key=lambda c: json.dumps(c, sort_keys=True))
    if budget and len(cases) > budget:
        cases = ctx.rng.sample(cases, budget)
        ctx.exhaustive = False
    obs = [call_history(c['tree'], c['dec'], c['hist'], form=n % 6, inforce=c['inforce']) for n, c in enumerate(cases)]
    ctx.traces += len(obs)
    ctx.sample({'s2c_history': {k: obs[len(obs) // 2][k] for k in ('dec', 'hist', 'inforce')}})
    return obs


def s2c_sessions(ctx, cases, budget):
    """TLC's sessions replayed on one real heap each -> observations for Trace_Sync"""
    cases = [json.loads(c) for c in sorted({json.dumps(c, sort_keys=True) for c in cases})]       # (simulated sessions may repeat)
    if budget and len(cases) > budget:
        cases = ctx.rng.sample(cases, budget)
        ctx.exhaustive = False
    obs = [call_session(c['heap'], c['steps'], form=n % 6, final=c['final']) for n, c in enumerate(cases)]
    ctx.sample({'s2c_session': {'heap': obs[len(obs) // 2]['heap'], 'steps': obs[len(obs) // 2]['steps']}}, limit=8)
    return obs


def c2s(ctx, report, n, histories=()):
    obs = list(histories)
    for i in range(n):
        rng = ctx.rng
        T = rng.choice([4, 8, 30, 30])
        if i % 5 == 4:          # a collection of bare arrays of lengths 0..6 (float / integer / boolean, see x_series.array_dtypes)
            na = rng.randint(1, 5)
            members = [rand_array(rng, j) for j in range(1, na + 1)]
            pol = rand_pol(rng, T, arrays=True)
        else:
            prev = []
            members = [rand_ts(rng, j, T, prev) for j in range(1, rng.randint(1, 6) + 1)]
            pol = rand_pol(rng, T)
        for _ in range(rng.choice([0, 0, 1, 2, 3])):
            members.insert(rng.randint(0, len(members)), {"k": "x", "id": rng.randrange(NLEAVES)})
        tree = rand_tree(rng, members)
        m = rng.choice(["none", "ffill", "bfill"])
        cols = rand_cols(rng)
        explicit_len = 'n' in pol
        if i % 25 == 7:         # df_reindex of one bare timeseries (not a collection: df_reindex only)
            bare = [x for x in members if x['k'] in ('s', 'f')]
            if bare:
                obs.append(call('reindex', bare[0], pol, m, cols, form=rng.randrange(36), rng=rng))
        apis = ['reindex'] if explicit_len else rng.sample(['sync', 'reindex', 'presync', 'index'], 2)
        if cols['how'] == 'ex':     # a column set explicitly supplied is df_sync's business (presync takes a join policy for the columns)
            apis = ['sync' if a == 'presync' else a for a in apis]
        for api in apis:
            obs.append(call(api, tree, pol, m, cols, form=rng.randrange(36), rng=rng))
        if i % 6 == 1 and tree['k'] == 'l' or i % 6 == 2 and tree['k'] == 'd':      # a history of calls on one presync-ed function
            dec, hist = rand_history(rng)
            obs.append(call_history(tree, dec, hist, form=rng.randrange(6), rng=rng))
    ctx.evals += sum(len(o['hist']) if o['api'] == 'history' else len(o['steps']) if o['api'] == 'session' else 1 for o in obs)
    bad = ctx.validate('Trace_Sync', obs)
    for ln, clause in bad:
        o = obs[ln - 1]
        report(clause, case_key(o), {'observed': o['out'], 'after_equals_before': o['api'] == 'session' or o['after'] == o['tree']})
    rejected = {ln for ln, _ in bad}
    for k, o in enumerate(obs):
        if o['api'] == 'session':
            places = [x['n'] for x in leaves(o['heap']['cont']) if x['k'] == 'r']
            if k + 1 not in rejected and (len(o['steps']) >= 2 or len(set(places)) < len(places) or any(sh != j + 1 for j, sh in enumerate(o['heap']['share']))):
                ctx.note(('sess', k))
        elif o['api'] == 'history':
            if k + 1 not in rejected and any(s['op'] == 'call' and s['ov'] != {'join': '-', 'm': '-', 'cols': '-'} for s in o['hist'][:-1]):
                ctx.note(('hist', k))
        elif k + 1 not in rejected and o['out']['kind'] != 'exc' and (o['out'].get('v') != o['tree']):
            ctx.note(('c2s', k))
    ctx.sample({'c2s_observation': obs[len(obs) // 3]})
    ctx.sample({'c2s_observation': obs[2 * len(obs) // 3]})


def replay(ctx, body):
    """./check C03 --replay <file>: re-run one recorded case and let Trace_Sync judge it"""
    c = body['case']
    if c['api'] == 'session':
        o = call_session(c['heap'], c['steps'], form=c.get('form', 0))
        bad = ctx.validate('Trace_Sync', [o])
        print(json.dumps({'verdict': bad[0][1] if bad else 'explained by the specification', 'observed': o['out']})[:3000])
        return 1 if bad else 0
    if c['api'] == 'history':
        o = call_history(c['tree'], c['dec'], c['hist'], form=c.get('form', 0))
        bad = ctx.validate('Trace_Sync', [o])
        print(json.dumps({'verdict': bad[0][1] if bad else 'explained by the specification', 'observed': o['out']})[:3000])
        return 1 if bad else 0
    o = call(c['api'], c['tree'], c['pol'], c['method'], c['colpol'], form=c.get('form', 0))
    bad = ctx.validate('Trace_Sync', [o])
    print(json.dumps({'verdict': bad[0][1] if bad else 'explained by the specification', 'observed': o['out']})[:3000])
    return 1 if bad else 0


def run(ctx):
    ctx.rule = ('S2C: TLC-enumerated collections x policy x method x column policy (ij / oj / lj / rj / explicit set / none) replayed through '
                'df_sync, df_reindex, df_index and a presync-decorated recorder, == with the expected outcome (dict keys in their order, '
                'containers with their class); TLC-enumerated histories of calls (call-time overrides) and derivations (.oj, .ffill ..) '
                'on one presync-ed function replayed on one real object and judged by Trace_Sync; TLC-enumerated SESSIONS on one heap of '
                'caller-owned objects (families: two calls sharing every argument object incl. the method object spelled None / str / list / tuple; '
                'operands built on one shared Index / columns object or placed twice, >= 3 inputs in every order, every entry point x ij / oj / lj / rj / '
                'explicit index = one of the operands; frames under row x column policy; call ; in-place edit of an operand / the method list / the '
                'container / the result ; the same or a colliding call; thorough: two-call sessions over the sharing family and TLC-simulated 6-step '
                'sessions) replayed on ONE real heap, outcome and heap recorded after every step and judged by Trace_Sync (clauses '
                'method_argument_changed / container_changed / operand_changed / result_aliases_argument / session_memory / session_<clause>); '
                'C2S: random collections and random histories validated by Trace_Sync. '
                'Non-trivial = the expected outcome differs from the input collection (something was reindexed, filled, cut or padded), '
                'for a history: a call with an override is followed by another call, for a session: two or more steps, or an object placed twice / '
                'built on another operand\'s Index object; distinct by (collection, policy, method, columns) / history.')
    report = Reporter(ctx)
    ctx.exhaustive = True
    if ctx.quick:
        ctx.mc('MC_Sync', 'MC_Sync_quick.cfg')
        s2c(ctx, report, ctx.generate('MC_Sync', 'MC_Sync_gen_quick.cfg'), 2500)
        s2c(ctx, report, ctx.generate('MC_Sync', 'MC_Sync_gen_frames.cfg'), 1700)         # frames and column-set shapes
        ctx.mc('MC_SyncSess', 'MC_SyncSess_quick.cfg')
        hs = s2c_histories(ctx, ctx.generate('MC_SyncHist', 'MC_SyncHist_gen_quick.cfg'), 300)
        for fam, budget in (('args', 0), ('share', 0), ('frames', 0), ('edit', 500)):          # sessions on one heap of caller-owned objects
            hs += s2c_sessions(ctx, ctx.generate('MC_SyncSess', 'MC_SyncSess_gen_%s.cfg' % fam), budget)
        c2s(ctx, report, 450, hs)
    else:
        ctx.mc('MC_Sync', 'MC_Sync_thorough.cfg')
        s2c(ctx, report, ctx.generate('MC_Sync', 'MC_Sync_gen_quick.cfg'), 25000)
        s2c(ctx, report, ctx.generate('MC_Sync', 'MC_Sync_gen_frames.cfg'), 15000)
        s2c(ctx, report, ctx.generate('MC_Sync', 'MC_Sync_gen_cols.cfg'), 5000)
        s2c(ctx, report, ctx.generate('MC_Sync', 'MC_Sync_gen_thorough.cfg'), 30000)
        ctx.mc('MC_SyncHist', 'MC_SyncHist_thorough.cfg')
        hs = s2c_histories(ctx, ctx.generate('MC_SyncHist', 'MC_SyncHist_gen_quick.cfg'), 0)
        hs += s2c_histories(ctx, ctx.generate('MC_SyncHist', 'MC_SyncHist_gen_thorough.cfg'), 4000)
        ctx.mc('MC_SyncSess', 'MC_SyncSess_quick.cfg')
        ctx.mc('MC_SyncSess', 'MC_SyncSess_thorough.cfg')
        for fam, budget in (('args', 0), ('share', 0), ('frames', 0), ('edit', 0), ('share2', 3000)):
            hs += s2c_sessions(ctx, ctx.generate('MC_SyncSess', 'MC_SyncSess_gen_%s.cfg' % fam), budget)
        # TLC-simulated longer sessions (6 steps: calls of every entry point interleaved with the caller's in-place edits)
        hs += s2c_sessions(ctx, ctx.generate('MC_SyncSess', 'MC_SyncSess_gen_mix.cfg', simulate=400, depth=7, seed=ctx.seed + 1, workers=1), 2500)
        c2s(ctx, report, 6000, hs)
    ctx.extra['violation_signatures'] = report.summary()
    ctx.assumptions += [
        'time k is rendered as 2000-01-01 + k days; values are small integers / halves, exactly representable',
        'containers are lists and dicts (the statement names these); tuples only as the *args of a presync call; dict keys other than "index"',
        'a dict is an ordered container of a class (dict, OrderedDict, pyg Dict, dictattr): "structure preserved" includes the key order seen by '
        'iteration and the class, at every level; a presync-ed function with **kwargs receives its keywords in the order of the call; string keys',
        'column policies: ij / oj / lj / rj (first / last multi-column frame met, in the order of iteration) and, for df_sync only, a column set '
        'explicitly supplied as a pd.Index (a list is not accepted by the API; presync takes a join policy); the order of the columns is no part of a frame',
        'the dtype of a bare array (float64 / float32 / int64 / int32 / bool) is a rendering; named deviation BoolAsNumber: in a NaN-padded array True / False may be 1 / 0',
        'a presync-ed function is an object: call-time join= / method= / columns= hold for that call only; .ij/.oj/.lj/.rj/.ffill/.bfill are new objects; '
        'histories of 2 (thorough 3; random up to 6) steps on up to 4 objects, every call on the same argument objects',
        'sessions: series / frames only (a bare array of the joint length comes back as the very same object - the statement promises no copy - so '
        'results of array collections are not edited); the method object is None, a fill, or a list / tuple of ONE fill (a list as long as the '
        'collection is read by pyg as one method per member: outside the quantifier); the caller\'s edits are rendered with pandas\' own in-place '
        'operations (ts.index = .., ts.loc[t] = v, ts.drop(t, inplace = True), ts.iloc[p] = v); a call owns nothing of the caller: after every call '
        'operands, container (same objects at the same places) and method object are compared with their state before the call',
        'a NaN cell is no observation: fill methods look for the last/next non-NaN one (also at timestamps the series has)',
        'frames under a fill method: both readings of "observation" (row / cell) are admitted',
        'bare arrays are 1-d; collections mixing arrays and timeseries are outside the quantifier',
        'small-scope: MC/S2C over <= 3 (thorough 4) timestamps, irregular indices on a common span over 5 (6); C2S over <= 30']
