"""C19 - container lifting maps leaf-wise, preserves shape, and is schedule independent.

Python only renders the abstract cases TLC printed into real objects, calls the public API of
pyg_base (loop(list, tuple, dict)(f), lower/upper/strip/proper/f12/as_float/replace/split, zipper,
lens, as_list, as_tuple, waiter), encodes what came back and compares it with `==` / `in` against
the outcomes TLC printed (S2C) or hands the encoded observation to spec/Trace_Lift.tla (C2S).
"""
import asyncio, warnings
from collections import OrderedDict
from harness.enc import tag as _tag, untag

MAPS = ('m', 'om')


def tag(v):
    """harness.enc.tag, except that an OrderedDict keeps the order of its keys: ["om", pairs in insertion order]
    (a plain dict is ["m", pairs in key order]: its == does not see the order)"""
    if isinstance(v, OrderedDict):
        return ['om', [[str(k), tag(x)] for k, x in v.items()]]
    if isinstance(v, dict):
        return ['m', [[str(k), tag(x)] for k, x in sorted(v.items())]]
    if isinstance(v, tuple):
        return ['t', [tag(x) for x in v]]
    if isinstance(v, list):
        return ['l', [tag(x) for x in v]]
    return _tag(v)
from harness.core import Machinery


# ---- the recording functions: the lifted result states exactly which leaf met which companions --
def f1(x):
    return ('f', x)


def f2(x, a):
    return ('f', x, a)


def f3(x, a, b):
    return ('f', x, a, b)


_G = {}


def lifted(n):
    if n not in _G:
        from pyg_base import loop
        _G[n] = loop(list, tuple, dict)([f1, f2, f3][n])
    return _G[n]


def build(t, rev=False):
    """abstract tagged tree -> Python object; rev = dicts are filled in reverse key order"""
    k, p = t[0], t[1]
    if k == 'l':
        return [build(x, rev) for x in p]
    if k == 't':
        return tuple(build(x, rev) for x in p)
    if k == 'm':
        return {kk: build(x, rev) for kk, x in (reversed(p) if rev else p)}
    if k == 'om':
        return OrderedDict((kk, build(x, rev)) for kk, x in p)
    return untag(t)


def outcome(thunk):
    try:
        return tag(thunk())
    except (OverflowError, RecursionError):
        raise
    except Exception as e:
        return ['exc', type(e).__name__]


FORMS = {0: ['pos', 'allkw'], 1: ['pos', 'kw', 'allkw'], 2: ['pos', 'kw', 'mixed', 'allkw']}
NPOS = {'pos': None, 'kw': 0, 'mixed': 1, 'allkw': 0}


def call_lift(x, cs, form, rev=False):
    g = lifted(len(cs))
    X = build(x, rev)
    C = [build(c, rev) for c in cs]
    names = ['a', 'b']
    if form == 'pos':
        return outcome(lambda: g(X, *C))
    if form == 'kw':
        return outcome(lambda: g(X, **dict(zip(names, C))))
    if form == 'mixed':
        return outcome(lambda: g(X, C[0], **dict(zip(names[1:], C[1:]))))
    if form == 'allkw':
        return outcome(lambda: g(x=X, **dict(zip(names, C))))
    raise ValueError(form)


def npos(form, cs):
    return len(cs) if form == 'pos' else NPOS[form]


LIB_ARGS = {'replace': ['old', 'new'], 'split': ['sep', 'dedup']}


def call_lib(fn, x, cs, form, rev=False):
    import pyg_base
    f = getattr(pyg_base, fn)
    X = build(x, rev)
    C = [build(c, rev) for c in cs]
    if form == 'pos':
        return outcome(lambda: f(X, *C))
    if form == 'kw':
        return outcome(lambda: f(X, **dict(zip(LIB_ARGS[fn], C))))
    raise ValueError(form)


def lib_forms(fn):
    return ['pos', 'kw'] if fn in LIB_ARGS else ['pos']


def call_zip(args, which='zip'):
    from pyg_base import zipper, lens
    A = [build(a) for a in args]
    if which == 'zip':
        return outcome(lambda: list(zipper(*A)))
    return outcome(lambda: lens(*A))


def norm_obs(x):
    from pyg_base import as_list, as_tuple
    out = []
    for name, f in (('as_list', as_list), ('as_tuple', as_tuple)):
        X = build(x)
        once = f(X)
        twice = f(once)
        out.append({'k': 'norm', 'fn': name, 'x': x, 'once': tag(once), 'twice': tag(twice)})
    return out


def n_leaves(t):
    return sum(n_leaves(c[1] if t[0] in MAPS else c) for c in t[1]) if is_cont(t) else 1


def is_cont(t):
    return t[0] in ('l', 't', 'm', 'om')


def lift_case(c, form, **extra):
    """the matchable description of one replayed call"""
    d = {'op': 'loop' if c['k'] == 'lift' else c['fn'], 'form': form, 'x': c['x'], 'cs': c['cs']}
    d.update(extra)
    return d


# ---- S2C: replay of the cases TLC enumerated -------------------------------------------------
def s2c(ctx, cases):
    norm = []
    leaves_seen = set()
    for n, c in enumerate(cases):
        k = c['k']
        if k == 'lift':
            for form in FORMS[len(c['cs'])]:
                got = call_lift(c['x'], c['cs'], form)
                ctx.evals += 1
                if got not in c['want']:
                    p = npos(form, c['cs'])
                    if c['exh'] and p > 0 and got == ['exc', 'TypeError']:
                        clause = 'lift_generator_exhaustion'       # the class GeneratorExhaustion of spec/Lift.tla
                    else:
                        clause = 'lift_raised' if got[0] == 'exc' else 'lift_result'
                    ctx.violation(clause, lift_case(c, form, positional=p > 0),
                                  {'expected_one_of': c['want'], 'observed': got})
            if is_cont(c['x']) and n_leaves(c['x']) >= 2 and any(is_cont(a) for a in c['cs']):
                ctx.note(('lift', repr((c['x'], c['cs']))))
        elif k == 'lib':
            for form in lib_forms(c['fn']):
                got = call_lib(c['fn'], c['x'], c['cs'], form)
                ctx.evals += 1
                if got not in c['want']:
                    ctx.violation('lib_raised' if got[0] == 'exc' else 'lib_result', lift_case(c, form),
                                  {'expected_one_of': c['want'], 'observed': got})
            if c['want'][0] != c['x']:
                ctx.note(('lib', c['fn'], repr((c['x'], c['cs']))))
        elif k == 'zip':
            got = call_zip(c['args'])
            ctx.evals += 1
            if got != c['want']:
                ctx.violation('zip_raised' if got[0] == 'exc' else 'zip_value', {'op': 'zipper', 'args': c['args']},
                              {'expected': c['want'], 'observed': got})
            for want in c['lens']:
                got = call_zip(c['args'], 'lens')
                ctx.evals += 1
                if got != want:
                    ctx.violation('lens_raised' if got[0] == 'exc' else 'lens_value', {'op': 'lens', 'args': c['args']},
                                  {'expected': want, 'observed': got})
            if len({len(a[1]) for a in c['args'] if a[0] in 'lt'} | {1}) > 1:
                ctx.note(('zip', repr(c['args'])))
        elif k == 'norm':
            obs = norm_obs(c['x'])
            ctx.evals += 4
            for o in obs:
                key = 'aslist' if o['fn'] == 'as_list' else 'astuple'
                if (o['fn'] == 'as_list' or not c['corner']) and o['once'] != c[key]:
                    ctx.violation(o['fn'] + '_value', {'op': o['fn'], 'x': c['x']}, {'expected': c[key], 'observed': o['once']})
            norm += obs            # idempotence (and the corner) is judged by Trace_Lift
            if c['x'][0] in 'lt':
                ctx.note(('norm', repr(c['x'])))
        else:
            raise Machinery('unknown case kind %r' % (k,))
        ctx.traces += 1
        if n % 4001 == 7:
            ctx.sample({'s2c_case': c})
    return norm


# ---- waiter: every TLC behaviour is a schedule ----------------------------------------------
LAZY = ('coro', 'obj', 'objfut', 'objcoro', 'objobj', 'objnow', 'coronow', 'gencoro')     # = LazyKinds of spec/Lift.tla
NOW = ('done', 'objnow', 'coronow')                                                       # = NowKinds
DEP = ('coro', 'obj', 'objcoro', 'objobj', 'gencoro')                                     # = DepKinds
SINGLE_USE = ('coro', 'coronow', 'gencoro')                  # objects that can be awaited only once
AW_KINDS = ['fut', 'task', 'coro', 'obj', 'objfut', 'objcoro', 'objobj', 'gather', 'shield', 'done', 'objnow', 'coronow']
LOOK_KINDS = ['gen', 'agen', 'afn', 'cls', 'inst', 'attr']


class _Awaitable:
    """a plain object that can be awaited: neither a coroutine nor a Future - it implements __await__"""
    __slots__ = ('_make',)

    def __init__(self, make):
        self._make = make

    def __await__(self):
        return self._make()


class _Finished:
    """an iterator that is finished from the start: the first next() already delivers the result"""
    def __init__(self, value):
        self.value = value

    def __iter__(self):
        return self

    def __next__(self):
        raise StopIteration(self.value)


def _lookalike(kind):
    """objects that are NOT awaitable although they look the part"""
    if kind == 'gen':
        return (x for x in (1, 2))
    if kind == 'agen':
        async def agen():
            yield 1
        return agen()
    if kind == 'afn':
        async def afn():
            return 1
        return afn
    if kind == 'cls':
        class HasAwait:
            def __await__(self):
                return iter(())
        return HasAwait
    if kind == 'inst':
        class Plain:
            pass
        o = Plain()
        o.__await__ = lambda: iter(())                  # on the instance: `await` looks on the type
        return o
    if kind == 'attr':
        class Duck:
            def result(self):
                return 1

            def done(self):
                return True

            def add_done_callback(self, fn):
                pass
        o = Duck()
        setattr(o, 'await', True)
        return o
    raise ValueError(kind)


def tag_with(v, ident):
    """tag(), except that the objects the driver put into the structure (awaitables, look-alikes) are
    recognised by identity and come back as the abstract leaf they were rendered from"""
    if id(v) in ident:
        return ident[id(v)]
    if isinstance(v, OrderedDict):
        return ['om', [[str(k), tag_with(x, ident)] for k, x in v.items()]]
    if isinstance(v, dict):
        return ['m', [[str(k), tag_with(x, ident)] for k, x in sorted(v.items())]]
    if isinstance(v, tuple):
        return ['t', [tag_with(x, ident) for x in v]]
    if isinstance(v, list):
        return ['l', [tag_with(x, ident) for x in v]]
    return _tag(v)


def aw_kinds(t, out):
    if t[0] == 'aw':
        out[t[1][0]] = t[1][1]
    elif t[0] in 'lt':
        for x in t[1]:
            aw_kinds(x, out)
    elif t[0] in MAPS:
        for _, x in t[1]:
            aw_kinds(x, out)
    return out


def run_schedule(tree, vals, order, rev=False):
    """await waiter(structure) on a hand-driven event loop.  Every awaitable i delivers vals[i]; those that
    need a release (every kind but NOW) deliver once the driver has released them (set_result on their gate
    future) - in exactly the given order, the loop being stepped in between.  Kinds (spec/Lift.tla):
    'fut' the gate future itself; 'task' a running task awaiting the gate; 'coro' an UN-STARTED coroutine
    object: it runs only once waiter awaits it, notes that it has started, then waits until the awaitable it
    depends on (third payload field, 0 = none) has started, then for its gate; 'obj' a plain object whose
    __await__ is a generator doing the same; 'objfut' / 'objcoro' / 'objobj' plain objects whose __await__
    hands out the iterator of the gate future / of a fresh coroutine / delegates to another plain object;
    'gather' asyncio.gather(gate) (delivers the list of the result); 'shield' asyncio.shield(running task);
    'done' a future that already has its result; 'objnow' a plain object whose __await__ returns a finished
    iterator; 'coronow' a coroutine that never suspends; 'gencoro' a types.coroutine generator.
    ['look', [id, kind]] leaves are non-awaitable look-alikes.  rev: dicts are filled in reverse key order.
    Returns the observation; objects of the driver that are still in what came back are encoded as the
    abstract leaf they were made from (identity)."""
    import types
    from pyg_base import waiter
    loop = asyncio.new_event_loop()
    gate, made, begun, running, coros, ident, keep = {}, {}, {}, [], [], {}, []
    val = {i: v for i, v in vals}

    def fut_of(d, i):
        if i not in d:
            d[i] = loop.create_future()
        return d[i]

    def note(i):
        running.append(i)
        if not fut_of(begun, i).done():
            begun[i].set_result(True)

    async def co(i, dep):
        note(i)
        if dep:
            await fut_of(begun, dep)
        return await fut_of(gate, i)

    def obj_body(i, dep):
        def body():                                   # a generator: what `await obj` drives
            note(i)
            if dep:
                yield from fut_of(begun, dep).__await__()
            return (yield from fut_of(gate, i).__await__())
        return body

    def make(i, kind, dep):
        fut_of(gate, i)
        if kind == 'fut':
            note(i)
            return gate[i]
        if kind == 'task':
            return loop.create_task(co(i, dep))
        if kind == 'coro':
            return co(i, dep)
        if kind == 'obj':
            return _Awaitable(obj_body(i, dep))
        if kind == 'objfut':
            def hand_out():
                note(i)
                return gate[i].__await__()
            return _Awaitable(hand_out)
        if kind == 'objcoro':
            return _Awaitable(lambda: co(i, dep).__await__())
        if kind == 'objobj':
            inner = _Awaitable(obj_body(i, dep))

            def delegate():
                return (yield from inner.__await__())
            return _Awaitable(delegate)
        if kind == 'gather':
            note(i)
            return asyncio.gather(gate[i])
        if kind == 'shield':
            return asyncio.shield(loop.create_task(co(i, 0)))
        if kind == 'done':
            note(i)
            gate[i].set_result(untag(val[i]))
            return gate[i]
        if kind == 'objnow':
            def finished():
                note(i)
                return _Finished(untag(val[i]))
            return _Awaitable(finished)
        if kind == 'coronow':
            async def now():
                note(i)
                return untag(val[i])
            return now()
        if kind == 'gencoro':
            @types.coroutine
            def gen():
                note(i)
                if dep:
                    yield from fut_of(begun, dep)
                return (yield from gate[i])
            return gen()
        raise ValueError(kind)

    def mk(t):
        k, p = t[0], t[1]
        if k == 'aw':
            i, kind, dep = p
            if kind in SINGLE_USE or i not in made:
                o = make(i, kind, dep)
                if kind in SINGLE_USE:
                    coros.append(o)
                made[i] = o
                keep.append(o)
                ident[id(o)] = t
            return made[i]
        if k == 'look':
            o = _lookalike(p[1])
            keep.append(o)
            ident[id(o)] = t
            return o
        if k == 'l':
            return [mk(x) for x in p]
        if k == 't':
            return tuple(mk(x) for x in p)
        if k == 'm':
            return {kk: mk(x) for kk, x in (reversed(p) if rev else p)}
        if k == 'om':
            return OrderedDict((kk, mk(x)) for kk, x in p)
        return untag(t)

    def step(n=3):
        for _ in range(n):
            loop.run_until_complete(asyncio.sleep(0))

    try:
        structure = mk(tree)
        is_lazy = {i for i, kd in aw_kinds(tree, {}).items() if kd in LAZY}
        main = loop.create_task(waiter(structure))
        step(6)
        started = sorted(i for i in set(running) if i in is_lazy)      # before anything is released
        done = []
        for i in order:
            step()
            done.append(main.done())
            gate[i].set_result(untag(val[i]))
        n = 0
        while not main.done() and n < 80:
            step(1)
            n += 1
        done.append(main.done())
        if not main.done():
            out = ['exc', 'NeverReturned']
            main.cancel()
            step()
        elif main.exception() is not None:
            out = ['exc', type(main.exception()).__name__]
        else:
            out = tag_with(main.result(), ident)
        for o in made.values():
            if isinstance(o, asyncio.Future) and not o.done():
                o.cancel()
        for t in asyncio.all_tasks(loop):
            t.cancel()
        step()
        for c in coros:
            try:
                c.close()
            except RuntimeError:
                pass
        return {'k': 'waiter', 'tree': tree, 'vals': vals, 'order': order, 'rev': rev, 'started': started, 'done': done, 'out': out}
    finally:
        loop.close()


def waiter_case(tree, order, rev):
    """the matchable description of one schedule; family = 'gencoro' when the structure holds the legacy kind"""
    kinds = set(aw_kinds(tree, {}).values())
    return {'op': 'waiter', 'family': 'gencoro' if 'gencoro' in kinds else 'std', 'tree': tree, 'order': order, 'rev': rev}


def s2c_waiter(ctx, behaviours, report=None):
    """report: where unexplained cases go (default ctx.violation)"""
    import json
    report = report or ctx.violation
    behaviours = sorted(behaviours, key=lambda b: json.dumps([b['tree'], b['order']]))     # TLC prints in any order
    for n, b in enumerate(behaviours):
        o = run_schedule(b['tree'], b['vals'], b['order'], rev=n % 2 == 1)
        ctx.evals += 1
        ctx.traces += 1
        nn = len(b['order'])
        case = waiter_case(b['tree'], b['order'], n % 2 == 1)
        left = o['out'][0] != 'exc' and bool(aw_kinds(o['out'], {}))         # only names the clause
        if o['done'] != b['done']:
            report('waiter_returned_early' if any(o['done'][:-1]) else 'waiter_never_returns', case,
                   {'done': o['done'], 'started': o['started'], 'observed': o['out']})
        elif o['started'] != b['started']:
            report('waiter_awaitable_left' if left else 'waiter_not_all_started', case,
                   {'expected_started': b['started'], 'started': o['started'], 'expected': b['out'], 'observed': o['out']})
        elif o['out'] != b['out']:
            report('waiter_raised' if o['out'][0] == 'exc' else 'waiter_awaitable_left' if left else 'waiter_result', case,
                   {'expected': b['out'], 'observed': o['out']})
        kinds = aw_kinds(b['tree'], {})
        if nn >= 2:
            ctx.note(('waiter', repr((b['tree'], b['order']))))
        elif any(k not in ('fut', 'coro', 'task') for k in kinds.values()):
            ctx.note(('waiter-kind', repr(b['tree'])))
        if n % 1201 == 5 or (n % 397 == 3 and any(k.startswith('obj') for k in kinds.values())):
            ctx.sample({'s2c_schedule': {'tree': b['tree'], 'order': b['order'], 'returned': o['out']}}, limit=8)


LEGACY_WHAT = ('waiter leaves a generator-based coroutine (types.coroutine) un-awaited: awaitable for the language '
               '(inspect.isawaitable) but not an instance of collections.abc.Awaitable (_waiter.py leaf test)')


def s2c_waiter_all(ctx, behaviours):
    """The schedules of structures holding the legacy kind of awaitable (generator-based coroutines) are enumerated and
    replayed like all others, but enter the verdict only through a known finding whose `where` names family = 'gencoro'
    (known_findings.json is not this property's to edit); without one, what the replay finds is shown and listed among
    the assumptions."""
    legacy = [b for b in behaviours if 'gencoro' in aw_kinds(b['tree'], {}).values()]
    s2c_waiter(ctx, [b for b in behaviours if 'gencoro' not in aw_kinds(b['tree'], {}).values()])
    listed = True       # repaired in /repo (waiter uses inspect.isawaitable): the legacy family is judged like every other one
    found = []
    s2c_waiter(ctx, legacy, report=None if listed else (lambda clause, case, detail=None: found.append((clause, case, detail))))
    if found:
        print('NOT-IN-VERDICT property=C19 family=gencoro %d of %d schedules, e.g. clause=%s tree=%r observed=%r : %s' % (
            len(found), len(legacy), found[0][0], found[0][1]['tree'], (found[0][2] or {}).get('observed'), LEGACY_WHAT))
        ctx.assumptions.append('kept out of the verdict (no known finding lists it): %s - %d of the %d replayed legacy schedules'
                               % (LEGACY_WHAT, len(found), len(legacy)))
    elif not listed:
        ctx.assumptions.append('generator-based coroutines (types.coroutine) replayed as a separate family (%d schedules): all explained' % len(legacy))


# ---- C2S: random, larger and stranger inputs, judged by Trace_Lift ---------------------------
KEYS = ['a', 'b', 'c', 'd', 'k1', 'z']
STRU = ["", "ab", "Ab C", " a b ", "THE FOX", "1.3k", "100%", "1,234", "1.5", "7", "2m"]
NUMU = [['i', 3], ['f', [3, 2]], ['f', [2, 1]], ['f', [-1, 4]], ['n', 0], ['b', 1]]
REPT = ["a,b", "a b", "a  b", "a,,b", "ab", ""]
SPLT = ["a b", "a  b", "a.b c", "", "ab"]
REP_OLD = [['s', ','], ['s', ' '], ['s', '  '], ['l', [['s', ','], ['s', ' ']]], ['t', [['s', '  '], ['s', ',']]],
           ['l', [['s', ' '], ['s', ','], ['s', '  ']]], ['l', [['s', ',']]]]
REP_NEW = [['n', 0], ['s', ''], ['s', ' '], ['s', ',']]
SEPS = [['s', ' '], ['s', '.'], ['l', [['s', ' '], ['s', '.']]], ['t', [['s', ' '], ['s', '.']]], ['t', [['s', '.']]],
        ['l', [['s', '.']]], ['l', []], ['t', []]]


def rand_tree(rng, depth, width, leaf, p_leaf=0.3):
    if depth == 0 or rng.random() < p_leaf:
        return leaf()
    kind = rng.choice(['l', 't', 'm', 'm', 'om'])
    n = rng.choice([0, 1, 2, 2, 3, 3, width])
    if kind in MAPS:
        keys = sorted(rng.sample(KEYS, min(n, len(KEYS))))
        if kind == 'om':
            rng.shuffle(keys)                      # an OrderedDict filled in any order
        return [kind, [[k, rand_tree(rng, depth - 1, width, leaf, p_leaf)] for k in keys]]
    return [kind, [rand_tree(rng, depth - 1, width, leaf, p_leaf) for _ in range(n)]]


def counter_leaf(start):
    box = [start]

    def leaf():
        box[0] += 1
        return ['i', box[0]]
    return leaf


def relabel(t, leaf, swap=False, prune=None, rng=None):
    """same shape, fresh leaves; swap: lists <-> tuples; prune: probability of cutting a subtree to a scalar"""
    if not is_cont(t):
        return leaf()
    if prune and rng.random() < prune:
        return leaf()
    k = t[0]
    if swap and k in 'lt':
        k = 'l' if k == 't' else 't'
    if k in MAPS:
        return [k, [[kk, relabel(v, leaf, swap, prune, rng)] for kk, v in t[1]]]
    return [k, [relabel(v, leaf, swap, prune, rng) for v in t[1]]]


def perturb(t, rng, leaf):
    """same shape except that one container gets another length / another key"""
    if not is_cont(t):
        return ['l', [leaf(), leaf()]]
    if t[1] and rng.random() < 0.5:
        i = rng.randrange(len(t[1]))
        if t[0] in MAPS:
            return [t[0], [[kk, perturb(v, rng, leaf) if j == i else v] for j, (kk, v) in enumerate(t[1])]]
        return [t[0], [perturb(v, rng, leaf) if j == i else v for j, v in enumerate(t[1])]]
    if t[0] in MAPS:
        if t[1] and rng.random() < 0.5:
            return [t[0], t[1][:-1] + [['zz', leaf()]]]          # same number of keys, another key
        return [t[0], t[1] + [['zz', leaf()]]]
    if t[1] and rng.random() < 0.5:
        return [t[0], t[1][:-1]]
    return [t[0], t[1] + [leaf()]]


def deep_companion(x, rng, leaf):
    """a sequence of another length holding sequences of x's length (named deviation DeepMatch)"""
    if x[0] in 'lt':
        n = len(x[1])
        rows = rng.choice([n + 1, n + 2, 1 if n != 1 else 3])
        return [rng.choice('lt'), [[rng.choice('lt'), [leaf() for _ in range(n)]] for _ in range(rows)]]
    if x[0] in MAPS:
        return ['m', [['p', ['m', sorted([k, leaf()] for k, _ in x[1])]], ['q', leaf()]]]
    return leaf()


def rand_companion(rng, x, leaf):
    r = rng.random()
    if r < 0.15:
        return rng.choice([['i', 7], ['s', 'ab'], ['n', 0], ['s', ''], ['b', 1]])
    if r < 0.40:
        return relabel(x, leaf, swap=rng.random() < 0.3)
    if r < 0.55:
        return relabel(x, leaf, prune=0.4, rng=rng)
    if r < 0.75:
        return perturb(relabel(x, leaf), rng, leaf)
    if r < 0.85:
        return deep_companion(x, rng, leaf)
    return rand_tree(rng, 3, 3, leaf)


def with_deps(tree, rng):
    """random dependencies among the awaitables that can wait (DepKinds): i can only finish after dep has started"""
    cor = []

    def walk(t):
        if t[0] == 'aw':
            if t[1][1] in DEP:
                cor.append(t[1][0])
        elif is_cont(t):
            for c in t[1]:
                walk(c[1] if t[0] in MAPS else c)
    walk(tree)

    cor = sorted(set(cor))
    dep = {i: rng.choice([j for j in cor if j != i]) for i in cor if len(cor) > 1 and rng.random() < 0.6}      # one per object

    def put(t):
        if t[0] == 'aw':
            if t[1][0] in dep:
                return ['aw', [t[1][0], t[1][1], dep[t[1][0]]]]
            return t
        if t[0] in MAPS:
            return [t[0], [[k, put(v)] for k, v in t[1]]]
        if is_cont(t):
            return [t[0], [put(v) for v in t[1]]]
        return t
    return put(tree)


def c2s(ctx, n_lift, n_lib, n_zip, n_norm, n_wait, extra_obs=()):
    rng = ctx.rng
    obs = list(extra_obs)
    # lifted recording function
    for _ in range(n_lift):
        x = rand_tree(rng, 4, 4, counter_leaf(0), p_leaf=0.15)
        leaf = counter_leaf(1000)
        cs = [rand_companion(rng, x, leaf) for _ in range(rng.choice([0, 1, 1, 1, 2, 2]))]
        for form in rng.sample(FORMS[len(cs)], 2):
            rev = rng.random() < 0.3
            o = {'k': 'lift', 'fn': 'f', 'x': x, 'cs': cs, 'form': form, 'npos': npos(form, cs), 'rev': rev,
                 'out': call_lift(x, cs, form, rev)}
            obs.append(o)
        if is_cont(x) and n_leaves(x) >= 2 and any(is_cont(a) for a in cs):
            ctx.note(('c2s-lift', repr((x, cs))))
    # library functions
    for _ in range(n_lib):
        fn = rng.choice(['lower', 'upper', 'strip', 'proper', 'f12', 'as_float', 'replace', 'replace', 'split', 'split'])
        if fn == 'replace':
            pool = [['s', s] for s in REPT] + [['i', 3], ['n', 0]]
            cs = [rng.choice(REP_OLD), rng.choice(REP_NEW)]
        elif fn == 'split':
            pool = [['s', s] for s in SPLT] + [['i', 3], ['n', 0]]
            cs = [rng.choice(SEPS), ['b', rng.choice([0, 1])]]
        else:
            pool = [['s', s] for s in STRU] + NUMU
            cs = []
        x = rand_tree(rng, 4, 4, lambda: rng.choice(pool), p_leaf=0.2)
        form = rng.choice(lib_forms(fn))
        o = {'k': 'lib', 'fn': fn, 'x': x, 'cs': cs, 'form': form, 'npos': 0, 'out': call_lib(fn, x, cs, form, rng.random() < 0.3)}
        obs.append(o)
        if o['out'] != x:
            ctx.note(('c2s-lib', fn, repr((x, cs))))
    # zipper / lens
    for _ in range(n_zip):
        lens_only = rng.random() < 0.3
        common = rng.choice([0, 1, 2, 3, 5, 8])
        args = []
        for j in range(rng.choice([0, 1, 2, 2, 3, 3, 4, 5])):
            r = rng.random()
            if r < 0.25 and not lens_only:
                args.append(rng.choice([['i', 100 + j], ['s', 'ab'], ['n', 0], ['s', '']]))
            else:
                n = common if r < 0.7 else 1 if r < 0.85 else rng.choice([0, 2, 3, 4])
                args.append([rng.choice('lt'), [['i', 10 * j + i] for i in range(n)]])
        which = 'lens' if lens_only else 'zip'
        obs.append({'k': which, 'args': args, 'out': call_zip(args, which)})
        if len({len(a[1]) for a in args if a[0] in 'lt'} | {1}) > 1:
            ctx.note(('c2s-zip', repr(args)))
    # as_list / as_tuple
    for _ in range(n_norm):
        x = rand_tree(rng, 3, 3, lambda: rng.choice([['i', 1], ['s', 'ab'], ['n', 0], ['f', [1, 2]]]), p_leaf=0.25)
        r = rng.random()
        if r < 0.2:
            x = ['t', [x]]
        elif r < 0.4:
            x = ['l', [x]]
        obs += norm_obs(x)
    # waiter under random schedules: awaitables of every kind, mixed, next to look-alikes and plain leaves
    for _ in range(n_wait):
        box = [0, 100]
        budget = rng.choice([0, 1, 2, 3, 4, 5, 6, 6])
        shared = rng.random() < 0.15
        classic = rng.random() < 0.3                     # futures / coroutines / tasks only
        share_kind = rng.choice(['fut', 'fut', 'obj', 'objfut', 'done', 'shield', 'objnow'])

        def leaf():
            if box[0] < budget and rng.random() < 0.7:
                box[0] += 1
                kind = share_kind if shared else rng.choice(['fut', 'coro', 'coro', 'task']) if classic else rng.choice(AW_KINDS)
                return ['aw', [box[0], kind, 0]]
            if shared and box[0] and rng.random() < 0.3:
                return ['aw', [rng.randint(1, box[0]), share_kind, 0]]
            if not classic and rng.random() < 0.25:
                box[1] += 1
                return ['look', [box[1], rng.choice(LOOK_KINDS)]]
            return rng.choice([['i', 5], ['s', 'x'], ['n', 0]])
        tree = rand_tree(rng, 4, 4, leaf, p_leaf=0.2)
        ids = list(range(1, box[0] + 1))
        tree = with_deps(tree, rng)
        vals = [[i, rng.choice([['i', 10 * i], ['i', 10], ['s', 'x'], ['n', 0], ['l', [['i', i]]], ['t', []],
                               ['m', [['a', ['i', i]]]]])] for i in ids]
        kinds = aw_kinds(tree, {})
        order = [i for i in ids if kinds[i] not in NOW]
        rng.shuffle(order)
        obs.append(run_schedule(tree, vals, order, rev=rng.random() < 0.5))
        if len(order) >= 2:
            ctx.note(('c2s-waiter', repr((tree, order))))
    ctx.evals += len(obs)
    bad = ctx.validate('Trace_Lift', obs)
    for i, clause in bad:
        o = obs[i - 1]
        if clause.startswith('harness'):
            raise Machinery('driver produced an observation outside the domain of the specification: %s %r' % (clause, o))
        if o['k'] in ('lift', 'lib'):
            case = {'op': 'loop' if o['k'] == 'lift' else o['fn'], 'form': o['form'], 'positional': o['npos'] > 0, 'x': o['x'], 'cs': o['cs']}
        elif o['k'] in ('zip', 'lens'):
            case = {'op': 'zipper' if o['k'] == 'zip' else 'lens', 'args': o['args']}
        elif o['k'] == 'norm':
            case = {'op': o['fn'], 'x': o['x']}
        else:
            case = waiter_case(o['tree'], o['order'], o['rev'])
        ctx.violation(clause, case, {'observed': o.get('out', o.get('once')), 'twice': o.get('twice'), 'done': o.get('done')})
    for k in ('lift', 'lib', 'zip', 'norm', 'waiter'):
        sel = [o for o in obs if o['k'] == k]
        if sel:
            ctx.sample({'c2s_observation': sel[len(sel) // 2]}, limit=9)
    return obs


def run(ctx):
    warnings.simplefilter('ignore')
    ctx.rule = ('S2C: every case of the TLC-enumerated universe (shapes x companion menus; library functions on the string '
                'universes; zipper/lens argument lists; as_list/as_tuple inputs) replayed through the public API in every passing '
                'form, and every TLC behaviour of the waiter machine replayed as a schedule on a hand-driven event loop; C2S: random '
                'structures to depth 4 with random companions / schedules validated by Trace_Lift. Non-trivial = lifting over >= 2 '
                'leaves with at least one container companion; a library call that changes something; zipper with lengths to '
                'reconcile; as_list/as_tuple of a sequence; a schedule of >= 2 awaitables, or a structure holding an awaitable that is '
                'not a future / coroutine / task (plain objects with __await__, gather / shield futures, finished ones). The awaitables '
                'of a schedule are realised in every kind of spec/Lift.tla (AllAwKinds), mixed in one structure with each other and with '
                'non-awaitable look-alikes. Distinct by (input, companions | order).')
    q = ctx.quick
    # input part: one TLC run checks the clauses on the specification and prints the cases
    r = ctx.mc('MC_Lift', 'MC_Lift_quick.cfg' if q else 'MC_Lift_thorough.cfg')
    if not r.emitted:
        raise Machinery('MC_Lift printed no cases')
    ctx.tlc_runs[-1]['emitted'] = len(r.emitted)
    # today's mechanism (generators handed down) is expected to break positional = keyword on the model
    ctx.mc('MC_Lift', 'MC_Lift_today.cfg', must_fail='PosEqKw', coverage=False)
    norm = s2c(ctx, r.emitted)
    del r
    if not q:
        # wider shapes (width 3) with the small companion menu, and every pair (x, companion) of shapes of depth <= 2
        r = ctx.mc('MC_Lift', 'MC_Lift_thorough_wide.cfg')
        ctx.tlc_runs[-1]['emitted'] = len(r.emitted)
        s2c(ctx, r.emitted)
        del r
        s2c(ctx, ctx.generate('MC_Lift', 'MC_Lift_gen_pairs.cfg'))
    # schedule part
    ctx.mc('MC_LiftWaiter', 'MC_LiftWaiter_quick.cfg' if q else 'MC_LiftWaiter_thorough.cfg')
    # a waiter that awaits one awaitable after the other never returns on inter-dependent coroutines (on the model)
    ctx.mc('MC_LiftWaiter', 'MC_LiftWaiter_sequential.cfg', must_fail='Termination', coverage=False)
    s2c_waiter_all(ctx, ctx.generate('MC_LiftWaiter', 'MC_LiftWaiter_gen_quick.cfg' if q else 'MC_LiftWaiter_gen_thorough.cfg'))
    # C2S (the as_list/as_tuple observations of the S2C inputs are judged here too: idempotence)
    if q:
        c2s(ctx, 1500, 1500, 800, 300, 600, extra_obs=norm)
    else:
        for batch in range(4):
            c2s(ctx, 6000, 5000, 2000, 800, 2000, extra_obs=norm if batch == 0 else ())
    ctx.exhaustive = False
    ctx.assumptions += [
        'leaf semantics of lower/upper/strip/proper/f12/as_float/replace/split are specified extensionally on the small string/number '
        'universes of spec/Lift.tla; leaves are drawn from them',
        'named deviation DeepMatch: a companion sequence/dict of another length/keys is searched for containers of the matching '
        'length/keys (numpy-like last-axis matching); both that and plain broadcasting are accepted',
        'as_tuple: on inputs where the documented rules give a 1-tuple holding a list (StarArgsCorner) only idempotence is required, not a value',
        'small scope: MC/S2C shapes depth <= 2 exhaustively (width <= 2 quick, <= 3 thorough) plus uniform/spine/chain families to depth 3/4; '
        'waiter: <= 6 awaitables, all orders; C2S: random trees to depth 4, width <= 4',
        'the event loop is stepped 6 iterations after the call, 3 after each release and up to 80 after the last one (then: waiter_never_returns); '
        'awaitables are realised as futures, running tasks, un-started coroutines, plain objects implementing __await__ (a generator '
        'yielding to the loop; handing out the iterator of a future / of a fresh coroutine; delegating to another such object; returning an '
        'already finished iterator), asyncio.gather / asyncio.shield futures, finished futures and coroutines that never suspend; those that '
        'can wait possibly wait for another one to start; one object may be placed twice',
        'non-awaitable look-alikes (generator and async-generator objects, an un-called async function, a class defining __await__, an '
        'instance carrying __await__ / `await` / result / done as instance attributes) are ordinary leaves: the same object must come back',
        'awaitables that are at the same time lists / tuples / dicts, and results that themselves hold awaitables, are outside the menus '
        '(the statement does not say which reading wins)',
    ]


def replay(ctx, body):
    """./check C19 --replay <file>: re-execute the recorded case and show expected / observed"""
    import json
    warnings.simplefilter('ignore')
    case, detail = body['case'], body.get('detail') or {}
    op = case.get('op')
    if op == 'loop':
        got = call_lift(case['x'], case['cs'], case['form'])
    elif op in ('zipper', 'lens'):
        got = call_zip(case['args'], 'zip' if op == 'zipper' else 'lens')
    elif op in ('as_list', 'as_tuple'):
        got = [o for o in norm_obs(case['x']) if o['fn'] == op][0]
    elif op == 'waiter':
        vals = [[i, ['i', 10 * i]] for i in sorted(aw_kinds(case['tree'], {}))]
        got = run_schedule(case['tree'], vals, case['order'], rev=case.get('rev', False))
    else:
        got = call_lib(op, case['x'], case['cs'], case['form'])
    print('clause  :', body['clause'])
    print('case    :', json.dumps(case))
    print('recorded:', json.dumps(detail))
    print('observed:', json.dumps(got))
    exp = detail.get('expected_one_of') or ([detail['expected']] if 'expected' in detail else None)
    return 0 if exp and got in exp else 1
