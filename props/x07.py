"""X07 - small generic helpers (extension; spec/Access*.tla).

X07-a  type predicates as a lattice, null2none, as_primitive      (AccessTypes / MC_AccessTypes)
X07-b  getitem / callitem / callattr / getattrs / relabel / dict_invert / as_list family / tree_repr   (AccessItems)
X07-c  argspec_* / getargs / kwargs2args / partialize against Python's binding rules                   (AccessSig)

TLA+ decides: TLC enumerates the inputs together with the admitted outcomes (S2C, compared here with == / membership
in the printed list) and judges every recorded call, the replayed ones included (C2S, Trace_Access).  Python builds the
objects, calls pyg_base and encodes what came back.
"""
import json, logging, os
from harness import x_access as xa
from harness.core import Machinery

ONLY = os.environ.get('VERIF_X07_ONLY', '')          # development aid: types | items | sig
CORRUPT = os.environ.get('VERIF_X07_CORRUPT', '')    # binding self-check: falsify one recorded field of that area


def seq(x):
    """TLC prints an empty sequence as [] and an empty function as {}"""
    return list(x) if x else []


class Log(object):
    """observations for Trace_Access plus, per line, the `case` a rejection is reported on"""
    def __init__(self):
        self.obs, self.cases = [], []

    def add(self, o, case):
        self.obs.append(o)
        self.cases.append(case)


_seen = set()


def report(ctx, clause, case, detail=None):
    """a violation once per (clause, case)"""
    key = json.dumps([clause, case], sort_keys=True, default=str)
    if key in _seen:
        return
    _seen.add(key)
    ctx.violation(clause, case, detail)


# =========================================================================================================
# X07-a  types
# =========================================================================================================
import pyg_base._types as T
from pyg_base import as_primitive


def types_preds(preds):
    fs = {}
    for p in preds:
        f = getattr(T, p, None)
        if f is None:
            raise Machinery('pyg_base._types has no predicate %s' % p)
        fs[p] = f
    return fs


def observe_types(ab, fs):
    """the three observations of one object: the row of predicate answers, null2none, as_primitive (twice)"""
    reg = xa.Registry()
    row = {}
    for p, f in fs.items():
        py = xa.build(ab, reg)                       # a fresh object per call: iterators are consumed by looking at them
        k, r = xa.outcome(f, py)
        row[p] = ('T' if r else 'F') if k == 'val' else r
    py = xa.build(ab, reg)
    k, r = xa.outcome(T.null2none, py)
    n2n = r if k == 'exc' else 'none' if r is None else 'same' if r is py else 'other'
    if py is None and k == 'val' and r is None:
        n2n = 'none'
    reg = xa.Registry()
    py = xa.build(ab, reg)
    k, r = xa.outcome(as_primitive, py)
    if k == 'exc':
        out = out2 = xa.obj('!exc', ['s', r]); same = 'F'
    else:
        out = xa.encode(r, reg); same = 'T' if r is py else 'F'
        k2, r2 = xa.outcome(as_primitive, r)
        out2 = xa.obj('!exc', ['s', r2]) if k2 == 'exc' else xa.encode(r2, reg)
    return ({'area': 'types', 'op': 'row', 'v': ab, 'row': row},
            {'area': 'types', 'op': 'n2n', 'v': ab, 'out': n2n},
            {'area': 'types', 'op': 'prim', 'v': ab, 'out': out, 'out2': out2, 'same': same})


def _classes(ab):
    out = {ab['cls']}
    for x in ab['items'] or []:
        out |= _classes(x)
    return out


def types_case(op, ab, **kw):
    """matchable keys: the predicate / function, the class of the object, whether a np.longdouble / np.timedelta64 occurs in it"""
    cl = _classes(ab)
    c = {'op': op, 'kind': 'plural' if op in PLURALS else 'singular' if op.startswith('is_') else '', 'cls': ab['cls'], 'idx': ab['idx'],
         'val': ab['val'][0], 'n': len(ab['items'] or []), 'longdouble': int('np.longdouble' in cl), 'timedelta': int('np.timedelta64' in cl), 'v': ab}
    c.update(kw)
    return c


PLURALS = {'is_nones', 'is_bools', 'is_ints', 'is_floats', 'is_nums', 'is_strs', 'is_dates', 'is_nans', 'is_dicts', 'is_lists', 'is_tuples',
           'is_iterables', 'is_arrs', 'is_pds', 'is_tss'}


def s2c_types(ctx, cases, fs, log):
    for k, c in enumerate(cases):
        ab = c['v']
        ab['items'] = seq(ab['items'])
        row, n2n, prim = observe_types(ab, fs)
        ctx.traces += 1
        for p in fs:
            ctx.evals += 1
            if row['row'][p] not in seq(c['admit'][p]):
                clause = 'predicate_value' if row['row'][p] in ('T', 'F') else 'predicate_raised'
                report(ctx, clause, types_case(p, ab), {'admitted': seq(c['admit'][p]), 'observed': row['row'][p]})
        ctx.evals += 2
        if n2n['out'] != c['n2n']:
            report(ctx, 'null2none', types_case('null2none', ab), {'expected': c['n2n'], 'observed': n2n['out']})
        if not c['primfree']:
            want = _norm(c['prim'])
            if prim['out']['cls'] == '!exc':
                report(ctx, 'as_primitive_raised', types_case('as_primitive', ab), {'observed': prim['out']})
            elif not _prim_eq(prim['out'], want):
                report(ctx, 'as_primitive_value', types_case('as_primitive', ab), {'expected': want, 'observed': prim['out']})
            elif c['primsame'] and prim['same'] != 'T':
                report(ctx, 'as_primitive_touched', types_case('as_primitive', ab), {'observed': prim['out']})
        log.add(row, types_case('row', ab)); log.add(n2n, types_case('null2none', ab)); log.add(prim, types_case('as_primitive', ab))
        if ab['items'] or ab['cls'].startswith('np.'):
            ctx.note(('types', k))
        if k % 67 == 0:
            ctx.sample({'types_case': {'v': ab, 'n2n': c['n2n'], 'is_num': c['admit']['is_num']}})


def _norm(o):
    o = dict(o); o['items'] = [_norm(x) for x in seq(o['items'])]; o['val'] = list(o['val'])
    return o


def _prim_eq(got, want):
    """== up to the two classes the specification leaves open (StrKept, TimestampKept): those are judged by the trace"""
    if got['cls'] in ('np.str_', 'Timestamp') and want['cls'] in ('str', 'datetime'):
        return got['val'] == want['val']
    if got['cls'] != want['cls'] or got['val'] != want['val'] or len(got['items']) != len(want['items']):
        return False
    return all(_prim_eq(g, w) for g, w in zip(got['items'], want['items']))


INT_RANGE = {'np.int8': (-128, 127), 'np.int16': (-2 ** 15, 2 ** 15 - 1), 'np.int32': (-2 ** 31 + 1, 2 ** 31 - 1),
             'np.int64': (-2 ** 31 + 1, 2 ** 31 - 1), 'np.uint8': (0, 255), 'np.uint16': (0, 2 ** 16 - 1), 'np.uint32': (0, 2 ** 31 - 1),
             'np.uint64': (0, 2 ** 31 - 1), 'int': (-2 ** 31 + 1, 2 ** 31 - 1)}
FLOATS = ['float', 'np.float16', 'np.float32', 'np.float64', 'np.longdouble']


def rand_scalar(rng, hashable=False):
    r = rng.random()
    if r < 0.22:
        c = rng.choice(sorted(INT_RANGE))
        lo, hi = INT_RANGE[c]
        return xa.obj(c, ['i', rng.choice([lo, hi, 0, 1, rng.randint(lo, hi)])])
    if r < 0.42:
        c = rng.choice(FLOATS)
        q = rng.random()
        val = ['nan', 0] if q < 0.2 else ['inf', rng.choice([1, -1])] if q < 0.35 else ['f', _ratio(rng.randint(-1024, 1024), rng.choice([1, 2, 4, 8]))]
        return xa.obj(c, val)
    if r < 0.5:
        return xa.obj(rng.choice(['bool', 'np.bool_']), ['b', rng.choice([0, 1])])
    if r < 0.62:
        return xa.obj(rng.choice(['str', 'np.str_', 'bytes']), ['s', rng.choice(['', 'a', 'nan', 'None', 'x_y', 'inf'])])
    if r < 0.75:
        o = 730000 + rng.randint(0, 9000)
        c = rng.choice(['date', 'datetime', 'np.datetime64', 'Timestamp', 'NaTType', 'np.datetime64'])
        if c == 'date':
            return xa.obj(c, ['date', o])
        if c == 'NaTType' or (c == 'np.datetime64' and rng.random() < 0.2):
            return xa.obj(c, xa.NATVAL)
        return xa.obj(c, ['d', [o, rng.choice([0, 0, 3600, 86399]), rng.choice([0, 0, 250000])]])
    if r < 0.8:
        return xa.obj('NoneType')
    if r < 0.86:
        if rng.random() < 0.5:
            return xa.obj('IntEnum', ['i', rng.randint(0, 3)])
        return xa.obj('Enum', xa.NOVAL, [rand_scalar(rng, True)])
    c = rng.choice(['complex', 'Decimal', 'object', 'function', 'np.timedelta64'])
    return xa.obj(c, ['i', rng.randint(0, 9)] if c in ('complex', 'Decimal', 'np.timedelta64') else xa.NOVAL)


def _ratio(p, q):
    from math import gcd
    g = gcd(p, q) or 1
    return [p // g, q // g]


def _hashable(ab):
    if ab['cls'] in ('list', 'dict', 'dictattr', 'Dict', 'set', 'ndarray', 'ndarray0', 'Series', 'DataFrame', 'iterator', 'dict_keys', 'dict_values'):
        return False
    return all(_hashable(x) for x in ab['items'])


def rand_object(rng, depth=0):
    """a random object: scalars of every width, containers (also empty, nested to depth 3), views, arrays, pandas"""
    if depth >= 3 or rng.random() < (0.3 if depth == 0 else 0.55):
        return rand_scalar(rng)
    c = rng.choice(['list', 'list', 'tuple', 'tuple', 'set', 'frozenset', 'dict', 'dict', 'dictattr', 'Dict', 'dict_keys', 'dict_values',
                    'range', 'iterator', 'ndarray0', 'ndarray', 'ndarray', 'Series', 'Series', 'DataFrame'])
    n = rng.choice([0, 1, 1, 2, 3, 5])
    homog = rng.random() < 0.5
    first = rand_object(rng, depth + 1)
    def elt():
        if homog:
            e = rand_object(rng, 3)
            if first['cls'] in INT_RANGE or first['cls'] in FLOATS or first['cls'] in ('str', 'np.str_', 'NoneType', 'date', 'datetime'):
                e = dict(first)
            return e
        return rand_object(rng, depth + 1)
    if c in ('list', 'tuple'):
        return xa.obj(c, xa.NOVAL, [first] * (n > 0) + [elt() for _ in range(max(0, n - 1))])
    if c in ('set', 'frozenset', 'dict_keys'):
        items = [e for e in [rand_scalar(rng, True) for _ in range(n)] if _hashable(e) and e['cls'] not in ('object',)]
        seen, out = set(), []
        for e in items:                                   # distinct members: equal ones would merge
            k = repr(xa._num(e['val'])) if e['val'][0] in 'ibf' and e['val'][0] != 'big' else json.dumps(e, sort_keys=True)
            if e['val'][0] in ('nan', 'nat') or k in seen:
                continue
            seen.add(k); out.append(e)
        return xa.obj(c, xa.NOVAL, out)
    if c in ('dict', 'dictattr', 'Dict'):
        idx = 'str' if c != 'dict' else rng.choice(['str', 'str', 'int0', 'int5'])
        return xa.obj(c, xa.NOVAL, [rand_object(rng, depth + 1) for _ in range(n)], idx)
    if c == 'dict_values':
        return xa.obj(c, xa.NOVAL, [rand_object(rng, depth + 1) for _ in range(n)])
    if c == 'range':
        lo = rng.randint(-3, 3)
        return xa.obj(c, xa.NOVAL, [xa.obj('int', ['i', lo + i]) for i in range(n)])
    if c == 'iterator':
        return xa.obj(c, xa.NOVAL, [rand_scalar(rng) for _ in range(n)])
    if c == 'ndarray0':
        return xa.obj(c, xa.NOVAL, [rng.choice([xa.obj('int', ['i', 3]), xa.obj('float', ['f', [1, 2]]), xa.obj('str', ['s', 'ab']), xa.obj('NoneType')])], 'object')
    if c == 'ndarray':
        if rng.random() < 0.4:
            k = rng.choice(['np.int64', 'np.float64'])
            return xa.obj(c, xa.NOVAL, [xa.obj(k, ['i', rng.randint(0, 9)] if k == 'np.int64' else ['f', [rng.randint(-9, 9), 1]]) for _ in range(max(n, 1))], 'native')
        return xa.obj(c, xa.NOVAL, [_plain(rand_scalar(rng)) for _ in range(n)], 'object')
    if c == 'Series':
        return xa.obj(c, xa.NOVAL, [_plain(rand_scalar(rng)) for _ in range(n)], rng.choice(['range', 'int5', 'date', 'date_desc', 'str']))
    return xa.obj('DataFrame', ['i', rng.choice([0, 1, 3])], [], rng.choice(['range', 'int5', 'date', 'date_desc', 'str']))


def _plain(e):
    """elements of arrays / series: python scalars (pandas and numpy would convert numpy scalars and dates on the way in)"""
    if e['cls'] in ('int', 'float', 'str', 'NoneType', 'bool'):
        return e
    return xa.obj('int', ['i', 1])


def c2s_types(ctx, n, fs, log):
    for i in range(n):
        ab = rand_object(ctx.rng)
        row, n2n, prim = observe_types(ab, fs)
        ctx.evals += len(fs) + 2
        log.add(row, types_case('row', ab)); log.add(n2n, types_case('null2none', ab)); log.add(prim, types_case('as_primitive', ab))
        if i % 211 == 0:
            ctx.sample({'types_observed': {'v': ab, 'n2n': n2n['out'], 'prim': prim['out']}})


def run_types(ctx, log):
    ctx.mc('MC_AccessTypes', 'MC_AccessTypes_quick.cfg' if ctx.quick else 'MC_AccessTypes_thorough.cfg')
    cases = ctx.generate('MC_AccessTypes', 'MC_AccessTypes_gen.cfg' if ctx.quick else 'MC_AccessTypes_gent.cfg')
    fs = types_preds(sorted(cases[0]['admit']))
    s2c_types(ctx, cases, fs, log)
    c2s_types(ctx, 500 if ctx.quick else 6000, fs, log)



# =========================================================================================================
# X07-b  items
# =========================================================================================================
def fix_case(area, c):
    """TLC prints an empty sequence nested in a record as [] - and an empty one at the top of a field too; make every
    sequence-valued field a list"""
    def fx(x):
        if isinstance(x, dict):
            if not x:
                return []
            return {k: fx(v) for k, v in x.items()}
        if isinstance(x, list):
            return [fx(v) for v in x]
        return x
    return fx(c)


def observe_items(area, c):
    """one call of the real code -> the observation for Trace_Access"""
    o = {'area': 'items', 'op': area, 'c': c}
    if area == 'getitem':
        o.update(xa.run_getitem(c))
    elif area == 'chain':
        o['out'] = xa.run_chain(c)
    elif area == 'getattrs':
        o.update(xa.run_getattrs(c))
    elif area == 'relabel':
        o['out'] = xa.run_relabel(c)
    elif area == 'relabel_dict':
        o.update(xa.run_relabel_dict(c))
    elif area == 'dict_invert':
        o.update(xa.run_dict_invert(c))
    elif area == 'as_list':
        o.update(xa.run_as_list(c))
    elif area == 'tree_repr':
        o['lines'] = xa.run_tree_repr(c)
    else:
        raise Machinery('unknown area %r' % area)
    return o


def items_case(area, c):
    """stable, matchable keys of a call"""
    k = {'op': area, 'c': c}
    if area == 'getitem':
        k.update(container=c['c'][0], key=c['k'][0], defaults=len(c['d']))
    elif area == 'chain':
        k.update(fn=c['fn'], keys=c['keys']['sp'], nkeys=len(c['keys']['k']), args=c['args']['sp'], kwargs=c['kwargs']['sp'])
    elif area == 'getattrs':
        k.update(base=c['base']['sp'], want=c['want']['sp'], defaults=len(c['d']))
    elif area in ('relabel', 'relabel_dict'):
        n = len(c['keys'] if area == 'relabel' else c['items'])
        f = c['form']
        name = f['s'] if f['sp'] == 'affix' else f['names'][0] if f['sp'] in ('names', 'pos') and f['names'] else '_'
        # ONE key and ONE new name without an underscore at either end
        k.update(form=f['sp'], nkeys=n, nkw=len(c['kw']), one_plain_name=int(n == 1 and f['sp'] in ('affix', 'names', 'pos') and not name.startswith('_') and not name.endswith('_')))
        if area == 'relabel_dict':
            k['cls'] = c['cls']
    elif area == 'dict_invert':
        k.update(n=len(c['items']))
    elif area == 'as_list':
        k.update(kind=c['inp']['sp'], n=len(c['inp']['xs']), none=int(bool(c['none'])))
    elif area == 'tree_repr':
        k.update(top=c['tree']['t'], cls=c['tree']['cls'], offset=c['offset'])
    return k


def _pairs(x):
    return frozenset((a, json.dumps(b, sort_keys=True)) if not isinstance(b, str) else (a, b) for a, b in x)


def s2c_items(ctx, cases, log):
    """the expected outcome is what TLC printed: == where it is unique, membership in the printed list where the law admits several"""
    for k, e in enumerate(cases):
        area, c, want = e['area'], fix_case(e['area'], e['c']), fix_case(e['area'], e['want'])
        o = observe_items(area, c)
        ctx.evals += 1; ctx.traces += 1
        case = items_case(area, c)
        bad = []
        if area in ('getitem', 'chain', 'getattrs', 'dict_invert'):
            if o['out'] != want['out']:
                bad.append(({'getitem': 'getitem_value', 'chain': 'chain_outcome', 'getattrs': 'getattrs_value', 'dict_invert': 'dict_invert_value'}[area],
                            {'expected': want['out'], 'observed': o['out']}))
            if area == 'getitem' and o['after'] != c['c']:
                bad.append(('argument_changed', {'after': o['after']}))
            if area == 'getattrs' and (o['obj_after'] != c['obj'] or o['base_after'] != c['base']['items']):
                bad.append(('argument_changed', {'obj_after': o['obj_after'], 'base_after': o['base_after']}))
            if area == 'dict_invert' and o['after'] != c['items']:
                bad.append(('argument_changed', {'after': o['after']}))
            if area == 'dict_invert' and o['out'][0] == 'ok' and o['cls'] != 'Dict':
                bad.append(('dict_invert_class', {'observed': o['cls']}))
        elif area == 'relabel':
            if o['out'][0] != 'ok' or _pairs(o['out'][1]) not in [_pairs(m) for m in want['maps']]:
                bad.append(('relabel_mapping', {'expected_one_of': want['maps'], 'observed': o['out']}))
        elif area == 'relabel_dict':
            if o['after'] != c['items']:
                bad.append(('argument_changed', {'after': o['after']}))
            elif o['out'][0] != 'ok':
                bad.append(('relabel_raised', {'observed': o['out']}))
            elif o['out'][1]['cls'] != c['cls']:
                bad.append(('relabel_class', {'observed': o['out'][1]['cls']}))
            elif o['out'][1]['items'] not in want['dicts']:
                bad.append(('relabel_items', {'expected_one_of': want['dicts'], 'observed': o['out'][1]['items']}))
        elif area == 'as_list':
            ctx.evals += 5
            if o['after'] != c['inp']:
                bad.append(('argument_changed', {'after': o['after']}))
            for name, clause, w in (('lst', 'as_list_value', {'cls': 'list', 'items': want['items']}), ('tup', 'as_tuple_value', {'cls': 'tuple', 'items': want['items']}),
                                    ('first', 'first_value', want['first']), ('last', 'last_value', want['last'])):
                if o[name] != w:
                    bad.append((clause, {'expected': w, 'observed': o[name]}))
            if o['unique'] not in want['unique']:
                bad.append(('unique_value', {'expected_one_of': want['unique'], 'observed': o['unique']}))
            if o['passthru'] != 'same':
                bad.append(('passthru_value', {'observed': o['passthru']}))
        elif area == 'tree_repr':
            if o['lines'] not in want['lines']:
                bad.append(('tree_repr_lines', {'expected_one_of': want['lines'][:4], 'observed': o['lines']}))
        for clause, detail in bad:
            report(ctx, clause, case, detail)
        log.add(o, case)
        if (area == 'getitem' and c['d']) or (area == 'chain' and len(c['keys']['k']) > 1) or (area in ('relabel', 'relabel_dict') and c['kw']) \
                or (area == 'getattrs' and c['base']['sp'] != 'none') or (area == 'dict_invert' and len(c['items']) > 1) \
                or (area == 'as_list' and len(c['inp']['xs']) > 1) or (area == 'tree_repr' and c['tree']['kids']):
            ctx.note((area, k))
        if k % 1499 == 0:
            ctx.sample({'items_case': {'area': area, 'c': c, 'want': want}})


VALS = [["i", 1], ["i", 2], ["i", 0], ["f", [1, 1]], ["f", [5, 2]], ["b", 1], ["b", 0], ["s", "a"], ["s", "x"], ["s", ""], ["n", 0]]
HASHV = VALS + [["t", [["i", 1], ["i", 2]]], ["t", []]]


def rand_val(rng, depth=0, nan=False):
    r = rng.random()
    if depth < 2 and r < 0.15:
        return ["l", [rand_val(rng, depth + 1) for _ in range(rng.choice([0, 1, 2]))]]
    if depth < 2 and r < 0.25:
        return ["t", [rand_val(rng, depth + 1) for _ in range(rng.choice([0, 1, 2]))]]
    if nan and r < 0.33:
        return ["nan", rng.choice([1, 2, 3])]
    return rng.choice(VALS)


def _hashable_tag(t):
    return t[0] not in ('l', 'm') and (t[0] != 't' or all(_hashable_tag(x) for x in t[1]))


def rand_items_case(rng):
    """a random call of one of the helpers, wider than the enumerated menus (longer containers, other names, deeper chains)"""
    area = rng.choice(['getitem', 'chain', 'chain', 'getattrs', 'relabel', 'relabel_dict', 'dict_invert', 'as_list', 'as_list', 'tree_repr'])
    names = ['a', 'b', 'c', 'k1', 'x_']
    if area == 'getitem':
        kind = rng.choice('mmltsi')
        n = rng.choice([0, 1, 2, 4, 7])
        if kind == 'm':
            cont = ["m", [[k, rand_val(rng)] for k in sorted(rng.sample(['a', 'b', 'c', 'd', 'k1', 'zz'], min(n, 6)))]]
        elif kind in 'lt':
            cont = [kind, [rand_val(rng) for _ in range(n)]]
        elif kind == 's':
            cont = ["s", 'abcdefg'[:n]]
        else:
            cont = rng.choice([["i", 5], ["n", 0], ["f", [1, 2]]])
        key = rng.choice([["s", rng.choice(['a', 'b', 'zz', 'k1'])], ["i", rng.randint(-9, 9)], ["b", rng.choice([0, 1])], ["n", 0],
                          ["l", [["i", 1]]], ["t", [["i", 1]]], ["t", [["l", []]]], ["f", [1, 1]]])
        if key[0] == 'f' and kind in 'mlts':
            key = ["i", 0]                  # a float key: 1.0 finds 1 in a dict and is no index - outside the universe of the law
        return area, {'c': cont, 'k': key, 'd': [rand_val(rng) for _ in range(rng.choice([0, 0, 1, 1, 2]))]}
    if area == 'chain':
        n = rng.choice([1, 1, 2, 3, 4, 5])
        ks = [rng.choice(['push', 'push', 'push', 'need', 'peek', 'nope']) for _ in range(n)]
        keys = {'sp': 'one', 'k': ks[:1]} if n == 1 and rng.random() < 0.6 else {'sp': 'many', 'k': ks}
        def step_args():
            return [rng.choice([["i", 1], ["i", 2], ["s", "a"], ["n", 0]]) for _ in range(rng.choice([0, 0, 1, 1, 2]))]
        def step_kw():
            return [[nm, ["i", rng.randint(0, 3)]] for nm in sorted(rng.sample(['x', 'y', 'z'], rng.choice([0, 0, 1, 1, 2])))]
        r = rng.random()
        if r < 0.25:
            args = {'sp': 'none', 'a': []}
        elif r < 0.5:
            args = {'sp': 'tuple', 'a': step_args()}
        else:
            m = rng.choice([1, n, n, n, rng.choice([2, 3])])
            args = {'sp': 'list', 'a': [step_args() for _ in range(m)]}
        r = rng.random()
        if r < 0.25:
            kwargs = {'sp': 'none', 'k': []}
        elif r < 0.5:
            kwargs = {'sp': 'dict', 'k': step_kw()}
        else:
            m = rng.choice([1, n, n, n, rng.choice([2, 3])])
            kwargs = {'sp': 'list', 'k': [["n", []] if rng.random() < 0.2 else ["d", step_kw()] for _ in range(m)]}
        return area, {'fn': rng.choice(['callitem', 'callattr']), 'keys': keys, 'args': args, 'kwargs': kwargs}
    if area == 'getattrs':
        own = rng.sample(['a', 'b', '_h', '__p', 'q', '_', 'k1'], rng.choice([0, 1, 2, 3, 5]))
        obj = [[k, rand_val(rng)] for k in own]
        pool = own + ['kind', 'zz', 'a']
        r = rng.random()
        want = {'sp': 'none', 'a': []} if r < 0.2 else {'sp': 'one', 'a': [rng.choice(pool)]} if r < 0.45 else \
            {'sp': 'many', 'a': [rng.choice(pool) for _ in range(rng.choice([0, 1, 2, 3, 4]))]}
        sp = rng.choice(['none', 'true', '_', '__', 'inst', 'inst', 'type'])
        base = {'sp': sp, 'cls': '', 'items': []}
        if sp in ('inst', 'type'):
            base['cls'] = rng.choice(['dict', 'dictattr', 'Dict'])
        if sp == 'inst':
            base['items'] = [[k, rand_val(rng)] for k in rng.sample(['a', 'q', 'kind', 'w', '_h'], rng.choice([0, 1, 2, 3]))]
        return area, {'obj': obj, 'want': want, 'base': base, 'd': [rand_val(rng)] if rng.random() < 0.5 else []}
    if area in ('relabel', 'relabel_dict'):
        n = rng.choice([1, 1, 2, 3, 4])
        keys = rng.sample(names, n)
        sp = rng.choice(['none', 'affix', 'affix', 'fn', 'fn', 'dict', 'names', 'pos'])
        form = {'sp': sp, 's': '', 'items': [], 'names': []}
        if sp == 'affix':
            form['s'] = rng.choice(['x_', '_x', '_', '_x_', 'new_', '_old'] + (['A', 'name'] if n == 1 else []))
        elif sp == 'fn':
            form['s'] = rng.choice(['upper', 'dbl', 'const'])
        elif sp == 'dict':
            form['items'] = [[k, rng.choice(['A', 'B', 'a', 'n1'])] for k in rng.sample(names + ['q'], rng.choice([0, 1, 2]))]
        elif sp in ('names', 'pos'):
            form['names'] = [rng.choice(['A', 'B', 'C', 'x_', '_y', 'a']) for _ in range(n)]
        kw = [[k, rng.choice(['Z', 'a', 'b', 'Y'])] for k in rng.sample(names + ['q'], rng.choice([0, 0, 1, 2]))]
        if area == 'relabel':
            return area, {'keys': keys, 'one': n == 1 and rng.random() < 0.5, 'form': form, 'kw': kw}
        return area, {'cls': rng.choice(['dictattr', 'Dict']), 'items': [[k, rng.choice(VALS)] for k in keys], 'form': form, 'kw': kw}
    if area == 'dict_invert':
        n = rng.choice([0, 1, 2, 3, 5, 8])
        pool = rng.sample(HASHV, rng.choice([2, 3, 5])) + [["nan", 1], ["nan", 2]] * (rng.random() < 0.3) + [["l", [["i", 1]]]] * (rng.random() < 0.15)
        return area, {'items': [['k%02d' % i, rng.choice(pool)] for i in range(n)]}
    if area == 'as_list':
        sp = rng.choice(['none', 'scalar', 'str', 'set', 'dict', 'gen', 'array', 'list', 'list', 'list', 'tuple', 'tuple', 'tuple1list', 'range', 'keys', 'values', 'zip'])
        n = rng.choice([0, 1, 2, 3, 5])
        same = rng.random() < 0.4
        v0 = rand_val(rng, 1)
        elts = [v0 if same else rand_val(rng, 1, nan=True) for _ in range(n)]
        if sp == 'none':
            xs = []
        elif sp == 'scalar':
            xs = [rng.choice([["i", 1], ["f", [1, 2]], ["b", 1], ["i", 0]])]
        elif sp == 'str':
            xs = [["s", rng.choice(['', 'a', 'hello'])]]
        elif sp in ('set', 'dict'):
            xs = [["i", 1]][:rng.choice([0, 1])]
        elif sp in ('gen', 'array'):
            xs = [["i", i] for i in range(n)]
        elif sp == 'range':
            lo = rng.randint(-2, 2)
            xs = [["i", lo + i] for i in range(n)]
        elif sp == 'keys':
            xs, seen = [], set()
            for v in [rng.choice([["i", 1], ["i", 2], ["s", "a"], ["n", 0], ["s", "b"]]) for _ in range(n)]:
                if json.dumps(v) not in seen:
                    seen.add(json.dumps(v)); xs.append(v)
        elif sp == 'zip':
            xs = [["t", [rng.choice(VALS), rng.choice(VALS)]] for _ in range(n)]
        else:
            xs = elts
        if sp == 'tuple' and len(xs) == 1 and xs[0][0] == 'l':
            sp = 'tuple1list'; xs = xs[0][1]
        return area, {'inp': {'sp': sp, 'xs': xs}, 'none': rng.random() < 0.3}
    # tree_repr: random trees, leaves of every length around the 80 columns
    def leaf():
        if rng.random() < 0.2:
            return {'t': 'i', 'cls': '', 'kids': [], 's': '', 'n': rng.choice([0, 5, 123456])}
        return {'t': 's', 'cls': '', 'kids': [], 's': rng.choice('xymw') * rng.choice([1, 3, 20, 38, 39, 40, 41, 70, 79, 80, 81, 120]), 'n': 0}
    def node(depth):
        r = rng.random()
        if depth >= 3 or r < 0.35:
            return leaf()
        if r < 0.5:
            return {'t': 'l', 'cls': 'list', 'kids': [["", node(depth + 1)] for _ in range(rng.choice([0, 1, 2, 3]))], 's': '', 'n': 0}
        ks = rng.sample(['a', 'bb', 'c', 'key', 'p', 'q', 'long_key_name'], rng.choice([0, 1, 2, 3, 4]))
        return {'t': 'd', 'cls': rng.choice(['dict', 'dict', 'dict', 'Dict', 'dictattr']), 'kids': [[k, node(depth + 1)] for k in ks], 's': '', 'n': 0}
    return area, {'tree': node(0), 'offset': rng.choice([0, 0, 2, 4, 7])}


def c2s_items(ctx, n, log):
    for i in range(n):
        area, c = rand_items_case(ctx.rng)
        o = observe_items(area, c)
        ctx.evals += 6 if area == 'as_list' else 1
        log.add(o, items_case(area, c))
        if i % 499 == 0:
            ctx.sample({'items_observed': {k: o[k] for k in o if k != 'area'}})


def run_items(ctx, log):
    ctx.mc('MC_AccessItems', 'MC_AccessItems_quick.cfg' if ctx.quick else 'MC_AccessItems_thorough.cfg')
    cases = ctx.generate('MC_AccessItems', 'MC_AccessItems_gen.cfg' if ctx.quick else 'MC_AccessItems_gent.cfg')
    s2c_items(ctx, cases, log)
    c2s_items(ctx, 2500 if ctx.quick else 30000, log)


# =========================================================================================================
# X07-c  signatures
# =========================================================================================================
SIG_CLAUSE = {'defaults': 'argspec_defaults_value', 'defaults_partial': 'argspec_defaults_value', 'required': 'argspec_required_value',
              'getargs': 'getargs_value', 'add': 'argspec_add_value', 'update': 'argspec_update_value', 'k2a': 'kwargs2args_value',
              'partialize': 'partialize_call'}


def observe_sig(area, c):
    o = {'area': 'sig', 'op': area, 'c': c}
    o.update(xa.run_sig(area, c))
    return o


def sig_case(area, c):
    sg = c['sig']
    k = {'op': area, 'c': c, 'npos': len(sg['pos']), 'ndef': sg['ndef'], 'varargs': int(sg['varargs']), 'varkw': int(sg['varkw']),
         'kwonly': len(sg['kwonly']), 'has_required_kwonly': int(any(not d for d in sg['kwdef']))}
    if area == 'add':
        k['adds_kwonly_name'] = int(any(n in sg['kwonly'] for n, _ in c['upd']))
    if area == 'k2a':
        named = [n in [x[0] for x in c['call']['kw']] for n in sg['pos']]
        k['gap'] = int(any(b and not all(named[:i]) for i, b in enumerate(named)))      # a named parameter after an unnamed one
        k['positional'] = len(c['call']['pos'])
    if area in ('partialize', 'defaults_partial'):
        k['pre'] = int(c['pre']['on']); k['pre_pos'] = len(c['pre']['pos'])
    if area == 'partialize':
        k['nargs'] = len(c['args'])
    return k


def s2c_sig(ctx, cases, log):
    for k, e in enumerate(cases):
        area, c, want = e['area'], fix_case(e['area'], e['c']), fix_case(e['area'], e['want'])
        o = observe_sig(area, c)
        ctx.evals += 1; ctx.traces += 1
        case = sig_case(area, c)
        bad = []
        if area in ('defaults', 'defaults_partial'):
            ok = o['out'][0] == 'ok' and _pairs(o['out'][1]) == _pairs(want['out'])
        elif area == 'required':
            ok = o['out'] in want['out']
        elif area == 'getargs':
            ok = o['out'] == ['ok', want['out']] or not want['indomain']
        elif area in ('add', 'update'):
            if o['after'] != want['before']:
                bad.append(('argument_changed', {'after': o['after']}))
            ok = o['out'] == ['ok', want['out']] and (area == 'add' or o['cls'] == 'FullArgSpec')
        elif area == 'k2a':
            if not want['indomain']:
                ok = True
            else:
                if o['after'] != c['call']['kw']:
                    bad.append(('argument_changed', {'after': o['after']}))
                ok = o['out'][0] == 'ok' and o['out'][1] in want['out']
        else:
            if o['ispartial'] != 'T':
                bad.append(('partialize_not_a_partial', {'observed': o['out']}))
            ok = o['out'] in want['out']
        if not ok:
            bad.append((SIG_CLAUSE[area], {'expected': want['out'], 'observed': o['out']}))
        for clause, detail in bad:
            report(ctx, clause, case, detail)
        log.add(o, case)
        if c['sig']['kwonly'] or area in ('partialize', 'k2a', 'defaults_partial'):
            ctx.note((area, k))
        if k % 3001 == 0:
            ctx.sample({'sig_case': {'area': area, 'c': c, 'want': want}})


def rand_sig_case(rng):
    names = ['a', 'b', 'c']
    npos = rng.choice([0, 1, 2, 2, 3, 3])
    nk = rng.choice([0, 0, 1, 2])
    sig = {'pos': names[:npos], 'ndef': rng.randint(0, npos), 'varargs': rng.random() < 0.3, 'kwonly': ['k', 'm'][:nk],
           'kwdef': [rng.random() < 0.5 for _ in range(nk)], 'varkw': rng.random() < 0.3}
    def kws(pool, pmax):
        return [[n, ["i", rng.randint(0, 99)]] for n in sorted(rng.sample(pool, rng.randint(0, min(pmax, len(pool)))))]
    def vals(nmax):
        return [["i", rng.randint(100, 199)] for _ in range(rng.randint(0, nmax))]
    area = rng.choice(['defaults', 'defaults_partial', 'required', 'getargs', 'add', 'update', 'k2a', 'k2a', 'partialize', 'partialize', 'partialize'])
    if area in ('defaults', 'required'):
        return area, {'sig': sig}
    if area == 'defaults_partial':
        np_ = rng.randint(0, min(1, npos))
        free = [n for n in sig['pos'][np_:] + sig['kwonly']]
        return area, {'sig': sig, 'pre': {'on': True, 'pos': vals(0)[:0] + [["i", 150]] * np_, 'kw': kws(free, 2)}}
    if area == 'getargs':
        return area, {'sig': sig, 'n': rng.randint(0, 3)}
    if area == 'add':
        return area, {'sig': sig, 'upd': [[n, rng.choice([["i", 0], ["n", 0], ["s", "x"]])] for n in rng.sample(['a', 'b', 'k', 'm', 'q', 'x', 'y', 'z'], rng.randint(0, 3))]}
    if area == 'update':
        sig['kwonly'], sig['kwdef'] = [], []
        f = rng.choice([["args", rng.sample(['a', 'b', 'c', 'q', 'x'], rng.randint(0, 4))], ["defaults", vals(2)], ["varargs", rng.choice(["", "more"])],
                        ["varkw", rng.choice(["", "rest"])], ["kwonly", rng.sample(['k', 'm'], rng.randint(0, 2))]])
        return area, {'sig': sig, 'f': f}
    if area == 'k2a':
        return area, {'sig': sig, 'call': {'pos': vals(2) if rng.random() < 0.3 else [], 'kw': kws(['a', 'b', 'c', 'k', 'm', 'z', 'y'], 5)}}
    pre = {'on': False, 'pos': [], 'kw': []}
    if rng.random() < 0.5:
        pre = {'on': True, 'pos': vals(2) if rng.random() < 0.5 else [], 'kw': kws(['a', 'b', 'c', 'k', 'm', 'z'], 2)}
    return area, {'sig': sig, 'pre': pre, 'args': vals(2) if rng.random() < 0.5 else [], 'kwargs': kws(['a', 'b', 'c', 'k', 'm', 'z', 'y'], 3),
                  'probe': {'pos': vals(2) if rng.random() < 0.5 else [], 'kw': kws(['a', 'b', 'c', 'k', 'm', 'q'], 3)}}


def c2s_sig(ctx, n, log):
    for i in range(n):
        area, c = rand_sig_case(ctx.rng)
        o = observe_sig(area, c)
        ctx.evals += 1
        log.add(o, sig_case(area, c))
        if i % 499 == 0:
            ctx.sample({'sig_observed': {k: o[k] for k in o if k != 'area'}})


def run_sig(ctx, log):
    ctx.mc('MC_AccessSig', 'MC_AccessSig_quick.cfg' if ctx.quick else 'MC_AccessSig_thorough.cfg')
    # the mechanism model of today's kwargs2args (every named positional parameter is moved) must break the law
    ctx.mc('MC_AccessSig', 'MC_AccessSig_mech.cfg', must_fail='MechK2ASameCall', coverage=False)
    cases = ctx.generate('MC_AccessSig', 'MC_AccessSig_gen.cfg' if ctx.quick else 'MC_AccessSig_gent.cfg')
    s2c_sig(ctx, cases, log)
    c2s_sig(ctx, 2500 if ctx.quick else 30000, log)

# =========================================================================================================
def judge(ctx, log):
    """Trace_Access judges every recorded line; a rejected line may name several clauses (joined by ';'), a clause may
    carry the predicate / step it is about after a ':' - that becomes the `op` of the case"""
    obs = log.obs
    if CORRUPT:
        obs = corrupt(obs)
    bad = ctx.validate('Trace_Access', obs)
    for i, clauses in bad:
        for cl in clauses.split(';'):
            clause, _, what = cl.partition(':')
            case = dict(log.cases[i - 1])
            if what:
                case = types_case(what, case['v']) if obs[i - 1]['area'] == 'types' else dict(case, op=what)
            report(ctx, clause, case, {"line": obs[i - 1] if len(json.dumps(obs[i - 1])) < 3000 else '(large)'})


def corrupt(obs):
    """falsify ONE field of ONE recorded observation of the chosen area: the trace specification must reject that line"""
    obs = [json.loads(json.dumps(o)) for o in obs]
    for o in obs:
        if o['area'] != CORRUPT:
            continue
        if o['area'] == 'types' and o['op'] == 'row' and o['v']['cls'] == 'int':
            o['row']['is_str'] = 'T'                      # an int that answers "I am a string"
            return obs
        if o['area'] == 'items' and o['op'] == 'getitem' and o['out'][0] == 'i':
            o['out'] = ['i', o['out'][1] + 1]             # another item than the one that is there
            return obs
        if o['area'] == 'sig' and o['op'] == 'partialize' and o['out'][0] == 'ok' and o['out'][1]:
            o['out'][1][0][1] = ['s', 'forged']           # the first parameter bound to a value nobody passed
            return obs
    raise Machinery('nothing to corrupt for area %r' % CORRUPT)


def run(ctx):
    _seen.clear()
    if os.environ.get('VERIF_X07_ACCEPT_PROPOSED') == '1':
        # the defects of the unchanged tree found by this check, as PROPOSED known findings (extensions/X07.known.json); not applied
        # unless asked for: by default they are reported as violations
        with open(os.path.join(os.path.dirname(os.path.dirname(os.path.abspath(__file__))), 'extensions', 'X07.known.json')) as f:
            ctx.known = ctx.known + [k for k in json.load(f)['known'] if k['property'] == ctx.pid]
    logging.getLogger('pyg').setLevel(logging.ERROR)          # is_ts warns about every unsorted index it is shown
    log = Log()
    if ONLY:
        ctx.extra['partial_run'] = ONLY
    if ONLY in ('', 'types'):
        run_types(ctx, log)
    if ONLY in ('', 'items'):
        run_items(ctx, log)
    if ONLY in ('', 'sig'):
        run_sig(ctx, log)
    judge(ctx, log)
    ctx.rule = ('distinct non-trivial = TLC-enumerated cases with a container / numpy scalar (types), a present default, chain or '
                'collision (items), a keyword-only parameter or a partial (signatures)')
    ctx.exhaustive = False
    ctx.assumptions += [
        'the universes are finite menus of classes and values (spec/MC_Access*.tla); beyond them only the random objects of the C2S part',
        'numbers cross the TLC boundary as exact rationals within 32 bits; floats are dyadic rationals exact in every width',
    ]
