"""X07 - small generic helpers (extension; spec/Access*.tla).

X07-a  type predicates as a lattice, null2none, as_primitive      (AccessTypes / MC_AccessTypes)
X07-b  getitem / callitem / callattr / getattrs / relabel / dict_invert / as_list family / tree_repr   (AccessItems)
X07-c  argspec_* / getargs / kwargs2args / partialize against Python's binding rules                   (AccessSig)

TLA+ decides: TLC enumerates the inputs together with the admitted outcomes (S2C, compared here with == / membership
in the printed list) and judges every recorded call, the replayed ones included (C2S, Trace_Access).  Python builds the
objects, calls pyg_base and encodes what came back.
"""
import json, os
from harness import x_access as xa
from harness.core import Machinery

ONLY = os.environ.get('VERIF_X07_ONLY', '')          # development aid: types | items | sig
CORRUPT = os.environ.get('VERIF_X07_CORRUPT', '')    # binding self-check: falsify one recorded field of that area


def seq(x):
    """TLC prints an empty sequence as [] and an empty function as {}"""
    return list(x) if x else []


class Log(object):
    """observations for Trace_Access plus, per line, the `case` a rejection is reported on"""
    def __init__(self):
        self.obs, self.cases = [], []

    def add(self, o, case):
        self.obs.append(o)
        self.cases.append(case)


_seen = set()


def report(ctx, clause, case, detail=None):
    """a violation once per (clause, case)"""
    key = json.dumps([clause, case], sort_keys=True, default=str)
    if key in _seen:
        return
    _seen.add(key)
    ctx.violation(clause, case, detail)


# =========================================================================================================
# X07-a  types
# =========================================================================================================
import pyg_base._types as T
from pyg_base import as_primitive


def types_preds(preds):
    fs = {}
    for p in preds:
        f = getattr(T, p, None)
        if f is None:
            raise Machinery('pyg_base._types has no predicate %s' % p)
        fs[p] = f
    return fs


def observe_types(ab, fs):
    """the three observations of one object: the row of predicate answers, null2none, as_primitive (twice)"""
    reg = xa.Registry()
    row = {}
    for p, f in fs.items():
        py = xa.build(ab, reg)                       # a fresh object per call: iterators are consumed by looking at them
        k, r = xa.outcome(f, py)
        row[p] = ('T' if r else 'F') if k == 'val' else r
    py = xa.build(ab, reg)
    k, r = xa.outcome(T.null2none, py)
    n2n = r if k == 'exc' else 'none' if r is None else 'same' if r is py else 'other'
    if py is None and k == 'val' and r is None:
        n2n = 'none'
    reg = xa.Registry()
    py = xa.build(ab, reg)
    k, r = xa.outcome(as_primitive, py)
    if k == 'exc':
        out = out2 = xa.obj('!exc', ['s', r]); same = 'F'
    else:
        out = xa.encode(r, reg); same = 'T' if r is py else 'F'
        k2, r2 = xa.outcome(as_primitive, r)
        out2 = xa.obj('!exc', ['s', r2]) if k2 == 'exc' else xa.encode(r2, reg)
    return ({'area': 'types', 'op': 'row', 'v': ab, 'row': row},
            {'area': 'types', 'op': 'n2n', 'v': ab, 'out': n2n},
            {'area': 'types', 'op': 'prim', 'v': ab, 'out': out, 'out2': out2, 'same': same})


def types_case(op, ab, **kw):
    c = {'op': op, 'cls': ab['cls'], 'idx': ab['idx'], 'val': ab['val'][0], 'n': len(ab['items'] or []), 'v': ab}
    c.update(kw)
    return c


def s2c_types(ctx, cases, fs, log):
    for k, c in enumerate(cases):
        ab = c['v']
        ab['items'] = seq(ab['items'])
        row, n2n, prim = observe_types(ab, fs)
        ctx.traces += 1
        for p in fs:
            ctx.evals += 1
            if row['row'][p] not in seq(c['admit'][p]):
                clause = 'predicate_value' if row['row'][p] in ('T', 'F') else 'predicate_raised'
                report(ctx, clause, types_case(p, ab), {'admitted': seq(c['admit'][p]), 'observed': row['row'][p]})
        ctx.evals += 2
        if n2n['out'] != c['n2n']:
            report(ctx, 'null2none', types_case('null2none', ab), {'expected': c['n2n'], 'observed': n2n['out']})
        if not c['primfree']:
            want = _norm(c['prim'])
            if prim['out']['cls'] == '!exc':
                report(ctx, 'as_primitive_raised', types_case('as_primitive', ab), {'observed': prim['out']})
            elif not _prim_eq(prim['out'], want):
                report(ctx, 'as_primitive_value', types_case('as_primitive', ab), {'expected': want, 'observed': prim['out']})
            elif c['primsame'] and prim['same'] != 'T':
                report(ctx, 'as_primitive_touched', types_case('as_primitive', ab), {'observed': prim['out']})
        log.add(row, types_case('row', ab)); log.add(n2n, types_case('null2none', ab)); log.add(prim, types_case('as_primitive', ab))
        if ab['items'] or ab['cls'].startswith('np.'):
            ctx.note(('types', k))
        if k % 67 == 0:
            ctx.sample({'types_case': {'v': ab, 'n2n': c['n2n'], 'is_num': c['admit']['is_num']}})


def _norm(o):
    o = dict(o); o['items'] = [_norm(x) for x in seq(o['items'])]; o['val'] = list(o['val'])
    return o


def _prim_eq(got, want):
    """== up to the two classes the specification leaves open (StrKept, TimestampKept): those are judged by the trace"""
    if got['cls'] in ('np.str_', 'Timestamp') and want['cls'] in ('str', 'datetime'):
        return got['val'] == want['val']
    if got['cls'] != want['cls'] or got['val'] != want['val'] or len(got['items']) != len(want['items']):
        return False
    return all(_prim_eq(g, w) for g, w in zip(got['items'], want['items']))


INT_RANGE = {'np.int8': (-128, 127), 'np.int16': (-2 ** 15, 2 ** 15 - 1), 'np.int32': (-2 ** 31 + 1, 2 ** 31 - 1),
             'np.int64': (-2 ** 31 + 1, 2 ** 31 - 1), 'np.uint8': (0, 255), 'np.uint16': (0, 2 ** 16 - 1), 'np.uint32': (0, 2 ** 31 - 1),
             'np.uint64': (0, 2 ** 31 - 1), 'int': (-2 ** 31 + 1, 2 ** 31 - 1)}
FLOATS = ['float', 'np.float16', 'np.float32', 'np.float64', 'np.longdouble']


def rand_scalar(rng, hashable=False):
    r = rng.random()
    if r < 0.22:
        c = rng.choice(sorted(INT_RANGE))
        lo, hi = INT_RANGE[c]
        return xa.obj(c, ['i', rng.choice([lo, hi, 0, 1, rng.randint(lo, hi)])])
    if r < 0.42:
        c = rng.choice(FLOATS)
        q = rng.random()
        val = ['nan', 0] if q < 0.2 else ['inf', rng.choice([1, -1])] if q < 0.35 else ['f', _ratio(rng.randint(-1024, 1024), rng.choice([1, 2, 4, 8]))]
        return xa.obj(c, val)
    if r < 0.5:
        return xa.obj(rng.choice(['bool', 'np.bool_']), ['b', rng.choice([0, 1])])
    if r < 0.62:
        return xa.obj(rng.choice(['str', 'np.str_', 'bytes']), ['s', rng.choice(['', 'a', 'nan', 'None', 'x_y', 'inf'])])
    if r < 0.75:
        o = 730000 + rng.randint(0, 9000)
        c = rng.choice(['date', 'datetime', 'np.datetime64', 'Timestamp', 'NaTType', 'np.datetime64'])
        if c == 'date':
            return xa.obj(c, ['date', o])
        if c == 'NaTType' or (c == 'np.datetime64' and rng.random() < 0.2):
            return xa.obj(c, xa.NATVAL)
        return xa.obj(c, ['d', [o, rng.choice([0, 0, 3600, 86399]), rng.choice([0, 0, 250000])]])
    if r < 0.8:
        return xa.obj('NoneType')
    if r < 0.86:
        if rng.random() < 0.5:
            return xa.obj('IntEnum', ['i', rng.randint(0, 3)])
        return xa.obj('Enum', xa.NOVAL, [rand_scalar(rng, True)])
    c = rng.choice(['complex', 'Decimal', 'object', 'function', 'np.timedelta64'])
    return xa.obj(c, ['i', rng.randint(0, 9)] if c in ('complex', 'Decimal', 'np.timedelta64') else xa.NOVAL)


def _ratio(p, q):
    from math import gcd
    g = gcd(p, q) or 1
    return [p // g, q // g]


def _hashable(ab):
    if ab['cls'] in ('list', 'dict', 'dictattr', 'Dict', 'set', 'ndarray', 'ndarray0', 'Series', 'DataFrame', 'iterator', 'dict_keys', 'dict_values'):
        return False
    return all(_hashable(x) for x in ab['items'])


def rand_object(rng, depth=0):
    """a random object: scalars of every width, containers (also empty, nested to depth 3), views, arrays, pandas"""
    if depth >= 3 or rng.random() < (0.3 if depth == 0 else 0.55):
        return rand_scalar(rng)
    c = rng.choice(['list', 'list', 'tuple', 'tuple', 'set', 'frozenset', 'dict', 'dict', 'dictattr', 'Dict', 'dict_keys', 'dict_values',
                    'range', 'iterator', 'ndarray0', 'ndarray', 'ndarray', 'Series', 'Series', 'DataFrame'])
    n = rng.choice([0, 1, 1, 2, 3, 5])
    homog = rng.random() < 0.5
    first = rand_object(rng, depth + 1)
    def elt():
        if homog:
            e = rand_object(rng, 3)
            if first['cls'] in INT_RANGE or first['cls'] in FLOATS or first['cls'] in ('str', 'np.str_', 'NoneType', 'date', 'datetime'):
                e = dict(first)
            return e
        return rand_object(rng, depth + 1)
    if c in ('list', 'tuple'):
        return xa.obj(c, xa.NOVAL, [first] * (n > 0) + [elt() for _ in range(max(0, n - 1))])
    if c in ('set', 'frozenset', 'dict_keys'):
        items = [e for e in [rand_scalar(rng, True) for _ in range(n)] if _hashable(e) and e['cls'] not in ('object',)]
        seen, out = set(), []
        for e in items:                                   # distinct members: equal ones would merge
            k = repr(xa._num(e['val'])) if e['val'][0] in 'ibf' and e['val'][0] != 'big' else json.dumps(e, sort_keys=True)
            if e['val'][0] in ('nan', 'nat') or k in seen:
                continue
            seen.add(k); out.append(e)
        return xa.obj(c, xa.NOVAL, out)
    if c in ('dict', 'dictattr', 'Dict'):
        idx = 'str' if c != 'dict' else rng.choice(['str', 'str', 'int0', 'int5'])
        return xa.obj(c, xa.NOVAL, [rand_object(rng, depth + 1) for _ in range(n)], idx)
    if c == 'dict_values':
        return xa.obj(c, xa.NOVAL, [rand_object(rng, depth + 1) for _ in range(n)])
    if c == 'range':
        lo = rng.randint(-3, 3)
        return xa.obj(c, xa.NOVAL, [xa.obj('int', ['i', lo + i]) for i in range(n)])
    if c == 'iterator':
        return xa.obj(c, xa.NOVAL, [rand_scalar(rng) for _ in range(n)])
    if c == 'ndarray0':
        return xa.obj(c, xa.NOVAL, [rng.choice([xa.obj('int', ['i', 3]), xa.obj('float', ['f', [1, 2]]), xa.obj('str', ['s', 'ab']), xa.obj('NoneType')])], 'object')
    if c == 'ndarray':
        if rng.random() < 0.4:
            k = rng.choice(['np.int64', 'np.float64'])
            return xa.obj(c, xa.NOVAL, [xa.obj(k, ['i', rng.randint(0, 9)] if k == 'np.int64' else ['f', [rng.randint(-9, 9), 1]]) for _ in range(max(n, 1))], 'native')
        return xa.obj(c, xa.NOVAL, [_plain(rand_scalar(rng)) for _ in range(n)], 'object')
    if c == 'Series':
        return xa.obj(c, xa.NOVAL, [_plain(rand_scalar(rng)) for _ in range(n)], rng.choice(['range', 'int5', 'date', 'date_desc', 'str']))
    return xa.obj('DataFrame', ['i', rng.choice([0, 1, 3])], [], rng.choice(['range', 'int5', 'date', 'date_desc', 'str']))


def _plain(e):
    """elements of arrays / series: python scalars (pandas and numpy would convert numpy scalars and dates on the way in)"""
    if e['cls'] in ('int', 'float', 'str', 'NoneType', 'bool'):
        return e
    return xa.obj('int', ['i', 1])


def c2s_types(ctx, n, fs, log):
    for i in range(n):
        ab = rand_object(ctx.rng)
        row, n2n, prim = observe_types(ab, fs)
        ctx.evals += len(fs) + 2
        log.add(row, types_case('row', ab)); log.add(n2n, types_case('null2none', ab)); log.add(prim, types_case('as_primitive', ab))
        if i % 211 == 0:
            ctx.sample({'types_observed': {'v': ab, 'n2n': n2n['out'], 'prim': prim['out']}})


def run_types(ctx, log):
    ctx.mc('MC_AccessTypes', 'MC_AccessTypes_quick.cfg' if ctx.quick else 'MC_AccessTypes_thorough.cfg')
    cases = ctx.generate('MC_AccessTypes', 'MC_AccessTypes_gen.cfg' if ctx.quick else 'MC_AccessTypes_gent.cfg')
    fs = types_preds(sorted(cases[0]['admit']))
    s2c_types(ctx, cases, fs, log)
    c2s_types(ctx, 500 if ctx.quick else 6000, fs, log)


# =========================================================================================================
def judge(ctx, log):
    """Trace_Access judges every recorded line; a rejected line may name several clauses (joined by ';'), a clause may
    carry the predicate / step it is about after a ':' - that becomes the `op` of the case"""
    obs = log.obs
    if CORRUPT:
        obs = corrupt(obs)
    bad = ctx.validate('Trace_Access', obs)
    for i, clauses in bad:
        for cl in clauses.split(';'):
            clause, _, what = cl.partition(':')
            case = dict(log.cases[i - 1])
            if what:
                case['op'] = what
            report(ctx, clause, case, {"line": obs[i - 1] if len(json.dumps(obs[i - 1])) < 3000 else '(large)'})


def corrupt(obs):
    """falsify ONE field of ONE recorded observation of the chosen area: the trace specification must reject that line"""
    obs = [json.loads(json.dumps(o)) for o in obs]
    for o in obs:
        if o['area'] != CORRUPT:
            continue
        if o['area'] == 'types' and o['op'] == 'row' and o['v']['cls'] == 'int':
            o['row']['is_str'] = 'T'
            return obs
    raise Machinery('nothing to corrupt for area %r' % CORRUPT)


def run(ctx):
    _seen.clear()
    log = Log()
    if ONLY:
        ctx.extra['partial_run'] = ONLY
    if ONLY in ('', 'types'):
        run_types(ctx, log)
    judge(ctx, log)
    ctx.rule = ('distinct non-trivial = TLC-enumerated cases with a container / numpy scalar (types), a present default, chain or '
                'collision (items), a keyword-only parameter or a partial (signatures)')
    ctx.exhaustive = False
    ctx.assumptions += [
        'the universes are finite menus of classes and values (spec/MC_Access*.tla); beyond them only the random objects of the C2S part',
        'numbers cross the TLC boundary as exact rationals within 32 bits; floats are dyadic rationals exact in every width',
    ]
