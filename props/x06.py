"""X06 - the timeseries helpers no listed property covers (module prefix Frames).

X06-a  frames assembled and taken apart: df_concat (side by side / stacked, names, joins, fills), as_series, df_column,
       df_columns / df_recolumn, np_reindex, df_drop_index_duplicates, and the cell-wise helpers mask2v, df_apply, sf
       (spec/Frames.tla, MC_Frames.tla, Trace_Frames.tla)
X06-b  gaps: ts_gap, ts_deal_with_issue, ts_degap, and the history of a caller who degaps what he keeps every time new
       rows arrive (spec/FramesGap.tla, MC_FramesGap.tla)
X06-c  left folds: reducer / reducing, one reducing object called again and again (spec/FramesFold.tla, MC_FramesFold.tla)

MC   the clauses of the three statements on the law-level operators (one INVARIANT a clause).
S2C  TLC enumerates calls / histories with the outcome the specification expects; each is replayed through the public
     API on freshly built pandas / numpy objects and compared with ==; the operands are projected again after the call.
C2S  seeded random larger calls / histories are recorded and judged by spec/Trace_Frames.tla.
Cells cross the boundary exactly (float.as_integer_ratio), NaN is a tag, time k is 2000-01-01 + k days.
"""
import json
import warnings

from harness import x_frames as xf
from harness.x_frames import Registry, build, proj, outcome

warnings.simplefilter('ignore')

NONAME = ["n", 0]


def seq(x):
    """TLC prints an empty sequence as [] and an empty function / record as {}"""
    return list(x) if x else []


# ---------------------------------------------------------------------------------------------------------------------
# X06-a: one public call per case
# ---------------------------------------------------------------------------------------------------------------------
def _method(ms, lim):
    names = []
    for m in seq(ms):
        names.append(xf.number(m[1], ints=True) if m[0] == 'const' else m[0])
    method = None if not names else names[0] if len(names) == 1 else names
    return method, (lim or None)


def _name(h):
    return None if h == NONAME else h[1]


CONCAT_FORMS = ['list', 'tuple', 'dict', 'single']
POLICY_SPELLINGS = {'ij': ['ij', 'inner', 'i', 'IJ'], 'oj': ['oj', 'outer', 'o'], 'lj': ['lj', 'left'], 'rj': ['rj', 'right']}
APPLY_SPELLINGS = {'sum': ['sum', 'np.sum', 'lambda'], 'count': ['count'], 'max': ['max', 'np.max'], 'min': ['min', 'lambda'], 'mean': ['mean', 'np.mean']}


def _apply_func(func, pick):
    import numpy as np
    sp = APPLY_SPELLINGS[func][pick % len(APPLY_SPELLINGS[func])]
    if sp == 'lambda':
        return {'sum': (lambda v: v.sum()), 'min': (lambda v: v.min())}[func]
    if sp.startswith('np.'):
        return getattr(np, sp[3:])
    return sp


def call_frames(c, pick=0):
    """one call of the family X06-a on freshly built operands -> (encoded outcome, the case projected again afterwards)"""
    import numpy as np
    import pandas as pd
    import pyg_base as pg
    from pyg_base._pandas import df_column, mask2v
    reg = Registry()
    op = c['op']
    after = dict(c)
    if op == 'concat1':
        xs = seq(c['xs'])
        objs = [build(x, reg, ints=(pick % 2 == 1)) for x in xs]
        names, kw = c['names'], {}
        method, limit = _method(c['ms'], c['lim'])
        form = CONCAT_FORMS[pick % 4]
        single = all(x['k'] != 'pf' or len(x['h']) == 1 for x in xs)
        if form == 'dict' and names['k'] == 'list' and single:
            arg = dict(zip(seq(names['v']), objs))
        elif form == 'single' and len(xs) == 1 and xs[0]['k'] == 'pf':
            arg = objs[0]
            if names['k'] == 'list':
                kw['columns'] = seq(names['v'])
            elif names['k'] == 'map':
                kw['columns'] = dict(zip(seq(names['from']), seq(names['to'])))
        else:
            arg = tuple(objs) if form == 'tuple' else list(objs)
            if names['k'] == 'list':
                nm = seq(names['v'])
                kw['columns'] = nm[0] if len(nm) == 1 and pick % 3 == 0 else nm
            elif names['k'] == 'map':
                kw['columns'] = dict(zip(seq(names['from']), seq(names['to'])))
        if c['join'] != 'outer' or pick % 2:
            kw['join'] = c['join']
        if method is not None:
            kw['method'] = method
        if limit is not None:
            kw['limit'] = limit
        err, res = outcome(lambda: pg.df_concat(arg, **kw))
        out = err or {'kind': 'val', 'v': proj(res)}
        after['xs'] = [proj(o) for o in objs]
    elif op == 'concat0':
        xs = seq(c['xs'])
        objs = [build(x, reg) for x in xs]
        kw = {'axis': 0}
        if c['join'] != 'outer' or pick % 2:
            kw['join'] = c['join']
        if c['name'] != NONAME:
            kw['columns'] = _name(c['name'])
        err, res = outcome(lambda: pg.df_concat(list(objs), **kw))
        out = err or {'kind': 'val', 'v': xf.sort_columns(proj(res)) if xs[0]['k'] == 'pf' and len(xs[0]['h']) > 1 else proj(res)}
        after['xs'] = [proj(o) for o in objs]
    elif op == 'as_series':
        obj = build(c['x'], reg)
        kw = {}
        if c['col'] != NONAME:
            kw['col'] = _name(c['col'])
        if c['uc']:
            kw['unique_column'] = True
        err, res = outcome(lambda: pg.as_series(obj, **kw))
        out = err or {'kind': 'val', 'v': proj(res, reg)}
        after['x'] = proj(obj, reg)
    elif op == 'column':
        obj = build(c['x'], reg)
        dflt = build(c['dflt'], reg)
        kw = {}
        if c['i'] != -1:
            kw['i'] = c['i']
        if c['n'] != -1:
            kw['n'] = c['n']
        if not (c['dflt'] == {'k': 'c', 'v': ['nan', 0]} and pick % 2):
            kw['default'] = dflt
        f = df_column if pick % 3 else pg._pandas.df_column
        err, res = outcome(lambda: f(obj, _name(c['name']), **kw))
        out = err or {'kind': 'val', 'v': proj(res, reg)}
        after['x'] = proj(obj, reg)
    elif op == 'columns':
        obj = build(c['tree'], reg)
        sp = POLICY_SPELLINGS[c['pol']]
        err, res = outcome(lambda: pg.df_columns(obj, sp[pick % len(sp)]))
        out = err or {'kind': 'val', 'v': xf.proj_names(res)}
        after['tree'] = proj(obj, reg)
    elif op == 'recolumn':
        obj = build(c['tree'], reg)
        names = seq(c['names'])
        arg = names if c.get('as') == 'list' or (c.get('as') is None and pick % 2) else pd.Index(names, dtype=object)
        err, res = outcome(lambda: pg.df_recolumn(obj, arg))
        out = err or {'kind': 'val', 'v': proj(res, reg)}
        after['tree'] = proj(obj, reg)
    elif op == 'np_reindex':
        arr = build(c['a'], reg)
        idx = xf.index_of(seq(c['T']))
        carrier = idx if pick % 2 == 0 else pd.Series(np.zeros(len(idx)), idx)
        names = seq(c['names'])
        cols = None if not names else names if pick % 3 else pd.DataFrame(columns=names)
        err, res = outcome(lambda: pg.np_reindex(arr, carrier, cols))
        out = err or {'kind': 'val', 'v': proj(res)}
        after['a'] = proj(arr)
        after['T'] = xf.times(idx)
    elif op == 'drop_dup':
        obj = build(c['x'], reg)
        kw = {} if (c['keep'] == 'last' and pick % 2) else {'keep': c['keep']}
        err, res = outcome(lambda: pg.df_drop_index_duplicates(obj, **kw))
        out = err or {'kind': 'val', 'v': proj(res)}
        after['x'] = proj(obj)
    elif op == 'mask2v':
        obj = build(c['x'], reg)
        ms = [xf.number(m, ints=(pick % 2 == 1)) for m in seq(c['ms'])]
        mask = ms[0] if c['form'] == 'one' else ms
        err, res = outcome(lambda: mask2v(obj, mask, xf.number(c['value'], ints=(pick % 2 == 1))))
        out = err or {'kind': 'val', 'v': proj(res)}
        after['x'] = proj(obj)
    elif op == 'apply':
        obj = build(c['x'], reg)
        exc = [xf.number(m) for m in seq(c['exc'])]
        kw = {'axis': c['axis']} if (c['axis'] or pick % 2) else {}
        if not (len(exc) == 1 and exc[0] != exc[0] and pick % 2 == 0):          # (a single NaN is the default: sometimes left out)
            kw['exc'] = exc[0] if len(exc) == 1 else exc
        err, res = outcome(lambda: pg.df_apply(obj, _apply_func(c['func'], pick), **kw))
        out = err or {'kind': 'val', 'v': proj(res)}
        after['x'] = proj(obj)
    elif op == 'sf':
        x = xf.number(c['c'], ints=(pick % 2 == 1))
        err, res = outcome(lambda: pg.sf(x, c['n']))
        out = err or {'kind': 'val', 'v': xf.quantised(res)['v']}
    else:
        raise ValueError(op)
    if out['kind'] == 'exc':
        out = {'kind': 'exc', 'cls': out['cls'], 'msg': out.get('msg', '')}
    return out, after


def shape_of(x):
    k = x.get('k')
    if k == 'pf':
        return 'frame%d' % len(x['h']) if len(x['h']) != 1 else 'pseudo'
    return {'s': 'series', 'a': 'array', 'm': 'matrix', 'c': 'number', 'x': 'leaf', 'l': 'list', 'd': 'dict'}.get(k, k)


def case_key(c, out):
    """the matchable description of a failing call"""
    key = {'op': c['op'], 'raised': out.get('cls', '') if out.get('kind') == 'exc' else ''}
    if c['op'] in ('concat1', 'concat0'):
        xs = seq(c['xs'])
        key.update(shapes=','.join(shape_of(x) for x in xs), join=c['join'], has_empty=any(x.get('k') in ('s', 'pf') and not seq(x['t']) for x in xs))
        if c['op'] == 'concat1':
            key.update(names=c['names']['k'], method=','.join(str(m[0]) for m in seq(c['ms'])), limit=c['lim'])
    elif c['op'] == 'as_series':
        key.update(form=c['form'], shape=shape_of(c['x']), col=c['col'] != NONAME, unique_column=bool(c['uc']))
    elif c['op'] == 'column':
        key.update(shape=shape_of(c['x']), by='name' if c['name'] != NONAME else 'position' if c['i'] != -1 else 'nothing')
    elif c['op'] in ('columns', 'recolumn'):
        key.update(policy=c['pol'])
        if c['op'] == 'recolumn':          # a LIST of names as long as some list of members is dealt out by the loop decorator
            n = len(seq(c['names']))

            def dealt(t):
                return t.get('k') in ('l', 'd') and ((t['k'] == 'l' and len(seq(t['items'])) == n) or any(dealt(i) for i in seq(t['items'])))
            key.update(names_as=c.get('as', ''), names_like_members=(c.get('as') == 'list' and dealt(c['tree'])))
    elif c['op'] == 'np_reindex':
        key.update(shape=shape_of(c['a']), empty_array=(c['a'].get('n', c['a'].get('rows')) == 0), empty_index=not seq(c['T']))
    elif c['op'] == 'drop_dup':
        key.update(keep=c['keep'], shape=shape_of(c['x']))
    elif c['op'] == 'mask2v':
        key.update(shape=shape_of(c['x']), form=c['form'], n_masks=len(seq(c['ms'])))
    elif c['op'] == 'apply':
        key.update(func=c['func'], axis=c['axis'], n_exc=len(seq(c['exc'])))
    elif c['op'] == 'sf':
        key.update(n=c['n'])
    key['case'] = c
    return key


class Reporter(object):
    """at most a few violations per signature, so that one defect does not bury another"""
    def __init__(self, ctx, per=2):
        self.ctx, self.per, self.seen = ctx, per, {}

    def __call__(self, clause, case, detail):
        from harness.core import _match
        if any(_match(k, {'clause': clause, 'case': case, 'detail': detail}) for k in self.ctx.known):
            self.ctx.violation(clause, case, detail)          # a listed finding: recorded as such, never counted against the signature
            return
        sig = (clause, case.get('op'), case.get('raised', ''))
        self.seen[sig] = self.seen.get(sig, 0) + 1
        if self.seen[sig] <= self.per:
            self.ctx.violation(clause, case, detail)

    def summary(self):
        return [{'clause': s[0], 'op': s[1], 'raised': s[2], 'count': n} for s, n in sorted(self.seen.items(), key=str)]


def same_outcome(want, out):
    """== between the encoded observation and the expectation TLC printed (on the fields the expectation pins)"""
    if want['kind'] == 'exc':
        return out['kind'] == 'exc' and out['cls'] == want['cls']
    if out['kind'] != 'val':
        return False
    if want['kind'] == 'oneof':
        return out['v'] in want['vs']
    w, g = want['v'], out['v']
    if want.get('heads') is False and isinstance(g, dict) and g.get('k') == 'pf' and len(g['h']) == len(w['h']):
        g = dict(g, h=w['h'])                       # the headers are not pinned (DefaultHeaders): the expectation's stand in
    return g == w


def trivial_frames(c, want):
    if want['kind'] != 'val':
        return False
    v = want['v']
    if isinstance(v, dict) and v.get('k') in ('s', 'pf') and not v['t']:
        return True
    for key in ('x', 'tree', 'a'):
        if key in c and c[key] == v:
            return True
    return False


def s2c_frames(ctx, report, cases, budget):
    cases = sorted(cases, key=lambda x: json.dumps(x['case'], sort_keys=True))          # TLC's workers print in any order
    by_op = {}
    for x in cases:
        by_op.setdefault(x['case']['op'], []).append(x)
    work = []
    for op in sorted(by_op):
        xs = by_op[op]
        share = budget.get(op, budget.get('*', 0)) if budget else 0
        if share and len(xs) > share:
            xs = ctx.rng.sample(xs, share)
            ctx.exhaustive = False
        work += xs
    for n, x in enumerate(work):
        c, want = x['case'], x['want']
        out, after = call_frames(c, pick=n)
        ctx.evals += 1
        ctx.traces += 1
        if after != c:
            report('operand_changed', case_key(c, out), {'after': after})
        elif not same_outcome(want, out):
            clause = c['op'] + ('_raised' if out['kind'] == 'exc' and want['kind'] != 'exc' else '_result')
            report(clause, case_key(c, out), {'expected': want, 'observed': out})
        elif not trivial_frames(c, want):
            ctx.note(('s2c', json.dumps(c, sort_keys=True)))
        if n % 1999 == 0:
            ctx.sample({'s2c_case': c, 'expect': want})



# ---------------------------------------------------------------------------------------------------------------------
# X06-b: gaps
# ---------------------------------------------------------------------------------------------------------------------
def _today_base(today_abs):
    """abstract stamp `today_abs` is rendered as the real today (ts_gap measures the last gap against dt(0))"""
    import pandas as pd
    import pyg_base as pg
    return pd.Timestamp(pg.dt(0)) - pd.Timedelta(days=int(today_abs))


def _deal(d, pick=0):
    if d[0] == 'int':
        return d[1]
    if d[0] == 'other':
        return 'zzz'
    return d[0].upper() if (d[0] in ('last', 'raise') and pick % 3 == 2) else d[0]


def call_gap(c, pick=0):
    import numpy as np
    import pandas as pd
    import pyg_base as pg
    reg = Registry()
    op = c['op']
    after = dict(c)
    base = _today_base(c['today']) if 'today' in c else xf.BASE
    obj = build(c['x'], reg, base=base)
    if op == 'gap':
        arg = obj.index if (pick % 3 == 2 and len(obj)) else obj
        kw = {} if (c['recent'] and pick % 2) else {'recent': bool(c['recent'])}
        err, res = outcome(lambda: pg.ts_gap(arg, **kw))
    elif op == 'deal':
        sc = c['scores']
        scores = pd.Series(np.array([xf.number(v, ints=True) for v in seq(sc['v'])], dtype='int64'), index=xf.index_of(seq(sc['t']), base))
        err, res = outcome(lambda: pg.ts_deal_with_issue(obj, lambda ts: scores, c['level'], _deal(c['deal'], pick)))
    elif op == 'degap':
        kw = {'recent': bool(c['recent'])} if (c['recent'] or pick % 2) else {}
        if not (c['deal'] == ['last', 0] and pick % 2):
            kw['deal'] = _deal(c['deal'], pick)
        err, res = outcome(lambda: pg.ts_degap(obj, c['g'], **kw))
    else:
        raise ValueError(op)
    out = err or {'kind': 'val', 'v': proj(res, base=base)}
    if out['kind'] == 'exc':
        out = {'kind': 'exc', 'cls': out['cls'], 'msg': out.get('msg', '')}
    after['x'] = proj(obj, base=base)
    return out, after


def gap_key(c, out):
    key = {'op': c['op'], 'raised': out.get('cls', '') if out.get('kind') == 'exc' else '', 'shape': shape_of(c['x']), 'rows': len(seq(c['x']['t']))}
    if c['op'] != 'gap':
        key.update(deal=c['deal'][0])
    if c['op'] != 'deal':
        key.update(recent=bool(c['recent']))
    key['case'] = c
    return key


def same_any(want, out):
    """the outcome is one of the outcomes TLC printed"""
    for w in want['vs']:
        if w['kind'] == 'exc':
            if out['kind'] == 'exc' and out['cls'] == w['cls']:
                return True
        elif out['kind'] == 'val' and out['v'] == w['v']:
            return True
    return False


def s2c_gaps(ctx, report, cases, budget):
    cases = sorted(cases, key=lambda x: json.dumps(x['case'], sort_keys=True))
    if budget and len(cases) > budget:
        cases = ctx.rng.sample(cases, budget)
        ctx.exhaustive = False
    for n, x in enumerate(cases):
        c, want = x['case'], x['want']
        out, after = call_gap(c, pick=n)
        ctx.evals += 1
        ctx.traces += 1
        if after != c:
            report('operand_changed', gap_key(c, out), {'after': after})
        elif not same_any(want, out):
            report(c['op'] + ('_raised' if out['kind'] == 'exc' else '_result'), gap_key(c, out), {'expected_one_of': want['vs'], 'observed': out})
        elif not any(w.get('v') == c['x'] for w in want['vs']):
            ctx.note(('s2c-gap', json.dumps(c, sort_keys=True)))
        if n % 999 == 0:
            ctx.sample({'s2c_gap_case': c, 'expect_one_of': want['vs']})


def run_gap_history(g, stamps, base=None):
    """the caller's loop on real objects: kept = ts_degap(kept + the new row, g) for every stamp that arrives"""
    import numpy as np
    import pandas as pd
    import pyg_base as pg
    base = base or xf.BASE
    kept = pd.Series(np.array([], dtype=float), index=xf.index_of([], base))
    steps = []
    for t in stamps:
        new = pd.Series(np.array([100.0 + t]), index=xf.index_of([t], base))
        both = pd.concat([kept, new]).sort_index() if len(kept) else new
        kept = pg.ts_degap(both, g)
        p = proj(kept, base=base)
        steps.append({'t': t, 'kept': p.get('t', ['?']), 'vals': p.get('v', [])})
    return steps


def s2c_gap_histories(ctx, report, hists):
    """TLC printed every history once per reading of 'over max_gap'; the caller's loop must follow one of them throughout"""
    by = {}
    for h in hists:
        key = (h['g'], tuple(st['t'] for st in seq(h['hist'])))
        by.setdefault(key, []).append([seq(st['kept']) for st in seq(h['hist'])])
    for n, (key, wants) in enumerate(sorted(by.items())):
        g, stamps = key
        steps = run_gap_history(g, stamps)
        ctx.evals += len(steps)
        ctx.traces += 1
        got = [st['kept'] for st in steps]
        vals_ok = all(st['vals'] == [["f", [100 + t, 1]] for t in st['kept']] for st in steps)
        case = {'op': 'gaphist', 'g': g, 'stamps': list(stamps), 'late': any(stamps[i] < max(stamps[:i]) for i in range(1, len(stamps)))}
        if got not in wants:
            report('gaphist_kept', case, {'expected_one_of': wants, 'observed': got})
        elif not vals_ok:
            report('gaphist_values', case, {'observed': steps})
        elif len(set(map(json.dumps, got))) > 1:
            ctx.note(('s2c-gaphist', g, stamps))
        if n % 199 == 0:
            ctx.sample({'s2c_gap_history': case, 'expect_one_of': wants})


# ---------------------------------------------------------------------------------------------------------------------
# X06-c: folds
# ---------------------------------------------------------------------------------------------------------------------
NOKW = ["nokw", 0]
TS_FNS = ('tsadd', 'union', 'inter')


class Term(object):
    """a member with methods (reducing('name')): a plain value in a box"""
    def __init__(self, v, log):
        self.v, self.log = v, log

    def _kw(self, kw):
        return kw.get('k')

    def pair(self, other, **kw):
        self.log.append((self, other))
        return Term((self.v, other.v) if not kw else (self.v, other.v, kw['k']), self.log)

    def sub(self, other, **kw):
        self.log.append((self, other))
        return Term(self.v - other.v - (kw['k'] if kw else 0), self.log)


def fold_member(fn, x):
    from harness import enc
    import pandas as pd
    if fn in TS_FNS:
        if x['k'] == 'x':
            return None
        if x['k'] == 'idx':
            return xf.index_of(seq(x['t']))
        return build(x, None)
    return enc.untag(x)


def fold_enc(fn, v):
    from harness import enc
    import pandas as pd
    if isinstance(v, Term):
        v = v.v
    if fn in TS_FNS:
        if v is None:
            return {"k": "x", "id": 0}
        if isinstance(v, pd.Index):
            ks = xf.times(v) if len(v) else []
            return {"k": "idx", "t": ks} if ks is not None else {"k": "o", "ty": type(v).__name__}
        return proj(v)
    return enc.tag(v)


def fold_function(fn, log):
    import pyg_base as pg

    def f(a, b, **kw):
        log.append((a, b))
        if fn == 'pair':
            return (a, b) if not kw else (a, b, kw['k'])
        if fn == 'sub':
            return a - b - (kw['k'] if kw else 0)
        if fn == 'add':
            return a + b + (kw['k'] if kw else 0)
        if fn == 'cat':
            return a + b
        if fn == 'tsadd':
            return pg.add_(a, b, **kw)
        if fn == 'union':
            return a.union(b)
        if fn == 'inter':
            return a.intersection(b)
        raise ValueError(fn)
    return f


def fold_kw(fn, kw):
    if kw == NOKW:
        return {}
    if fn == 'tsadd':
        return {kw[0]: kw[1]}
    return {'k': kw[1]}


METHOD_NAMES = {'pair': 'pair', 'sub': 'sub', 'union': 'union', 'inter': 'intersection'}


def call_fold(c, pick=0, by=None):
    """reducer / reducing on a sequence -> ({v, calls, origin} | exc, the members encoded again afterwards)"""
    import pyg_base as pg
    fn, kw = c['fn'], fold_kw(c['fn'], c['kw'])
    log = []
    members = [fold_member(fn, x) for x in seq(c['xs'])]
    dflt = fold_member(fn, c['dflt'])
    by = by or ('method' if (fn in ('pair', 'sub') and pick % 4 == 3) or (fn in ('union', 'inter') and pick % 2) else 'callable')
    if by == 'method' and fn in ('pair', 'sub'):
        members = [Term(m, log) for m in members]
    form = pick % 3
    if by == 'method':
        call = lambda: pg.reducing(METHOD_NAMES[fn])(members, default=dflt, **kw)
        arg = members
    elif kw or form == 0:
        arg = list(members)
        call = lambda: pg.reducing(fold_function(fn, log))(arg, default=dflt, **kw)
    elif form == 1:
        arg = list(members)
        call = (lambda: pg.reducer(fold_function(fn, log), arg, dflt)) if dflt is not None else (lambda: pg.reducer(fold_function(fn, log), arg))
    else:
        arg = tuple(members)
        call = lambda: pg.reducer(fold_function(fn, log), iter(arg), default=dflt)
    err, res = outcome(call)
    if err is not None:
        out = {'kind': 'exc', 'cls': err['cls'], 'msg': err.get('msg', '')}
    else:
        origin = 'default' if (not members and res is dflt) else 'member' if (len(members) == 1 and res is members[0]) else 'made'
        out = {'kind': 'val', 'v': fold_enc(fn, res), 'origin': origin}
        out['seen'] = not (by == 'method' and fn in ('union', 'inter'))       # the calls of a method of pd.Index are not observable
        out['calls'] = [{'a': fold_enc(fn, a), 'b': fold_enc(fn, b)} for a, b in log]
    after = [fold_enc(fn, m) for m in arg] if len(arg) == len(members) else ['length changed', len(arg)]
    return out, after, by


def fold_key(c, out, by):
    return {'op': 'fold', 'fn': c['fn'], 'n': len(seq(c['xs'])), 'kw': c['kw'] != NOKW, 'by': by,
            'raised': out.get('cls', '') if out.get('kind') == 'exc' else '', 'case': c}


def s2c_folds(ctx, report, cases, budget):
    cases = sorted(cases, key=lambda x: json.dumps(x['case'], sort_keys=True))
    if budget and len(cases) > budget:
        cases = ctx.rng.sample(cases, budget)
        ctx.exhaustive = False
    for n, x in enumerate(cases):
        c, want = x['case'], x['want']
        out, after, by = call_fold(c, pick=n)
        ctx.evals += 1
        ctx.traces += 1
        xs = seq(c['xs'])
        if after != xs:
            report('operand_changed', fold_key(c, out, by), {'after': after})
        elif out['kind'] == 'exc':
            report('fold_raised', fold_key(c, out, by), {'expected': want, 'observed': out})
        elif out['seen'] and out['calls'] != seq(want['calls']):
            report('fold_calls', fold_key(c, out, by), {'expected': seq(want['calls']), 'observed': out['calls']})
        elif out['v'] != want['v']:
            report('fold_result', fold_key(c, out, by), {'expected': want['v'], 'observed': out['v']})
        elif out['origin'] != want['origin']:
            report('fold_identity', fold_key(c, out, by), {'expected': want['origin'], 'observed': out['origin']})
        elif len(xs) >= 2:
            ctx.note(('s2c-fold', json.dumps(c, sort_keys=True)))
        if n % 999 == 0:
            ctx.sample({'s2c_fold_case': c, 'expect': want})


def run_fold_history(obj, calls, pick=0):
    """ONE reducing object, called again and again"""
    import pyg_base as pg
    fn, by = obj['fn'], obj['by']
    log = []
    R = pg.reducing(METHOD_NAMES[fn]) if by == 'method' else pg.reducing(fold_function(fn, log))
    steps = []
    for c in calls:
        del log[:]
        kw = fold_kw(fn, c['kw'])
        wrap = (lambda v: Term(v, log)) if by == 'method' else (lambda v: v)
        before = dict(R)
        if c['form'] == 'seq':
            members = [wrap(fold_member(fn, x)) for x in seq(c['xs'])]
            dflt = fold_member(fn, c['dflt'])
            if dflt is None and pick % 2:
                err, res = outcome(lambda: R(members, **kw))
            else:
                err, res = outcome(lambda: R(members, default=dflt, **kw))
        else:
            a, b = wrap(fold_member(fn, c['a'])), wrap(fold_member(fn, c['b']))
            err, res = outcome(lambda: R(a, b, **kw))
        same = (dict(R) == before) and all(dict(R)[k] is before[k] for k in before)
        if err is not None:
            out = {'kind': 'exc', 'cls': err['cls'], 'msg': err.get('msg', '')}
        else:
            out = {'kind': 'val', 'v': fold_enc(fn, res), 'calls': [{'a': fold_enc(fn, x), 'b': fold_enc(fn, y)} for x, y in log]}
        steps.append({'call': c, 'out': out, 'same': bool(same)})
    return steps


def s2c_fold_histories(ctx, report, hists, budget):
    hists = sorted(hists, key=lambda x: json.dumps(x, sort_keys=True))
    if budget and len(hists) > budget:
        hists = ctx.rng.sample(hists, budget)
        ctx.exhaustive = False
    for n, h in enumerate(hists):
        wants = seq(h['hist'])
        steps = run_fold_history(h['obj'], [w['c'] for w in wants], pick=n)
        ctx.evals += len(steps)
        ctx.traces += 1
        ok = True
        for k, (st, w) in enumerate(zip(steps, wants)):
            case = {'op': 'foldhist', 'fn': h['obj']['fn'], 'by': h['obj']['by'], 'step': k + 1, 'form': st['call']['form'],
                    'kw': st['call']['kw'] != NOKW, 'raised': st['out'].get('cls', ''), 'calls': [x['c'] for x in wants]}
            if st['out']['kind'] == 'exc':
                report('foldhist_raised', case, {'observed': st['out']})
            elif st['out']['calls'] != seq(w['calls']):
                report('foldhist_calls', case, {'expected': seq(w['calls']), 'observed': st['out']['calls']})
            elif st['out']['v'] != w['want']:
                report('foldhist_result', case, {'expected': w['want'], 'observed': st['out']['v']})
            elif not st['same']:
                report('foldhist_object_changed', case, {})
            else:
                continue
            ok = False
            break
        if ok:
            ctx.note(('s2c-foldhist', json.dumps(h, sort_keys=True)))
        if n % 499 == 0:
            ctx.sample({'s2c_fold_history': h})


# ---------------------------------------------------------------------------------------------------------------------
# C2S: seeded random larger calls and histories, recorded and judged by spec/Trace_Frames.tla
# ---------------------------------------------------------------------------------------------------------------------
NAN = ["nan", 0]
LETTERS = ["a", "b", "c", "d", "e", "p", "q", "r"]


def val(p, q=1):
    from fractions import Fraction
    fr = Fraction(p, q)
    return ["f", [fr.numerator, fr.denominator]]


def r_cell(rng, values, pnan=0.2):
    return NAN if rng.random() < pnan else rng.choice(values)


def r_stamps(rng, T, prev=None):
    style = rng.random()
    if style < 0.07:
        return []
    if style < 0.3 and prev:
        base = rng.choice(prev)
        return sorted(rng.sample(base, rng.randint(0, len(base))))
    if style < 0.5:
        lo = rng.randint(1, T); hi = rng.randint(lo, min(T, lo + rng.randint(0, 8)))
        return list(range(lo, hi + 1))
    dens = rng.choice([0.2, 0.5, 0.9])
    return [t for t in range(1, T + 1) if rng.random() < dens]


VALUES = [val(k) for k in (0, 1, 2, 3, 5, 8, 13, -4, 40)] + [val(1, 2), val(-3, 2), val(7, 4)]
AGGVALS = [val(k) for k in (0, 12, 24, -24, 36, -12, 48)]


def r_series(rng, T, prev, values=VALUES, pnan=0.2):
    ts = r_stamps(rng, T, prev)
    prev.append(ts)
    return {"k": "s", "t": ts, "v": [r_cell(rng, values, pnan) for _ in ts]}


def r_frame(rng, T, prev, width=None, values=VALUES, pnan=0.2, names=None):
    ts = r_stamps(rng, T, prev)
    prev.append(ts)
    w = width or rng.choice([2, 2, 3])
    names = names or sorted(rng.sample(LETTERS, w))
    return {"k": "pf", "t": ts, "h": [["s", n] for n in names], "v": [[r_cell(rng, values, pnan) for _ in ts] for _ in names]}


def r_methods(rng):
    m = rng.random()
    if m < 0.4:
        return [], 0
    if m < 0.55:
        return [["ffill", 0]], rng.choice([0, 0, 1, 2])
    if m < 0.7:
        return [["bfill", 0]], rng.choice([0, 0, 1, 2])
    if m < 0.8:
        return [["ffill", 0], ["bfill", 0]], rng.choice([0, 1])
    if m < 0.9:
        return [["bfill", 0], ["ffill", 0]], 0
    return [["const", rng.choice([val(0), val(7), val(-1, 2)])]], 0


def r_leafy(rng, T, prev, depth=0):
    """a collection of frames, series and other things"""
    k = rng.random()
    if depth < 2 and k < 0.25:
        return {"k": "l", "items": [r_leafy(rng, T, prev, depth + 1) for _ in range(rng.randint(0, 3))]}
    if depth < 2 and k < 0.4:
        keys = rng.sample(["x", "y", "z", "w"], rng.randint(1, 3))
        return {"k": "d", "keys": keys, "items": [r_leafy(rng, T, prev, depth + 1) for _ in keys]}
    if k < 0.7:
        return r_frame(rng, T, prev, width=rng.choice([2, 3, 4]))
    if k < 0.8:
        return r_frame(rng, T, prev, width=1)
    if k < 0.9:
        return r_series(rng, T, prev)
    return rng.choice([{"k": "x", "id": rng.randint(1, 5)}, {"k": "c", "v": val(rng.randint(0, 9))}])


def r_frames_case(rng):
    op = rng.choice(['concat1'] * 5 + ['concat0'] * 2 + ['as_series'] * 2 + ['column'] * 3 + ['columns', 'recolumn', 'recolumn', 'np_reindex', 'np_reindex',
                     'drop_dup', 'drop_dup', 'mask2v', 'mask2v', 'apply', 'apply', 'apply', 'sf', 'sf'])
    T = rng.choice([4, 8, 20, 30])
    prev = []
    if op == 'concat1':
        n = rng.choice([1, 2, 2, 3, 3, 4, 5])
        mix = rng.random()
        kinds = ['s'] if mix < 0.35 else ['s', 's', 'p'] if mix < 0.5 else ['f'] if mix < 0.6 else ['s', 'f', 'p', 'c']
        xs = []
        for _ in range(n):
            k = rng.choice(kinds)
            xs.append(r_series(rng, T, prev) if k == 's' else r_frame(rng, T, prev, width=1) if k == 'p' else r_frame(rng, T, prev) if k == 'f'
                      else {"k": "c", "v": rng.choice(VALUES)})
        if all(x['k'] == 'c' for x in xs):
            xs[0] = r_series(rng, T, prev)
        width = sum(len(x['h']) if x['k'] == 'pf' else 1 for x in xs)
        nk = rng.random()
        names = {"k": "none"}
        if nk < 0.45:
            names = {"k": "list", "v": ['n%d' % j for j in range(width)] if rng.random() < 0.7 else rng.sample(LETTERS, width) if width <= 8 else ['m%d' % j for j in range(width)]}
        elif nk < 0.6 and all(x['k'] == 'pf' for x in xs):
            src = rng.sample(LETTERS, 3)
            names = {"k": "map", "from": src, "to": [s_.upper() for s_ in src]}
        ms, lim = r_methods(rng)
        return {"op": op, "xs": xs, "names": names, "join": rng.choice(['outer', 'outer', 'inner']), "ms": ms, "lim": lim}
    if op == 'concat0':
        n = rng.choice([1, 2, 2, 3, 4])
        if rng.random() < 0.65:
            hs = rng.choice([['p'], ['p', 'q'], ['p', None], [None]])
            xs = []
            for _ in range(n):
                h = rng.choice(hs)
                xs.append(r_series(rng, T, prev) if h is None else r_frame(rng, T, prev, names=[h]))
            return {"op": op, "xs": xs, "name": rng.choice([NONAME, NONAME, ["s", "z"]]), "join": "outer"}
        xs = [r_frame(rng, T, prev, width=rng.choice([2, 3])) for _ in range(n)]
        return {"op": op, "xs": xs, "name": NONAME, "join": rng.choice(['outer', 'inner'])}
    if op == 'as_series':
        col = rng.choice([NONAME, NONAME, ["s", "z"], ["s", "p"]])
        if rng.random() < 0.3:
            x = rng.choice([r_series(rng, T, prev), r_frame(rng, T, prev, width=1), r_frame(rng, T, prev)])
            return {"op": op, "form": "one", "x": x, "col": col, "uc": False}
        members = []
        hs = rng.choice([['p'], ['p', 'q'], ['p', None], [None], ['p', 'wide']])
        for _ in range(rng.randint(0, 4)):
            h = rng.choice(hs + ['leaf'] * (rng.random() < 0.3))
            members.append(r_series(rng, T, prev) if h is None else {"k": "x", "id": rng.randint(1, 5)} if h == 'leaf'
                           else r_frame(rng, T, prev) if h == 'wide' else r_frame(rng, T, prev, names=[h]))
        return {"op": op, "form": "list", "x": {"k": "l", "items": members}, "col": col, "uc": rng.random() < 0.5}
    if op == 'column':
        k = rng.random()
        dflt = rng.choice([{"k": "c", "v": NAN}, {"k": "c", "v": val(0)}, {"k": "x", "id": 3}])
        if k < 0.35:
            x = r_leafy(rng, T, prev)
            return {"op": op, "x": x, "name": ["s", rng.choice(LETTERS)], "i": -1, "n": -1, "dflt": dflt}
        if k < 0.6:
            x = r_frame(rng, T, prev, width=rng.choice([1, 2, 3, 4]))
            return {"op": op, "x": x, "name": ["s", rng.choice(LETTERS)], "i": -1, "n": -1, "dflt": dflt}
        i = rng.randint(0, 4)
        n = rng.choice([-1, -1, 2, 3, 4])
        if k < 0.8:
            w = rng.choice([2, 3, 4])
            base = rng.sample(LETTERS, w - 1)
            x = r_frame(rng, T, prev, names=sorted(base + [rng.choice(base)]))              # one header twice
        else:
            rows, w = rng.randint(0, 5), rng.choice([1, 2, 3, 4])
            x = {"k": "m", "rows": rows, "v": [[r_cell(rng, VALUES) for _ in range(rows)] for _ in range(w)]}
        return {"op": op, "x": x, "name": NONAME, "i": i, "n": n, "dflt": dflt}
    if op in ('columns', 'recolumn'):
        tree = r_leafy(rng, T, prev)
        if tree['k'] not in ('l', 'd') or rng.random() < 0.5:
            tree = {"k": "l", "items": [tree, r_frame(rng, T, prev, width=rng.choice([2, 3])), r_leafy(rng, T, prev, 1)]}
        if op == 'columns':
            return {"op": op, "tree": tree, "pol": rng.choice(['ij', 'oj', 'lj', 'rj'])}
        return {"op": op, "tree": tree, "names": rng.sample(LETTERS, rng.randint(0, 5)), "pol": "given", "as": rng.choice(['list', 'index'])}
    if op == 'np_reindex':
        rows = rng.randint(0, 12)
        T_ = sorted(rng.sample(range(1, 40), rng.randint(0, 12)))
        if rng.random() < 0.4:
            w = rng.choice([1, 2, 3])
            a = {"k": "m", "rows": rows, "v": [[r_cell(rng, VALUES) for _ in range(rows)] for _ in range(w)]}
            names = rng.sample(LETTERS, w) if rng.random() < 0.6 else []
        else:
            a = {"k": "a", "n": rows, "v": [r_cell(rng, VALUES) for _ in range(rows)]}
            names = []
        return {"op": op, "a": a, "T": T_, "names": names}
    if op == 'drop_dup':
        n = rng.randint(0, 15)
        t = [rng.randint(1, rng.choice([3, 6, 20])) for _ in range(n)]
        if rng.random() < 0.3:
            t = sorted(t)
        if rng.random() < 0.4:
            x = {"k": "pf", "t": t, "h": [["s", "a"], ["s", "b"]], "v": [[val(100 + r) for r in range(n)], [r_cell(rng, VALUES) for _ in range(n)]]}
        else:
            x = {"k": "s", "t": t, "v": [val(100 + r) if rng.random() < 0.8 else NAN for r in range(n)]}
        return {"op": op, "x": x, "keep": rng.choice(['first', 'last'])}
    if op == 'mask2v':
        cells = [NAN, val(0), val(1), val(2), val(5), val(1, 2)]
        k = rng.random()
        if k < 0.15:
            x = {"k": "c", "v": rng.choice(cells)}
        elif k < 0.55:
            x = r_series(rng, T, prev, values=cells, pnan=0.25)
        elif k < 0.85:
            x = r_frame(rng, T, prev, values=cells, pnan=0.25)
        else:
            n = rng.randint(0, 8)
            x = {"k": "a", "n": n, "v": [r_cell(rng, cells) for _ in range(n)]}
        ms = rng.sample(cells, rng.choice([1, 1, 2, 3]))
        return {"op": op, "x": x, "ms": ms, "value": rng.choice([val(0), val(9), NAN, val(1)]), "form": 'one' if len(ms) == 1 and rng.random() < 0.6 else 'list'}
    if op == 'apply':
        rows, w = rng.randint(1, 4), rng.randint(1, 4)
        x = {"k": "pf", "t": sorted(rng.sample(range(1, 20), rows)), "h": [["s", n] for n in sorted(rng.sample(LETTERS, w))],
             "v": [[r_cell(rng, AGGVALS, 0.35) for _ in range(rows)] for _ in range(w)]}
        exc = rng.choice([[NAN], [NAN], [val(0)], [val(0), NAN], [], [val(12), NAN, val(0)]])
        return {"op": op, "x": x, "func": rng.choice(['sum', 'count', 'max', 'min', 'mean']), "axis": rng.choice([0, 0, 1]), "exc": exc}
    if op == 'sf':
        k = rng.random()
        if k < 0.5:
            c = val(rng.randint(1, 99999) * rng.choice([1, 1, -1]))
        elif k < 0.9:
            c = val(rng.randint(1, 79999) * rng.choice([1, -1]), 8)
        else:
            c = rng.choice([NAN, val(0)])
        return {"op": op, "c": c, "n": rng.randint(1, 3)}
    raise ValueError(op)


def r_gap_case(rng):
    op = rng.choice(['gap', 'deal', 'deal', 'degap', 'degap', 'degap'])
    N = rng.choice([6, 12, 40])
    today = N + rng.choice([0, 1, 3, 10])
    ts = sorted(rng.sample(range(1, N + 1), rng.randint(0, min(N, 14))))
    if rng.random() < 0.3:
        x = {"k": "pf", "t": ts, "h": [["s", "a"], ["s", "b"]], "v": [[val(10 + t) for t in ts], [r_cell(rng, VALUES) for _ in ts]]}
    else:
        x = {"k": "s", "t": ts, "v": [val(10 + t) if rng.random() < 0.85 else NAN for t in ts]}
    deal = rng.choice([['last', 0]] * 4 + [['no_first', 0], ['no_first', 0], ['raise', 0], ['other', 0]] + [['int', k] for k in (-3, -2, -1, 0, 1, 2)])
    if op == 'gap':
        return {"op": op, "x": x, "today": today, "recent": rng.random() < 0.6}
    if op == 'deal':
        st = sorted(rng.sample(ts, rng.randint(0, len(ts)))) if rng.random() < 0.7 else sorted(rng.sample(range(1, N + 1), rng.randint(0, min(N, 8))))
        scores = {"k": "s", "t": st, "v": [val(rng.randint(0, 4)) for _ in st]}
        return {"op": op, "x": x, "scores": scores, "level": rng.choice([0, 1, 2, 3, 4]), "deal": deal}
    return {"op": op, "x": x, "today": today, "g": rng.choice([0, 1, 2, 2, 3, 5, 11]), "deal": deal, "recent": rng.random() < 0.4}


def r_fold_value(rng, fn, i, T=6):
    if fn in ('pair', 'sub', 'add'):
        return ["i", rng.randint(-9, 9)]
    if fn == 'cat':
        return ["l", [["i", rng.randint(0, 5)] for _ in range(rng.randint(0, 3))]]
    if fn == 'tsadd':
        ts = [t for t in range(1, T + 1) if rng.random() < 0.7]
        return {"k": "s", "t": ts, "v": [NAN if rng.random() < 0.2 else val(rng.choice([0, 1, 2, 4, 8, -2])) for _ in ts]}
    return {"k": "idx", "t": [t for t in range(1, T + 1) if rng.random() < 0.6]}


def r_fold_case(rng):
    fn = rng.choice(['pair', 'pair', 'sub', 'sub', 'add', 'cat', 'tsadd', 'tsadd', 'union', 'inter'])
    n = rng.choice([0, 1, 2, 3, 3, 4, 5, 8]) if fn not in TS_FNS else rng.choice([0, 1, 2, 3, 4])
    xs = [r_fold_value(rng, fn, i) for i in range(n)]
    dflt = rng.choice([{"k": "x", "id": 0}, {"k": "idx", "t": []}]) if fn in TS_FNS else rng.choice([["n", 0], ["i", 0], ["i", 7]])
    kw = NOKW
    if fn in ('pair', 'sub', 'add') and rng.random() < 0.3:
        kw = ["i", rng.randint(1, 5)]
    if fn == 'tsadd' and rng.random() < 0.5:
        kw = ["join", "oj"]
    return {"op": "fold", "fn": fn, "xs": xs, "dflt": dflt, "kw": kw}


def r_fold_history(rng):
    fn = rng.choice(['pair', 'sub'])
    obj = {"fn": fn, "by": rng.choice(['callable', 'method'])}
    calls = []
    for _ in range(rng.randint(3, 8)):
        kw = ["i", rng.randint(1, 5)] if rng.random() < 0.35 else NOKW
        if rng.random() < 0.65:
            calls.append({"form": "seq", "xs": [["i", rng.randint(-9, 9)] for _ in range(rng.choice([0, 1, 2, 3, 5]))],
                          "dflt": rng.choice([["n", 0], ["i", 0]]), "kw": kw})
        else:
            calls.append({"form": "two", "a": ["i", rng.randint(-9, 9)], "b": ["i", rng.randint(-9, 9)], "kw": kw})
    return obj, calls


def corrupt(rng, line):
    """a copy of an accepted line with ONE recorded field changed (None: nothing to change in this line)"""
    o = json.loads(json.dumps(line))
    op = o['op']

    def bump(c):
        return ["f", [c[1][0] + c[1][1], c[1][1]]] if c[0] == "f" else val(1)
    if op == 'gaphist':
        st = o['steps'][-1]              # a row that never arrived is held (whatever the reading of 'over max_gap')
        ghost = max([x['t'] for x in o['steps']]) + 1000
        st['kept'] = st['kept'] + [ghost]; st['vals'] = st['vals'] + [val(100 + ghost)]
        return o, 'gaphist_kept'
    if op == 'fold':
        if o['out']['kind'] != 'val':
            return None
        if o['out']['calls'] and o['out']['seen']:
            o['out']['calls'] = o['out']['calls'][:-1]
            return o, 'fold_calls'
        o['out']['origin'] = 'made' if o['out']['origin'] != 'made' else 'member'
        return o, 'fold_identity'
    if op == 'foldhist':
        st = o['steps'][-1]
        st['same'] = False
        return o, 'foldhist_object_changed'
    out = o['out']
    if out['kind'] != 'val':
        return None
    v = out['v']
    if op == 'sf':
        out['v'] = ["f", [3 * v[1][0], v[1][1]]] if v[0] == "f" and v[1][0] != 0 else val(1)       # (three times the answer: never a rounding of x)
        return o, 'sf_result'
    if isinstance(v, dict) and v.get('k') == 's' and v['v']:
        j = rng.randrange(len(v['v']))
        v['v'][j] = bump(v['v'][j])
        return o, op + '_values'
    if isinstance(v, dict) and v.get('k') == 'pf' and v['v'] and v['v'][0]:
        j = rng.randrange(len(v['v']))
        r = rng.randrange(len(v['v'][j]))
        v['v'][j][r] = bump(v['v'][j][r])
        return o, op + '_values'
    if isinstance(v, dict) and v.get('k') in ('s', 'pf') and not v['t']:
        v['t'] = [1]
        if v['k'] == 's':
            v['v'] = [val(1)]
        else:
            v['v'] = [[val(1)] for _ in v['h']]
        return o, op + '_index'
    return None


def c2s(ctx, report, n_frames, n_gaps, n_hist, n_folds, n_fhist):
    rng = ctx.rng
    obs, keys = [], []
    for k in range(n_frames):
        c = r_frames_case(rng)
        out, after = call_frames(c, pick=rng.randrange(12))
        obs.append({'op': c['op'], 'case': c, 'out': out, 'after': after}); keys.append(case_key(c, out))
    for k in range(n_gaps):
        c = r_gap_case(rng)
        out, after = call_gap(c, pick=rng.randrange(6))
        obs.append({'op': c['op'], 'case': c, 'out': out, 'after': after}); keys.append(gap_key(c, out))
    for k in range(n_hist):
        N = rng.choice([8, 15, 30])
        stamps = rng.sample(range(1, N + 1), rng.randint(2, min(N, 12)))
        if rng.random() < 0.4:
            stamps = sorted(stamps)
        g = rng.choice([1, 2, 2, 3, 5])
        steps = run_gap_history(g, stamps)
        obs.append({'op': 'gaphist', 'g': g, 'steps': steps})
        keys.append({'op': 'gaphist', 'g': g, 'stamps': stamps, 'late': stamps != sorted(stamps)})
    for k in range(n_folds):
        c = r_fold_case(rng)
        out, after, by = call_fold(c, pick=rng.randrange(12))
        obs.append(dict(c, out=out, after=after, by=by)); keys.append(fold_key(c, out, by))
    for k in range(n_fhist):
        obj, calls = r_fold_history(rng)
        steps = run_fold_history(obj, calls, pick=rng.randrange(2))
        obs.append({'op': 'foldhist', 'obj': obj, 'steps': steps})
        keys.append({'op': 'foldhist', 'fn': obj['fn'], 'by': obj['by'], 'calls': calls, 'raised': ''})
    ctx.evals += len(obs)
    # binding: corrupted copies (one recorded field changed) of lines of every kind ride along and must be rejected
    planted = []
    per_op = {}
    order = list(range(len(obs)))
    rng.shuffle(order)
    for k in order:
        op = obs[k]['op']
        if per_op.get(op, 0) >= 3:
            continue
        cor = corrupt(rng, obs[k])
        if cor is not None:
            per_op[op] = per_op.get(op, 0) + 1
            planted.append((k, cor[0], cor[1]))
    log = obs + [p[1] for p in planted]
    bad = dict((ln, clause) for ln, clause in ctx.validate('Trace_Frames', log, cfg='Trace_Frames.cfg'))
    from harness.core import Machinery
    binding = {}
    outside = 0
    for j, (k, cor, clause) in enumerate(planted):
        ln = len(obs) + j + 1
        original_rejected = (k + 1) in bad
        if ln not in bad:
            raise Machinery('binding: a corrupted copy of line %d (%s: one field changed) was accepted by Trace_Frames: %s' % (k + 1, cor['op'], json.dumps(cor)[:600]))
        if not original_rejected:
            binding[cor['op']] = binding.get(cor['op'], 0) + 1
    for ln, clause in sorted(bad.items()):
        if ln > len(obs):
            continue
        if clause == 'outside_domain':
            outside += 1
            continue
        o = obs[ln - 1]
        report(clause, keys[ln - 1], {'observed': o.get('out', o.get('steps'))})
    if outside * 20 > len(obs):
        raise Machinery('vacuous: %d of %d recorded lines lie outside the domain of the statement' % (outside, len(obs)))
    ctx.extra['binding_check'] = {'corrupted_copies_rejected': binding, 'planted': len(planted)}
    ctx.extra['lines_outside_domain'] = outside
    for k, o in enumerate(obs):
        if (k + 1) not in bad:
            ctx.note(('c2s', k))
    ctx.sample({'c2s_line': obs[len(obs) // 5]})
    ctx.sample({'c2s_line': obs[-1]})

def replay(ctx, body):
    """./check X06 --replay <file>: run one recorded case again and let Trace_Frames judge it"""
    k = body['case']
    c = k.get('case')
    if k.get('op') == 'gaphist':
        line = {'op': 'gaphist', 'g': k['g'], 'steps': run_gap_history(k['g'], k['stamps'])}
    elif k.get('op') == 'foldhist':
        line = {'op': 'foldhist', 'obj': {'fn': k['fn'], 'by': k['by']}, 'steps': run_fold_history({'fn': k['fn'], 'by': k['by']}, k['calls'])}
    elif k.get('op') == 'fold':
        out, after, by = call_fold(c, by=k.get('by'))
        line = dict(c, out=out, after=after, by=by)
    elif c is not None and c['op'] in ('gap', 'deal', 'degap'):
        out, after = call_gap(c)
        line = {'op': c['op'], 'case': c, 'out': out, 'after': after}
    elif c is not None:
        out, after = call_frames(c, pick=1)
        line = {'op': c['op'], 'case': c, 'out': out, 'after': after}
    else:
        print('no single-case replay for %s' % json.dumps(k)[:300])
        return 2
    bad = ctx.validate('Trace_Frames', [line], cfg='Trace_Frames.cfg')
    print(json.dumps({'observed': line.get('out', line.get('steps')), 'verdict': bad[0][1] if bad else 'explained by the specification'})[:3000])
    return 1 if bad else 0


RULE = ('S2C: every call / history TLC enumerates (MC_Frames, MC_FramesGap, MC_FramesFold generator configurations; seeded samples of the large '
        'families in the quick tier) is replayed through the public API on freshly built pandas / numpy objects; outcome == the outcome TLC printed '
        '(one of them where the statement admits several), operands projected again afterwards == the operands. C2S: seeded random larger calls, '
        'degapping histories and reducing-object histories recorded and judged by Trace_Frames; corrupted copies of accepted lines ride along and '
        'must be rejected. Non-trivial = the expected result is neither empty nor one of the operands (calls), the kept rows change along the '
        'history (gap histories), at least two members (folds); distinct by the abstract case.')


def run(ctx):
    import os
    from harness.x_tlcpar import Prefetch
    ctx.rule = RULE
    report = Reporter(ctx)
    ctx.exhaustive = True
    if os.environ.get('VERIF_X06_ACCEPT_PROPOSED') == '1':
        # the defects of the unchanged tree found by this check, as PROPOSED known findings (extensions/X06.known.json); they are
        # applied only on request (sensitivity runs: a mutant must show as exit 1 against a baseline of exit 0)
        with open(os.path.join(os.path.dirname(os.path.dirname(os.path.abspath(__file__))), 'extensions', 'X06.known.json')) as f:
            ctx.known = ctx.known + [k for k in json.load(f)['known'] if k['property'] == ctx.pid]
    q = ctx.quick
    tier = 'quick' if q else 'thorough'
    only = os.environ.get('X06_ONLY', 'abc')          # development aid: a = frame helpers, b = gaps, c = folds (default: all)
    mcs = [('MC_FramesGap', 'MC_FramesGap_hist_%s.cfg' % tier, None),
           ('MC_FramesGap', 'MC_FramesGap_restored.cfg', 'Restored'), ('MC_FramesFold', 'MC_FramesFold_obj_%s.cfg' % tier, None),
           ('MC_FramesFold', 'MC_FramesFold_leaky.cfg', 'AnswerIsLaw')]
    if not q:
        mcs += [('MC_Frames', 'MC_Frames_thorough.cfg', None), ('MC_FramesGap', 'MC_FramesGap_thorough.cfg', None), ('MC_FramesFold', 'MC_FramesFold_thorough.cfg', None)]
    gens = [('MC_Frames', 'MC_Frames_gen_%s.cfg' % tier), ('MC_FramesGap', 'MC_FramesGap_gen_%s.cfg' % tier), ('MC_FramesGap', 'MC_FramesGap_genhist_%s.cfg' % tier),
            ('MC_FramesFold', 'MC_FramesFold_gen_%s.cfg' % tier), ('MC_FramesFold', 'MC_FramesFold_genobj_%s.cfg' % tier)]
    fam = {'MC_Frames': 'a', 'MC_FramesGap': 'b', 'MC_FramesFold': 'c'}
    mcs = [x for x in mcs if fam[x[0]] in only]
    with Prefetch(ctx.tmp, parallel=int(os.environ.get('X06_PARALLEL', '4'))) as ahead:
        for m, cfg, fail in mcs:
            ahead.submit(m, cfg, coverage=(fail is None))
        for m, cfg in gens:
            if fam[m] in only:
                ahead.submit(m, cfg, coverage=False)
        for m, cfg, fail in mcs:
            if fail:
                ctx.mc(m, cfg, must_fail=fail, coverage=False)
            else:
                ctx.mc(m, cfg)
        # (the generator configurations of the calls carry every INVARIANT of MC_Frames_<tier>.cfg / MC_FramesGap_<tier>.cfg /
        #  MC_FramesFold_<tier>.cfg: in the quick tier one run checks the clauses and prints the cases; the thorough tier also
        #  runs the larger MC configurations on their own)
        if 'a' in only:
            s2c_frames(ctx, report, ctx.generate(*gens[0]), {'concat1': 2400, 'apply': 600, '*': 800} if q else {'concat1': 30000, 'apply': 6000, '*': 12000})
        if 'b' in only:
            s2c_gaps(ctx, report, ctx.generate(*gens[1]), 2500 if q else 0)
            s2c_gap_histories(ctx, report, ctx.generate(*gens[2]))
        if 'c' in only:
            s2c_folds(ctx, report, ctx.generate(*gens[3]), 3000 if q else 40000)
            s2c_fold_histories(ctx, report, ctx.generate(*gens[4]), 1500 if q else 20000)
            if not q:       # deeper histories of one object: seeded simulation of the same machine (six calls each)
                s2c_fold_histories(ctx, report, ctx.generate('MC_FramesFold', 'MC_FramesFold_genobj_sim.cfg', simulate=60, depth=7, seed=ctx.seed + 1, workers=1), 0)     # (the last step is exhaustive over the enabled calls)
    k = 1 if q else 10
    c2s(ctx, report, 1500 * k * ('a' in only), 500 * k * ('b' in only), 150 * k * ('b' in only), 500 * k * ('c' in only), 100 * k * ('c' in only))
    ctx.extra['violation_signatures'] = report.summary()
    ctx.assumptions += [
        'time k is the day 2000-01-01 + k (for the gap functions: today - (today_abstract - k) days, so that the abstract `today` is the real one); '
        'cells are NaN or exact rationals (integers, halves, quarters, eighths); sums / means are taken over value families on which they are exact',
        'df_concat side by side: operands are series / frames on strictly increasing stamps, numbers, and (S2C only) one bare array as long as the joint '
        'index; without names the headers of the result are not pinned (DefaultHeaders); a constant fill is used without a limit (ConstLimit of C12); '
        'stacked (axis 0): all operands single-column, or all proper frames with string headers, no fill',
        'df_column by name: the name is not one of a duplicated header; by position: i >= 0; df_columns / df_recolumn: frames with duplicated headers '
        'and 2-d arrays are not proper frames (left alone / not counted)',
        "ts_degap: a gap of exactly max_gap days may or may not count as an issue (GapAtLevel: docstring 'over max_gap', code and error message "
        "'>= level'); stamps are whole days, not after today; ts_deal_with_issue: whole-number scores",
        'sf: n = 1..3, 1/1000 <= |x| < 100000 with denominator <= 8; the result may keep n or n + 1 significant figures (SfDigits, the docstring example '
        'keeps n + 1) and is read to the sixth decimal (SfFloatNoise)',
        'reducing(f)(a, b): b is not None (NoneIsNoOperand); the calls of f are observed for Python callables and for methods of boxed values, not for '
        'methods of pd.Index',
        'small scope: MC / S2C over <= 3 (thorough 4) stamps for pairs, 2 (3) for frames; C2S over <= 30 stamps, <= 5 operands, histories of <= 12 rows']
