"""X06 - the timeseries helpers no listed property covers (module prefix Frames).

X06-a  frames assembled and taken apart: df_concat (side by side / stacked, names, joins, fills), as_series, df_column,
       df_columns / df_recolumn, np_reindex, df_drop_index_duplicates, and the cell-wise helpers mask2v, df_apply, sf
       (spec/Frames.tla, MC_Frames.tla, Trace_Frames.tla)
X06-b  gaps: ts_gap, ts_deal_with_issue, ts_degap, and the history of a caller who degaps what he keeps every time new
       rows arrive (spec/FramesGap.tla, MC_FramesGap.tla)
X06-c  left folds: reducer / reducing, one reducing object called again and again (spec/FramesFold.tla, MC_FramesFold.tla)

MC   the clauses of the three statements on the law-level operators (one INVARIANT a clause).
S2C  TLC enumerates calls / histories with the outcome the specification expects; each is replayed through the public
     API on freshly built pandas / numpy objects and compared with ==; the operands are projected again after the call.
C2S  seeded random larger calls / histories are recorded and judged by spec/Trace_Frames.tla.
Cells cross the boundary exactly (float.as_integer_ratio), NaN is a tag, time k is 2000-01-01 + k days.
"""
import json
import warnings

from harness import x_frames as xf
from harness.x_frames import Registry, build, proj, outcome

warnings.simplefilter('ignore')

NONAME = ["n", 0]


def seq(x):
    """TLC prints an empty sequence as [] and an empty function / record as {}"""
    return list(x) if x else []


# ---------------------------------------------------------------------------------------------------------------------
# X06-a: one public call per case
# ---------------------------------------------------------------------------------------------------------------------
def _method(ms, lim):
    names = []
    for m in seq(ms):
        names.append(xf.number(m[1], ints=True) if m[0] == 'const' else m[0])
    method = None if not names else names[0] if len(names) == 1 else names
    return method, (lim or None)


def _name(h):
    return None if h == NONAME else h[1]


CONCAT_FORMS = ['list', 'tuple', 'dict', 'single']
POLICY_SPELLINGS = {'ij': ['ij', 'inner', 'i', 'IJ'], 'oj': ['oj', 'outer', 'o'], 'lj': ['lj', 'left'], 'rj': ['rj', 'right']}
APPLY_SPELLINGS = {'sum': ['sum', 'np.sum', 'lambda'], 'count': ['count'], 'max': ['max', 'np.max'], 'min': ['min', 'lambda'], 'mean': ['mean', 'np.mean']}


def _apply_func(func, pick):
    import numpy as np
    sp = APPLY_SPELLINGS[func][pick % len(APPLY_SPELLINGS[func])]
    if sp == 'lambda':
        return {'sum': (lambda v: v.sum()), 'min': (lambda v: v.min())}[func]
    if sp.startswith('np.'):
        return getattr(np, sp[3:])
    return sp


def call_frames(c, pick=0):
    """one call of the family X06-a on freshly built operands -> (encoded outcome, the case projected again afterwards)"""
    import numpy as np
    import pandas as pd
    import pyg_base as pg
    from pyg_base._pandas import df_column, mask2v
    reg = Registry()
    op = c['op']
    after = dict(c)
    if op == 'concat1':
        xs = seq(c['xs'])
        objs = [build(x, reg, ints=(pick % 2 == 1)) for x in xs]
        names, kw = c['names'], {}
        method, limit = _method(c['ms'], c['lim'])
        form = CONCAT_FORMS[pick % 4]
        single = all(x['k'] != 'pf' or len(x['h']) == 1 for x in xs)
        if form == 'dict' and names['k'] == 'list' and single:
            arg = dict(zip(seq(names['v']), objs))
        elif form == 'single' and len(xs) == 1 and xs[0]['k'] == 'pf':
            arg = objs[0]
            if names['k'] == 'list':
                kw['columns'] = seq(names['v'])
            elif names['k'] == 'map':
                kw['columns'] = dict(zip(seq(names['from']), seq(names['to'])))
        else:
            arg = tuple(objs) if form == 'tuple' else list(objs)
            if names['k'] == 'list':
                nm = seq(names['v'])
                kw['columns'] = nm[0] if len(nm) == 1 and pick % 3 == 0 else nm
            elif names['k'] == 'map':
                kw['columns'] = dict(zip(seq(names['from']), seq(names['to'])))
        if c['join'] != 'outer' or pick % 2:
            kw['join'] = c['join']
        if method is not None:
            kw['method'] = method
        if limit is not None:
            kw['limit'] = limit
        err, res = outcome(lambda: pg.df_concat(arg, **kw))
        out = err or {'kind': 'val', 'v': proj(res)}
        after['xs'] = [proj(o) for o in objs]
    elif op == 'concat0':
        xs = seq(c['xs'])
        objs = [build(x, reg) for x in xs]
        kw = {'axis': 0}
        if c['join'] != 'outer' or pick % 2:
            kw['join'] = c['join']
        if c['name'] != NONAME:
            kw['columns'] = _name(c['name'])
        err, res = outcome(lambda: pg.df_concat(list(objs), **kw))
        out = err or {'kind': 'val', 'v': xf.sort_columns(proj(res)) if xs[0]['k'] == 'pf' and len(xs[0]['h']) > 1 else proj(res)}
        after['xs'] = [proj(o) for o in objs]
    elif op == 'as_series':
        obj = build(c['x'], reg)
        kw = {}
        if c['col'] != NONAME:
            kw['col'] = _name(c['col'])
        if c['uc']:
            kw['unique_column'] = True
        err, res = outcome(lambda: pg.as_series(obj, **kw))
        out = err or {'kind': 'val', 'v': proj(res, reg)}
        after['x'] = proj(obj, reg)
    elif op == 'column':
        obj = build(c['x'], reg)
        dflt = build(c['dflt'], reg)
        kw = {}
        if c['i'] != -1:
            kw['i'] = c['i']
        if c['n'] != -1:
            kw['n'] = c['n']
        if not (c['dflt'] == {'k': 'c', 'v': ['nan', 0]} and pick % 2):
            kw['default'] = dflt
        f = df_column if pick % 3 else pg._pandas.df_column
        err, res = outcome(lambda: f(obj, _name(c['name']), **kw))
        out = err or {'kind': 'val', 'v': proj(res, reg)}
        after['x'] = proj(obj, reg)
    elif op == 'columns':
        obj = build(c['tree'], reg)
        sp = POLICY_SPELLINGS[c['pol']]
        err, res = outcome(lambda: pg.df_columns(obj, sp[pick % len(sp)]))
        out = err or {'kind': 'val', 'v': xf.proj_names(res)}
        after['tree'] = proj(obj, reg)
    elif op == 'recolumn':
        obj = build(c['tree'], reg)
        names = seq(c['names'])
        arg = names if c.get('as') == 'list' or (c.get('as') is None and pick % 2) else pd.Index(names, dtype=object)
        err, res = outcome(lambda: pg.df_recolumn(obj, arg))
        out = err or {'kind': 'val', 'v': proj(res, reg)}
        after['tree'] = proj(obj, reg)
    elif op == 'np_reindex':
        arr = build(c['a'], reg)
        idx = xf.index_of(seq(c['T']))
        carrier = idx if pick % 2 == 0 else pd.Series(np.zeros(len(idx)), idx)
        names = seq(c['names'])
        cols = None if not names else names if pick % 3 else pd.DataFrame(columns=names)
        err, res = outcome(lambda: pg.np_reindex(arr, carrier, cols))
        out = err or {'kind': 'val', 'v': proj(res)}
        after['a'] = proj(arr)
        after['T'] = xf.times(idx)
    elif op == 'drop_dup':
        obj = build(c['x'], reg)
        kw = {} if (c['keep'] == 'last' and pick % 2) else {'keep': c['keep']}
        err, res = outcome(lambda: pg.df_drop_index_duplicates(obj, **kw))
        out = err or {'kind': 'val', 'v': proj(res)}
        after['x'] = proj(obj)
    elif op == 'mask2v':
        obj = build(c['x'], reg)
        ms = [xf.number(m, ints=(pick % 2 == 1)) for m in seq(c['ms'])]
        mask = ms[0] if c['form'] == 'one' else ms
        err, res = outcome(lambda: mask2v(obj, mask, xf.number(c['value'], ints=(pick % 2 == 1))))
        out = err or {'kind': 'val', 'v': proj(res)}
        after['x'] = proj(obj)
    elif op == 'apply':
        obj = build(c['x'], reg)
        exc = [xf.number(m) for m in seq(c['exc'])]
        kw = {'axis': c['axis']} if (c['axis'] or pick % 2) else {}
        if not (len(exc) == 1 and exc[0] != exc[0] and pick % 2 == 0):          # (a single NaN is the default: sometimes left out)
            kw['exc'] = exc[0] if len(exc) == 1 else exc
        err, res = outcome(lambda: pg.df_apply(obj, _apply_func(c['func'], pick), **kw))
        out = err or {'kind': 'val', 'v': proj(res)}
        after['x'] = proj(obj)
    elif op == 'sf':
        x = xf.number(c['c'], ints=(pick % 2 == 1))
        err, res = outcome(lambda: pg.sf(x, c['n']))
        out = err or {'kind': 'val', 'v': xf.quantised(res)['v']}
    else:
        raise ValueError(op)
    if out['kind'] == 'exc':
        out = {'kind': 'exc', 'cls': out['cls'], 'msg': out.get('msg', '')}
    return out, after


def shape_of(x):
    k = x.get('k')
    if k == 'pf':
        return 'frame%d' % len(x['h']) if len(x['h']) != 1 else 'pseudo'
    return {'s': 'series', 'a': 'array', 'm': 'matrix', 'c': 'number', 'x': 'leaf', 'l': 'list', 'd': 'dict'}.get(k, k)


def case_key(c, out):
    """the matchable description of a failing call"""
    key = {'op': c['op'], 'raised': out.get('cls', '') if out.get('kind') == 'exc' else ''}
    if c['op'] in ('concat1', 'concat0'):
        xs = seq(c['xs'])
        key.update(shapes=','.join(shape_of(x) for x in xs), join=c['join'], empty_joint=False)
        if c['op'] == 'concat1':
            key.update(names=c['names']['k'], method=','.join(str(m[0]) for m in seq(c['ms'])), limit=c['lim'])
    elif c['op'] == 'as_series':
        key.update(form=c['form'], shape=shape_of(c['x']), col=c['col'] != NONAME, unique_column=bool(c['uc']))
    elif c['op'] == 'column':
        key.update(shape=shape_of(c['x']), by='name' if c['name'] != NONAME else 'position' if c['i'] != -1 else 'nothing')
    elif c['op'] in ('columns', 'recolumn'):
        key.update(policy=c['pol'])
        if c['op'] == 'recolumn':          # a list of names as long as the list of members is dealt out by the loop decorator
            key.update(names_like_members=(c['tree']['k'] == 'l' and len(seq(c['names'])) == len(seq(c['tree']['items']))))
    elif c['op'] == 'np_reindex':
        key.update(shape=shape_of(c['a']), empty_array=(c['a'].get('n', c['a'].get('rows')) == 0), empty_index=not seq(c['T']))
    elif c['op'] == 'drop_dup':
        key.update(keep=c['keep'], shape=shape_of(c['x']))
    elif c['op'] == 'mask2v':
        key.update(shape=shape_of(c['x']), form=c['form'], n_masks=len(seq(c['ms'])))
    elif c['op'] == 'apply':
        key.update(func=c['func'], axis=c['axis'], n_exc=len(seq(c['exc'])))
    elif c['op'] == 'sf':
        key.update(n=c['n'])
    key['case'] = c
    return key


class Reporter(object):
    """at most a few violations per signature, so that one defect does not bury another"""
    def __init__(self, ctx, per=2):
        self.ctx, self.per, self.seen = ctx, per, {}

    def __call__(self, clause, case, detail):
        sig = (clause, case.get('op'), case.get('raised', ''), case.get('empty_array', ''), case.get('n_masks', '') == 0)
        self.seen[sig] = self.seen.get(sig, 0) + 1
        if self.seen[sig] <= self.per:
            self.ctx.violation(clause, case, detail)

    def summary(self):
        return [{'clause': s[0], 'op': s[1], 'raised': s[2], 'count': n} for s, n in sorted(self.seen.items(), key=str)]


def same_outcome(want, out):
    """== between the encoded observation and the expectation TLC printed (on the fields the expectation pins)"""
    if want['kind'] == 'exc':
        return out['kind'] == 'exc' and out['cls'] == want['cls']
    if out['kind'] != 'val':
        return False
    if want['kind'] == 'oneof':
        return out['v'] in want['vs']
    w, g = want['v'], out['v']
    if want.get('heads') is False and isinstance(g, dict) and g.get('k') == 'pf' and len(g['h']) == len(w['h']):
        g = dict(g, h=w['h'])                       # the headers are not pinned (DefaultHeaders): the expectation's stand in
    return g == w


def trivial_frames(c, want):
    if want['kind'] != 'val':
        return False
    v = want['v']
    if isinstance(v, dict) and v.get('k') in ('s', 'pf') and not v['t']:
        return True
    for key in ('x', 'tree', 'a'):
        if key in c and c[key] == v:
            return True
    return False


def s2c_frames(ctx, report, cases, budget):
    cases = sorted(cases, key=lambda x: json.dumps(x['case'], sort_keys=True))          # TLC's workers print in any order
    by_op = {}
    for x in cases:
        by_op.setdefault(x['case']['op'], []).append(x)
    work = []
    for op in sorted(by_op):
        xs = by_op[op]
        share = budget.get(op, budget.get('*', 0)) if budget else 0
        if share and len(xs) > share:
            xs = ctx.rng.sample(xs, share)
            ctx.exhaustive = False
        work += xs
    for n, x in enumerate(work):
        c, want = x['case'], x['want']
        out, after = call_frames(c, pick=n)
        ctx.evals += 1
        ctx.traces += 1
        if after != c:
            report('operand_changed', case_key(c, out), {'after': after})
        elif not same_outcome(want, out):
            clause = c['op'] + ('_raised' if out['kind'] == 'exc' and want['kind'] != 'exc' else '_result')
            report(clause, case_key(c, out), {'expected': want, 'observed': out})
        elif not trivial_frames(c, want):
            ctx.note(('s2c', json.dumps(c, sort_keys=True)))
        if n % 1999 == 0:
            ctx.sample({'s2c_case': c, 'expect': want})


def run(ctx):
    ctx.rule = 'work in progress'
    report = Reporter(ctx)
    ctx.exhaustive = True
    ctx.mc('MC_Frames', 'MC_Frames_quick.cfg')
    s2c_frames(ctx, report, ctx.generate('MC_Frames', 'MC_Frames_gen_quick.cfg'), {'concat1': 4000, 'apply': 1200, '*': 1500})
    ctx.extra['violation_signatures'] = report.summary()
