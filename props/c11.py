"""C11 - listby/unlist, groupby/ungroup and pivot/unpivot are lossless regroupings."""
import json
from harness.enc import IdMap, tag, untag, table_from, proj_table
from harness.core import Machinery
from harness.x_regroup_session import obs_session
from harness.x_regroup_big import obs_scale, describe, VIAS, SIZES, THRESHOLDS
from pyg_base import dictable, cmp, first, last

AGG = {'list': None, 'len': len, 'first': first, 'last': last}


def safe_cmp(x, y):
    try:
        c = cmp(x, y)
        return int(c) if c in (-1, 0, 1) else 9
    except Exception:
        return 9


def proj_cell(v, ids):
    if isinstance(v, dictable):
        return ["tbl", proj_table(v, ids)]
    return tag(v, ids)


def enc_label(c):
    """a column label as a JSON string: a str as itself, any other object as '#<tag>:<payload>' (Regroup!LabelEnc)"""
    if isinstance(c, str):
        return c
    t = tag(c)
    if t[0] in ('n', 'nan'): return '#' + t[0]
    if t[0] == 'f': return '#f:%d/%d' % tuple(t[1])
    if t[0] == 'd': return '#d:%d:%d:%d' % tuple(t[1])
    return '#%s:%s' % (t[0], t[1])


def proj(d, ids):
    cols = list(dict.keys(d))
    lists = {c: list(dict.__getitem__(d, c)) for c in cols}
    n = len(d)
    return {"cols": [enc_label(c) for c in cols], "rows": [{enc_label(c): proj_cell(lists[c][i], ids) for c in cols} for i in range(n)]}


FORMS = ['names', 'list']


def spell(by, form):
    """the spellings of *by: the names one by one, or one list of names"""
    return tuple(by) if form == 'names' else (list(by),)


def obs_listby(t, by, form, again=None, k=0, idcol='p'):
    """again = a column of new key cells: the table is regrouped once, its first key column is re-assigned in place
    (same length) and the regrouping that is recorded is the one after that (judged against the edited table)"""
    ids = IdMap(); d = table_from(t, ids)
    if again is not None and t['rows']:
        try:
            d.listby(*spell(by, form)); d.groupby(*spell(by, form)) if len(by) < len(t['cols']) else None
        except Exception:
            pass
        col = by[0]
        if k % 2: d[col] = [untag(v, ids) for v in again]
        else: setattr(d, col, [untag(v, ids) for v in again])
        t = {'cols': t['cols'], 'rows': [dict(r, **{col: v}) for r, v in zip(t['rows'], again)]}
    o = {'op': 'listby', 't': t, 'by': by, 'form': form, 'idcol': idcol, 'raised': '', 'out': {'cols': [], 'rows': []}, 'unl': {'cols': [], 'rows': []}, 'colcmp': [], 'after': {}}
    try:
        o['stage'] = 'listby'
        res = d.listby(*spell(by, form))
        o['out'] = proj(res, ids)
        o['stage'] = 'unlist'
        unl = res.unlist()
        o['unl'] = proj(unl, ids)
        o['colcmp'] = [[safe_cmp(dict.__getitem__(unl, c)[p], dict.__getitem__(unl, c)[p + 1]) for c in by] for p in range(len(unl) - 1)]
    except Exception as e:
        o['raised'] = type(e).__name__
    o['after'] = proj_table(d, ids)
    return o


def obs_groupby(t, by, form, grp='grp'):
    """grp = the name asked for the sub-table column ('grp' = the default: the argument is left out)"""
    ids = IdMap(); d = table_from(t, ids)
    o = {'op': 'groupby', 't': t, 'by': by, 'form': form, 'grp': grp, 'raised': '', 'out': {'cols': [], 'rows': []}, 'ung': {'cols': [], 'rows': []}, 'ung2': True, 'after': {}}
    try:
        o['stage'] = 'groupby'
        res = d.groupby(*spell(by, form)) if grp == 'grp' else d.groupby(*spell(by, form), grp=grp)
        o['out'] = proj(res, ids)
        o['stage'] = 'ungroup'
        o['ung'] = proj(res.ungroup() if grp == 'grp' else res.ungroup(grp), ids)
        o['ung2'] = proj(res.ungroup() if grp == 'grp' else res.ungroup(grp=grp), ids) == o['ung']     # a second ungroup of the same grouped table
    except Exception as e:
        o['raised'] = type(e).__name__
    o['after'] = proj_table(d, ids)
    return o


def obs_pivot(t, x, form, y, z, agg, k=0):
    """form = how x is passed to pivot and to unpivot: 'name' (the single column name) or 'list'"""
    ids = IdMap(); d = table_from(t, ids)
    o = {'op': 'pivot', 't': t, 'x': x, 'form': form, 'y': y, 'z': z, 'agg': agg, 'raised': '', 'out': {'cols': [], 'rows': []}, 'unp': {'cols': [], 'rows': []}, 'after': {}}
    try:
        xa = x[0] if form == 'name' else list(x)
        o['stage'] = 'pivot'
        res = (d.pivot if k % 3 else d.xyz)(xa, y, z, AGG[agg])
        o['out'] = proj(res, ids)
        if agg == 'last':
            o['stage'] = 'unpivot'
            unp = res.unpivot(xa, y, z)
            o['stage'] = 'unpivot_exc_none'
            unp = unp.exc(**{z: None})
            o['unp'] = proj(unp, ids)
    except Exception as e:
        o['raised'] = type(e).__name__
    o['after'] = proj_table(d, ids)
    return o


YU = [["s", "u"], ["s", "v"], ["s", "w w"], ["i", 1], ["i", 2], ["i", 30]]
# y values of other types (they label their column as themselves) and names that contain / are contained in each other
YOTHER = [["f", [3, 2]], ["f", [1, 1]], ["n", 0], ["d", [730120, 0, 0]], ["nan", 1], ["inf", 1], ["s", ""]]
NAMEPOOL = ['a', 'b', 'c', 'p', 'y', 'z', 'name', 'me', 'n', 'am', 'na', 'nam', 'date', 'at', 'd', 'x y', 'x', 'ab', 'ba', 'abc', 'A', 'Aa', '',
            'grp', 'value', 'val', '1', '0', '10', 'key', 'ke y', 'k', 'rows']
ROLES = ['a', 'b', 'c', 'p', 'y', 'z', 'grp']
KNOWN_NAN_LABELS = 'C11-pivot-nan-labels-of-two-objects'


def pivot_table(rng, keyrows, sub, ypool=YU):
    """x keys from TLC's / the random key cells, y labels from ypool, z anything"""
    rows = []
    for i, r in enumerate(keyrows):
        rows.append({'a': r['a'], 'b': r['b'], 'y': rng.choice(ypool[:rng.choice([1, 2, 3, len(ypool)])]), 'z': rng.choice(sub + [["i", 100 + i]]), 'p': ["i", i + 1]})
    return {'cols': ['a', 'b', 'y', 'z', 'p'], 'rows': rows}


def renamed(t, m):
    """the table with its role names replaced by the names of the naming m"""
    return {'cols': [m[c] for c in t['cols']], 'rows': [{m[c]: v for c, v in r.items()} for r in t['rows']]}


def nan_objects(t, y):
    n = len({tuple(r[y]) for r in t['rows'] if r[y][0] == 'nan'})
    return ['none', 'one', 'several'][min(n, 2)]


SESSION_OPS = ('sort', 'listby', 'unlist', 'groupby', 'ungroup', 'pivot', 'unpivot', 'edit', 'respec')


def sessions(ctx):
    """histories on caller-owned objects (RegroupSession.tla / MC_RegroupS.tla): TLC enumerates them (its run checks that the
    constructive mechanism obeys the session law on every step), the real objects live through them, Trace_Regroup judges"""
    rng = ctx.rng
    if ctx.quick:
        gens = [('MC_RegroupS_genq.cfg', {}, 4000)]
    else:
        # the mechanisms the law forbids must be rejected by the session law inside TLC
        for m in ('tag', 'alias', 'pop', 'keys'):
            ctx.mc('MC_RegroupS', 'MC_RegroupS_%s.cfg' % m, must_fail='StepLaw', coverage=False)
        gens = [('MC_RegroupS_genq.cfg', {}, 4000), ('MC_RegroupS_genw.cfg', {}, 6000),
                ('MC_RegroupS_sim.cfg', dict(simulate=200, depth=7, seed=ctx.seed + 1, workers=1), 4000)]
    obs = []
    for g, kw, cap in gens:
        cases = ctx.generate('MC_RegroupS', g, **kw)
        for e in cases:
            if set(e) != {'init', 'plan', 'hist'} or any(set(cl) != set(cases[0]['hist'][0]) for cl in e['hist']):
                raise Machinery('generator %s printed a mangled history' % g)
        cases = sorted({json.dumps(e, sort_keys=True) for e in cases})      # (simulation prints siblings more than once)
        if len(cases) > cap:
            cases = rng.sample(cases, cap)
        for e in map(json.loads, cases):
            o = obs_session(e, proj)
            if o['init'] != e['init']:
                raise Machinery('the initial store of a session is not rendered as TLC printed it')
            obs.append(o)
            ctx.note(('session', o['plan'], json.dumps([cl['op'] for cl in e['hist']]), json.dumps(e['init'][0])))
        ctx.sample({'tlc_session': {'plan': ''.join(json.loads(cases[len(cases) // 2])['plan']),
                                    'calls': [{k: v for k, v in cl.items() if v not in ('', 0, [])} for cl in json.loads(cases[len(cases) // 2])['hist']]}})
    seen = {s['call']['op'] for o in obs for s in o['steps']}
    if set(SESSION_OPS) - seen:
        raise Machinery('vacuous: no session contains a step %s' % sorted(set(SESSION_OPS) - seen))
    ctx.evals += sum(len(o['steps']) for o in obs)
    for line, clause in ctx.validate('Trace_Regroup', obs):
        o = obs[line - 1]
        ctx.violation(clause, {'op': 'session', 'plan': o['plan'], 'calls': [s['call']['op'] for s in o['steps']], 'init': o['init'],
                               'hist': [s['call'] for s in o['steps']]},
                      {'steps': [{'call': {k: v for k, v in s['call'].items() if v not in ('', 0, [])}, 'raised': s['raised'], 'post': s['post']} for s in o['steps']]})
    ctx.sample({'observation_session': obs[len(obs) // 2]})


BYS = (['a'], ['a', 'b'], ['b', 'a'])
POSC = ('early', 'middle', 'late')
AGGS = ('last', 'list', 'len', 'first')


def scaled(ctx):
    """size thresholds (RegroupBig.tla / MC_RegroupB.tla): TLC enumerates the patterns, the odd keys and the key choices and checks
    the scaling law against the relational verdicts on 2-4 copies; the driver scales every (pattern, odd key) to 17 ... 1030 rows,
    the odd row early / in the middle / late (beyond rows 16, 64, 100, 256, 1024), calls the real code; Trace_Regroup judges"""
    ctx.mc('MC_RegroupB', 'MC_RegroupB_quick.cfg' if ctx.quick else 'MC_RegroupB_thorough.cfg', coverage=False)      # (one action)
    # regrouping by runs of the unsorted rows (one key cut into several groups) must be rejected by the scaling law
    if not ctx.quick:
        ctx.mc('MC_RegroupB', 'MC_RegroupB_split.cfg', must_fail='NeverSplit', coverage=False)
    descs = ctx.generate('MC_RegroupB', 'MC_RegroupB_gen.cfg')
    pairs = {}
    for d in descs:
        if set(d) != {'pat', 'odd', 'by'}:
            raise Machinery('generator MC_RegroupB_gen printed a mangled description')
        pairs.setdefault(json.dumps([d['pat'], d['odd']], sort_keys=True), set()).add(json.dumps(d['by']))
    if any(bys != set(map(json.dumps, BYS)) for bys in pairs.values()):
        raise Machinery('MC_RegroupB_gen: the key choices are not the ones the driver rotates through')
    combos = [dict(zip(('pat', 'odd'), json.loads(k))) for k in sorted(pairs)]
    plan = []          # (combo index, size, where the odd row stands, salt)
    for c, d in enumerate(combos):
        if ctx.quick:
            # every (pattern, odd key): in a table of more than 100 rows the odd row just beyond the first 100 / 128 / 256 rows;
            # in the smaller ones early / in the middle / beyond the first 16 / 64
            sz = (130, 260, 104)[c % 3]
            plan.append((c, sz, 'past:100' if sz < 260 else ('past:100', 'past:128', 'past:256')[(c // 3) % 3], c))
            plan.append((c, (20, 68)[c % 2], ('early', 'middle')[(c // 2) % 2], c + 1))
            plan.append((c, (68, 20)[c % 2], ('past:64', 'past:16')[c % 2] if (c // 2) % 2 else 'last', c + 2))
            if c % 4 == 0: plan.append((c, 260, ('middle', 'late')[(c // 4) % 2], c + 3))
            if c % 16 == 3: plan.append((c, 1030, ('past:1024', 'middle', 'past:256', 'past:100')[(c // 16) % 4], c))
        else:
            for si, size in enumerate(SIZES[:5]):
                for pi, pc in enumerate((['early', 'middle', 'late', 'last'] if size < 200 else ['middle', 'late']) + ['past:%d' % t for t in THRESHOLDS if t + 2 < size]):
                    plan.append((c, size, pc, c + si + pi))
            if c % 2 == 0: plan.append((c, 1030, ('past:1024', 'middle', 'past:256', 'past:100')[(c // 2) % 4], c))
    obs, seen = [], set()
    for c, size, pc, salt in plan:
        d = combos[c]
        via = VIAS[salt % 4]
        by = list(BYS[(salt // 4) % 3]) if (via != 'pivot' and not (ctx.quick and size > 100 and pc.startswith('past'))) else ['a']
        sc = describe(d, size, ('repeat', 'block')[(salt // 2) % 2], pc)
        key = json.dumps([sc, via, by], sort_keys=True)
        if key in seen:          # (a pattern without an odd row is the same table wherever the odd row would stand)
            continue
        seen.add(key)
        o = obs_scale(sc, via, by, FORMS[(salt // 3) % 2], proj, agg=AGGS[(salt // 4) % 4] if via == 'pivot' else 'last',
                      grp=('grp', 'sub')[(salt // 5) % 2], k=salt)
        obs.append(o)
        ctx.note(('scale', c, size, pc, via))
    small = min(obs, key=lambda o: len(json.dumps(o)))
    ctx.sample({'observation_scaled': {k: (v if k not in ('out', 'inv', 'after') else {'cols': v['cols'], 'rows': v['rows'][:3]}) for k, v in small.items() if k != 'colcmp'}})
    return obs


def scaled_violation(ctx, clause, o):
    n = len(o['sc']['pat']['rows']) * o['sc']['k'] + len(o['sc']['odd'])
    ctx.violation(clause, {'op': 'scale', 'via': o['via'], 'by': o['by'], 'form': o['form'], 'grp': o['grp'], 'agg': o['agg'], 'sc': o['sc'], 'rows': n},
                  {'stage': o['stage'], 'raised': o['raised'], 'out_rows': len(o['out']['rows']), 'out_head': o['out']['rows'][:2] if n <= 130 else [],
                   'inv_rows': len(o['inv']['rows'])})


TWIN_Y = {'i': [["i", 1], ["i", 2]], 'f': [["f", [1, 1]], ["f", [2, 1]]], 's': [["s", "1"], ["s", "2"]]}


def twin_table(ty, xs):
    y1, y2 = TWIN_Y[ty]
    rows = [{'x': ["s", xs[0]], 'y': y1, 'z': ["i", 10]}, {'x': ["s", xs[0]], 'y': y2, 'z': ["i", 20]}, {'x': ["s", xs[1]], 'y': y1, 'z': ["i", 30]}]
    return {'cols': ['x', 'y', 'z'], 'rows': rows}


def twins(ctx):
    """no memory ACROSS tables (class 2: process-level memos keyed on values that are equal by == but of another type): each history
    runs in a FRESH Python process - the first table meets the labels 1 / 1.0 / '1' through pivot, the constructor or setitem, then
    ANOTHER table is pivoted + unpivoted over the equal labels of another type; Trace_Regroup (op = twin) judges each call on its own"""
    import os, sys, subprocess
    from concurrent.futures import ThreadPoolExecutor
    hows = ['pivot', 'ctor', 'setitem']
    pairs = [(h, a, b) for h in hows for a in 'ifs' for b in 'ifs' if a != b]
    if ctx.quick:        # (a fresh interpreter costs seconds: four histories, each followed by its mirror image in the same process)
        pairs = [('pivot', 'f', 'i'), ('pivot', 's', 'i'), ('ctor', 'f', 'i'), ('setitem', 'i', 'f')]
    jobs = []
    for h, a, b in pairs:
        mk = lambda h, a, b: {'first': {'how': h, 't': twin_table(a, 'uv'), 'key': TWIN_Y[a][0]}, 'second': twin_table(b, 'pq')}
        jobs.append([mk(h, a, b), mk(h, b, a), mk('pivot', a, a)])
    env = dict(os.environ, PYTHONPATH=os.pathsep.join(p for p in sys.path if p))
    def fresh(cases):
        r = subprocess.run([sys.executable, '-W', 'ignore', '-m', 'harness.x_regroup_twin'], input=json.dumps(cases), capture_output=True, text=True, env=env, timeout=300)
        if r.returncode:
            raise Machinery('a fresh process of harness.x_regroup_twin failed: %s' % r.stderr[-800:])
        return json.loads(r.stdout)
    with ThreadPoolExecutor(4) as ex:
        obs = [o for got in ex.map(fresh, jobs) for o in got]
    if len(obs) != 3 * len(jobs):
        raise Machinery('twin histories were lost')
    for (h, a, b), k in zip(pairs, range(0, len(obs), 3)):
        for j in range(3):
            obs[k + j]['hist'] = [h, a, b, j]
            ctx.note(('twin', h, a, b, j))
    ctx.sample({'observation_twin': obs[0]})
    return obs


def run(ctx):
    ctx.rule = ('TLC enumerates tables (<= 2-3 rows, key cells None/1/1.0/2/"s"/date/two NaN objects, unique id column) x key choices; '
                'each is pushed through listby+unlist, groupby+ungroup and (decorated with y/z columns) pivot+unpivot in rotating spellings. '
                'MC_RegroupN: TLC also enumerates the NAMES: 8 namings of the columns (names inside / containing / equal-but-for-case to each other, '
                'digits, spaces, a column called grp, columns inserted in reverse), the id column as a key, the name of the sub-table column, the '
                'spelling of the keys (names / one list; pivot: one name / a list) and for pivot the y universe of each naming (labels that are '
                'substrings / prefixes / super-strings of the x name, equal to the y, z or another column name, "", ints, floats, None, a datetime, '
                'NaN, inf); random tables up to 20 rows likewise under random namings. Trace_Regroup judges every observation. '
                'SESSIONS (RegroupSession / MC_RegroupS): a store of caller-owned objects (a table, two lists of column names, a {name: columns} '
                'dict); TLC enumerates histories of calls sort / listby / groupby / pivot on any table of the store and unlist / ungroup / unpivot '
                'on any earlier result, the names handed over one by one or as the list object, unpivot\'s y as the name or as the dict object, '
                'with in-place edits of a column and of a names list between calls (plans: forward-inverse-inverse, sort-edit-forward-inverse, '
                'forward-edit-forward-inverse, forward-forward-inverse-inverse, forward-respec-forward-inverse, forward-inverse-forward-inverse; '
                'thorough: wider tables / name lists / dicts, longer plans, simulated free sessions of 6 steps); after EVERY step every object is '
                'projected again; the law judges each result by the arguments as they are at that moment and rejects any object that changed. '
                'SIZE THRESHOLDS (RegroupBig / MC_RegroupB): TLC enumerates 9 key patterns (ints only, strings only, 1 and 1.0, None, two NaN '
                'objects, mixed types) x 8 odd keys (none, a NaN of another identity, 2.5, 2.0, None, a string, a date, an int) x 3 key choices and '
                'checks on 1-3 copies that the linear-time scaling law and the relational verdicts agree (on constructive and on damaged results); '
                'the driver scales each (pattern, odd key) to 20 / 68 / 104 / 130 / 260 / 1030 rows (rows repeated or in blocks, the odd row early, in '
                'the middle, late, last, or two rows beyond the first 16 / 64 / 100 / 128 / 256 / 1024) through listby+unlist, groupby+ungroup, pivot '
                '(y = a key column, all four aggregations) and pivot+unpivot with the ids as y (one column per row); Trace_Regroup op=scale judges. '
                'TWINS: in FRESH interpreters a first table meets the labels 1 / 1.0 / "1" through pivot, the constructor or setitem, then another '
                'table is pivoted + unpivoted over equal labels of another type; every call is judged on its own (op=twin). '
                'Non-trivial = some key class has more than one row / a label that occurs in a column name or is not a string.')
    ctx.mc('MC_Regroup', 'MC_Regroup_quick.cfg' if ctx.quick else 'MC_Regroup_thorough.cfg')
    if not ctx.quick:       # quick: the laws of MC_RegroupN are invariants of its generator run below
        ctx.mc('MC_RegroupN', 'MC_RegroupN_thorough.cfg')
        # the mechanism "col not in x" (substring test for a single name) must be rejected by the unpivot law
        ctx.mc('MC_RegroupN', 'MC_RegroupN_sub.cfg', must_fail='SubLaw')
    obs = []
    rng = ctx.rng
    gens = [('MC_Regroup_gen2.cfg', 3000)] if ctx.quick else [('MC_Regroup_gen2w.cfg', 40000), ('MC_Regroup_gen3.cfg', 30000)]
    for g, cap in gens:
        cases = ctx.generate('MC_Regroup', g)
        if len(cases) > cap:
            cases = rng.sample(cases, cap)
        for k, c in enumerate(cases):
            t, by = c['t'], c['by']
            form = FORMS[k % 2]
            grp = ['grp', 'rows', 'sub'][k % 3]
            obs.append(obs_listby(t, by, form))
            obs.append(obs_groupby(t, by, form, grp))
            if k % 3 == 0 and t['rows']:
                vals = [r[by[0]] for r in t['rows']]
                obs.append(obs_listby(t, by, form, again=[vals[0]] * len(vals) if k % 2 else list(reversed(vals)), k=k))
            if k % 2 == 0:
                sub = [r['a'] for r in t['rows']] + [["n", 0]]
                pt = pivot_table(rng, t['rows'], sub)
                obs.append(obs_pivot(pt, by, 'name' if (len(by) == 1 and k % 4 == 0) else 'list', 'y', 'z', ['last', 'list', 'len', 'first', 'last'][k % 5], k))
            if 0 < c['nclasses'] < len(t['rows']):
                ctx.note(('tlc', json.dumps([t, by])))
        ctx.sample({'tlc_case': cases[len(cases) // 2]})
    # ---- the names of things: column names, labels, spellings - all from TLC (MC_RegroupN)
    ngens = ([('MC_RegroupN_genq.cfg', 6000)] if ctx.quick else
             [('MC_RegroupN_genk3.cfg', 20000), ('MC_RegroupN_genpr.cfg', 30000), ('MC_RegroupN_genp3.cfg', 30000)])
    for g, cap in ngens:
        cases = ctx.generate('MC_RegroupN', g)
        if len(cases) > cap:
            cases = rng.sample(cases, cap)
        for k, c in enumerate(cases):
            if c['op'] == 'regroup':
                obs.append(obs_listby(c['t'], c['by'], c['form'], idcol=c['idcol']))
                obs.append(obs_groupby(c['t'], c['by'], c['form'], c['grp']))
                if k % 4 == 0 and c['t']['rows']:
                    vals = [r[c['by'][0]] for r in c['t']['rows']]
                    obs.append(obs_listby(c['t'], c['by'], c['form'], again=list(reversed(vals)), k=k, idcol=c['idcol']))
                if len(c['t']['rows']) > 1:
                    ctx.note(('names', c['nm'], json.dumps(c['by'])))
            else:
                obs.append(obs_pivot(c['t'], c['x'], c['form'], c['y'], c['z'], c['agg'], k))
                labels = [r[c['y']] for r in c['t']['rows']]
                if any(l[0] != 's' or any(l[1] in n or n in l[1] for n in c['t']['cols']) for l in labels):
                    ctx.note(('labels', c['nm'], c['form'], json.dumps(sorted(map(json.dumps, labels)))))
        ctx.sample({'tlc_named_case': cases[len(cases) // 2]})
    # ---- random tables, half of them under a random naming
    pool = [["n", 0], ["i", 1], ["i", 2], ["i", 3], ["f", [1, 1]], ["f", [2, 1]], ["f", [5, 2]], ["nan", 1], ["nan", 2], ["nan", 3],
            ["s", "s"], ["s", "t"], ["s", ""], ["d", [730120, 0, 0]], ["d", [730121, 0, 0]], ["inf", 1], ["inf", -1]]
    two_nans = True      # repaired in /repo (pivot finds the y column by row): several NaN objects among the y values are ordinary cases
    for i in range(300 if ctx.quick else 6000):
        sub = rng.sample(pool, rng.choice([2, 3, 4, 6, len(pool)]))
        n = rng.choice([0, 1, 2, 3, 5, 9, 14, 20])
        m = dict(zip(ROLES, rng.sample(NAMEPOOL, len(ROLES)))) if i % 2 else {r: r for r in ROLES}
        if m['grp'] == 'a': m['grp'] = 'grp'
        keyrows = [{'a': rng.choice(sub), 'b': rng.choice(sub)} for _ in range(n)]
        t = renamed({'cols': ['a', 'b', 'c', 'p'], 'rows': [dict(r, c=rng.choice(sub), p=["i", j + 1]) for j, r in enumerate(keyrows)]}, m)
        by = [m[c] for c in rng.choice([['a'], ['b'], ['a', 'b'], ['b', 'a'], ['c', 'a'], ['a', 'b', 'c']])]
        form = FORMS[(i // 2) % 2]
        grp = m['grp'] if (m['grp'] not in t['cols'] or m['grp'] == 'grp' and 'grp' not in by) else 'grp'
        if grp in by: grp = 'sub'
        obs.append(obs_listby(t, by, form, idcol=m['p']))
        obs.append(obs_groupby(t, by, form, grp))
        if n:
            obs.append(obs_listby(t, by, form, again=[rng.choice(sub) for _ in range(n)], k=i, idcol=m['p']))
        x = rng.choice([['a'], ['b'], ['a', 'b']])
        ypool = YU if i % 4 < 2 else ([["s", s] for s in rng.sample([v for v in NAMEPOOL if v not in (m['a'], m['b'])], 3)] + rng.sample(YOTHER, 3) + [["i", 2]]
                                       + ([["nan", 2]] if two_nans else []))
        pt = renamed(pivot_table(rng, keyrows, sub, ypool), m)
        obs.append(obs_pivot(pt, [m[c] for c in x], 'name' if (len(x) == 1 and i % 3) else 'list', m['y'], m['z'], rng.choice(['last', 'list', 'len', 'first', 'last']), i))
        ctx.note(('rand', i))
    obs += scaled(ctx)
    obs = twins(ctx) + obs
    ctx.evals += len(obs)
    bad = ctx.validate('Trace_Regroup', obs)
    for line, clause in bad:
        o = obs[line - 1]
        if o['op'] == 'scale':
            scaled_violation(ctx, clause, o)
            continue
        if o['op'] == 'twin':
            ctx.violation(clause, {'op': 'twin', 'how': o['hist'][0], 'first_type': o['hist'][1], 'second_type': o['hist'][2], 'nth': o['hist'][3]},
                          {'first': {k: o['first'].get(k) for k in ('made', 'out', 'unp', 'raised')}, 'second': {k: o['second'].get(k) for k in ('out', 'unp', 'raised')}})
            continue
        case = {k: o[k] for k in ('op', 't', 'by', 'form', 'idcol', 'grp', 'x', 'y', 'z', 'agg') if k in o}
        if o['op'] == 'pivot':
            case['y_nan_objects'] = nan_objects(o['t'], o['y'])
        ctx.violation(clause, case, {k: o[k] for k in ('stage', 'out', 'unl', 'ung', 'unp', 'colcmp', 'raised', 'after') if k in o})
    ctx.sample({'observation': obs[1]})
    ctx.sample({'observation_pivot': next(o for o in reversed(obs) if o['op'] == 'pivot')})
    sessions(ctx)
    ctx.exhaustive = False
    ctx.assumptions += ['key cells of results are compared with the key equality of the statement (a class shows one representative, 1 or 1.0)',
                        'pivot: a str y value is its own column label, an int its decimal string, any other scalar (None, float, datetime, NaN, inf) labels its column '
                        'as itself (named deviation LabelItself); y values that are equal as keys (1 and 1.0) share one column that shows one member\'s label',
                        'pivot: outside the domain (a table has one column per name): a label equal to the name of an x column, two different y values '
                        'with one rendering (1 and "1"), a sub-table column named like a key column; several distinct NaN objects among the y values are generated (defect %s repaired in /repo)' % KNOWN_NAN_LABELS,
                        'the unpivot clause is checked on tables with unique (x, y) cells; rows with None z are the ones dropped',
                        'key arguments are spelled as separate names or one list (listby/groupby), one name or a list (pivot/unpivot x); tuples are not a '
                        'spelling of several keys in dictable (a tuple is one composite key) and y / z are always single names',
                        'row order of listby/groupby/pivot results is not pinned; unlist must be sorted under the real cmp, stable and contiguous',
                        'scaled tables: the keys are columns of the pattern, never an id column; the real table is built by the driver from the description '
                        'and Trace_Regroup (operand_changed) also checks that it is the table the scaling rule describes; quick covers every (pattern, odd key) '
                        'once beyond row 100 with the single key column a, other sizes / positions / key choices in rotation (thorough: all positions)',
                        'twins: the histories run in fresh interpreters (harness.x_regroup_twin) so that the first table is the first the process ever sees; '
                        'bool labels are outside the domain (scalar cells are None, ints, floats, strings, datetimes)',
                        'sessions: the result of sort is an ordinary table of the store and is not judged (C07); a regrouped table that the caller '
                        'edited in place is no longer the regrouping of anything: inverse calls on it are not generated; the {name: columns} spelling '
                        'of unpivot\'s y asks for the rows of the listed columns only; unpivot is followed by dropping the None cells (as in the '
                        'statement); edits are made on tables of two or more rows, the id column is never edited']


def replay(ctx, body):
    c = body['case']
    if c['op'] == 'scale': o = obs_scale(c['sc'], c['via'], c['by'], c.get('form', 'names'), proj, agg=c.get('agg', 'last'), grp=c.get('grp', 'grp'))
    elif c['op'] == 'session': o = obs_session({'init': c['init'], 'hist': c['hist'], 'plan': list(c.get('plan', ''))}, proj)
    elif c['op'] == 'listby': o = obs_listby(c['t'], c['by'], c.get('form', 'names'), idcol=c.get('idcol', 'p'))
    elif c['op'] == 'groupby': o = obs_groupby(c['t'], c['by'], c.get('form', 'names'), c.get('grp', 'grp'))
    else: o = obs_pivot(c['t'], c['x'], c.get('form', 'list'), c['y'], c['z'], c['agg'], 0)
    bad = ctx.validate('Trace_Regroup', [o])
    print('replay:', 'REJECTED %s' % bad if bad else 'accepted')
    return 1 if bad else 0
