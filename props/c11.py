"""C11 - listby/unlist, groupby/ungroup and pivot/unpivot are lossless regroupings."""
import json
from harness.enc import IdMap, tag, untag, table_from, proj_table
from pyg_base import dictable, cmp, first, last

AGG = {'list': None, 'len': len, 'first': first, 'last': last}


def safe_cmp(x, y):
    try:
        c = cmp(x, y)
        return int(c) if c in (-1, 0, 1) else 9
    except Exception:
        return 9


def proj_cell(v, ids):
    if isinstance(v, dictable):
        return ["tbl", proj_table(v, ids)]
    return tag(v, ids)


def proj(d, ids):
    cols = list(dict.keys(d))
    lists = {c: list(dict.__getitem__(d, c)) for c in cols}
    n = len(d)
    return {"cols": [str(c) for c in cols], "rows": [{str(c): proj_cell(lists[c][i], ids) for c in cols} for i in range(n)]}


def spell(by, k):
    """the spellings of *by: names, a list, a tuple"""
    return [tuple(by), (list(by),)][k % 2]


def obs_listby(t, by, k, again=None):
    """again = a column of new key cells: the table is regrouped once, its first key column is re-assigned in place
    (same length) and the regrouping that is recorded is the one after that (judged against the edited table)"""
    ids = IdMap(); d = table_from(t, ids)
    if again is not None and t['rows']:
        try:
            d.listby(*spell(by, k)); d.groupby(*spell(by, k)) if len(by) < len(t['cols']) else None
        except Exception:
            pass
        col = by[0]
        if k % 2: d[col] = [untag(v, ids) for v in again]
        else: setattr(d, col, [untag(v, ids) for v in again])
        t = {'cols': t['cols'], 'rows': [dict(r, **{col: v}) for r, v in zip(t['rows'], again)]}
    o = {'op': 'listby', 't': t, 'by': by, 'raised': '', 'out': {'cols': [], 'rows': []}, 'unl': {'cols': [], 'rows': []}, 'colcmp': [], 'after': {}}
    try:
        res = d.listby(*spell(by, k))
        o['out'] = proj(res, ids)
        unl = res.unlist()
        o['unl'] = proj(unl, ids)
        o['colcmp'] = [[safe_cmp(dict.__getitem__(unl, c)[p], dict.__getitem__(unl, c)[p + 1]) for c in by] for p in range(len(unl) - 1)]
    except Exception as e:
        o['raised'] = type(e).__name__
    o['after'] = proj_table(d, ids)
    return o


def obs_groupby(t, by, k):
    ids = IdMap(); d = table_from(t, ids)
    o = {'op': 'groupby', 't': t, 'by': by, 'raised': '', 'out': {'cols': [], 'rows': []}, 'ung': {'cols': [], 'rows': []}, 'ung2': True, 'after': {}}
    try:
        name = ['grp', 'rows', 'sub'][k % 3]
        if name in t['cols']:
            name = 'grp'
        res = d.groupby(*spell(by, k)) if name == 'grp' else d.groupby(*spell(by, k), grp=name)
        out = proj(res, ids)
        if name != 'grp':          # the group column must carry the name that was asked for
            out = {'cols': ['grp' if c == name else ('?' + c if c == 'grp' else c) for c in out['cols']],
                   'rows': [{('grp' if c == name else ('?' + c if c == 'grp' else c)): v for c, v in r.items()} for r in out['rows']]}
        o['out'] = out
        o['ung'] = proj(res.ungroup() if name == 'grp' else res.ungroup(name), ids)
        o['ung2'] = proj(res.ungroup() if name == 'grp' else res.ungroup(grp=name), ids) == o['ung']     # a second ungroup of the same grouped table
    except Exception as e:
        o['raised'] = type(e).__name__
    o['after'] = proj_table(d, ids)
    return o


def obs_pivot(t, x, y, z, agg, k):
    ids = IdMap(); d = table_from(t, ids)
    o = {'op': 'pivot', 't': t, 'x': x, 'y': y, 'z': z, 'agg': agg, 'raised': '', 'out': {'cols': [], 'rows': []}, 'unp': {'cols': [], 'rows': []}, 'after': {}}
    try:
        xa = x[0] if (len(x) == 1 and k % 2) else list(x)
        res = (d.pivot if k % 3 else d.xyz)(xa, y, z, AGG[agg])
        o['out'] = proj(res, ids)
        if agg == 'last':
            unp = res.unpivot(xa, y, z)
            unp = unp.exc(**{z: None})
            o['unp'] = proj(unp, ids)
    except Exception as e:
        o['raised'] = type(e).__name__
    o['after'] = proj_table(d, ids)
    return o


YU = [["s", "u"], ["s", "v"], ["s", "w w"], ["i", 1], ["i", 2], ["i", 30]]


def pivot_table(rng, keyrows, sub):
    """x keys from TLC's / the random key cells, y labels from strings and ints, z anything"""
    rows = []
    for i, r in enumerate(keyrows):
        rows.append({'a': r['a'], 'b': r['b'], 'y': rng.choice(YU[:rng.choice([1, 2, 3, 6])]), 'z': rng.choice(sub + [["i", 100 + i]]), 'p': ["i", i + 1]})
    return {'cols': ['a', 'b', 'y', 'z', 'p'], 'rows': rows}


def run(ctx):
    ctx.rule = ('TLC enumerates tables (<= 2-3 rows, key cells None/1/1.0/2/"s"/date/two NaN objects, unique id column) x key choices; '
                'each is pushed through listby+unlist, groupby+ungroup and (decorated with y/z columns) pivot+unpivot in rotating spellings; '
                'random tables up to 20 rows likewise. Trace_Regroup judges every observation. Non-trivial = some key class has more than one row.')
    ctx.mc('MC_Regroup', 'MC_Regroup_quick.cfg' if ctx.quick else 'MC_Regroup_thorough.cfg')
    obs = []
    rng = ctx.rng
    gens = [('MC_Regroup_gen2.cfg', 3000)] if ctx.quick else [('MC_Regroup_gen2w.cfg', 40000), ('MC_Regroup_gen3.cfg', 30000)]
    for g, cap in gens:
        cases = ctx.generate('MC_Regroup', g)
        if len(cases) > cap:
            cases = rng.sample(cases, cap)
        for k, c in enumerate(cases):
            t, by = c['t'], c['by']
            obs.append(obs_listby(t, by, k))
            obs.append(obs_groupby(t, by, k))
            if k % 3 == 0 and t['rows']:
                vals = [r[by[0]] for r in t['rows']]
                obs.append(obs_listby(t, by, k, again=[vals[0]] * len(vals) if k % 2 else list(reversed(vals))))
            if k % 2 == 0:
                sub = [r['a'] for r in t['rows']] + [["n", 0]]
                pt = pivot_table(rng, t['rows'], sub)
                obs.append(obs_pivot(pt, by, 'y', 'z', ['last', 'list', 'len', 'first', 'last'][k % 5], k))
            if 0 < c['nclasses'] < len(t['rows']):
                ctx.note(('tlc', json.dumps([t, by])))
        ctx.sample({'tlc_case': cases[len(cases) // 2]})
    pool = [["n", 0], ["i", 1], ["i", 2], ["i", 3], ["f", [1, 1]], ["f", [2, 1]], ["f", [5, 2]], ["nan", 1], ["nan", 2], ["nan", 3],
            ["s", "s"], ["s", "t"], ["s", ""], ["d", [730120, 0, 0]], ["d", [730121, 0, 0]], ["inf", 1], ["inf", -1]]
    for i in range(300 if ctx.quick else 6000):
        sub = rng.sample(pool, rng.choice([2, 3, 4, 6, len(pool)]))
        n = rng.choice([0, 1, 2, 3, 5, 9, 14, 20])
        keyrows = [{'a': rng.choice(sub), 'b': rng.choice(sub)} for _ in range(n)]
        t = {'cols': ['a', 'b', 'c', 'p'], 'rows': [dict(r, c=rng.choice(sub), p=["i", j + 1]) for j, r in enumerate(keyrows)]}
        by = rng.choice([['a'], ['b'], ['a', 'b'], ['b', 'a'], ['c', 'a'], ['a', 'b', 'c']])
        obs.append(obs_listby(t, by, i))
        obs.append(obs_groupby(t, by, i))
        if n:
            obs.append(obs_listby(t, by, i, again=[rng.choice(sub) for _ in range(n)]))
        pt = pivot_table(rng, keyrows, sub)
        obs.append(obs_pivot(pt, rng.choice([['a'], ['b'], ['a', 'b']]), 'y', 'z', rng.choice(['last', 'list', 'len', 'first', 'last']), i))
        ctx.note(('rand', i))
    ctx.evals += len(obs)
    bad = ctx.validate('Trace_Regroup', obs)
    for line, clause in bad:
        o = obs[line - 1]
        case = {k: o[k] for k in ('op', 't', 'by', 'x', 'y', 'z', 'agg') if k in o}
        ctx.violation(clause, case, {k: o[k] for k in ('out', 'unl', 'ung', 'unp', 'colcmp', 'raised', 'after') if k in o})
    ctx.sample({'observation': obs[1]})
    ctx.exhaustive = False
    ctx.assumptions += ['key cells of results are compared with the key equality of the statement (a class shows one representative, 1 or 1.0)',
                        'pivot: y values are strings or ints (rendered as decimal labels); the unpivot clause is checked on tables with unique (x, y) and non-None z',
                        'row order of listby/groupby/pivot results is not pinned; unlist must be sorted under the real cmp, stable and contiguous']


def replay(ctx, body):
    c = body['case']
    if c['op'] == 'listby': o = obs_listby(c['t'], c['by'], 0)
    elif c['op'] == 'groupby': o = obs_groupby(c['t'], c['by'], 0)
    else: o = obs_pivot(c['t'], c['x'], c['y'], c['z'], c['agg'], 0)
    bad = ctx.validate('Trace_Regroup', [o])
    print('replay:', 'REJECTED %s' % bad if bad else 'accepted')
    return 1 if bad else 0
