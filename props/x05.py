"""X05 - tenors, the small date helpers and the time-zone algebra (module prefix Tenor).

TLA+ decides (spec/Tenor.tla, TenorCal.tla, TenorZone.tla on Civil.tla / Bump.tla; MC_Tenor, MC_TenorCal,
MC_TenorZone; Trace_Tenor).  This driver only
  * renders abstract inputs (ordinals, character sequences, tagged numbers, zone spellings, numpy counts) into Python
    objects,
  * calls the public functions of pyg_base (years_between, years_to_maturity, month, ym, nth_weekday_of_month, num2dt,
    np2dt, is_period, is_bump, dt2str, dt, as_tz, is_tz, tz_replace, tz_convert, dt_bump),
  * encodes what came back: instants as [ordinal, second, microsecond(, nanosecond | offset minutes)], numbers of years as
    reduced fractions (fractions.Fraction(x).limit_denominator(10**6): a result within 1e-13 of p/365 comes back as
    p/365 in lowest terms), strings as lists of characters, exceptions by class,
  * compares with == against what TLC printed (S2C), or hands the log to spec/Trace_Tenor.tla (C2S).
"""
import datetime, json, os, time, warnings
from fractions import Fraction
from harness.core import Machinery

warnings.simplefilter('ignore')
DAY = datetime.timedelta(1)


# ------------------------------------------------------------------------------------------------ encoding
def enc_exc(e):
    return ['exc', 'ValueError' if isinstance(e, ValueError) else type(e).__name__]


def outcome(f, enc):
    try:
        r = f()
    except Exception as e:
        return enc_exc(e)
    return enc(r)


def enc_dt(r):
    """a naive datetime -> ['ok', ordinal, second, microsecond]"""
    if isinstance(r, datetime.datetime) and r.tzinfo is None and getattr(r, 'nanosecond', 0) == 0:
        return ['ok', r.toordinal(), r.hour * 3600 + r.minute * 60 + r.second, r.microsecond]
    return ['other', type(r).__name__]


def enc_dt5(r):
    if isinstance(r, datetime.datetime) and r.tzinfo is None:
        return ['ok', r.toordinal(), r.hour * 3600 + r.minute * 60 + r.second, r.microsecond, int(getattr(r, 'nanosecond', 0))]
    return ['other', type(r).__name__]


def enc_time(r):
    """naive / aware datetime -> ['naive', o, s, u] / ['aware', o, s, u, offset in minutes]"""
    if not isinstance(r, datetime.datetime) or getattr(r, 'nanosecond', 0):
        return ['other', type(r).__name__]
    w = [r.toordinal(), r.hour * 3600 + r.minute * 60 + r.second, r.microsecond]
    if r.tzinfo is None:
        return ['naive'] + w
    off = r.utcoffset()
    secs = off.days * 86400 + off.seconds
    if secs % 60 or off.microseconds:
        return ['aware_odd'] + w + [secs]
    return ['aware'] + w + [secs // 60]


def enc_years(x):
    """a number of years -> ['val', [p, q]] in lowest terms; NaN -> ['nan']"""
    import numpy as np
    if isinstance(x, (bool, np.bool_)):
        return ['other', 'bool']
    if isinstance(x, (int, np.integer)):
        return ['val', [int(x), 1]]
    if isinstance(x, (float, np.floating)):
        if x != x:
            return ['nan']
        if x in (float('inf'), float('-inf')):
            return ['other', 'inf']
        f = Fraction(float(x)).limit_denominator(10 ** 6)
        return ['val', [f.numerator, f.denominator]]
    return ['other', type(x).__name__]


def enc_int(r):
    import numpy as np
    if isinstance(r, (int, np.integer)) and not isinstance(r, (bool, np.bool_)):
        return ['ok', int(r)]
    return ['other', type(r).__name__]


# ------------------------------------------------------------------------------------------------ rendering
def mk_day(o):
    return datetime.datetime.fromordinal(o)


def mk_inst(o, s=0, u=0):
    return datetime.datetime.fromordinal(o) + datetime.timedelta(seconds=s, microseconds=u)


def chars(s):
    return ''.join(s)


def render_val(v, i=0):
    """a tagged value of the month / bump vocabulary; i rotates the Python type of a number"""
    import numpy as np
    if v[0] == 'int':
        return [int, np.int64, int, np.int32][i % 4](v[1])
    if v[0] == 'float':
        return [float, np.float64][i % 2](v[1] / v[2])
    if v[0] == 'nan':
        return float('nan')
    if v[0] == 'inf':
        return v[1] * float('inf')
    if v[0] == 'str':
        return chars(v[1])
    if v[0] == 'timedelta':
        return datetime.timedelta(1)
    if v[0] == 'relativedelta':
        import dateutil.relativedelta
        return dateutil.relativedelta.relativedelta(days=1)
    if v[0] == 'other':
        return {'NoneType': None, 'dict': {}, 'list': [], 'float': 1.0, 'bytes': b'1d', 'tuple': ()}[v[1]]
    raise Machinery('cannot render %r' % (v,))


NUMTYPES = ['int', 'float', 'np.int64', 'np.float64', 'np.int32']


def render_num(v, typ):
    """["n", i, fk] = i + fk/64;  ["ts", d, s, fk] = d*86400 + s + fk/64; as the Python / numpy type named typ"""
    import numpy as np
    if v[0] == 'n':
        i, fk = v[1], v[2]
    else:
        i, fk = v[1] * 86400 + v[2], v[3]
    if fk != 0 or typ in ('float', 'np.float64'):
        x = float(i) + fk / 64.0                      # exact: |i| < 2**40, fk/64 dyadic
        if int(x) != i and fk == 0:
            raise Machinery('number %r is not exact as a float' % (v,))
        return (np.float64(x) if typ.startswith('np.') else x), ('np.float64' if typ.startswith('np.') else 'float')
    if typ == 'np.int32' and abs(i) < 2 ** 31:
        return np.int32(i), typ
    if typ in ('np.int64', 'np.int32'):
        return np.int64(i), 'np.int64'
    return int(i), 'int'


UNITSEC = {'h': 3600, 'm': 60, 's': 1}
PERSEC = {'ms': 10 ** 3, 'us': 10 ** 6, 'ns': 10 ** 9}


def render_np(u, c):
    import numpy as np
    if u in 'YMWD':
        n = c[0]
    elif u in UNITSEC:
        n = (c[0] * 86400 + c[1]) // UNITSEC[u]
    else:
        n = (c[0] * 86400 + c[1]) * PERSEC[u] + c[2]
    return np.datetime64(int(n), u)


def render_fmt(f):
    return None if f[0] == 'none' else chars(f[1])


def civ_dt(c):
    return datetime.datetime(*c)


# zones ------------------------------------------------------------------------------------------
def case_of(s, cs):
    return {'asis': s, 'lower': s.lower(), 'upper': s.upper(), 'swap': s.swapcase()}[cs]


def render_zone(sp):
    """a zone spelling of TenorZone!ZoneOfSpelling -> what is handed to pyg_base"""
    from pyg_base._dates import as_tz
    if sp[0] == 'none':
        return None
    if sp[0] == 'name':
        return case_of(sp[1], sp[2])
    if sp[0] == 'obj':
        return as_tz(sp[1])
    if sp[0] == 'fixed':
        if sp[1] == 'timezone':
            return datetime.timezone(datetime.timedelta(minutes=sp[2]))
        if sp[1] == 'tzoffset':
            from dateutil import tz
            return tz.tzoffset(None, sp[2] * 60)
        import pytz
        return pytz.FixedOffset(sp[2])
    raise Machinery('cannot render zone %r' % (sp,))


def zone_object(sp):
    """a tzinfo object for building aware inputs (python's own astimezone; never handed to pyg_base as is)"""
    from pyg_base._dates import as_tz
    z = render_zone(sp)
    return as_tz(z) if isinstance(z, str) else z


def set_machine_zone(minutes):
    """the machine's local zone = a fixed offset (POSIX TZ strings count westwards)"""
    a = abs(minutes)
    name = '%s%02d%02d' % ('+' if minutes >= 0 else '-', a // 60, a % 60)
    os.environ['TZ'] = '<%s>%s%02d:%02d' % (name, '-' if minutes >= 0 else '+', a // 60, a % 60)
    time.tzset()


class MachineZone(object):
    def __enter__(self):
        self.old = os.environ.get('TZ')
        return self

    def __exit__(self, *a):
        if self.old is None:
            os.environ.pop('TZ', None)
        else:
            os.environ['TZ'] = self.old
        time.tzset()
        return False


def mk_time(t, zobj):
    """['naive', o, s, u] -> naive datetime; ['aware', o, s, u, off] -> the aware datetime of zone zobj at that instant"""
    if t[0] == 'naive':
        return mk_inst(t[1], t[2], t[3])
    utc = mk_inst(t[1], t[2], t[3]) - datetime.timedelta(minutes=t[4])
    return utc.replace(tzinfo=datetime.timezone.utc).astimezone(zobj)


def zone_lib(z):
    """which library a zone object comes from (a stable key for findings)"""
    from pyg_base._dates import as_tz
    if z is None:
        return 'none'
    try:
        z = as_tz(z)
    except Exception:
        return 'unknown'
    mod = type(z).__module__
    if mod.startswith('pytz'):
        return 'pytz_tzfile' if hasattr(z, '_utc_transition_times') else 'pytz_fixed'
    return 'dateutil' if mod.startswith('dateutil') else ('stdlib' if mod == 'datetime' else mod)


def zone_call(op, t, z):
    """one public call of the zone algebra; series ops work on a one-stamp timeseries and return its stamp"""
    import pandas as pd
    from pyg_base import dt, dt_bump
    from pyg_base._dates import tz_replace, tz_convert
    if op == 'replace':
        return tz_replace(t, z)
    if op == 'convert':
        return tz_convert(t, z)
    if op == 'dt':
        return dt(t, tzinfo=z)
    if op == 'bump':
        return dt_bump(t, z)
    s = pd.Series([1.0], [t])
    r = {'sreplace': tz_replace, 'sconvert': tz_convert}[op](s, z) if op != 'sdt' else dt(s, tzinfo=z)
    if not isinstance(r, pd.Series) or len(r) != 1:
        return r
    x = r.index[0]
    return x.to_pydatetime() if hasattr(x, 'to_pydatetime') and not x.nanosecond else x


# ------------------------------------------------------------------------------------------------ findings
class Findings(object):
    """one violation per (clause, signature) with the first witness and a count"""

    def __init__(self):
        self.by = {}

    def add(self, clause, sig, witness, expected, observed):
        key = json.dumps([clause, sig], sort_keys=True, default=str)
        e = self.by.get(key)
        if e is None:
            self.by[key] = e = {'clause': clause, 'case': dict(sig, witness=witness), 'detail': {'expected': expected, 'observed': observed, 'count': 0}}
        e['detail']['count'] += 1

    def report(self, ctx):
        for key in sorted(self.by):
            e = self.by[key]
            ctx.violation(e['clause'], e['case'], e['detail'])


def excname(out):
    return out[1] if isinstance(out, list) and out and out[0] == 'exc' else None


# ------------------------------------------------------------------------------------------------ X05-a: calls
def call_yb(t0, t1):
    from pyg_base._tenor import years_between
    return outcome(lambda: years_between(mk_day(t0), mk_inst(*t1)), enc_int)


def call_ytm(form, M, ts):
    """years_to_maturity(M, ts) in one calling form -> one encoded outcome per t"""
    import pandas as pd
    from pyg_base._tenor import years_to_maturity
    Md = mk_day(M)
    if form == 'date':
        return [outcome(lambda t=t: years_to_maturity(Md, mk_day(t)), enc_years) for t in ts]
    if form == 'list':        # two lists: the dates up to maturity and those after it (one that raises takes the whole list with it)
        out = {}
        for part in ([t for t in ts if t <= M], [t for t in ts if t > M]):
            if not part:
                continue
            try:
                r = years_to_maturity(Md, [mk_day(t) for t in part])
                enc = [enc_years(x) for x in r] if isinstance(r, list) and len(r) == len(part) else [['other', type(r).__name__]] * len(part)
            except Exception as e:
                enc = [enc_exc(e)] * len(part)
            out.update(zip(part, enc))
        return [out[t] for t in ts]
    idx = [mk_day(t) for t in ts]
    arg = pd.Series(range(len(ts)), idx, dtype=float) if form == 'series' else pd.DataFrame({'a': range(len(ts)), 'b': 1.0}, idx)
    try:
        r = years_to_maturity(Md, arg)
    except Exception as e:
        return [enc_exc(e)] * len(ts)
    if not isinstance(r, pd.Series) or len(r) != len(ts) or list(r.index) != idx:
        return [['other', type(r).__name__]] * len(ts)
    return [enc_years(x) for x in r.values]


def tenor_string(n, u, cs):
    s = '%d%s' % (n, u)
    return s.upper() if cs == 'upper' else s


def call_tenor(n, u, cs):
    from pyg_base._tenor import years_to_maturity
    return outcome(lambda: years_to_maturity(tenor_string(n, u, cs)), enc_years)


# ------------------------------------------------------------------------------------------------ X05-a: S2C / C2S
def s2c_tenor(ctx, F):
    recs = ctx.generate('MC_Tenor', 'MC_Tenor_gen_quick.cfg' if ctx.quick else 'MC_Tenor_gen_thorough.cfg')
    recs.sort(key=lambda r: json.dumps(r, sort_keys=True))
    for r in recs:
        if r['k'] == 'yb':
            for t1, w in zip(r['t1'], r['want']):
                got = call_yb(r['t0'], [t1, 0, 0])
                ctx.evals += 1
                if got != ['ok', w]:
                    F.add('years_between', {'op': 'years_between'}, {'t0': str(mk_day(r['t0']).date()), 't1': str(mk_day(t1).date())}, w, got)
            ctx.traces += 1
            ctx.note(('yb', r['t0']))
        elif r['k'] == 'ytm':
            M, ts, want = r['M'], r['ts'], r['want']
            order = sorted(range(len(ts)), key=lambda i: ts[i])
            for form in ('date', 'list', 'series', 'frame'):
                if form in ('series', 'frame'):      # an ascending index
                    got_sorted = call_ytm(form, M, [ts[i] for i in order])
                    got = [None] * len(ts)
                    for j, i in enumerate(order):
                        got[i] = got_sorted[j]
                else:
                    got = call_ytm(form, M, ts)
                ctx.evals += len(ts) if form == 'date' else 1
                for t, w, g in zip(ts, want, got):
                    if t > M and form in ('series', 'frame'):
                        continue                      # SeriesPastMaturity: not pinned
                    if g != ['val', w]:
                        clause = 'ytm_past_maturity' if t > M else 'ytm'
                        F.add(clause, {'op': 'years_to_maturity', 'form': form, 'kind': excname(g) or g[0]},
                              {'maturity': str(mk_day(M).date()), 't': str(mk_day(t).date())}, w, g)
            ctx.traces += 1
            ctx.note(('ytm', M))
        elif r['k'] == 'ten':
            for u, col in sorted(r['want'].items()):
                for n, w in zip(r['ns'], col):
                    for cs in ('lower', 'upper'):
                        got = call_tenor(n, u, cs)
                        ctx.evals += 1
                        if got != ['val', w]:
                            F.add('tenor_string', {'op': 'years_to_maturity', 'form': 'tenor', 'unit': u}, {'tenor': tenor_string(n, u, cs)}, w, got)
                    ctx.note(('ten', u, n))
            ctx.traces += 1
    ctx.sample({'s2c_tenor_record': {k: (v if not isinstance(v, list) else v[:4]) for k, v in recs[len(recs) // 2].items()}})


def c2s_tenor(ctx, obs):
    from pyg_base._tenor import years_to_maturity
    rng = ctx.rng
    n = 150 if ctx.quick else 3000
    lo, hi = datetime.date(1950, 1, 1).toordinal(), datetime.date(2150, 1, 1).toordinal()
    for i in range(n):
        t0 = rng.randrange(lo, hi)
        y = rng.randrange(-30, 60)
        near = rng.choice([0, 0, 1, -1, 2, -2, 59, 60, 364, 365, 366, rng.randrange(-400, 400)])
        try:
            t1 = mk_day(t0).replace(year=mk_day(t0).year + y, day=min(mk_day(t0).day, 28)).toordinal() + near
        except ValueError:
            continue
        t1 = [t1, rng.choice([0, 0, 1, 86399]), rng.choice([0, 0, 1, 999999])]
        obs.append({'k': 'yb', 't0': t0, 't1': t1, 'out': call_yb(t0, t1)})
        ctx.evals += 1
    m = 40 if ctx.quick else 800
    for i in range(m):
        M = rng.randrange(lo, hi)
        Md = mk_day(M)
        ts = set()
        for j in range(rng.randrange(1, 25)):
            back = rng.randrange(0, 12)
            d = rng.choice([0, 1, -1, 2, 364, 365, 366, 367, rng.randrange(0, 400)])
            try:
                ts.add(Md.replace(year=Md.year - back, day=min(Md.day, 28)).toordinal() - d)
            except ValueError:
                pass
        if rng.random() < 0.3:
            ts |= {M + rng.randrange(1, 800) for _ in range(3)}           # past maturity
        ts = sorted(ts)
        form = rng.choice(['date', 'list', 'series', 'frame'])
        obs.append({'k': 'ytm', 'form': form, 'M': M, 'ts': ts, 'outs': call_ytm(form, M, ts)})
        ctx.evals += len(ts) if form == 'date' else 1
    for i in range(200 if ctx.quick else 4000):
        nn, u, cs = rng.choice([rng.randrange(-100, 1000), rng.randrange(-10000, 10000), 0, 1]), rng.choice('yqmwdb'), rng.choice(['lower', 'upper'])
        obs.append({'k': 'tenor', 'n': nn, 'u': u, 'out': call_tenor(nn, u, cs)})
        ctx.evals += 1
    for nm in ('spot', 'sn', 'tn', 's/n', 't/n'):
        for f in (str.lower, str.upper, str.title):
            plain = {'s/n': 'sn', 't/n': 'tn'}.get(nm, nm)
            obs.append({'k': 'named', 'nm': nm, 'out': outcome(lambda: years_to_maturity(f(nm)), enc_years),
                        'plain': outcome(lambda: years_to_maturity(plain), enc_years)})
            ctx.evals += 2
    for i in range(30 if ctx.quick else 300):
        p, q = rng.randrange(-2000, 2000), rng.choice([1, 1, 2, 4, 8, 64])
        x = p / q if q > 1 or rng.random() < 0.5 else p
        fr = Fraction(p, q)
        obs.append({'k': 'ynum', 'v': [fr.numerator, fr.denominator], 'out': outcome(lambda: years_to_maturity(x), enc_years)})
        # containers: list / tuple of maturities of every kind against one date
        t = rng.randrange(lo, hi)
        items = [mk_day(t + rng.randrange(0, 3000)), '%d%s' % (rng.randrange(1, 40), rng.choice('yqmwdb')), x, 'spot']
        rng.shuffle(items)
        cont = rng.choice([list, tuple])(items)
        alone = [outcome(lambda it=it: years_to_maturity(it, mk_day(t)), enc_years) for it in items]
        try:
            r = years_to_maturity(cont, mk_day(t))
            o = {'outtype': type(r).__name__, 'outs': [enc_years(v) for v in r]}
        except Exception as e:
            o = {'outtype': 'exc:' + type(e).__name__, 'outs': []}
        obs.append(dict({'k': 'ycont', 'intype': type(cont).__name__, 'alone': alone}, **o))
        ctx.evals += 6


# ------------------------------------------------------------------------------------------------ X05-b: calls
def call_month(v, i=0):
    from pyg_base._dates import month
    return outcome(lambda: month(render_val(v, i)), enc_int)


def call_ym(y, v, i=0):
    from pyg_base._dates import ym

    def enc(r):
        if isinstance(r, tuple) and len(r) == 2 and enc_int(r[0])[0] == 'ok' and enc_int(r[1])[0] == 'ok':
            return ['ok', [int(r[0]), int(r[1])]]
        return ['other', type(r).__name__]
    return outcome(lambda: ym([y, float(y)][i % 2], render_val(v, i)), enc)


def call_nth(via, y, mv, n, ws, i=0):
    from pyg_base import dt, nth_weekday_of_month
    f = nth_weekday_of_month if via == 'fn' else dt
    return outcome(lambda: f(y, render_val(mv, i), n, chars(ws)), enc_dt)


def call_num(via, x):
    from pyg_base import dt
    from pyg_base._dates import num2dt
    return outcome(lambda: (num2dt if via == 'num2dt' else dt)(x), enc_dt)


def call_np(via, u, c):
    from pyg_base import dt
    from pyg_base._dates import np2dt
    x = render_np(u, c)
    return outcome(lambda: (np2dt if via == 'np2dt' else dt)(x), enc_dt5)


def call_period(s):
    from pyg_base._dates import is_period, is_bump
    x = chars(s)
    return bool(is_period(x)), bool(is_bump(x))


def call_fmt(c, f, dls, back_wanted):
    """dt2str(t, fmt) as characters, and dt() of the string in each dialect"""
    from pyg_base import dt, dt2str
    t, fmt = civ_dt(c), render_fmt(f)
    try:
        s = dt2str(t, fmt)
    except Exception as e:
        return enc_exc(e), []
    if not isinstance(s, str):
        return ['other', type(s).__name__], []
    back = []
    if back_wanted:
        for dl in dls:
            back.append([dl, outcome(lambda: dt(s) if dl == 'uk' else dt(s, dialect=dl), enc_dt)])
    return ['ok', list(s)], back


def s2c_cal(ctx, F):
    recs = ctx.generate('MC_TenorCal', 'MC_TenorCal_gen_quick.cfg' if ctx.quick else 'MC_TenorCal_gen_thorough.cfg')
    recs.sort(key=lambda r: json.dumps(r, sort_keys=True))
    k = 0
    for r in recs:
        ctx.traces += 1
        if r['k'] == 'mon':
            for c in r['cases']:
                k += 1
                got = call_month(c['v'], k)
                ctx.evals += 1
                if got != c['month']:
                    F.add('month_rejects' if c['month'][0] == 'exc' else 'month', {'op': 'month', 'arg': c['v'][0], 'kind': excname(got) or got[0]},
                          {'arg': repr(render_val(c['v'], k))}, c['month'], got)
                for y, w in zip((1999, 2000, 2001), c['ym']):
                    got = call_ym(y, c['v'], k)
                    ctx.evals += 1
                    if got != w:
                        F.add('ym_rejects' if w[0] == 'exc' else 'ym', {'op': 'ym', 'arg': c['v'][0], 'kind': excname(got) or got[0]},
                              {'y': y, 'arg': repr(render_val(c['v'], k))}, w, got)
                ctx.note(('mon', json.dumps(c['v'])))
        elif r['k'] == 'nth':
            for c in r['cases']:
                k += 1
                for via in ('fn', 'dt'):
                    got = call_nth(via, r['y'], c['mv'], c['n'], c['ws'], k)
                    ctx.evals += 1
                    if got != c['want']:
                        clause = 'nth_from_end_spelled_month' if c['n'] < 0 and c['mv'][0] != 'int' else 'nth_weekday'
                        F.add(clause, {'op': 'nth_weekday_of_month', 'via': via, 'month_as': c['mv'][0], 'kind': excname(got) or got[0]},
                              {'y': r['y'], 'm': repr(render_val(c['mv'], k)), 'n': c['n'], 'w': chars(c['ws'])}, c['want'], got)
                ctx.note(('nth', r['y'], r['m'], c['n'], chars(c['ws'])[:3].lower()))
        elif r['k'] == 'num':
            for c in r['cases']:
                if c['want'] == ['undefined']:
                    continue
                for typ in NUMTYPES:
                    k += 1
                    x, typ = render_num(c['v'], typ)
                    via = ('num2dt', 'dt')[k % 2]
                    got = call_num(via, x)
                    ctx.evals += 1
                    if got != c['want']:
                        F.add('number_numpy_int' if typ in ('np.int64', 'np.int32') else 'number',
                              {'op': 'num2dt', 'typ': typ, 'kind': excname(got) or got[0]}, {'n': repr(x), 'via': via}, c['want'], got)
                ctx.note(('num', json.dumps(c['v'])))
        elif r['k'] == 'np':
            for c in r['cases']:
                if c['want'] == ['undefined']:
                    raise Machinery('generator left the domain of NpDenote: %r' % (c,))
                for via in ('np2dt', 'dt'):
                    got = call_np(via, c['u'], c['c'])
                    ctx.evals += 1
                    if got != c['want']:
                        F.add('numpy_datetime64', {'op': 'np2dt', 'unit': c['u'], 'via': via, 'kind': excname(got) or got[0]},
                              {'x': str(render_np(c['u'], c['c']))}, c['want'], got)
                ctx.note(('np', c['u'], json.dumps(c['c'])))
        elif r['k'] == 'per':
            for c in r['cases']:
                p, b = call_period(c['s'])
                ctx.evals += 2
                if (p, b) != (c['period'], c['bump']):
                    F.add('period', {'op': 'is_period'}, {'s': chars(c['s'])}, [c['period'], c['bump']], [p, b])
                if c['period']:
                    ctx.note(('per', chars(c['s'])))
        elif r['k'] == 'fmt':
            for c in r['cases']:
                wanted = c['back'] != ['undefined']
                got, back = call_fmt(r['c'], c['fmt'], c['dls'], wanted)
                ctx.evals += 1 + len(back)
                sig = {'op': 'dt2str', 'fmt': repr(render_fmt(c['fmt']))}
                if got != ['ok', c['want']]:
                    F.add('dt2str', dict(sig, kind=excname(got) or got[0]), {'t': str(civ_dt(r['c']))}, chars(c['want']), chars(got[1]) if got[0] == 'ok' else got)
                elif wanted:
                    for dl, b in back:
                        if b != c['back']:
                            F.add('dt2str_roundtrip', dict(sig, dialect=dl, kind=excname(b) or b[0]), {'t': str(civ_dt(r['c'])), 's': chars(c['want'])}, c['back'], b)
                ctx.note(('fmt', render_fmt(c['fmt']), tuple(r['c'])))
    for kk in ('nth', 'num', 'np', 'fmt'):
        e = [r for r in recs if r['k'] == kk][0]
        ctx.sample({'s2c_' + kk: json.loads(json.dumps({a: (b if a != 'cases' else b[:1]) for a, b in e.items()}))}, limit=12)


LETTERS = 'abcdefghijklmnopqrstuvwxyz'
MONTHS = ['january', 'february', 'march', 'april', 'may', 'june', 'july', 'august', 'september', 'october', 'november', 'december']
WDAYS = ['monday', 'tuesday', 'wednesday', 'thursday', 'friday', 'saturday', 'sunday']


def rand_case(rng, s):
    return rng.choice([s, s.upper(), s.title(), s.swapcase(), ''.join(rng.choice([ch, ch.upper()]) for ch in s)])


def rand_month_value(rng):
    """a random value of the month vocabulary (the specification says which month it is, if any)"""
    r = rng.random()
    if r < 0.2:
        return ['int', rng.randrange(-40, 60)]
    if r < 0.3:
        p, q = rng.randrange(-30, 40), rng.choice([1, 1, 2, 4])
        f = Fraction(p, q)
        return ['float', f.numerator, f.denominator]
    if r < 0.5:
        nm = rng.choice(MONTHS)
        return ['str', list(rand_case(rng, nm[:rng.randrange(3, len(nm) + 1)]) + rng.choice(['', '', 'x', '.', ' 2020', 'ember']))]
    if r < 0.65:
        return ['str', [rng.choice(LETTERS + LETTERS.upper())]]
    if r < 0.9:
        return ['str', [rng.choice(LETTERS + LETTERS.upper() + '0123 ./-') for _ in range(rng.choice([0, 2, 2, 3, 3, 4, 6]))]]
    return rng.choice([['nan'], ['inf', 1], ['inf', -1], ['other', 'NoneType'], ['other', 'dict'], ['other', 'list']])


def today_ordinal():
    return datetime.date.today().toordinal()


def c2s_cal(ctx, obs):
    rng = ctx.rng
    q = ctx.quick
    for i in range(600 if q else 12000):
        v = rand_month_value(rng)
        obs.append({'k': 'mon', 'v': v, 'out': call_month(v, i)})
        y = rng.randrange(1900, 2300)
        obs.append({'k': 'ym', 'y': y, 'v': v, 'out': call_ym(y, v, i)})
        ctx.evals += 2
    for i in range(800 if q else 16000):
        y = rng.randrange(1900, 2300)
        m = rng.randrange(1, 13)
        r = rng.random()
        if r < 0.35:
            mv = ['int', rng.choice([m, m, rng.randrange(-24, 37)])]
        elif r < 0.45:
            mv = ['float', m, 1]
        elif r < 0.7:
            mv = ['str', list(rand_case(rng, 'fghjkmnquvxz'[m - 1]))]
        else:
            mv = ['str', list(rand_case(rng, MONTHS[m - 1][:rng.randrange(3, len(MONTHS[m - 1]) + 1)]))]
        n = rng.choice([k for k in range(-9, 10) if k])
        wd = rng.choice(WDAYS)
        ws = list(rand_case(rng, wd[:rng.randrange(3, len(wd) + 1)]))
        via = rng.choice(['fn', 'dt'])
        obs.append({'k': 'nth', 'y': y, 'mv': mv, 'n': n, 'ws': ws, 'via': via, 'out': call_nth(via, y, mv, n, ws, i)})
        ctx.evals += 1
    # numbers: every band, its borders, fractions, every number type; the offset band needs the day of the call
    for i in range(1500 if q else 30000):
        band = rng.choice(['offset', 'year', 'serial', 'ordinal', 'yyyymmdd', 'ts', 'tsmall', 'border'])
        fk = rng.choice([0, 0, 0, rng.randrange(0, 64)])
        if band == 'offset':
            ii = rng.choice([rng.randrange(-1500, 1501), rng.randrange(-100000, 0), 1500, 1499, 0])
            v = ['n', ii, (fk if ii >= 0 else -fk)]
        elif band == 'year':
            v = ['n', rng.choice([1501, 3000, rng.randrange(1501, 3001)]), fk]
        elif band == 'serial':
            v = ['n', rng.choice([3001, 299999, rng.randrange(3001, 300000), rng.randrange(20000, 60000)]), fk]
        elif band == 'ordinal':
            v = ['n', rng.choice([300000, 1094999, rng.randrange(300000, 1095000), rng.randrange(693596, 839693)]), fk]
        elif band == 'yyyymmdd':
            d = mk_day(rng.randrange(datetime.date(1001, 1, 1).toordinal(), datetime.date(2999, 12, 31).toordinal()))
            v = ['n', d.year * 10000 + d.month * 100 + d.day, fk]
        elif band == 'ts':
            v = ['ts', rng.randrange(348, 130000), rng.randrange(0, 86400), fk]
        elif band == 'tsmall':
            v = ['n', rng.choice([1095000, 10000101, 30001231, 2 ** 31 - 1, rng.randrange(1095000, 10000102), rng.randrange(30001231, 2 ** 31)]), fk]
        else:
            v = ['n', rng.choice([1500, 1501, 3000, 3001, 299999, 300000, 1094999, 1095000, 10000101, 10000102, 30001230, 30001231]) + rng.choice([-1, 0, 1]), fk]
            if 10000101 < v[1] < 30001231:
                v[1] = rng.choice([10000102, 10000103, 30001230, 30001229])           # the borders of the yyyymmdd band are dates
        typ = rng.choice(NUMTYPES)
        x, typ = render_num(v, typ)
        via = rng.choice(['num2dt', 'dt'])
        for attempt in range(3):
            today = today_ordinal()
            out = call_num(via, x)
            if today_ordinal() == today:
                break
        obs.append({'k': 'num', 'v': v, 'today': today, 'typ': typ, 'via': via, 'out': out})
        ctx.evals += 1
    for i in range(1000 if q else 20000):
        u = rng.choice(['Y', 'M', 'W', 'D', 'h', 'm', 's', 'ms', 'us', 'ns'])
        ylo, yhi = (1679, 2261) if u == 'ns' else (rng.choice([(1600, 2400), (5, 9990)]))
        d = rng.randrange(datetime.date(ylo, 1, 1).toordinal(), datetime.date(yhi, 12, 31).toordinal()) - 719163
        if u == 'Y':
            c = [rng.randrange(ylo - 1970, yhi - 1970)]
        elif u == 'M':
            c = [rng.randrange((ylo - 1970) * 12, (yhi - 1970) * 12)]
        elif u == 'W':
            c = [d // 7]
        elif u == 'D':
            c = [d]
        else:
            s = rng.choice([0, 86399, rng.randrange(86400)])
            if u in UNITSEC:
                s -= s % UNITSEC[u]
                c = [d, s, 0]
            else:
                c = [d, s, rng.choice([0, 1, PERSEC[u] - 1, rng.randrange(PERSEC[u])])]
        via = rng.choice(['np2dt', 'dt'])
        obs.append({'k': 'np', 'u': u, 'c': c, 'via': via, 'out': call_np(via, u, c)})
        ctx.evals += 1
    alpha = '-+0123456789dbwmqyhnsDBWMQYHNSxz .,:/'
    for i in range(1500 if q else 30000):
        r = rng.random()
        if r < 0.5:
            s = ''.join(rng.choice(alpha) for _ in range(rng.randrange(0, 9)))
        else:       # nearly a tenor: sign, digits, letter, rest
            s = rng.choice(['', '', '-', '+', '--', ' ']) + ''.join(rng.choice('0123456789') for _ in range(rng.choice([0, 1, 1, 2, 5]))) \
                + rng.choice(['', ' ', '.']) * (rng.random() < 0.15) + rng.choice(alpha) + ''.join(rng.choice(alpha) for _ in range(rng.randrange(0, 4)))
        p, b = call_period(list(s))
        obs.append({'k': 'per', 's': list(s), 'period': p, 'bump': b})
        ctx.evals += 2
    from pyg_base._dates import is_bump
    for v in [['int', k] for k in (-10 ** 6, -1, 0, 1, 1499, 1500, 1501, 10 ** 6)] + [['timedelta'], ['relativedelta'], ['other', 'NoneType'],
                                                                                   ['other', 'float'], ['other', 'bytes'], ['other', 'list']]:
        obs.append({'k': 'bumpv', 'v': v, 'out': bool(is_bump(render_val(v)))})
        ctx.evals += 1
    # formats: random layouts (bare), the special spellings, and random one-way formats over the modelled fields
    fields = 'aAwdbBmyYHIpMSfj'
    lits = '-/. :,T_()[]|'
    for i in range(1200 if q else 24000):
        r = rng.random()
        y = rng.randrange(1900, 2300) if r < 0.8 else rng.randrange(1000, 10000)
        d = mk_day(rng.randrange(datetime.date(y, 1, 1).toordinal(), datetime.date(y, 12, 31).toordinal() + 1))
        tod = rng.choice([[0, 0, 0, 0], [23, 59, 59, 999999], [12, 0, 0, 0], [0, 0, 0, 1], [rng.randrange(24), rng.randrange(60), rng.randrange(60), rng.choice([0, rng.randrange(10 ** 6)])]])
        c = [d.year, d.month, d.day] + tod
        o = {'k': 'fmt', 'c': c}
        if r < 0.55 and 1900 <= y < 2300:
            L = {'order': rng.choice(['ymd', 'dmy', 'mdy']), 'sep': rng.choice('-/. '), 'mon': rng.choice('mbB'), 'time': rng.choice(['', 'HM', 'HMS', 'HMSf']), 'join': rng.choice(' T')}
            three = {'ymd': ['Y', L['mon'], 'd'], 'dmy': ['d', L['mon'], 'Y'], 'mdy': [L['mon'], 'd', 'Y']}[L['order']]
            f = [three[0], L['sep'], three[1], L['sep'], three[2]] + {'': [], 'HM': [L['join'], 'H', ':', 'M'], 'HMS': [L['join'], 'H', ':', 'M', ':', 'S'],
                                                                       'HMSf': [L['join'], 'H', ':', 'M', ':', 'S', '.', 'f']}[L['time']]
            o['layout'] = L
            o['fmt'] = ['str', f]
            dls = ['uk', 'us'] if L['mon'] != 'm' or L['order'] == 'ymd' else (['uk'] if L['order'] == 'dmy' else ['us'])
            wanted = True
        elif r < 0.7 and 1900 <= y < 2300:
            o['fmt'] = rng.choice([['none'], ['str', []], ['str', list('iso')], ['str', ['-']], ['str', ['/']], ['str', ['.']], ['str', [' ']]])
            dls, wanted = ['uk', 'us'], True
        else:
            n = rng.randrange(2, 9)
            f = [rng.choice(fields) if rng.random() < 0.6 else rng.choice(lits) for _ in range(n)]
            if rng.random() < 0.3:
                f = [x for ch in f for x in (['%', ch] if ch in fields else [ch])]
            if len(f) < 2 or [ch.lower() for ch in f] == list('iso'):
                f = ['Y', 'm']
            o['fmt'] = ['str', f]
            dls, wanted = [], False
        o['out'], o['back'] = call_fmt(c, o['fmt'], dls, wanted)
        obs.append(o)
        ctx.evals += 1 + len(o['back'])


# ------------------------------------------------------------------------------------------------ X05-c
def is_tz_kinds():
    """(kind, object) pairs for the is_tz law; the named ones are what as_tz makes of the names"""
    return [('none', None), ('str', 'london'), ('str', ''), ('int', 0), ('int', 5)]


def s2c_zone(ctx, F):
    from pyg_base._dates import as_tz, is_tz
    recs = ctx.generate('MC_TenorZone', 'MC_TenorZone_gen_quick.cfg' if ctx.quick else 'MC_TenorZone_gen_thorough.cfg')
    recs.sort(key=lambda r: json.dumps(r, sort_keys=True))
    names = sorted(r['name'] for r in recs if r['k'] == 'name')
    bad_names = set()
    with MachineZone():
        for r in recs:
            if r['k'] != 'name':
                continue
            ctx.traces += 1
            for cs in ('asis', 'lower', 'upper', 'swap'):
                nm = case_of(r['name'], cs)
                try:
                    z = as_tz(nm)
                    offs = []
                    for m in r['utc']:
                        off = (datetime.datetime(1, 1, 1) + datetime.timedelta(minutes=m - 1440)).replace(tzinfo=datetime.timezone.utc).astimezone(z).utcoffset()
                        offs.append((off.days * 86400 + off.seconds) // 60)
                    got = ['ok', offs]
                except Exception as e:
                    got = enc_exc(e)
                ctx.evals += 1
                if got != ['ok', r['offs']]:
                    bad_names.add(r['name'])
                    wrong = [i for i in range(len(r['utc'])) if got[0] == 'ok' and got[1][i] != r['offs'][i]]
                    F.add('as_tz_name', {'op': 'as_tz', 'name': r['name'], 'kind': excname(got) or 'wrong_offset'}, {'spelled': nm},
                          'offsets of %s' % r['name'], got if got[0] != 'ok' else {'utc_minute': r['utc'][wrong[0]], 'observed': got[1][wrong[0]], 'expected': r['offs'][wrong[0]], 'wrong_instants': len(wrong)})
                if got[0] == 'ok' and cs == 'asis':
                    t = bool(is_tz(z))
                    ctx.evals += 1
                    if t is not True:
                        F.add('is_tz', {'op': 'is_tz', 'kind': 'named', 'zone_lib': zone_lib(z)}, {'name': r['name']}, True, t)
            ctx.note(('name', r['name']))
        for kind, x in is_tz_kinds():
            t = bool(is_tz(x))
            ctx.evals += 1
            if t is not False:
                F.add('is_tz', {'op': 'is_tz', 'kind': kind, 'zone_lib': '-'}, {'arg': repr(x)}, False, t)
        for r in recs:
            if r['k'] != 'zone':
                continue
            ctx.traces += 1
            if r['z1'][0] in ('name', 'obj') and r['z1'][1] in bad_names:
                continue                                  # the name does not denote the zone the table says: reported above
            z1 = zone_object(r['z1'])
            t1 = mk_time(r['t1'], z1)
            if enc_time(t1) != r['t1']:
                raise Machinery('the zone model disagrees with the zone object %r at %r: %r' % (r['z1'], r['t1'], enc_time(t1)))
            for c in r['cases']:
                if c['want'] == ['undefined']:
                    continue                              # a wall clock the target zone skips or repeats
                if c['z2'][0] in ('name', 'obj') and c['z2'][1] in bad_names:
                    continue
                tin = t1 if c['t'][0] == 'aware' else mk_inst(*c['t'][1:4])
                set_machine_zone(c['sys'])
                z2 = render_zone(c['z2'])
                got = outcome(lambda: zone_call(c['op'], tin, z2), enc_time)
                ctx.evals += 1
                if got != c['want']:
                    if c['op'] == 'bump' and c['z2'][0] in ('obj', 'fixed') and got[0] == 'exc':
                        clause = 'zone_object_not_recognised'
                    else:
                        clause = 'replace_keeps_wall_clock' if c['op'] in ('replace', 'sreplace', 'dt', 'sdt') else 'convert_keeps_instant'
                    F.add(clause, {'op': c['op'], 'zone_as': c['z2'][0] + (':' + c['z2'][1] if c['z2'][0] == 'fixed' else ''), 'zone_lib': zone_lib(z2),
                                   'input': c['t'][0], 'kind': excname(got) or got[0]},
                          {'t': str(tin), 'zone': repr(z2), 'machine_offset': c['sys']}, c['want'], got)
                ctx.note(('zone', c['op'], json.dumps(c['z2']), json.dumps(c['t'])))
    e = [r for r in recs if r['k'] == 'zone'][len(recs) // 3]
    ctx.sample({'s2c_zone': {a: (b if a != 'cases' else b[:2]) for a, b in e.items()}}, limit=12)
    return names, bad_names


def c2s_zone(ctx, obs, names, bad_names):
    from pyg_base._dates import as_tz, is_tz
    rng = ctx.rng
    lo = datetime.date(2008, 1, 2).toordinal() * 1440
    hi = datetime.date(2036, 12, 30).toordinal() * 1440
    good = [n for n in names if n not in bad_names]
    fixed = [['fixed', kd, m] for kd in ('timezone', 'tzoffset', 'pytz') for m in (0, 60, -300, 330, 345, -210, 765, -720)]

    def rand_spelling():
        r = rng.random()
        if r < 0.45:
            return ['name', rng.choice(good), rng.choice(['asis', 'lower', 'upper', 'swap'])]
        if r < 0.75:
            return ['obj', rng.choice(good)]
        if r < 0.95:
            return rng.choice(fixed)
        return ['none']
    with MachineZone():
        for i in range(2500 if ctx.quick else 50000):
            m = rng.randrange(lo, hi)
            if rng.random() < 0.35:         # close to the hours in which European and American zones switch
                y = rng.randrange(2008, 2037)
                d = datetime.date(y, rng.choice([3, 3, 10, 11]), 1).toordinal() + rng.randrange(0, 31)
                m = d * 1440 + rng.randrange(0, 12 * 60)
            sp1 = rand_spelling()
            while sp1[0] == 'none':
                sp1 = rand_spelling()
            z1 = zone_object(sp1)
            utc = mk_inst(m // 1440, (m % 1440) * 60 + rng.randrange(60), rng.choice([0, 0, rng.randrange(10 ** 6)]))
            t1 = utc.replace(tzinfo=datetime.timezone.utc).astimezone(z1)
            tin = t1 if rng.random() < 0.7 else t1.replace(tzinfo=None)
            op = rng.choice(['replace', 'convert', 'dt', 'bump', 'sreplace', 'sconvert', 'sdt'])
            sp2 = rand_spelling()
            if op == 'bump' and sp2[0] == 'none':
                op = 'convert'
            sys_off = rng.choice([0, 0, 60, -300, 330, -210])
            set_machine_zone(sys_off)
            z2 = render_zone(sp2)
            out = outcome(lambda: zone_call(op, tin, z2), enc_time)
            obs.append({'k': 'zone', 'op': op, 't': enc_time(tin), 'z2': sp2, 'sys': sys_off, 'out': out, 'zone_lib': zone_lib(z2)})
            ctx.evals += 1
    for kind, x in is_tz_kinds() + [('fixed', datetime.timezone.utc), ('fixed', datetime.timezone(datetime.timedelta(hours=3)))]:
        obs.append({'k': 'istz', 'kind': kind, 'out': bool(is_tz(x))})
    for nm in good:
        obs.append({'k': 'istz', 'kind': 'named', 'out': bool(is_tz(as_tz(nm))), 'zone_lib': zone_lib(nm), 'name': nm})


# ------------------------------------------------------------------------------------------------ C2S verdicts
def sig_of(o, clause):
    """the stable, matchable part of a rejected observation"""
    k = o['k']
    if k == 'ytm':
        return {'op': 'years_to_maturity', 'form': o['form']}
    if k in ('yb',):
        return {'op': 'years_between'}
    if k in ('tenor', 'named', 'ynum', 'ycont'):
        return {'op': 'years_to_maturity', 'form': k}
    if k == 'mon':
        return {'op': 'month', 'arg': o['v'][0], 'kind': excname(o['out']) or o['out'][0]}
    if k == 'ym':
        return {'op': 'ym', 'arg': o['v'][0], 'kind': excname(o['out']) or o['out'][0]}
    if k == 'nth':
        return {'op': 'nth_weekday_of_month', 'via': o['via'], 'month_as': o['mv'][0], 'kind': excname(o['out']) or o['out'][0]}
    if k == 'num':
        return {'op': 'num2dt', 'typ': o['typ'], 'kind': excname(o['out']) or o['out'][0]}
    if k == 'np':
        return {'op': 'np2dt', 'unit': o['u'], 'via': o['via'], 'kind': excname(o['out']) or o['out'][0]}
    if k in ('per', 'bumpv'):
        return {'op': 'is_period' if k == 'per' else 'is_bump'}
    if k == 'fmt':
        return {'op': 'dt2str', 'fmt': repr(render_fmt(o['fmt']))}
    if k == 'zone':
        return {'op': o['op'], 'zone_as': o['z2'][0] + (':' + o['z2'][1] if o['z2'][0] == 'fixed' else ''), 'zone_lib': o['zone_lib'], 'input': o['t'][0],
                'kind': excname(o['out']) or o['out'][0]}
    if k == 'istz':
        return {'op': 'is_tz', 'kind': o['kind'], 'zone_lib': o.get('zone_lib', '-')}
    return {'op': k}


def corrupted(obs):
    """copies of accepted-looking observations with one recorded field changed: the trace specification must reject each"""
    out, seen = [], set()
    for o in obs:
        k = o['k']
        if k in seen:
            continue
        c = json.loads(json.dumps(o))
        if k == 'yb' and c['out'][0] == 'ok':
            c['out'][1] += 1
        elif k == 'ytm' and c['outs'] and c['outs'][0][0] == 'val' and c['ts'][0] <= c['M']:
            c['outs'][0][1][0] += 1
        elif k == 'tenor' and c['out'][0] == 'val':
            c['out'][1][0] += 1
        elif k == 'mon' and c['out'][0] == 'ok':
            c['out'][1] += 1
        elif k == 'ym' and c['out'][0] == 'ok':
            c['out'][1][1] = c['out'][1][1] % 12 + 1
        elif k == 'nth' and c['out'][0] == 'ok':
            c['out'][1] += 7
        elif k == 'num' and c['out'][0] == 'ok':
            c['out'][2] = (c['out'][2] + 1) % 86400
        elif k == 'np' and c['out'][0] == 'ok':
            c['out'][1] -= 1
        elif k == 'per':
            c['period'] = not c['period']
        elif k == 'fmt' and c['out'][0] == 'ok' and c['out'][1]:
            c['out'][1][-1] = 'x'
        elif k == 'zone' and c['out'][0] == 'aware':
            c['out'][4] += 60
        elif k == 'istz' and c['kind'] == 'none':
            c['out'] = True
        else:
            continue
        seen.add(k)
        out.append(c)
    # a second corruption of a format line: the string is left alone, the value read back is one day off
    for o in obs:
        if o['k'] == 'fmt' and o['back'] and o['back'][0][1][0] == 'ok':
            c = json.loads(json.dumps(o))
            c['back'][0][1][1] += 1
            out.append(c)
            break
    return out


def judge(ctx, obs, F):
    can = corrupted(obs)
    kinds_needed = {'yb', 'ytm', 'tenor', 'mon', 'ym', 'nth', 'num', 'np', 'per', 'fmt', 'zone', 'istz'}
    if {c['k'] for c in can} != kinds_needed:
        raise Machinery('no corruptible observation of kind(s) %s' % sorted(kinds_needed - {c['k'] for c in can}))
    chunk = 20000
    rejected_canaries = []
    for a in range(0, len(obs), chunk):
        part = obs[a:a + chunk]
        extra = can if a == 0 else []
        bad = ctx.validate('Trace_Tenor', part + extra, whole=True)
        hit = dict(bad)
        for j, cobs in enumerate(extra):
            cl = hit.get(len(part) + j + 1)
            if cl is None or cl == 'bad_input':
                raise Machinery('Trace_Tenor accepted a corrupted %s observation: the binding is not real' % cobs['k'])
            rejected_canaries.append([cobs['k'], cl])
        for i, clause in bad:
            if i > len(part):
                continue
            o = part[i - 1]
            if clause == 'domain':              # a wall clock the target zone skips or repeats: not claimed
                ctx.extra['c2s_outside_domain'] = ctx.extra.get('c2s_outside_domain', 0) + 1
                continue
            if clause == 'bad_input':
                raise Machinery('the driver left the domain of the specification: %s' % json.dumps(o)[:500])
            wit = {x: y for x, y in o.items() if x not in ('k',)}
            F.add(clause, sig_of(o, clause), json.loads(json.dumps(wit))if len(json.dumps(wit)) < 900 else json.dumps(wit)[:900], 'see Trace_Tenor!Verdict', o.get('out', o.get('outs')))
    ctx.extra['binding_check'] = {'corrupted_observations_rejected': rejected_canaries}


# ------------------------------------------------------------------------------------------------ run
def accept_proposed(ctx):
    """VERIF_X05_ACCEPT_PROPOSED=1: treat the PROPOSED known findings of extensions/X05.known.json as known (used for the
    sensitivity runs, so that a mutant shows as exit 1 against a baseline of exit 0); by default they are reported"""
    if os.environ.get('VERIF_X05_ACCEPT_PROPOSED') == '1':
        p = os.path.join(os.path.dirname(os.path.dirname(os.path.abspath(__file__))), 'extensions', 'X05.known.json')
        with open(p) as f:
            ctx.known = ctx.known + [k for k in json.load(f)['known'] if k['property'] == 'X05']
        ctx.extra['proposed_known_findings_accepted'] = True


def run(ctx):
    accept_proposed(ctx)
    ctx.rule = ('S2C: every case TLC printed (whole years and years to maturity for date pairs around every anniversary in four calling forms; '
                'tenor strings; every spelling of every month; n-th weekdays for every month x n x weekday with spelled months and weekdays; '
                'numbers of every band and type; numpy.datetime64 of ten units; all strings <= 4 characters of an 8-letter alphabet for the '
                'period grammar; formats as characters with read-back per dialect; zone operations for instants on both sides of every switch) '
                'replayed and compared with ==.  C2S: seeded random inputs of the same vocabularies judged by Trace_Tenor.  Non-trivial = '
                'distinct by input (date / spelling / number / string / format x instant / operation x zone spelling x time).')
    q = 'quick' if ctx.quick else 'thorough'
    from harness.x_tlcpar import Prefetch
    with Prefetch(ctx.tmp, parallel=int(os.environ.get('X05_PARALLEL', '3'))) as pf:
        # (-coverage makes TLC count every evaluation of every subexpression: with the nested quantifiers of these modules that is
        # 50x slower.  Each behaviour is one state and one step; that every step was taken is checked on the state counts instead.)
        for mod in ('MC_Tenor', 'MC_TenorCal', 'MC_TenorZone'):
            pf.submit(mod, '%s_%s.cfg' % (mod, q), coverage=False)
        for mod in ('MC_Tenor', 'MC_TenorCal', 'MC_TenorZone'):
            pf.submit(mod, '%s_gen_%s.cfg' % (mod, q), coverage=False)
        for mod in ('MC_Tenor', 'MC_TenorCal', 'MC_TenorZone'):
            r = ctx.mc(mod, '%s_%s.cfg' % (mod, q), coverage=False)
            if r.distinct % 2 or r.generated != r.distinct:
                raise Machinery('vacuous: not every behaviour of %s took its step (%d generated, %d distinct)' % (mod, r.generated, r.distinct))
        F = Findings()
        s2c_tenor(ctx, F)
        s2c_cal(ctx, F)
        names, bad_names = s2c_zone(ctx, F)
    obs = []
    c2s_tenor(ctx, obs)
    c2s_cal(ctx, obs)
    c2s_zone(ctx, obs, names, bad_names)
    ctx.extra['c2s_lines_by_kind'] = {k: sum(1 for o in obs if o['k'] == k) for k in sorted({o['k'] for o in obs})}
    ctx.sample({'c2s_line': obs[len(obs) // 2]}, limit=14)
    judge(ctx, obs, F)
    F.report(ctx)
    ctx.exhaustive = False
    ctx.assumptions += [
        'numbers of years cross the boundary as reduced fractions: Fraction(x).limit_denominator(10**6) of the float the code returned, i.e. a '
        'result is taken for p/q (q <= 10**6) when it lies within about 1e-13 of it; an error below that is invisible',
        'dates are built with datetime.fromordinal and read with toordinal()/hour/minute/second/microsecond/utcoffset(); strings cross as lists of characters',
        'fractions of a day / second given to num2dt are multiples of 1/64 (exact in binary floating point); integers beyond 2**31 cross as (days, seconds)',
        'zones: the model knows fixed offsets and the EU / US summer-time rules, instants stay inside 2008..2036; every aware input is built with '
        "python's own astimezone from the zone object and compared with the model before use (a disagreement is a machinery failure, for a named "
        'zone a finding about as_tz); wall clocks that the target zone skips or repeats are outside the domain of replace',
        'the machine zone (TZ, time.tzset) is set to a fixed offset around every zone call and restored afterwards',
        'num2dt of numbers <= 1500 is relative to the day of the call: the day is recorded before and after the call (retry when it changed) and handed to the specification',
        'not covered: numpy units ps/fs/as, NaT, dt2str fields z Z U W c x X, ISO week fields, years_to_maturity with intraday times, unsorted timeseries, '
        'dt(tzinfo=) without a date (now), DataFrame time-zone operations, lists / dicts of times in tz_replace / tz_convert',
    ]


def replay(ctx, body):
    """./check X05 --replay <file>: show the recorded witness (the findings of this check are groups: clause, signature,
    first witness, count) and run it again where the witness names a single call"""
    c = body['case']
    w = c.get('witness', {})
    print('clause:', body['clause'])
    print('case:', json.dumps(c)[:1500])
    print('recorded:', json.dumps(body['detail'])[:1500])
    try:
        if c.get('op') == 'years_to_maturity' and 'maturity' in w:
            from pyg_base import dt
            from pyg_base._tenor import years_to_maturity
            got = outcome(lambda: years_to_maturity(dt(w['maturity']), dt(w['t'])), enc_years)
        elif c.get('op') == 'month' and 'arg' in w:
            from pyg_base._dates import month
            got = outcome(lambda: month(eval(w['arg'], {'inf': float('inf'), 'nan': float('nan')})), enc_int)
        elif c.get('op') == 'nth_weekday_of_month' and 'w' in w:
            from pyg_base import nth_weekday_of_month
            got = outcome(lambda: nth_weekday_of_month(w['y'], eval(w['m']), w['n'], w['w']), enc_dt)
        else:
            print('(no single-call replay for this kind of witness)')
            return 2
    except Exception as e:
        print('replay failed:', repr(e))
        return 2
    print('observed now:', got)
    want = body['detail'].get('expected')
    return 0 if (got == want or got == ['val', want]) else 1
