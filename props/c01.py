"""C01 - dictable behaves as a rectangular list of records under any operation history.

S2C: TLC explores the session state machine spec/Dictable.tla (exhaustively to depth 2, the directed form "a table,
a table made from it, then one of the two changed in place or grown by +=" exhaustively, by simulation to
depth 6 / 10) with the call history as a variable and prints, for every behaviour, the history and the
abstract state it must lead to.  Each history is replayed on real dictables through the public API and the
state is projected through four independent observation channels (column lists, len/shape, iteration,
d[i][c]); everything must equal the printed expectation, aliasing included.
The session holds the caller's own argument objects too (one Python object per name, handed to every call that names it, edited in
place by the caller between calls); every ordered pair of calls sharing such objects is generated (Dictable_genshared*.cfg) and all
objects are compared with what TLC says the caller left them as (argument_changed).
Round 5: every list of 3 - 5 operands (two tables, two records) in ONE concat call (Dictable_gennary*.cfg); recorded histories on BIG tables
(small patterns of mixed cell kinds scaled to 17 - 1025 rows), wide tables, concat calls with 17 - 257 operands and sessions of up to 1030 calls.
C2S: random recorded histories (general slices, masks, values, += / -= forms, per-column transforms with lists of
functions that take further columns) validated step by step by spec/Trace_Dictable.tla."""
import json
import functools
import operator
import copy as pycopy
from harness.enc import IdMap, tag, untag
from pyg_base import dictable

FN = {'copy_a': lambda a: a, 'a_or_2': lambda a: 2 if a is None else a, 'const_x': lambda: 'x', 'copy_key': lambda key: key,
      'copy_c': lambda c: c, 'a_plus_b': lambda a, b: (a + b) % 100 if type(a) is int and type(b) is int else None}
# per-column transforms: the first parameter is the cell, the others name columns of the same record (spec: DoFnApply)
DOFN = {'none0': lambda value: 0 if value is None else value,
        'add_a': lambda value, a: (value + a) % 100 if type(value) is int and type(a) is int else value,
        'or_b': lambda value, b: b if value is None else value}
SLICES = {'first': slice(0, 1), 'tail': slice(1, None), 'even': slice(None, None, 2), 'last': slice(-1, None), 'none': slice(None, 0), 'rev': slice(None, None, -1)}


def arg(a, ids):
    return untag(a[1], ids) if a[0] == 's' else [untag(v, ids) for v in a[1]]


def construct(seed, ids, k):
    kind = seed['kind']
    if kind == 'cols':
        kw = {c: arg(a, ids) for c, a in zip(seed['cols'], seed['args'])}
        if not kw:
            return dictable() if k % 2 else dictable({})
        return dictable(**kw) if k % 2 else dictable(kw)
    if kind == 'recs':
        recs = [{c: untag(v, ids) for c, v in rec} for rec in seed['recs']]
        return dictable(recs) if k % 2 else dictable(data=recs)
    if kind == 'rows':
        rows = [[untag(v, ids) for v in row] for row in seed['rows']]
        return dictable(rows, seed['hdrs']) if k % 2 else dictable(data=rows, columns=list(seed['hdrs']))
    raise ValueError(kind)


def construct_big(seed, n, b, ids, k):
    """rendering of BigT: the pattern rows (given explicitly by the seed) laid out n times, as rows + headers, columns or records"""
    if seed['kind'] == 'recs':
        pat = [{c: untag(v, ids) for c, v in rec} for rec in seed['recs']]
        if not pat:
            return construct(seed, ids, k)
        recs = [dict(pat[(i // b) % len(pat)]) for i in range(n)]
        return dictable(recs) if k % 2 else dictable(data=recs)
    pat = [[untag(v, ids) for v in row] for row in seed['rows']]
    hdrs = list(seed['hdrs'])
    if not pat:
        return construct(seed, ids, k)
    rows = [list(pat[(i // b) % len(pat)]) for i in range(n)]
    cols = {c: [row[j] for row in rows] for j, c in enumerate(hdrs)}
    return [lambda: dictable(rows, hdrs), lambda: dictable(cols), lambda: dictable(**cols), lambda: dictable([dict(zip(hdrs, row)) for row in rows])][k % 4]()


def build_args(av, ids):
    """the caller's argument objects: ONE Python object per name, handed as it is to every call that names it"""
    return {'m': {c: arg(a, ids) for c, a in av['m']}, 'rn': {c: c2 for c, c2 in av['rn']},
            'recs': [{c: untag(v, ids) for c, v in rec} for rec in av['recs']], 'L': [untag(v, ids) for v in av['L']],
            'cs': list(av['cs']), 'ix': [int(i) for i in av['ix']]}


def encode_args(args, ids):
    col = lambda v: ['l', [tag(x, ids) for x in v]] if isinstance(v, list) else ['s', tag(v, ids)]
    plain = lambda x: x if type(x) in (str, int) else repr(x)
    return {'m': [[plain(c), col(v)] for c, v in args['m'].items()], 'rn': [[plain(c), plain(c2)] for c, c2 in args['rn'].items()],
            'recs': [[[plain(c), tag(v, ids)] for c, v in rec.items()] if isinstance(rec, dict) else repr(rec) for rec in args['recs']],
            'L': [tag(v, ids) for v in args['L']], 'cs': [plain(c) for c in args['cs']], 'ix': [plain(i) for i in args['ix']]}


CALLER_OPS = ('Bind', 'MapSet', 'MapDel', 'RnSet', 'RnDel', 'RecsAppend', 'RecSet', 'LAppend', 'CsAppend', 'CsPop', 'IxAppend')


def caller_step(args, h, ids):
    """the caller's own actions: new objects for all names, or an edit in place"""
    op = h['op']
    if op == 'Bind': args.update(build_args(h['av'], ids))
    elif op == 'MapSet': args['m'][h['c']] = arg(h['arg'], ids)
    elif op == 'MapDel': del args['m'][h['c']]
    elif op == 'RnSet': args['rn'][h['c']] = h['c2']
    elif op == 'RnDel': del args['rn'][h['c']]
    elif op == 'RecsAppend': args['recs'].append({c: untag(v, ids) for c, v in h['rec']})
    elif op == 'RecSet': args['recs'][0][h['c']] = untag(h['v'], ids)
    elif op == 'LAppend': args['L'].append(untag(h['v'], ids))
    elif op == 'CsAppend': args['cs'].append(h['c'])
    elif op == 'CsPop': del args['cs'][0]
    elif op == 'IxAppend': args['ix'].append(int(h['i']))
    return 'ok'


def pyslice(h):
    f = lambda b: None if b[0] == 0 else int(b[1])
    return slice(f(h['lo']), f(h['hi']), int(h['step']))


def step(regs, args, h, ids, k):
    """one public call (or one action of the caller on his own objects); returns the outcome string"""
    op = h['op']
    if op in CALLER_OPS:
        return caller_step(args, h, ids)
    m, rn, recs, L, cs, ix = (args[x] for x in ('m', 'rn', 'recs', 'L', 'cs', 'ix'))
    kwof = lambda: {c: arg(a, ids) for c, a in h['kw']}
    try:
        # ---- calls that are handed the caller's own objects (the very same object every time)
        if op == 'NewMap':
            regs[h['rd']] = [dictable(m), dictable(data=m), dictable(**m)][k % 3]; return 'ok'
        if op == 'NewMapKw':
            regs[h['rd']] = dictable(m, **kwof()) if k % 2 else dictable(data=m, **kwof()); return 'ok'
        if op == 'NewTabKw':
            regs[h['rd']] = dictable(regs[h['r']], **kwof()) if k % 2 else dictable(data=regs[h['r']], **kwof()); return 'ok'
        if op == 'NewRecs':
            regs[h['rd']] = dictable(recs) if k % 2 else dictable(data=recs); return 'ok'
        if op == 'NewColsL':
            b = L if h['b'] == 'L' else 'x'
            regs[h['rd']] = dictable(a=L, b=b) if k % 2 else dictable({'a': L, 'b': b}); return 'ok'
        if op == 'NewRowsCs':
            rows = [[untag(v, ids) for v in row] for row in h['rows']]
            regs[h['rd']] = dictable(rows, cs) if k % 2 else dictable(data=rows, columns=cs); return 'ok'
        if op == 'ISubCs':
            regs[h['r']] -= cs; return 'ok'
        if op == 'IAddRecs':
            regs[h['r']] += recs; return 'ok'
        if op == 'IAddRec1':
            regs[h['r']] += (recs[0] if k % 2 else [recs[0]]); return 'ok'
        if op in ('SetColL', 'UpdateMap', 'DeriveConstL', 'DeriveMap', 'RenameMap', 'RenameMapKw', 'ProjectCs', 'MinusCs', 'DoCs', 'TakeIx', 'AddRecs', 'AddRec1'):
            d = regs[h['r']]
            if op == 'SetColL':
                if k % 3 == 0: d[h['c']] = L
                elif k % 3 == 1: setattr(d, h['c'], L)
                else: d.update({h['c']: L})
                return 'ok'
            if op == 'UpdateMap':
                d.update(m); return 'ok'
            if op == 'DeriveConstL': res = d(**{h['c']: L})
            elif op == 'DeriveMap': res = d(**m)
            elif op == 'RenameMap': res = d.relabel(rn) if k % 2 else d.rename(rn)
            elif op == 'RenameMapKw': res = d.relabel(rn, **dict(map(tuple, h['kw']))) if k % 2 else d.rename(rn, **dict(map(tuple, h['kw'])))
            elif op == 'ProjectCs': res = d[cs]
            elif op == 'MinusCs': res = d - cs
            elif op == 'DoCs': res = d.do(DOFN[h['fs'][0]] if k % 2 else [DOFN[f] for f in h['fs']], cs)
            elif op == 'TakeIx': res = d[ix]
            elif op == 'AddRecs': res = [d + recs, dictable.concat(d, recs), dictable.concat([d, recs])][k % 3]
            elif op == 'AddRec1': res = d + recs[0]
            regs[h['rd']] = res
            return 'ok'
        # ---- calls whose arguments are made for the call
        if op == 'New':
            regs[h['rd']] = construct(h['seed'], ids, k); return 'ok'
        if op == 'NewBig':                     # a small pattern of rows scaled up to n rows: row i is pattern row (i // b) % p
            regs[h['rd']] = construct_big(h['seed'], int(h['n']), int(h['b']), ids, k); return 'ok'
        if op == 'ConcatN':                    # three or more operands in ONE call: tables of the session and single records
            xs = [regs[o[1]] if o[0] == 'r' else {c: untag(v, ids) for c, v in o[2]} for o in h['ops']]
            forms = [lambda: dictable.concat(*xs), lambda: dictable.concat(xs)]       # (a tuple of tables is not a documented call form: not rendered)
            if isinstance(xs[0], dictable):    # the chained binary forms next to them (a record cannot start a chain)
                forms += [lambda: sum(xs), lambda: functools.reduce(operator.add, xs), lambda: xs[0].concat(*xs)]
            regs[h['rd']] = forms[k % len(forms)](); return 'ok'
        if op == 'MaskCyc':
            d = regs[h['r']]; pat = h['pat']
            regs[h['rd']] = d[[bool(pat[i % len(pat)]) for i in range(len(d))]]; return 'ok'
        if op == 'SetColCyc':
            d = regs[h['r']]; pat = [untag(v, ids) for v in h['pat']]
            v = [pat[i % len(pat)] for i in range(len(d))] if pat else []
            if k % 2: d[h['c']] = v
            else: setattr(d, h['c'], v)
            return 'ok'
        if op == 'Concat':
            a, b = regs[h['ra']], regs[h['rb']]
            regs[h['rd']] = [dictable.concat(a, b), a + b, dictable.concat([a, b]), sum([a, b])][k % 4]; return 'ok'
        if op == 'IAdd':                       # augmented assignment: the name r is given whatever += yields
            regs[h['r']] += regs[h['rb']]; return 'ok'
        if op == 'IAddRecord':
            rec = {c: untag(v, ids) for c, v in h['rec']}
            regs[h['r']] += (rec if k % 2 else [rec]); return 'ok'
        if op == 'IAddNone':
            regs[h['r']] += (None if k % 2 else 0); return 'ok'
        if op == 'ISub':
            regs[h['r']] -= (h['cs'][0] if (len(h['cs']) == 1 and k % 2) else list(h['cs'])); return 'ok'
        d = regs[h['r']]
        if op == 'SetCol':
            v = arg(h['arg'], ids)
            if k % 2: d[h['c']] = v
            else: setattr(d, h['c'], v)
            return 'ok'
        if op == 'SetFrom':                    # the column object of another table, handed over as it is
            v = regs[h['r2']][h['c2']]
            if k % 2: d[h['c']] = v
            else: d.update({h['c']: v})
            return 'ok'
        if op == 'DelCol':
            if k % 2: del d[h['c']]
            else: delattr(d, h['c'])
            return 'ok'
        if op == 'Update':
            d.update({c: arg(a, ids) for c, a in h['items']}); return 'ok'
        if op == 'Slice':
            res = d[SLICES[h['sl']]] if 'sl' in h else d[pyslice(h)]
        elif op == 'Mask':
            res = d[[bool(b) for b in h['mask']]]
        elif op == 'Take':
            res = d[[int(i) for i in h['pos']]]
        elif op == 'Project':
            res = d[list(h['cs'])]
        elif op == 'Derive':
            res = d(**{h['c']: FN[h['f']]})
        elif op == 'Do':
            fs = [DOFN[f] for f in h['fs']]
            fs = fs[0] if len(fs) == 1 and k % 3 else fs
            res = d.do(fs, *h['cs']) if (k % 2 or not h['cs']) else d.do(fs, list(h['cs']))
        elif op == 'DeriveConst':
            res = d(**{h['c']: arg(h['arg'], ids)})
        elif op == 'DerivePair':
            kw = [(h['c'], FN[h['f']]), (h['c2'], FN[h['g']])]
            res = d(**dict(kw if k % 2 else kw[::-1]))
        elif op == 'Minus':
            res = d - h['cs'][0] if (len(h['cs']) == 1 and k % 2) else d - list(h['cs'])
        elif op == 'Rename':
            res = d.relabel(**{h['c']: h['c2']}) if k % 2 else d.rename(**{h['c']: h['c2']})
        elif op == 'Swap':
            res = d.relabel(**{h['c']: h['c2'], h['c2']: h['c']}) if k % 2 else d.rename({h['c']: h['c2'], h['c2']: h['c']})
        elif op == 'AddRecord':
            res = d + {c: untag(v, ids) for c, v in h['rec']}
        elif op == 'Copy':
            res = [d.copy(), dictable(d), pycopy.copy(d), dictable(**dict(d)) if len(d.keys()) else dictable(data=d)][k % 4]
        elif op == 'NoFilter':
            res = [d.inc(), d.exc(), d.inc({}), d.inc(**{})][(k + (h.get('f') == 'exc')) % 4] if 'f' not in h else (d.inc() if h['f'] == 'inc' else d.exc())
        elif op == 'AddNone':
            res = d + None
        elif op == 'ConcatOne':
            res = dictable.concat(d)
        else:
            raise RuntimeError('unknown op ' + op)
        regs[h['rd']] = res
        return 'ok'
    except (ValueError, KeyError, IndexError, TypeError, AttributeError) as e:
        return type(e).__name__


def observe(d, ids):
    cols = list(dict.keys(d))
    raw = {c: dict.__getitem__(d, c) for c in cols}
    lists = {c: list(v) for c, v in raw.items() if isinstance(v, (list, tuple))}
    ns = sorted({len(v) for v in lists.values()})
    o = {'cols': sorted(cols), 'ragged': len(ns) > 1 or len(lists) < len(cols)}      # a column that is not a list at all: not a rectangle either
    n = ns[0] if ns else 0
    o['rows'] = [{c: tag(lists[c][i], ids) for c in cols} for i in range(n)] if not o['ragged'] else []
    try:
        o['len'] = len(d)
        o['shape'] = list(d.shape)
        o['iter'] = [{c: tag(v, ids) for c, v in row.items()} for row in d]
        o['cells'] = [{c: tag(d[i][c], ids) for c in cols} for i in range(len(d))]
        o['bycol'] = [{c: tag(d[c][i], ids) for c in cols} for i in range(len(d))]
    except Exception as e:
        o['error'] = type(e).__name__
    return o


def replay_hist(snap):
    ids = IdMap()
    regs = {}
    args = build_args(snap['args0'], ids)
    out = 'ok'
    for k, h in enumerate(snap['hist']):
        out = step(regs, args, h, ids, k + len(snap['hist']) + snap.get('variant', 0))
    got = {'out': out, 'args': encode_args(args, ids), 'regs': {}}
    live = sorted(regs)
    for r in ('r1', 'r2', 'r3'):
        if r in regs:
            got['regs'][r] = {'live': True, 'same': [s for s in live if regs[s] is regs[r]], 'table': observe(regs[r], ids)}
        else:
            got['regs'][r] = {'live': False}
    return got


def expected(snap):
    exp = {'out': snap['out'], 'args': snap['args'], 'regs': {}}
    live = sorted(r for r, v in snap['regs'].items() if v['live'])
    for r, v in snap['regs'].items():
        if not v['live']:
            exp['regs'][r] = {'live': False}; continue
        t = v['table']
        exp['regs'][r] = {'live': True, 'same': [s for s in live if snap['regs'][s]['obj'] == v['obj']],
                          'table': {'cols': sorted(t['cols']), 'ragged': False, 'rows': t['rows'], 'len': t['len'], 'shape': list(t['shape']),
                                    'iter': t['rows'], 'cells': t['rows'], 'bycol': t['rows']}}
    return exp


def check(ctx, snap, where):
    got, exp = replay_hist(snap), expected(snap)
    ctx.evals += 1; ctx.traces += 1
    ops = [h['op'] for h in snap['hist']]
    if len(set(ops)) >= 2:
        ctx.note(json.dumps(snap['hist'], sort_keys=True))
    if got != exp:
        clause = 'outcome' if got['out'] != exp['out'] else 'state'
        for r in ('r1', 'r2', 'r3') if got['args'] == exp['args'] else ():
            g, e = got['regs'][r], exp['regs'][r]
            if g != e and g.get('live') and e.get('live'):
                if g['same'] != e['same']: clause = 'aliasing'
                elif g['table'].get('ragged'): clause = 'not_rectangular'
                elif g['table'].get('rows') == e['table']['rows'] and g['table']['cols'] == e['table']['cols']: clause = 'observations_disagree'
        if got['args'] != exp['args']: clause = 'argument_changed'      # an object of the caller is not what the caller left it as
        ctx.violation(clause, {'op': ops[-1], 'ops': ops, 'hist': snap['hist'], 'args0': snap['args0'], 'source': where, 'variant': snap.get('variant', 0)}, {'expected': exp, 'observed': got})
    return got == exp


POOL = [["n", 0], ["i", 1], ["i", 2], ["i", 0], ["s", "x"], ["s", ""], ["s", "yy"], ["f", [5, 2]], ["f", [1, 1]], ["nan", 1], ["nan", 2],
        ["d", [730120, 0, 0]], ["d", [730121, 3600, 7]], ["b", 1]]
COLS = ['a', 'b', 'c', 'e', 'key']


def rand_world(rng):
    val = lambda: rng.choice(POOL)
    n = rng.choice([0, 1, 2, 3])
    col = lambda: ['s', val()] if rng.random() < 0.3 else ['l', [val() for _ in range(n if rng.random() < 0.9 else n + 1)]]
    cols = lambda: rng.sample(COLS, rng.choice([0, 1, 2, 3]))
    return {'m': [[c, col()] for c in cols()], 'rn': [[c, c2] for c, c2 in zip(cols(), rng.sample(['d', 'z', 'y', 'a', 'b'], 3))],
            'recs': [[[c, val()] for c in rng.sample(COLS, rng.choice([1, 2, 3]))] for _ in range(rng.choice([0, 1, 2, 3]))],
            'L': [val() for _ in range(rng.choice([0, 1, 2, 3, 3]))], 'cs': rng.sample(COLS, rng.choice([0, 1, 2, 3])),
            'ix': [rng.randint(-3, 2) for _ in range(rng.choice([1, 2, 3]))]}


def rand_arg_event(rng, regs, args, flags):
    """a call that is handed the caller's objects, or an action of the caller on them; None where the drawn form is outside the domain"""
    live = sorted(regs)
    val = lambda: rng.choice(POOL)
    m, rn, recs, L, cs, ix = (args[x] for x in ('m', 'rn', 'recs', 'L', 'cs', 'ix'))
    op = rng.choice(['Bind', 'MapSet', 'MapSet', 'MapDel', 'RnSet', 'RnDel', 'RecsAppend', 'RecSet', 'LAppend', 'CsAppend', 'CsPop', 'IxAppend',
                     'NewMap', 'NewMapKw', 'NewMapKw', 'NewRecs', 'NewColsL', 'NewRowsCs'] +
                    (['NewTabKw', 'NewTabKw', 'SetColL', 'UpdateMap', 'UpdateMap', 'DeriveConstL', 'DeriveMap', 'RenameMap', 'RenameMap', 'RenameMapKw', 'RenameMapKw',
                      'ProjectCs', 'MinusCs', 'ISubCs', 'DoCs', 'TakeIx', 'AddRecs', 'IAddRecs', 'AddRec1', 'IAddRec1'] * 2 if live else []))
    rd = rng.choice(['r1', 'r2', 'r3'])
    colarg = lambda n: ['s', val()] if rng.random() < 0.4 else ['l', [val() for _ in range(rng.choice([1, n, n, n + 1]))]]
    if op == 'Bind':
        flags['lg'] = False
        return {'op': op, 'av': rand_world(rng)}
    if op == 'MapSet': return {'op': op, 'c': rng.choice(COLS), 'arg': colarg(rng.choice([0, 1, 2, 3]))}
    if op == 'MapDel': return {'op': op, 'c': rng.choice(sorted(m))} if m else None
    if op == 'RnSet': return {'op': op, 'c': rng.choice(COLS), 'c2': rng.choice(['d', 'z', 'y', 'a', 'b'])}
    if op == 'RnDel': return {'op': op, 'c': rng.choice(sorted(rn))} if rn else None
    if op == 'RecsAppend': return {'op': op, 'rec': [[c, val()] for c in rng.sample(COLS, rng.choice([1, 2]))]} if len(recs) < 4 else None
    if op == 'RecSet': return {'op': op, 'c': rng.choice(COLS), 'v': val()} if recs else None
    if op == 'LAppend': return {'op': op, 'v': val()} if not flags['lg'] and len(L) < 5 else None
    if op == 'CsAppend': return {'op': op, 'c': rng.choice(COLS)} if len(cs) < 4 else None
    if op == 'CsPop': return {'op': op} if cs else None
    if op == 'IxAppend': return {'op': op, 'i': rng.randint(-3, 2)} if len(ix) < 5 else None
    if op == 'NewMap': return {'op': op, 'rd': rd}
    if op == 'NewRecs': return {'op': op, 'rd': rd}
    if op == 'NewColsL':
        flags['lg'] = True
        return {'op': op, 'rd': rd, 'b': rng.choice(['L', 'x'])}
    if op == 'NewRowsCs':
        return {'op': op, 'rd': rd, 'rows': [[val() for _ in cs] for _ in range(rng.choice([0, 1, 2, 3]))]} if cs and len(set(cs)) == len(cs) else None
    if op == 'NewMapKw':
        free = [c for c in COLS + ['d'] if c not in m]
        return {'op': op, 'rd': rd, 'kw': [[c, colarg(2)] for c in rng.sample(free, min(len(free), rng.choice([1, 2])))]} if free else None
    r = rng.choice(live); d = regs[r]
    cols = list(dict.keys(d))
    sole = sum(1 for s in live if regs[s] is d) == 1
    try:
        n = len(d)
    except Exception:
        n = 0
    fits = lambda pairs: len({dict(pairs).get(c, c) for c in cols}) == len(cols)
    if op == 'NewTabKw':
        free = [c for c in COLS + ['d'] if c not in cols]
        return {'op': op, 'r': r, 'rd': rd, 'kw': [[c, colarg(n)] for c in rng.sample(free, min(len(free), rng.choice([1, 2])))]} if free else None
    if op in ('SetColL', 'DeriveConstL'):
        flags['lg'] = True
        return {'op': op, 'r': r, 'rd': rd, 'c': rng.choice(COLS)}
    if op in ('UpdateMap', 'DeriveMap', 'MinusCs', 'AddRecs'): return {'op': op, 'r': r, 'rd': rd}
    if op == 'RenameMap': return {'op': op, 'r': r, 'rd': rd} if fits(list(rn.items())) else None
    if op == 'RenameMapKw':
        free = [c for c in COLS if c not in rn]
        kw = [[c, c2] for c, c2 in zip(rng.sample(free, min(len(free), rng.choice([1, 2]))), rng.sample(['y2', 'z2', 'a', 'b'], 2))]
        return {'op': op, 'r': r, 'rd': rd, 'kw': kw} if kw and fits(list(rn.items()) + [tuple(x) for x in kw]) else None
    if op == 'ProjectCs': return {'op': op, 'r': r, 'rd': rd} if cs and len(set(cs)) == len(cs) else None
    if op == 'DoCs': return {'op': op, 'r': r, 'rd': rd, 'fs': ['none0']} if cs and set(cs) <= set(cols) else None
    if op == 'TakeIx': return {'op': op, 'r': r, 'rd': rd} if ix else None
    if op == 'AddRec1': return {'op': op, 'r': r, 'rd': rd} if recs else None
    if op in ('ISubCs', 'IAddRecs'): return {'op': op, 'r': r, 'rd': r} if sole else None
    if op == 'IAddRec1': return {'op': op, 'r': r, 'rd': r} if sole and recs else None
    raise RuntimeError(op)


def rand_event(rng, regs, args=None, flags=None):
    if args is not None and rng.random() < 0.4:
        e = rand_arg_event(rng, regs, args, flags)
        if e is not None:
            return e
    live = sorted(regs)
    val = lambda: rng.choice(POOL)
    def seed():
        kind = rng.choice(['cols', 'cols', 'recs', 'rows'])
        if kind == 'cols':
            cols = rng.sample(COLS, rng.choice([0, 1, 2, 3]))
            n = rng.choice([0, 1, 2, 3, 5])
            args = []
            for c in cols:
                q = rng.random()
                args.append(['s', val()] if q < 0.25 else ['l', [val()]] if q < 0.35 else ['l', [val() for _ in range(n if q < 0.93 else n + 1)]])
            return {'kind': 'cols', 'cols': cols, 'args': args}
        if kind == 'recs':
            recs = []
            for _ in range(rng.choice([1, 2, 3, 4])):
                cs = rng.sample(COLS, rng.choice([1, 2, 3]))
                recs.append([[c, val()] for c in cs])
            return {'kind': 'recs', 'recs': recs}
        hdrs = rng.sample(COLS, rng.choice([1, 2, 3]))
        return {'kind': 'rows', 'hdrs': hdrs, 'rows': [[val() for _ in hdrs] for _ in range(rng.choice([0, 1, 2, 4]))]}
    if not live or rng.random() < 0.12:
        return {'op': 'New', 'rd': rng.choice(['r1', 'r2', 'r3']), 'seed': seed()}
    r = rng.choice(live); d = regs[r]
    try:
        n = len(d)
    except Exception:
        n = 0
    cols = list(dict.keys(d))
    rd = rng.choice(['r1', 'r2', 'r3'])
    op = rng.choice(['SetCol', 'SetCol', 'DelCol', 'Update', 'Slice', 'Slice', 'Mask', 'Take', 'Project', 'Derive', 'Do', 'Do', 'Rename', 'Swap', 'Concat', 'AddRecord', 'Copy', 'NoFilter', 'AddNone', 'ConcatOne',
                     'IAdd', 'IAddRecord', 'IAddRecord', 'IAddNone', 'ISub', 'SetFrom', 'Minus', 'DeriveConst', 'DerivePair', 'ConcatN', 'ConcatN', 'MaskCyc', 'SetColCyc'])
    if op in ('IAdd', 'IAddRecord', 'ISub') and sum(1 for s in live if regs[s] is d) > 1:
        op = 'Copy'          # += on a table that a second name holds too is not pinned down by the statement (see SoleName in the spec)
    def colarg():
        q = rng.random()
        if q < 0.3: return ['s', val()]
        if q < 0.4: return ['l', [val()]]
        if q < 0.85: return ['l', [val() for _ in range(n)]]
        return ['l', [val() for _ in range(rng.choice([0, 2, n + 1, n + 2]))]]
    if op == 'ConcatN':        # 3 - 5 operands in one call: live tables (the same one may come twice) and single records, while the result stays small
        def operand():
            return ['r', rng.choice(live), []] if rng.random() < 0.65 else ['rec', '', [[c, val()] for c in rng.sample(COLS, rng.choice([1, 2, 3]))]]
        ops = [['r', r, []]] + [operand() for _ in range(rng.choice([2, 2, 3, 4]))]
        rng.shuffle(ops)
        try:
            big = sum(len(regs[o[1]]) for o in ops if o[0] == 'r') > 60
        except Exception:
            big = False
        return {'op': 'Copy', 'r': r, 'rd': rd} if big else {'op': op, 'ops': ops, 'rd': rd}
    if op == 'MaskCyc':
        return {'op': op, 'r': r, 'rd': rd, 'pat': rng.choice([[True, False], [False, True, True], [True], [False], [False, False, True, False, True]])}
    if op == 'SetColCyc':
        return {'op': op, 'r': r, 'c': rng.choice(COLS), 'pat': [val() for _ in range(rng.choice([0, 1, 2, 3, 3]))]}
    if op == 'SetCol':
        return {'op': op, 'r': r, 'c': rng.choice(COLS), 'arg': colarg()}
    if op == 'DelCol':
        return {'op': op, 'r': r, 'c': rng.choice(cols + ['e'] if cols else COLS)}
    if op == 'Update':
        return {'op': op, 'r': r, 'items': [[c, colarg()] for c in rng.sample(COLS, rng.choice([1, 2]))]}
    if op == 'Slice':
        b = lambda: [0, 0] if rng.random() < 0.35 else [1, rng.randint(-n - 2, n + 2)]
        return {'op': op, 'r': r, 'rd': rd, 'lo': b(), 'hi': b(), 'step': rng.choice([1, 1, 2, 3, -1, -2])}
    if op == 'Mask':
        return {'op': op, 'r': r, 'rd': rd, 'mask': [rng.random() < rng.choice([0.0, 0.5, 0.5, 1.0]) for _ in range(n)]}
    if op == 'Take':
        return {'op': op, 'r': r, 'rd': rd, 'pos': [rng.randint(-n - 1, n) for _ in range(rng.choice([1, 2, 3]))] if rng.random() < 0.3 or n == 0
                else [rng.randint(-n, n - 1) for _ in range(rng.choice([1, 2, 3, 5]))]}
    if op == 'Project':
        return {'op': op, 'r': r, 'rd': rd, 'cs': rng.sample(cols, rng.randint(1, len(cols))) if cols and rng.random() < 0.85 else ['a', 'e']}
    if op == 'Derive':
        c, f = rng.choice([('c', 'copy_a'), ('a', 'a_or_2'), ('b', 'const_x'), ('e', 'const_x'), ('e', 'copy_a'), ('c', 'copy_key'), ('new', 'copy_key'), ('c', 'a_plus_b'), ('a', 'a_plus_b'), ('b', 'a_plus_b')])
        if f == 'copy_key' and 'key' not in cols:
            f = 'const_x'
        if f in ('copy_a', 'a_or_2') and 'a' not in cols:
            f = 'const_x'
        return {'op': op, 'r': r, 'rd': rd, 'c': c, 'f': f}
    if op == 'Do':
        fs = [rng.choice(['none0', 'add_a', 'or_b']) for _ in range(rng.choice([1, 1, 2, 2, 3, 0]))]
        cs = [rng.choice(cols) for _ in range(rng.choice([0, 1, 2, 2, 3]))] if cols else []
        if not cs and any(f != 'none0' for f in fs):      # "all columns" only with functions of the cell alone (their order is not modelled)
            cs = list(cols) if cols and rng.random() < 0.8 else cs
            fs = fs if cs else ['none0']
        return {'op': op, 'r': r, 'rd': rd, 'fs': fs, 'cs': cs}
    if op == 'DeriveConst':
        return {'op': op, 'r': r, 'rd': rd, 'c': rng.choice(COLS), 'arg': colarg()}
    if op == 'DerivePair':
        if 'c' in cols: return {'op': 'Minus', 'r': r, 'rd': rd, 'cs': ['c']}
        return {'op': op, 'r': r, 'rd': rd, 'c': 'c', 'f': 'copy_a' if 'a' in cols or rng.random() < 0.1 else 'const_x', 'c2': rng.choice(['b', 'e', 'd']), 'g': 'copy_c'}
    if op == 'Minus':
        return {'op': op, 'r': r, 'rd': rd, 'cs': rng.sample(COLS, rng.choice([1, 1, 2, 3]))}
    if op == 'IAdd':
        rb = rng.choice(live)
        try:
            big = n + len(regs[rb]) > 60
        except Exception:
            big = False
        return {'op': 'IAddNone', 'r': r, 'rd': r} if big else {'op': op, 'r': r, 'rb': rb, 'rd': r}
    if op == 'IAddRecord':
        return {'op': op, 'r': r, 'rd': r, 'rec': [[c, val()] for c in rng.sample(COLS, rng.choice([1, 2, 3]))]}
    if op == 'IAddNone':
        return {'op': op, 'r': r, 'rd': r}
    if op == 'ISub':
        return {'op': op, 'r': r, 'rd': r, 'cs': rng.sample(COLS, rng.choice([1, 1, 2]))}
    if op == 'SetFrom':
        r2 = rng.choice(live); cols2 = list(dict.keys(regs[r2]))
        return {'op': op, 'r': r, 'c': rng.choice(COLS), 'r2': r2, 'c2': rng.choice(cols2 + ['e'] if cols2 and rng.random() < 0.9 else COLS)}
    if op == 'Rename':
        if not cols: return {'op': 'Copy', 'r': r, 'rd': rd}
        fresh = [x for x in ('d', 'z', 'y') if x not in cols]
        if not fresh: return {'op': 'Copy', 'r': r, 'rd': rd}
        return {'op': op, 'r': r, 'rd': rd, 'c': rng.choice(cols), 'c2': rng.choice(fresh)}
    if op == 'Swap':
        two = [c for c in cols]
        if len(two) < 2: return {'op': 'Copy', 'r': r, 'rd': rd}
        c, c2 = rng.sample(two, 2)
        return {'op': op, 'r': r, 'rd': rd, 'c': c, 'c2': c2}
    if op == 'Concat':
        return {'op': op, 'ra': r, 'rb': rng.choice(live), 'rd': rd}
    if op == 'AddRecord':
        return {'op': op, 'r': r, 'rd': rd, 'rec': [[c, val()] for c in rng.sample(COLS, rng.choice([1, 2]))]}
    if op == 'NoFilter':
        return {'op': op, 'r': r, 'rd': rd, 'f': rng.choice(['inc', 'exc'])}
    return {'op': op, 'r': r, 'rd': rd}


def post(regs, ids, args=None):
    live = sorted(regs)
    p = {'args': encode_args(args, ids)} if args is not None else {}
    for r in ('r1', 'r2', 'r3'):
        if r in regs:
            t = observe(regs[r], ids)
            for k in ('len', 'shape', 'iter', 'cells', 'bycol'):
                t.setdefault(k, 'error:' + t.get('error', '?'))
            p[r] = {'live': True, 'same': [s for s in live if regs[s] is regs[r]], 'table': t}
        else:
            p[r] = {'live': False}
    return p


NO_ARGS = {'m': [], 'rn': [], 'recs': [], 'L': [], 'cs': [], 'ix': []}

# ---- round 5: size.  Small row patterns whose columns MIX cell kinds (str with int, int with float, None with anything, datetimes, bool),
# scaled up to n rows (BigT of the specification) and pushed through every row-selecting / row-wise call; judged by the same trace specification.
I1, I2, I0, SX, SYY, SE, F52, F11, NONE, D1, D2, B1 = (["i", 1], ["i", 2], ["i", 0], ["s", "x"], ["s", "yy"], ["s", ""], ["f", [5, 2]], ["f", [1, 1]], ["n", 0],
                                                      ["d", [730120, 0, 0]], ["d", [730121, 3600, 7]], ["b", 1])
BIGPATS = [{'kind': 'rows', 'hdrs': ['a', 'b', 'c'], 'rows': [[I1, SX, D1], [SYY, F52, NONE], [I2, NONE, D2]]},          # str with int; str, float, None; dates with None
           {'kind': 'rows', 'hdrs': ['a', 'b'], 'rows': [[I1, F11], [F52, I2], [I0, NONE], [I2, B1]]},                    # int with float; int, None, bool
           {'kind': 'recs', 'recs': [[['a', I1], ['b', SX]], [['a', SE]], [['b', I2], ['key', D1]], [['a', NONE], ['b', F52]], [['key', SYY], ['a', I2]]]},   # records with different keys
           {'kind': 'rows', 'hdrs': ['key', 'a'], 'rows': [[D1, SX], [D2, I1]]},                                          # dates; str with int
           {'kind': 'rows', 'hdrs': ['a', 'e', 'b'], 'rows': [[I1, I1, F52], [I2, I2, F11], [I0, I1, F52], [I1, I0, F11], [I2, I2, F52], [I0, I0, F11], [I1, SX, I1]]}]   # one odd cell in 7 rows
MASKPATS = [[True, False, True], [False, True, True, False, True], [True], [False], [False] * 6 + [True]]


def big_script(rng, pat, n, b, half):
    """the events of one history on a big table: r1 is the big table and the operand of every call (looked at again after each one)"""
    val = lambda: rng.choice(POOL)
    bound = lambda: [0, 0] if rng.random() < 0.3 else [1, rng.randint(-n - 2, n + 2)]
    ev = [{'op': 'Bind', 'av': NO_ARGS}, {'op': 'NewBig', 'rd': 'r1', 'seed': pat, 'n': n, 'b': b}]
    if half == 0:
        ev += [{'op': 'MaskCyc', 'r': 'r1', 'rd': 'r2', 'pat': MASKPATS[0]},
               {'op': 'Mask', 'r': 'r1', 'rd': 'r3', 'mask': [rng.random() < 0.5 for _ in range(n)]},
               {'op': 'Slice', 'r': 'r1', 'rd': 'r2', 'lo': [1, 1], 'hi': [1, -1], 'step': rng.choice([1, 2, 3])},          # d[1:-1:step]: never empty here
               {'op': 'Take', 'r': 'r1', 'rd': 'r3', 'pos': [rng.randint(-n, n - 1) for _ in range(65 + n % 7)]},
               {'op': 'ConcatN', 'ops': [['r', 'r2', []], ['rec', '', [['a', val()], ['z', val()]]], ['r', 'r1', []], ['r', 'r3', []]], 'rd': 'r3', 'k': n % 2}]     # k: concat(*xs) / concat(list)
    else:
        ev += [{'op': 'NoFilter', 'r': 'r1', 'rd': 'r2', 'f': rng.choice(['inc', 'exc'])},
               {'op': 'MaskCyc', 'r': 'r2', 'rd': 'r3', 'pat': rng.choice(MASKPATS[1:])},
               {'op': 'SetColCyc', 'r': 'r1', 'c': rng.choice(['a', 'e']), 'pat': [val() for _ in range(rng.choice([2, 3, 5]))]},
               {'op': 'MaskCyc', 'r': 'r1', 'rd': 'r2', 'pat': MASKPATS[1]},
               {'op': 'Slice', 'r': 'r1', 'rd': 'r3', 'lo': bound(), 'hi': bound(), 'step': rng.choice([1, 2, -1, 5])},
               {'op': 'Slice', 'r': 'r1', 'rd': 'r3', 'lo': [0, 0], 'hi': [0, 0], 'step': -1},
               {'op': 'IAddRecord', 'r': 'r1', 'rd': 'r1', 'rec': [['a', val()], ['b', val()]]},
               {'op': 'Mask', 'r': 'r1', 'rd': 'r2', 'mask': [rng.random() < 0.8 for _ in range(n + 1)]}]
    return ev


def record(ctx, events_or_gen, nrandom=0, cap=None):
    """run the events on real objects and log outcome + projection after each; then nrandom more events drawn from the general menus
    (tables kept below `cap` rows: a concatenation that would exceed it is recorded as a copy instead)"""
    ids = IdMap(); regs = {}; events = []
    args = build_args(NO_ARGS, ids); flags = {'lg': False}
    def size(r):
        try: return len(regs[r])
        except Exception: return 0
    todo = list(events_or_gen)
    for k in range(len(todo) + nrandom):
        e = todo[k] if k < len(todo) else rand_event(ctx.rng, regs, args, flags)
        if cap is not None and k >= len(todo):
            grows = {'Concat': lambda: size(e['ra']) + size(e['rb']), 'IAdd': lambda: size(e['r']) + size(e['rb']),
                     'ConcatN': lambda: sum(size(o[1]) for o in e['ops'] if o[0] == 'r')}
            if e['op'] in grows and grows[e['op']]() > cap:
                e = {'op': 'Copy', 'r': sorted(regs)[0], 'rd': e['rd']}
        e = dict(e)
        e['k'] = e['k'] if 'k' in e else ctx.rng.randint(0, 11)            # which spelling of the call (kept for replay; scripts may fix it)
        e['out'] = step(regs, args, e, ids, e['k'])
        e['post'] = post(regs, ids, args)
        events.append(e)
    return {'events': events}


def big_histories(ctx):
    """(i) scaled patterns: sizes around the thresholds a change could hide behind; (ii) one call with 17 / 65 / 130 operands;
    (iii) tables of 17 / 65 / 130 columns; (iv) long histories: 70 / 130 / 260 calls in one session on small tables"""
    rng = ctx.rng
    sizes = [(17, 5), (65, 5), (66, 2), (101, 2), (130, 2), (257, 2), (260, 2)] if ctx.quick else [(17, 10), (64, 5), (65, 10), (101, 10), (130, 10), (257, 10), (260, 5), (1025, 3)]
    obs = []
    for n, count in sizes:
        for j in range(count):
            pat = BIGPATS[j % len(BIGPATS)]
            p = len(pat.get('rows') or pat.get('recs'))
            b = [1, 2, max(1, n // p), 7][(j // len(BIGPATS) + j) % 4]
            obs.append(record(ctx, big_script(rng, pat, n, b, (j + n) % 2), nrandom=2 if n <= 130 else 0, cap=2 * n + 2))
            ctx.note(('big', n, j))
    A = {'kind': 'rows', 'hdrs': ['a', 'b'], 'rows': [[I1, SX], [F52, NONE]]}
    B = {'kind': 'rows', 'hdrs': ['a'], 'rows': [[SYY], [D1], [I2]]}
    for nops in ([17, 65] if ctx.quick else [17, 65, 130, 257]):          # members of one argument list
        unit = [['r', 'r1', []], ['r', 'r2', []], ['rec', '', [['b', I2], ['c', D2]]], ['r', 'r1', []], ['rec', '', [['a', NONE]]]]
        ev = [{'op': 'Bind', 'av': NO_ARGS}, {'op': 'New', 'rd': 'r1', 'seed': A}, {'op': 'New', 'rd': 'r2', 'seed': B},
              {'op': 'ConcatN', 'ops': [unit[i % len(unit)] for i in range(nops)], 'rd': 'r3', 'k': 0},          # concat(*xs)
              {'op': 'ConcatN', 'ops': [unit[i % len(unit)] for i in range(nops)], 'rd': 'r3', 'k': 1},          # concat(list)
              {'op': 'ConcatN', 'ops': [unit[i % len(unit)] for i in range(nops)], 'rd': 'r3', 'k': 3},          # x1 + x2 + ... (chained)
              {'op': 'ConcatN', 'ops': [['r', 'r2', []]] * nops, 'rd': 'r3', 'k': 4}]                            # x1.concat(*xs), one table nops times
        obs.append(record(ctx, ev)); ctx.note(('operands', nops))
    for w in ([17, 65, 130] if ctx.quick else [17, 65, 130, 257, 1025]):          # number of columns (keys of the table, members of the lists of names)
        hdrs = ['c%i' % j for j in range(w)]
        vals = [I1, SX, F52, NONE, D1, SYY, I2]
        wide = {'kind': 'rows', 'hdrs': hdrs, 'rows': [[vals[(i * 3 + j) % 7] for j in range(w)] for i in range(3)]}
        ev = [{'op': 'Bind', 'av': NO_ARGS}, {'op': 'New', 'rd': 'r1', 'seed': wide},
              {'op': 'Project', 'r': 'r1', 'rd': 'r2', 'cs': hdrs[w // 2::-1]},
              {'op': 'MaskCyc', 'r': 'r1', 'rd': 'r3', 'pat': [True, False]},
              {'op': 'ConcatN', 'ops': [['r', 'r2', []], ['r', 'r1', []], ['rec', '', [[hdrs[-1], SX], ['a', I1]]], ['r', 'r2', []]], 'rd': 'r3'},
              {'op': 'Minus', 'r': 'r1', 'rd': 'r2', 'cs': hdrs[::3]},
              {'op': 'Rename', 'r': 'r1', 'rd': 'r2', 'c': hdrs[-2], 'c2': 'z'},
              {'op': 'DelCol', 'r': 'r1', 'c': hdrs[1]},
              {'op': 'SetColCyc', 'r': 'r1', 'c': hdrs[-1], 'pat': [I2, SYY]},
              {'op': 'Do', 'r': 'r1', 'rd': 'r2', 'fs': ['none0'], 'cs': hdrs[2:w // 2]},
              {'op': 'Slice', 'r': 'r1', 'rd': 'r3', 'lo': [0, 0], 'hi': [0, 0], 'step': -1}]
        obs.append(record(ctx, ev)); ctx.note(('columns', w))
    for ncalls in ([70, 130, 260] if ctx.quick else [70, 130, 260, 260, 520, 1030]):          # calls in one session
        obs.append(record(ctx, [{'op': 'Bind', 'av': rand_world(rng)}], nrandom=ncalls, cap=40)); ctx.note(('calls', ncalls))
    return obs


def c2s(ctx, nhist):
    obs = []
    for i in range(nhist):
        ids = IdMap(); regs = {}; events = []
        args = build_args(NO_ARGS, ids); flags = {'lg': False}
        for k in range(ctx.rng.choice([4, 8, 12, 20])):
            e = rand_event(ctx.rng, regs, args, flags) if k else {'op': 'Bind', 'av': rand_world(ctx.rng)}
            e['out'] = step(regs, args, e, ids, ctx.rng.randint(0, 11))
            e['post'] = post(regs, ids, args)
            events.append(e)
        obs.append({'events': events})
        ctx.note(('c2s', i))
    judge(ctx, obs, 1000)           # one log of 5 000 histories (70 MB of JSON) exhausts TLC's heap: validate in slices
    ctx.sample({'recorded_history': [{kk: v for kk, v in e.items() if kk != 'post'} for e in obs[0]['events'][:6]]})
    big = big_histories(ctx)
    judge(ctx, big, 8)
    ctx.sample({'recorded_big_history': [{kk: (v if kk != 'mask' else '<%i flags>' % len(v)) for kk, v in e.items() if kk != 'post'} for e in big[-6]['events'][:5]],
                'rows_of_r1_after_it': ((((big[-6]['events'][4].get('post') or {}).get('r1') or {}).get('table') or {}).get('len') if len(big[-6]['events']) > 4 else None)})


def judge(ctx, obs, per_run):
    ctx.evals += sum(len(o['events']) for o in obs)
    bad = []
    for k in range(0, len(obs), per_run):
        # (the trace specification threads the state through a recursive Run: a history of 260 calls needs a deeper Java stack than the default)
        bad += [(line + k, clause) for line, clause in ctx.validate('Trace_Dictable', obs[k:k + per_run], env={'JAVA_TOOL_OPTIONS': '-Xss512m'})]
    for line, clause in bad:
        ev = obs[line - 1]['events']
        k = int(clause.split(':')[0][4:])
        hist = [{kk: v for kk, v in e.items() if kk not in ('post',)} for e in ev[:k]]
        ctx.violation(clause.split(':')[1], {'op': ev[k - 1]['op'], 'ops': [e['op'] for e in ev[:k]], 'hist': hist, 'source': 'c2s'},
                      {'observed_post': ev[k - 1]['post'] if len(json.dumps(ev[k - 1]['post'])) < 20000 else '<large>', 'observed_out': ev[k - 1]['out']})


def run(ctx):
    ctx.rule = ('every behaviour of the session state machine Dictable.tla (all call sequences of length <= 2 from the menus; every history '
                '"table, table made from it, one of the two changed in place or grown by +=" of the directed form NextDerived; simulated '
                'sequences of length 6 and 10) replayed on real dictables; all live tables projected through column lists, len, shape, '
                'iteration, d[i][c], d[c][i] and compared with the state TLC printed, aliasing included. The session also holds the CALLER\'S '
                'argument objects (a dict of columns, a dict of renames, a list of records, a list of values, a list of names, a list of positions): '
                'one Python object per name is handed to every call that names it (dictable(m, c = ..), dictable(d, c = ..), d.update(m), d(**m), '
                'd.relabel(rn, b = ..), d[cs], d - cs, d.do(f, cs), d + recs, d[c] = L, dictable(a = L, b = L) ...), the caller edits them in place between '
                'calls, every ordered pair of such calls on the same objects is generated, and after the history every object must equal what the '
                'specification says the caller left it as (clause argument_changed). THREE OR MORE operands in one call: two tables, then one concat over every '
                'list of 3 - 5 operands drawn from the two tables and two records (a column present, absent, present again; the same table twice; a record '
                'first), spelled concat(*xs), concat(list), sum(xs), x1 + x2 + ..., x1.concat(*xs); the specification says the n-ary call is the chained '
                'binary one (ConcatNLaw). SIZE: recorded histories on tables of 17 - 260 rows (thorough: 1025) that are small row patterns with columns of '
                'mixed cell kinds scaled up (BigT), pushed through masks, slices, position lists, filters without condition, n-ary concat, += and cycled '
                'column assignment, on tables of 17 - 130 columns, on concat calls with 17 / 65 operands and on sessions of 70 - 260 calls - judged by the '
                'same trace specification; ScaleLaws (checked by TLC on the small tables) states that k copies of the rows give k copies of the outcome. '
                'Non-trivial = at least two different operations.')
    ctx.mc('Dictable', 'Dictable_mc2.cfg' if ctx.quick else 'Dictable_mc3.cfg')
    snaps = ctx.generate('Dictable', 'Dictable_gen2.cfg')
    for s in snaps:
        check(ctx, s, 'exhaustive-depth-2')
    ctx.sample({'history': snaps[len(snaps) // 2]['hist'], 'expected_state': snaps[len(snaps) // 2]['regs']})
    # directed form: New ; any call that makes a table from it ; any in-place change / += on either of them - the ORIGINAL is observed too
    snaps = ctx.generate('Dictable', 'Dictable_gen3d.cfg' if ctx.quick else 'Dictable_gen3dall.cfg')     # quick: from 3 seed tables, thorough: from all 12
    for s in snaps:
        check(ctx, s, 'derived-then-changed')
    pick = [s for s in snaps if s['hist'][-1]['op'].startswith('IAdd')]
    ctx.sample({'history': pick[len(pick) // 2]['hist'], 'expected_state': pick[len(pick) // 2]['regs']})
    # shared argument objects: the caller's objects ; a table ; a call that is handed some of them ; [the caller edits one in place ;] a second
    # call that is handed the same objects - every ordered pair of such calls; all objects and all registers observed at the end
    for cfg in (['Dictable_genshared.cfg'] if ctx.quick else ['Dictable_gensharedall.cfg', 'Dictable_gensharededit.cfg']):
        snaps = ctx.generate('Dictable', cfg)
        for s in snaps:
            check(ctx, s, 'shared-arguments')
        pick = [s for s in snaps if len(s['hist']) >= 4 and s['hist'][-1]['op'] == 'RenameMap'] or snaps
        ctx.sample({'history': pick[len(pick) // 2]['hist'], 'expected_args': pick[len(pick) // 2]['args'], 'expected_state': pick[len(pick) // 2]['regs']})
    # n-ary calls: two tables, then ONE concat call over every list of 3 .. 5 (thorough: 6) operands drawn from the two tables and two records;
    # the call is rendered as concat(*xs), concat(list), sum(xs), x1 + x2 + ..., x1.concat(*xs) in rotation
    snaps = ctx.generate('Dictable', 'Dictable_gennary.cfg' if ctx.quick else 'Dictable_gennaryall.cfg')
    for i, s in enumerate(snaps):
        s['variant'] = i % 10
        check(ctx, s, 'n-ary-concat')
    pick = [s for s in snaps if len(s['hist'][-1]['ops']) == 4 and s['hist'][-1]['ops'][1][0] == 'rec' and s['regs']['r3']['table']['len'] >= 5] or snaps
    ctx.sample({'history': pick[len(pick) // 2]['hist'], 'expected_state': pick[len(pick) // 2]['regs']['r3']})
    if not ctx.quick:
        ctx.mc('Dictable', 'Dictable_mclaws.cfg')      # ConcatNLaw and ScaleLaws (part of Dictable_mc2.cfg in the quick tier)
    for cfg, num, depth, cap in ([('Dictable_sim6.cfg', 900, 7, 3000)] if ctx.quick else
                                 [('Dictable_sim6.cfg', 12000, 7, 40000), ('Dictable_sim10.cfg', 6000, 11, 20000)]):
        sims = ctx.generate('Dictable', cfg, simulate=num, depth=depth, seed=ctx.seed + 1, workers=1)
        sims = sims[:cap]
        for s in sims:
            check(ctx, s, cfg)
        ctx.sample({'history': sims[-1]['hist'], 'expected_out': sims[-1]['out']})
    c2s(ctx, 250 if ctx.quick else 5000)
    ctx.exhaustive = False
    ctx.assumptions += ['column order is not part of the model (columns compared as sets); d.do without column names is therefore only used with functions of the cell alone',
                        'e += x is taken for names that are the only name of their table: the name then holds e + x and no other table moves; whether e is a new object or grew in place is not judged',
                        'd(c = f, c2 = g) with g reading c only where c is a new column (old-or-new c is open otherwise); per-column transforms with further parameters: the parameter names a column of the same record and sees the current record',
                        'd + None and dictable.concat(d) return their operand (named deviations AddNone / ConcatOne: aliases, not copies)',
                        'rename onto an existing column, masks of the wrong length and cell mutation through returned lists are outside the domain',
                        'argument objects: a list handed over as a column (d[c] = L, dictable(a = L), d(c = L)) may be kept by the table as the column itself, so the caller no longer edits L after that (flag lg); dicts, lists of records / names / positions are edited freely',
                        'n-ary concat is rendered with positional operands or one list (a tuple of tables is not a documented form: concat((a, b, c)) is not called); record + table (a dict on the left of +) is not rendered',
                        'big tables: every cell of a scaled pattern is the same Python object as in the pattern (the NaN identities of the pattern repeat); sizes 17 / 65 / 66 / 101 / 130 / 257 / 260 rows in the quick tier',
                        'dictable(m, **kw) / dictable(d, **kw) / d.relabel(rn, **kw) only with keyword names that the mapping / table does not have (which side wins is not pinned down); relabels only where no two columns end up under one name']


def replay(ctx, body):
    """re-execute the recorded history; S2C cases are compared with the stored expectation, recorded ones re-validated by TLC"""
    case = body['case']
    if case.get('source') == 'c2s':
        ids = IdMap(); regs = {}; events = []
        args = build_args(NO_ARGS, ids)
        for k, e in enumerate(case['hist']):
            e = {kk: v for kk, v in e.items() if kk != 'out'}
            e['out'] = step(regs, args, e, ids, e.get('k', k)); e['post'] = post(regs, ids, args); events.append(e)
        bad = ctx.validate('Trace_Dictable', [{'events': events}])
        print('replay:', 'REJECTED %s' % bad if bad else 'accepted')
        return 1 if bad else 0
    got = replay_hist({'hist': case['hist'], 'args0': case.get('args0', NO_ARGS), 'variant': case.get('variant', 0)})
    exp = body['detail']['expected']
    print('replay:', 'state differs from the specification' if got != exp else 'state equals the specification')
    return 1 if got != exp else 0
