"""C01 - dictable behaves as a rectangular list of records under any operation history.

S2C: TLC explores the session state machine spec/Dictable.tla (exhaustively to depth 2, by simulation to
depth 6 / 10) with the call history as a variable and prints, for every behaviour, the history and the
abstract state it must lead to.  Each history is replayed on real dictables through the public API and the
state is projected through four independent observation channels (column lists, len/shape, iteration,
d[i][c]); everything must equal the printed expectation, aliasing included."""
import json
from harness.enc import IdMap, tag, untag
from pyg_base import dictable

FN = {'copy_a': lambda a: a, 'a_or_2': lambda a: 2 if a is None else a, 'const_x': lambda: 'x'}
DO = lambda v: 0 if v is None else v
SLICES = {'first': slice(0, 1), 'tail': slice(1, None), 'even': slice(None, None, 2), 'last': slice(-1, None), 'none': slice(None, 0), 'rev': slice(None, None, -1)}


def arg(a, ids):
    return untag(a[1], ids) if a[0] == 's' else [untag(v, ids) for v in a[1]]


def construct(seed, ids, k):
    kind = seed['kind']
    if kind == 'cols':
        kw = {c: arg(a, ids) for c, a in zip(seed['cols'], seed['args'])}
        if not kw:
            return dictable() if k % 2 else dictable({})
        return dictable(**kw) if k % 2 else dictable(kw)
    if kind == 'recs':
        recs = [{c: untag(v, ids) for c, v in rec} for rec in seed['recs']]
        return dictable(recs) if k % 2 else dictable(data=recs)
    if kind == 'rows':
        rows = [[untag(v, ids) for v in row] for row in seed['rows']]
        return dictable(rows, seed['hdrs']) if k % 2 else dictable(data=rows, columns=list(seed['hdrs']))
    raise ValueError(kind)


def step(regs, h, ids, k):
    """one public call; returns the outcome string"""
    op = h['op']
    try:
        if op == 'New':
            regs[h['rd']] = construct(h['seed'], ids, k); return 'ok'
        if op == 'Concat':
            a, b = regs[h['ra']], regs[h['rb']]
            regs[h['rd']] = (a + b) if k % 2 else dictable.concat(a, b); return 'ok'
        d = regs[h['r']]
        if op == 'SetCol':
            v = arg(h['arg'], ids)
            if k % 2: d[h['c']] = v
            else: setattr(d, h['c'], v)
            return 'ok'
        if op == 'DelCol':
            if k % 2: del d[h['c']]
            else: delattr(d, h['c'])
            return 'ok'
        if op == 'Update':
            d.update({c: arg(a, ids) for c, a in h['items']}); return 'ok'
        if op == 'Slice':
            res = d[SLICES[h['sl']]]
        elif op == 'Mask':
            res = d[[bool(b) for b in h['mask']]]
        elif op == 'Take':
            res = d[[int(i) for i in h['pos']]]
        elif op == 'Project':
            res = d[list(h['cs'])]
        elif op == 'Derive':
            res = d(**{h['c']: FN[h['f']]})
        elif op == 'Do':
            res = d.do(DO, *h['cs']) if (k % 2 or not h['cs']) else d.do(DO, list(h['cs']))
        elif op == 'Rename':
            res = d.relabel(**{h['c']: h['c2']}) if k % 2 else d.rename(**{h['c']: h['c2']})
        elif op == 'AddRecord':
            res = d + {c: untag(v, ids) for c, v in h['rec']}
        elif op == 'Copy':
            res = d.copy()
        elif op == 'AddNone':
            res = d + None
        elif op == 'ConcatOne':
            res = dictable.concat(d)
        else:
            raise RuntimeError('unknown op ' + op)
        regs[h['rd']] = res
        return 'ok'
    except (ValueError, KeyError, IndexError, TypeError, AttributeError) as e:
        return type(e).__name__


def observe(d, ids):
    cols = list(dict.keys(d))
    lists = {c: list(dict.__getitem__(d, c)) for c in cols}
    ns = sorted({len(v) for v in lists.values()})
    o = {'cols': sorted(cols), 'ragged': len(ns) > 1}
    n = ns[0] if ns else 0
    o['rows'] = [{c: tag(lists[c][i], ids) for c in cols} for i in range(n)] if not o['ragged'] else []
    try:
        o['len'] = len(d)
        o['shape'] = list(d.shape)
        o['iter'] = [{c: tag(v, ids) for c, v in row.items()} for row in d]
        o['cells'] = [{c: tag(d[i][c], ids) for c in cols} for i in range(len(d))]
        o['bycol'] = [{c: tag(d[c][i], ids) for c in cols} for i in range(len(d))]
    except Exception as e:
        o['error'] = type(e).__name__
    return o


def replay(snap):
    ids = IdMap()
    regs = {}
    out = 'ok'
    for k, h in enumerate(snap['hist']):
        out = step(regs, h, ids, k + len(snap['hist']))
    got = {'out': out, 'regs': {}}
    live = sorted(regs)
    for r in ('r1', 'r2', 'r3'):
        if r in regs:
            got['regs'][r] = {'live': True, 'same': [s for s in live if regs[s] is regs[r]], 'table': observe(regs[r], ids)}
        else:
            got['regs'][r] = {'live': False}
    return got


def expected(snap):
    exp = {'out': snap['out'], 'regs': {}}
    live = sorted(r for r, v in snap['regs'].items() if v['live'])
    for r, v in snap['regs'].items():
        if not v['live']:
            exp['regs'][r] = {'live': False}; continue
        t = v['table']
        exp['regs'][r] = {'live': True, 'same': [s for s in live if snap['regs'][s]['obj'] == v['obj']],
                          'table': {'cols': sorted(t['cols']), 'ragged': False, 'rows': t['rows'], 'len': t['len'], 'shape': list(t['shape']),
                                    'iter': t['rows'], 'cells': t['rows'], 'bycol': t['rows']}}
    return exp


def check(ctx, snap, where):
    got, exp = replay(snap), expected(snap)
    ctx.evals += 1; ctx.traces += 1
    ops = [h['op'] for h in snap['hist']]
    if len(set(ops)) >= 2:
        ctx.note(json.dumps(snap['hist'], sort_keys=True))
    if got != exp:
        clause = 'outcome' if got['out'] != exp['out'] else 'state'
        for r in ('r1', 'r2', 'r3'):
            g, e = got['regs'][r], exp['regs'][r]
            if g != e and g.get('live') and e.get('live'):
                if g['same'] != e['same']: clause = 'aliasing'
                elif g['table'].get('ragged'): clause = 'not_rectangular'
                elif g['table'].get('rows') == e['table']['rows'] and g['table']['cols'] == e['table']['cols']: clause = 'observations_disagree'
        ctx.violation(clause, {'op': ops[-1], 'ops': ops, 'hist': snap['hist'], 'source': where}, {'expected': exp, 'observed': got})
    return got == exp


def run(ctx):
    ctx.rule = ('every behaviour of the session state machine Dictable.tla (all call sequences of length <= 2 from the menus; simulated '
                'sequences of length 6 and 10) replayed on real dictables; all live tables projected through column lists, len, shape, '
                'iteration, d[i][c], d[c][i] and compared with the state TLC printed, aliasing included. Non-trivial = at least two different operations.')
    ctx.mc('Dictable', 'Dictable_mc2.cfg' if ctx.quick else 'Dictable_mc3.cfg')
    snaps = ctx.generate('Dictable', 'Dictable_gen2.cfg')
    for s in snaps:
        check(ctx, s, 'exhaustive-depth-2')
    ctx.sample({'history': snaps[len(snaps) // 2]['hist'], 'expected_state': snaps[len(snaps) // 2]['regs']})
    for cfg, num, depth, cap in ([('Dictable_sim6.cfg', 900, 7, 3000)] if ctx.quick else
                                 [('Dictable_sim6.cfg', 12000, 7, 40000), ('Dictable_sim10.cfg', 6000, 11, 20000)]):
        sims = ctx.generate('Dictable', cfg, simulate=num, depth=depth, seed=ctx.seed + 1, workers=1)
        sims = sims[:cap]
        for s in sims:
            check(ctx, s, cfg)
        ctx.sample({'history': sims[-1]['hist'], 'expected_out': sims[-1]['out']})
    ctx.exhaustive = False
    ctx.assumptions += ['column order is not part of the model (columns compared as sets)',
                        'd + None and dictable.concat(d) return their operand (named deviations AddNone / ConcatOne: aliases, not copies)',
                        'rename onto an existing column, masks of the wrong length and cell mutation through returned lists are outside the domain']
