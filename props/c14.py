"""C14 - eq is a NaN-aware, type-strict equivalence on values, containers and pandas."""
import warnings
import numpy as np
from harness.core import Machinery
from harness.x_eqval import Ids, realise, project, coarse, fine, is_leaf, items, klass, features

D1, D2, D3, D4 = [737425, 0, 0], [737426, 3600, 0], [737427, 0, 0], [737428, 43200, 0]
RI2 = [["i", 0], ["i", 1]]


# ---------------------------------------------------------------------------------------------
# calling the real code
# ---------------------------------------------------------------------------------------------
def outcome(f, *args):
    """the encoded outcome of a public call: "T" / "F" for a boolean (bool or numpy bool),
    "other:<type>" for anything else, "exc:<class>" when it raised"""
    try:
        with warnings.catch_warnings():
            warnings.simplefilter('ignore')
            r = f(*args)
    except Exception as e:
        return 'exc:' + type(e).__name__
    if isinstance(r, (bool, np.bool_)):
        return 'T' if r else 'F'
    return 'other:' + type(r).__name__


def short(v, n=160):
    try:
        with warnings.catch_warnings():
            warnings.simplefilter('ignore')
            r = repr(v)
    except Exception as e:
        r = '<repr failed: %s>' % type(e).__name__
    r = ' '.join(r.split())
    return r if len(r) <= n else r[:n - 3] + '...'


def case_of(clause, descs, reprs, names=('x', 'y', 'z'), at=None):
    """the `case` of a violation.  Stable keys of the defect PATTERN first - the operation, the clause,
    the class of each value in the direction of the call (cx, cy[, cz]: scalar npscalar list tuple dict
    dictsub array0d array Series DataFrame), and three ingredient flags (an np.float32 NaN, a 0-d array,
    an empty array / pandas object anywhere inside) - then the sorts of the concrete values (kx, fx ...)
    and their reprs.  `at` (decided by TLC, Eq!At) names the classes of the two sub-values at which x and y
    first differ ("-" when the specification calls them equal): the place of the defect for nested values."""
    c = {'op': 'in_' if clause.startswith('in_') else 'eq', 'clause': clause}
    for nm, d in zip(names, descs):
        c['c' + nm] = klass(d)
    f = features(descs)
    c.update(f)
    if at is not None:
        c['at'] = at
    c['pattern'] = '%s:%s%s%s' % (clause, '/'.join(klass(d) for d in descs), ''.join('+' + k for k in sorted(f) if f[k]),
                                  '@' + at if at not in (None, '-') and at != '/'.join(klass(d) for d in descs[:2]) else '')
    for nm, d in zip(names, descs):
        c['k' + nm] = coarse(d)
        c['f' + nm] = fine(d)
    for nm, r in zip(names, reprs):
        c[nm] = r
    return c


class Findings(object):
    """violations grouped by defect pattern (clause + sorts of the values): one ctx.violation per
    pattern, carrying the number of failing pairs / triples and the smallest concrete examples"""
    def __init__(self, ctx, source):
        self.ctx, self.source, self.by = ctx, source, {}

    def add(self, clause, descs, reprs, extra=None, at=None):
        c = case_of(clause, descs, reprs, at=at)
        e = self.by.setdefault(c['pattern'], {'case': c, 'count': 0, 'examples': []})
        e['count'] += 1
        ex = {k: c[k] for k in ('x', 'y', 'z', 'fx', 'fy', 'fz', 'kx', 'ky', 'kz') if k in c}
        ex['desc'] = descs
        if extra:
            ex.update(extra)
        e['examples'].append(ex)

    def flush(self):
        for pat in sorted(self.by):
            e = self.by[pat]
            exs = sorted(e['examples'], key=lambda ex: sum(len(ex.get(k, '')) for k in 'xyz'))[:4]
            case = dict(e['case'])
            best = exs[0]
            for k in ('x', 'y', 'z', 'fx', 'fy', 'fz', 'kx', 'ky', 'kz'):
                if k in best:
                    case[k] = best[k]
            case['source'] = self.source
            self.ctx.violation(case['clause'], case, {'failing': e['count'], 'examples': exs})
        n = {p: e['count'] for p, e in self.by.items()}
        self.ctx.extra.setdefault('c14_failing_by_pattern', {})[self.source] = n


# ---------------------------------------------------------------------------------------------
# S2C: the pairs TLC enumerated, with what the statement pins
# ---------------------------------------------------------------------------------------------
def s2c(ctx, cases, tag):
    from pyg_base import eq
    fnd = Findings(ctx, 's2c-' + tag)
    kinds = {}
    for c in cases:
        key = c['ifT'] or c['ifF'] or 'free'
        kinds[key] = kinds.get(key, 0) + 1
    missing = {'equal_despite_type', 'equal_despite_shape', 'equal_despite_cell', 'copy_unequal', 'plain_equal_values_unequal', 'free'} - set(kinds)
    if missing:
        raise Machinery('vacuous: the generated pairs never pin / free %s' % sorted(missing))
    ctx.extra.setdefault('c14_s2c_pairs_by_pinned_answer', {})[tag] = kinds
    for k, c in enumerate(cases):
        ids = Ids()
        x, y = realise(c['x'], ids), realise(c['y'], ids)
        if project(x, ids) != c['x'] or project(y, ids) != c['y']:
            raise Machinery('descriptor does not survive realise/project: %r' % (c,))
        got = outcome(eq, x, y)
        ctx.evals += 1
        clause = c['ifT'] if got == 'T' else c['ifF'] if got == 'F' else 'not_boolean'
        if clause != '':
            fnd.add(clause, [c['x'], c['y']], [short(x), short(y)], {'observed': got}, at=c['at'])
        if c['x'] == c['y']:
            same = outcome(eq, x, x)          # the very same object
            ctx.evals += 1
            if same != 'T':
                fnd.add('copy_unequal', [c['x'], c['x']], [short(x), short(x)], {'observed': same, 'same_object': True})
        if project(x, ids) != c['x'] or project(y, ids) != c['y']:
            fnd.add('operand_changed', [c['x'], c['y']], [short(x), short(y)])
        if c['ifF'] != '' and c['x'] != c['y']:
            ctx.note(('s2c', repr((c['x'], c['y']))))
        if k % 1999 == 7:
            ctx.sample({'s2c_case': c, 'observed': got})
        ctx.traces += 1
    fnd.flush()
    return sorted({repr(c['x']): c['x'] for c in cases}.values(), key=repr)


def s2c_in(ctx, cases):
    from pyg_base import in_
    fnd = Findings(ctx, 's2c-in')
    for k, c in enumerate(cases):
        ids = Ids()
        x = realise(c['x'], ids)
        seq = [realise(d, Ids()) for d in c['seq']]
        got = outcome(in_, x, seq)
        ctx.evals += 1
        ctx.traces += 1
        if got not in c['want']:
            clause = 'in_not_boolean' if got not in ('T', 'F') else 'in_not_spec_membership'
            fnd.add(clause, [c['x'], ['l', c['seq']]], [short(x), short(seq)], {'observed': got, 'expected_one_of': c['want']})
        if c['want'] == ['T']:
            ctx.note(('s2c-in', repr((c['x'], c['seq']))))
    fnd.flush()


# ---------------------------------------------------------------------------------------------
# C2S: a universe of concrete values and their copies, the full matrix, validated by Trace_Eq
# ---------------------------------------------------------------------------------------------
def L(*xs): return ["l", list(xs)]
def T(*xs): return ["t", list(xs)]
def M(**kw): return ["m", [[k, kw[k]] for k in sorted(kw)]]
def Sub(cls, **kw): return ["M", [cls, [[k, kw[k]] for k in sorted(kw)]]]
def I(k): return ["i", k]
def Fl(p, q=1): return ["f", [p, q]]
def NaN(k): return ["nan", k]
def A(dt, shape, *cells): return ["a", [dt, list(shape), list(cells)]]
def S(dt, index, *cells): return ["S", [dt, list(index), list(cells)]]
def F(dt, index, cols, *cells): return ["F", [dt, list(index), list(cols), list(cells)]]
def Np(dt, leaf): return ["np", [dt, leaf]]
def Str(s): return ["s", s]
NONE = ["n", 0]


def strange():
    """hand-picked values: the corners the statement names and the places where numpy broadcasting,
    len(), np.array(..., dtype=object) and isinstance(x, float) could bite"""
    z22 = A("float64", (2, 2), *[Fl(0)] * 4)
    return [
        Np("float64", Fl(1)), L(Fl(1)), L(Fl(1), Fl(1)), T(Fl(1)), I(1), A("int64", (2,), I(1), I(1)), A("int64", (1,), I(1)),
        z22, A("float64", (2, 3), *[Fl(0)] * 6), A("float64", (4,), *[Fl(0)] * 4), A("float64", (1, 2), Fl(0), Fl(0)),
        A("float64", (2,), Fl(0), Fl(0)), A("float64", (2, 2, 1), *[Fl(0)] * 4),
        A("int64", (), I(1)), A("float64", (), NaN(0)), A("object", (), NONE), A("float64", (), Fl(1)),
        M(a=L(I(1), I(2)), b=L(I(3), I(4))), M(a=T(I(1), I(2)), b=T(I(3), I(4))),
        M(a=A("int64", (2,), I(1), I(2)), b=A("int64", (2,), I(3), I(4))),
        M(a=L(I(1), I(2)), b=L(I(3))), M(a=L(I(1), I(2)), b=I(3)), M(a=L(I(1)), b=L(I(3))), M(a=I(1), b=I(3)), M(a=L(), b=L()),
        M(a=T(), b=T()), M(a=L(I(1), I(2))), M(a=T(I(1), I(2))), M(a=Str("xy")), M(a=L(Str("x"), Str("y"))),
        A("int64", (2,), I(1), I(2)), A("float64", (2,), Fl(1), Fl(2)), A("object", (2,), I(1), I(2)), A("bool", (2,), ["b", 1], ["b", 1]),
        Np("float32", NaN(1)), Np("float64", NaN(2)), NaN(3), L(Np("float32", NaN(4))), L(NaN(5)), T(Np("float64", NaN(6))),
        M(a=Np("float32", NaN(7))), A("object", (1,), Np("float32", NaN(8))), A("float32", (1,), NaN(0)), A("float64", (1,), NaN(0)),
        NONE, A("object", (1,), NONE), A("object", (2,), NONE, NONE), L(NONE), S("object", [I(0)], NONE),
        Str("a"), A("str", (1,), Str("a")), A("str", (2,), Str("a"), Str("a")), A("object", (1,), Str("a")), L(Str("a")), Np("str_", Str("a")),
        ["b", 1], Np("bool_", ["b", 1]), A("bool", (1,), ["b", 1]), A("bool", (), ["b", 1]), ["b", 0], I(0), L(), T(), M(), Sub("Dict"), Sub("dictattr"),
        A("float64", (0,)), A("float64", (2, 0)), A("float64", (0, 2)), A("float64", (2, 5), *[Fl(0)] * 10), A("float64", (1, 0)), A("int64", (0,)), A("object", (0,)),
        S("float64", []), S("object", []), F("object", [], []), F("object", [], [Str("a")]), F("object", [], [Str("b")]), F("object", RI2, []),
        F("object", [I(1), I(2)], []),
        S("int64", RI2, I(1), I(1)), S("int64", RI2, I(1), I(2)), S("float64", RI2, Fl(1), Fl(2)), S("float64", RI2, Fl(1), NaN(0)),
        S("int64", [I(1), I(2)], I(1), I(2)), S("int64", [Fl(0), Fl(1)], I(1), I(2)), S("int64", [Str("a"), Str("b")], I(1), I(2)),
        S("int64", [["ts", D1], ["ts", D2]], I(1), I(2)), S("int64", [["ts", D1], ["ts", D4]], I(1), I(2)), S("int64", [I(0)], I(1)),
        S("object", RI2, L(I(1), I(2)), NaN(9)), S("object", RI2, T(I(1), I(2)), NaN(10)), S("datetime64[ns]", [I(0)], ["d64", D3]),
        F("int64", RI2, [Str("a")], I(1), I(2)), F("int64", RI2, [Str("b")], I(1), I(2)), F("int64", RI2, [I(0)], I(1), I(2)),
        F("float64", RI2, [Str("a")], Fl(1), NaN(0)), F("float64", RI2, [Str("a")], Fl(1), Fl(2)), F("int64", RI2, [Str("a")], I(1), I(1)),
        F("int64", RI2, [Str("a"), Str("b")], I(1), I(3), I(2), I(4)), F("int64", RI2, [Str("b"), Str("a")], I(3), I(1), I(4), I(2)),
        F("int64", [I(0)], [Str("a"), Str("b")], I(1), I(2)), F("int64", [["ts", D1], ["ts", D2]], [Str("a")], I(1), I(2)),
        F("object", RI2, [Str("a")], L(I(1)), NONE), F("int64", [I(0)], [Str("a")], I(1)),
        ["d", D1], ["ts", D1], ["d", D2], ["ts", D2], ["d64", D3], ["d64", D4], ["date", D1[0]], ["date", D3[0]], L(["d", D1]), L(["ts", D1]),
        A("datetime64[ns]", (1,), ["d64", D3]), A("object", (1,), ["ts", D1]), A("object", (1,), ["d", D1]),
        ["inf", 1], ["inf", -1], Np("float64", ["inf", 1]), Fl(1), Fl(5, 2), Np("float32", Fl(5, 2)), Np("int32", I(1)), Np("int64", I(2)), I(2),
        A("object", (2,), A("int64", (2,), I(1), I(2)), I(2)), A("object", (2,), L(I(1), I(2)), I(2)), A("object", (2,), T(I(1), I(2)), I(2)),
        A("object", (2,), A("float64", (2,), Fl(1), NaN(0)), NaN(11)), L(A("int64", (2,), I(1), I(2)), I(2)),
        A("object", (1, 2), I(1), Str("a")), A("object", (2, 1), I(1), Str("a")), A("object", (2,), I(1), Str("a")),
        L(I(1), L(I(2), L(NaN(12), T(NaN(13))))), T(I(1), M(a=L(NaN(14)))), Sub("Dict", a=I(1)), Sub("dictattr", a=I(1)), M(a=I(1)), M(a=Fl(1)),
        Sub("Dict", a=NaN(15), b=L(I(1))), M(a=NaN(16), b=L(I(1))), M(a=M(a=M(a=NaN(17)))), M(a=M(a=M(a=NaN(18))), b=I(1)),
    ]


LAYOUT = ('short_log', 'misplaced_value', 'misplaced_cell', 'unknown_op')
LEAFPOOL = [NONE, ["b", 1], I(0), I(1), I(2), Fl(1), Fl(2), Fl(5, 2), ["inf", 1], Str("a"), Str("b"), Str(""), ["d", D1], ["ts", D1], ["ts", D2],
            ["d64", D3], Np("int64", I(1)), Np("float64", Fl(2)), Np("float32", Fl(5, 2)), Np("bool_", ["b", 1]), Np("str_", Str("b"))]


class Gen(object):
    """seeded random descriptors (nestings to depth 4) and near variants of them"""
    def __init__(self, rng):
        self.rng, self.nan = rng, 100

    def nanid(self):
        self.nan += 1
        return self.nan

    def leaf(self):
        r = self.rng.random()
        if r < 0.15:
            return NaN(self.nanid())
        if r < 0.2:
            return Np(self.rng.choice(["float64", "float32"]), NaN(self.nanid()))
        return self.rng.choice(LEAFPOOL)

    def num(self, dt):
        if dt == 'int64':
            return I(self.rng.choice([0, 1, 2, 3]))
        if dt == 'bool':
            return ["b", self.rng.choice([0, 1])]
        return self.rng.choice([Fl(0), Fl(1), Fl(2), Fl(5, 2), NaN(0), NaN(0), ["inf", 1]])

    def shape(self):
        return self.rng.choice([(), (1,), (2,), (3,), (1, 2), (2, 1), (2, 2), (2, 3), (0,), (2, 0), (1, 1, 2)])

    def index(self, n):
        k = self.rng.choice(['range', 'range', 'int', 'str', 'ts', 'float'])
        if k == 'range': return [I(i) for i in range(n)]
        if k == 'int': return [I(i + 1) for i in range(n)]
        if k == 'float': return [Fl(i) for i in range(n)]
        if k == 'str': return [Str("abcd"[i]) for i in range(n)]
        return [["ts", [D1[0] + i, 0, 0]] for i in range(n)]

    def value(self, depth):
        r = self.rng.random()
        if depth <= 0 or r < 0.25:
            return self.leaf()
        n = self.rng.choice([0, 1, 2, 2, 3])
        if r < 0.40: return L(*[self.value(depth - 1) for _ in range(n)])
        if r < 0.50: return T(*[self.value(depth - 1) for _ in range(n)])
        if r < 0.62: return M(**{k: self.value(depth - 1) for k in self.rng.sample(["a", "b", "c", "d"], n)})
        if r < 0.67: return Sub(self.rng.choice(["Dict", "dictattr"]), **{k: self.value(depth - 1) for k in self.rng.sample(["a", "b", "c"], n)})
        if r < 0.80:
            dt = self.rng.choice(["int64", "float64", "float64", "bool"])
            sh = self.shape()
            return A(dt, sh, *[self.num(dt) for _ in range(int(np.prod(sh)))])
        if r < 0.86:
            sh = self.rng.choice([(), (1,), (2,), (1, 2), (2, 1)])
            return A("object", sh, *[self.value(depth - 1) for _ in range(int(np.prod(sh)))])
        if r < 0.94:
            dt = self.rng.choice(["int64", "float64", "object"])
            n = self.rng.choice([0, 1, 2, 3])
            cells = [self.value(depth - 1) if dt == 'object' else self.num(dt) for _ in range(n)]
            return S(dt, self.index(n), *cells)
        dt = self.rng.choice(["int64", "float64", "object"])
        n, m = self.rng.choice([0, 1, 2]), self.rng.choice([0, 1, 2])
        cells = [self.leaf() if dt == 'object' else self.num(dt) for _ in range(n * m)]
        cols = [Str("abc"[j]) for j in range(m)] if self.rng.random() < 0.8 else [I(j) for j in range(m)]
        return F('object' if n * m == 0 else dt, self.index(n), cols, *cells)

    def variants(self, d):
        """values that are close to d: another container type, another shape / dtype / index, one
        cell replaced by an equal or by a different value"""
        out = []
        k, p = d[0], d[1]
        if k in ('l', 't'):
            out.append([{'l': 't', 't': 'l'}[k], p])
            out.append(A("object", (len(p),), *p))
            if p:
                out.append([k, p[:-1]])
        if k == 'm':
            out.append(["M", ["Dict", p]])
            if p:
                out.append(["m", p[:-1]])
        if k == 'M':
            out.append(["m", p[1]])
        if k == 'a':
            dt, sh, cells = p
            n = len(cells)
            if dt == 'int64':
                out.append(A("float64", sh, *[Fl(c[1]) for c in cells]))
            if dt in ('int64', 'float64', 'bool'):
                out.append(A("object", sh, *[c if c[0] != 'nan' else NaN(self.nanid()) for c in cells]))
            if len(sh) == 1:
                out.append(L(*[c if c[0] != 'nan' else NaN(self.nanid()) for c in cells]))
                out.append(A(dt, (1, n), *cells))
                out.append(A(dt, (n, 1), *cells))
                if dt != 'object':
                    out.append(S(dt, [I(i) for i in range(n)], *cells))
            if len(sh) == 2:
                out.append(A(dt, (sh[1], sh[0]), *cells))
                out.append(A(dt, (n,), *cells))
                if n and dt != 'object':
                    out.append(F(dt, [I(i) for i in range(sh[0])], [I(j) for j in range(sh[1])], *cells))
            if len(sh) == 0:
                out.append(cells[0])
                out.append(A(dt, (1,), *cells))
        if k == 'S':
            dt, ix, cells = p
            out.append(S(dt, [I(i + 5) for i in range(len(ix))], *cells))
            if dt != 'object':
                out.append(A(dt, (len(cells),), *cells))
            if cells and dt != 'object':
                out.append(F(dt, ix, [I(0)], *cells))
        if k == 'F':
            dt, ix, cols, cells = p
            out.append(F(dt, ix, [Str("xyz"[j]) for j in range(len(cols))], *cells))
        its = items(d)
        if its and k != 'F' and not (k in ('a', 'S') and p[0] != 'object'):
            j = self.rng.randrange(len(its))
            for new in (self.twin(its[j]), self.other(its[j])):
                if new is not None:
                    out.append(self.replace(d, j, new))
        return out

    def twin(self, c):
        """an equal but differently typed value"""
        if c[0] == 'i': return Fl(c[1])
        if c[0] == 'f' and c[1][1] == 1: return I(c[1][0])
        if c[0] == 'nan': return Np("float64", NaN(self.nanid()))
        if c[0] == 'd': return ["ts", c[1]]
        if c[0] == 'ts': return ["d", c[1]]
        if c[0] == 's': return Np("str_", c)
        if c[0] == 'np': return c[1][1] if c[1][1][0] != 'nan' else NaN(self.nanid())
        return None

    def other(self, c):
        if c[0] == 'l': return ["t", c[1]]
        if c[0] == 't': return ["l", c[1]]
        if c[0] == 'i': return I(c[1] + 1)
        if c[0] == 'nan': return Fl(1)
        return I(7)

    def replace(self, d, j, new):
        k, p = d[0], d[1]
        if k in ('l', 't'):
            return [k, p[:j] + [new] + p[j + 1:]]
        if k == 'm':
            return [k, p[:j] + [[p[j][0], new]] + p[j + 1:]]
        if k == 'M':
            return [k, [p[0], p[1][:j] + [[p[1][j][0], new]] + p[1][j + 1:]]]
        if k in ('a', 'S'):
            return [k, [p[0], p[1], p[2][:j] + [new] + p[2][j + 1:]]]
        return d


def nontrivial(d):
    return not is_leaf(d) and len(items(d)) > 0


def universe(ctx, base, nrandom):
    """descriptors of the universe: TLC's abstract universe, the hand-picked corners, seeded random
    nestings and variants of them; without duplicates (copies are added by the caller)"""
    g = Gen(ctx.rng)
    ds = list(base) + strange()
    rnd = []
    while len(rnd) < nrandom:
        d = g.value(ctx.rng.choice([1, 2, 2, 3, 4]))
        rnd.append(d)
        vs = g.variants(d)
        ctx.rng.shuffle(vs)
        rnd.extend(vs[:3])
    ds += rnd[:nrandom]
    seen, out = set(), []
    for d in ds:
        if repr(d) not in seen:
            seen.add(repr(d))
            out.append(d)
    return out


def build(descs):
    """every descriptor realised twice: the value and a structural copy (fresh NaN objects, fresh
    containers); the logged descriptor is the projection of the real object"""
    vals, logged = [], []
    keep = []
    for d in descs:
        for _ in (0, 1):
            ids = Ids()
            v = realise(d, ids)
            pd_ = project(v, ids)
            if pd_ != d:
                raise Machinery('descriptor does not survive realise/project: %r -> %r' % (d, pd_))
            keep.append(ids)
            vals.append(v)
    # NaN identities must differ between objects: renumber per value
    for k, (v, ids) in enumerate(zip(vals, keep)):
        logged.append(renumber(project(v, ids), 10000 * (k + 1)))
    return vals, logged, keep


def renumber(d, base):
    k, p = d[0], d[1]
    if k == 'nan':
        return [k, p + base if p else 0]
    if k == 'np':
        return [k, [p[0], renumber(p[1], base)]]
    if k in ('t', 'l'):
        return [k, [renumber(x, base) for x in p]]
    if k == 'm':
        return [k, [[kk, renumber(x, base)] for kk, x in p]]
    if k == 'M':
        return [k, [p[0], [[kk, renumber(x, base)] for kk, x in p[1]]]]
    if k in ('a', 'S'):
        return [k, [p[0], p[1], [renumber(x, base) for x in p[2]]]]
    if k == 'F':
        return [k, [p[0], p[1], p[2], [renumber(x, base) for x in p[3]]]]
    return d


def c2s(ctx, base, nrandom, nin, descs=None):
    from pyg_base import eq, in_
    descs = descs if descs is not None else universe(ctx, base, nrandom)
    vals, logged, keep = build(descs)
    n = len(vals)
    obs = [{'op': 'hdr', 'n': n}]
    obs += [{'op': 'val', 'id': i + 1, 'desc': logged[i]} for i in range(n)]
    for i in range(n):
        for j in range(n):
            obs.append({'op': 'eq', 'i': i + 1, 'j': j + 1, 'out': outcome(eq, vals[i], vals[j])})
    ctx.evals += n * n
    ins = []
    for _ in range(nin):
        i = ctx.rng.randrange(n)
        seq = [ctx.rng.randrange(n) for _ in range(ctx.rng.choice([0, 1, 2, 3, 5, 8]))]
        if seq and ctx.rng.random() < 0.5:
            seq[ctx.rng.randrange(len(seq))] = ctx.rng.choice([i, i ^ 1])    # the value itself or its copy
        ins.append({'op': 'in', 'i': i + 1, 'seq': [j + 1 for j in seq], 'out': outcome(in_, vals[i], [vals[j] for j in seq])})
    obs += ins
    ctx.evals += len(ins)
    # operands afterwards: eq / in_ must not have modified anything
    for k, (v, ids) in enumerate(zip(vals, keep)):
        if renumber(project(v, ids), 10000 * (k + 1)) != logged[k]:
            ctx.violation('operand_changed', case_of('operand_changed', [logged[k]], [short(v)], names=('x',)), {'after': project(v, ids)})
    bad = ctx.validate('Trace_Eq', obs, whole=True)
    fnd = Findings(ctx, 'c2s')
    for line, verdict in bad:
        o = obs[line - 1]
        verdict, _, at = verdict.partition('@')
        at = at or None
        for clause in [c for c in verdict.split('+') if c]:
            if clause in LAYOUT:
                raise Machinery('trace specification rejected the layout of the log: line %d %s' % (line, verdict))
            if o['op'] == 'eq':
                i, j = o['i'] - 1, o['j'] - 1
                if clause.startswith('intransitive:'):
                    k = int(clause.split(':')[1]) - 1
                    fnd.add('intransitive', [logged[i], logged[j], logged[k]], [short(vals[i]), short(vals[j]), short(vals[k])],
                            {'eq(x,y)': o['out'], 'eq(y,z)': 'T', 'eq(x,z)': 'F', 'i,j,k': [i + 1, j + 1, k + 1]}, at=at)
                else:
                    fnd.add(clause, [logged[i], logged[j]], [short(vals[i]), short(vals[j])],
                            {'eq(x,y)': o['out'], 'eq(y,x)': obs[1 + n + j * n + i]['out'], 'i,j': [i + 1, j + 1]}, at=at)
            elif o['op'] == 'in':
                i = o['i'] - 1
                seq = [j - 1 for j in o['seq']]
                fnd.add(clause, [logged[i], ['l', [logged[j] for j in seq]]], [short(vals[i]), short([vals[j] for j in seq])],
                        {'in_(x,y)': o['out'], 'eq(x,y[k])': [obs[1 + n + i * n + j]['out'] for j in seq]})
            else:
                raise Machinery('trace specification rejected the layout of the log: line %d %s' % (line, verdict))
    fnd.flush()
    # distinct non-trivial cases: pairs of different objects that eq calls equal, per pair of descriptors
    for i in range(n):
        for j in range(n):
            if i != j and obs[1 + n + i * n + j]['out'] == 'T' and nontrivial(logged[i]):
                ctx.note(('c2s', i, j))
    ctx.sample({'c2s_cell': {'x': short(vals[0]), 'desc_x': logged[0], 'y': short(vals[1]), 'desc_y': logged[1], 'out': obs[1 + n + 1]['out']}})
    ctx.sample({'c2s_in': ins[0]} if ins else {})
    outs = {}
    for o in obs[1 + n:]:
        key = o['op'] + ':' + o['out'].split(':')[0]
        outs[key] = outs.get(key, 0) + 1
    ctx.extra['c14_universe'] = {'values_with_copies': n, 'cells': n * n, 'in_calls': len(ins), 'outcomes': outs}
    return n


def run(ctx):
    ctx.rule = ('MC: EqSpec is an equivalence on the abstract universe (every pair a state, third value quantified). '
                'S2C: every TLC-enumerated pair of descriptors realised as Python values, eq compared with what the statement pins; '
                'in_ on TLC-enumerated (value, sequence). C2S: full matrix eq(x, y) over TLC\'s universe + hand-picked corners + seeded random '
                'nestings, each with a structural copy, validated cell by cell (boolean, reflexive on copies, symmetric, transitive over '
                'every third value, pinned answers) by Trace_Eq. Non-trivial = a pair of different non-scalar objects that are equal '
                '(C2S) or a pair of different descriptors whose answer is pinned (S2C).')
    ctx.mc('MC_Eq', 'MC_Eq_quick.cfg' if ctx.quick else 'MC_Eq_thorough.cfg')
    ctx.mc('MC_Eq', 'MC_Eq_in.cfg')
    # mechanism models against the law level, inside TLC only: today's recursion is expected to break
    # the statement on the model already; the recursion with the proposed repairs must satisfy it
    ctx.mc('MC_EqMech', 'MC_EqMech_today.cfg')
    for inv in (('TodayTotal', 'TodaySymmetric') if ctx.quick else ('TodayTotal', 'TodaySymmetric', 'TodayPinned', 'TodayCopies')):
        ctx.mc('MC_EqMech', 'MC_EqMech_today_%s.cfg' % inv, must_fail=inv)
    ctx.mc('MC_EqMech', 'MC_EqMech_fixed_quick.cfg' if ctx.quick else 'MC_EqMech_fixed_thorough.cfg')
    base = s2c(ctx, ctx.generate('MC_Eq', 'MC_Eq_gen1.cfg' if ctx.quick else 'MC_Eq_gen3.cfg'), 'eq')
    s2c_in(ctx, ctx.generate('MC_Eq', 'MC_Eq_genin.cfg'))
    c2s(ctx, base, 60 if ctx.quick else 250, 300 if ctx.quick else 3000)
    ctx.exhaustive = False
    ctx.assumptions += [
        'numpy booleans count as booleans (eq returns np.bool_ from np.all)',
        'np.datetime64 instants are kept distinct from the datetime / Timestamp instants of the universe: numpy/pandas == between '
        'np.datetime64, pd.Timestamp and datetime of ONE instant (datetime != datetime64 == Timestamp == datetime) is not eq\'s doing; '
        'where a pair differs only by that reading nothing is pinned (named deviation Datetime64Triangle in spec/Eq.tla)',
        'dict keys are strings; pandas extension arrays are outside the universe: string cells / labels are held with dtype object; '
        'Series have no name, indexes no names',
        'arrays / pandas objects of equal shape, index, columns and cells that are not structural copies of each other (int64 vs float64 '
        'cells ...) are bound by the equivalence axioms only (named deviation SameCellsOtherCarrier): the statement says "only if"',
        'small scope: MC / S2C on the fixed abstract universe of spec/MC_Eq.tla; C2S on the values actually built (seeded)',
    ]


def replay(ctx, body):
    """./check C14 --replay <file>: the values of the recorded example (and a copy of each) as a tiny
    universe - full matrix and in_ calls validated by Trace_Eq again"""
    ex = body['detail']['examples'][0]
    descs = []
    for d in ex['desc']:
        descs += d[1] if (body['case'].get('op') == 'in_' and d is ex['desc'][-1]) else [d]
    seen, uniq = set(), []
    for d in descs:
        d = renumber_back(d)
        if repr(d) not in seen:
            seen.add(repr(d))
            uniq.append(d)
    c2s(ctx, [], 0, 200, descs=uniq)
    for v in ctx.violations:
        print('  clause=%s pattern=%s x=%s y=%s%s' % (v['clause'], v['case']['pattern'], v['case'].get('x'), v['case'].get('y'),
                                                     ' z=%s' % v['case']['z'] if 'z' in v['case'] else ''))
    print('C14 replay: %d pattern(s) still violated' % len(ctx.violations))
    import shutil
    shutil.rmtree(ctx.tmp, ignore_errors=True)
    return 1 if ctx.violations else 0


def renumber_back(d):
    """descriptors in replay files carry the NaN identities of the logged universe; bring them back
    under TLC's integer range for a new universe"""
    k, p = d[0], d[1]
    if k == 'nan':
        return [k, p % 10000 if p else 0]
    if k == 'np':
        return [k, [p[0], renumber_back(p[1])]]
    if k in ('t', 'l'):
        return [k, [renumber_back(x) for x in p]]
    if k == 'm':
        return [k, [[kk, renumber_back(x)] for kk, x in p]]
    if k == 'M':
        return [k, [p[0], [[kk, renumber_back(x)] for kk, x in p[1]]]]
    if k in ('a', 'S'):
        return [k, [p[0], p[1], [renumber_back(x) for x in p[2]]]]
    if k == 'F':
        return [k, [p[0], p[1], p[2], [renumber_back(x) for x in p[3]]]]
    return d
