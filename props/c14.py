"""C14 - eq is a NaN-aware, type-strict equivalence on values, containers and pandas."""
import warnings
import numpy as np
import pandas as pd
from harness.core import Machinery
from harness.x_eqval import Ids, Heap, realise, project, coarse, fine, is_leaf, items, klass, features, dmap, has_tag, walk, _index, _index_leaves

D1, D2, D3, D4 = [737425, 0, 0], [737426, 3600, 0], [737427, 0, 0], [737428, 43200, 0]
RI2 = [["i", 0], ["i", 1]]


# ---------------------------------------------------------------------------------------------
# calling the real code
# ---------------------------------------------------------------------------------------------
def outcome(f, *args):
    """the encoded outcome of a public call: "T" / "F" for a boolean (bool or numpy bool),
    "other:<type>" for anything else, "exc:<class>" when it raised"""
    try:
        with warnings.catch_warnings():
            warnings.simplefilter('ignore')
            r = f(*args)
    except Exception as e:
        return 'exc:' + type(e).__name__
    if isinstance(r, (bool, np.bool_)):
        return 'T' if r else 'F'
    return 'other:' + type(r).__name__


def short(v, n=160):
    try:
        with warnings.catch_warnings():
            warnings.simplefilter('ignore')
            r = repr(v)
    except Exception as e:
        r = '<repr failed: %s>' % type(e).__name__
    r = ' '.join(r.split())
    return r if len(r) <= n else r[:n - 3] + '...'


def case_of(clause, descs, reprs, names=('x', 'y', 'z'), at=None):
    """the `case` of a violation.  Stable keys of the defect PATTERN first - the operation, the clause,
    the class of each value in the direction of the call (cx, cy[, cz]: scalar npscalar list tuple dict
    dictsub array0d array Series DataFrame), and ingredient flags (an np.float32 NaN, a 0-d array, an empty
    array / pandas object, a dict inserted in another order than its key order, a view into a shared buffer,
    pd.NaT anywhere inside) - then the sorts of the concrete values (kx, fx ...)
    and their reprs.  `at` (decided by TLC, Eq!At) names the classes of the two sub-values at which x and y
    first differ ("-" when the specification calls them equal): the place of the defect for nested values."""
    c = {'op': 'in_' if clause.startswith('in_') else 'eq', 'clause': clause}
    for nm, d in zip(names, descs):
        c['c' + nm] = klass(d)
    f = features(descs)
    c.update(f)
    if at is not None:
        c['at'] = at
    c['pattern'] = '%s:%s%s%s' % (clause, '/'.join(klass(d) for d in descs), ''.join('+' + k for k in sorted(f) if f[k]),
                                  '@' + at if at not in (None, '-') and at != '/'.join(klass(d) for d in descs[:2]) else '')
    for nm, d in zip(names, descs):
        c['k' + nm] = coarse(d)
        c['f' + nm] = fine(d)
    for nm, r in zip(names, reprs):
        c[nm] = r
    return c


class Findings(object):
    """violations grouped by defect pattern (clause + sorts of the values): one ctx.violation per
    pattern, carrying the number of failing pairs / triples and the smallest concrete examples"""
    def __init__(self, ctx, source):
        self.ctx, self.source, self.by = ctx, source, {}

    def add(self, clause, descs, reprs, extra=None, at=None):
        c = case_of(clause, descs, reprs, at=at)
        e = self.by.setdefault(c['pattern'], {'case': c, 'count': 0, 'examples': []})
        e['count'] += 1
        ex = {k: c[k] for k in ('x', 'y', 'z', 'fx', 'fy', 'fz', 'kx', 'ky', 'kz') if k in c}
        ex['desc'] = descs
        if extra:
            ex.update(extra)
        e['examples'].append(ex)

    def flush(self):
        for pat in sorted(self.by):
            e = self.by[pat]
            exs = sorted(e['examples'], key=lambda ex: sum(len(ex.get(k, '')) for k in 'xyz'))[:4]
            case = dict(e['case'])
            best = exs[0]
            for k in ('x', 'y', 'z', 'fx', 'fy', 'fz', 'kx', 'ky', 'kz'):
                if k in best:
                    case[k] = best[k]
            case['source'] = self.source
            self.ctx.violation(case['clause'], case, {'failing': e['count'], 'examples': exs})
        n = {p: e['count'] for p, e in self.by.items()}
        self.ctx.extra.setdefault('c14_failing_by_pattern', {})[self.source] = n


# ---------------------------------------------------------------------------------------------
# S2C: the pairs TLC enumerated, with what the statement pins
# ---------------------------------------------------------------------------------------------
def s2c(ctx, cases, tag):
    from pyg_base import eq
    fnd = Findings(ctx, 's2c-' + tag)
    kinds = {}
    for c in cases:
        key = c['ifT'] or c['ifF'] or 'free'
        kinds[key] = kinds.get(key, 0) + 1
    missing = {'equal_despite_type', 'equal_despite_shape', 'equal_despite_cell', 'copy_unequal', 'other_realisation_unequal',
               'plain_equal_values_unequal', 'free'} - set(kinds)
    if missing:
        raise Machinery('vacuous: the generated pairs never pin / free %s' % sorted(missing))
    ctx.extra.setdefault('c14_s2c_pairs_by_pinned_answer', {})[tag] = kinds
    fam = {'reordered': 0, 'view': 0, 'nat': 0, 'views_sharing_a_buffer': 0}
    for k, c in enumerate(cases):
        ids = Ids()                     # one world for both operands: NaN objects and buffers are shared between x and y
        x, y = realise(c['x'], ids), realise(c['y'], ids)
        f = features([c['x'], c['y']])
        for nm in ('reordered', 'view', 'nat'):
            fam[nm] += f[nm]
        if c['x'][0] == 'v' and c['y'][0] == 'v' and c['x'] != c['y'] and np.shares_memory(x, y):
            fam['views_sharing_a_buffer'] += 1
        if project(x, ids) != c['x'] or project(y, ids) != c['y']:
            raise Machinery('descriptor does not survive realise/project: %r' % (c,))
        got = outcome(eq, x, y)
        ctx.evals += 1
        clause = c['ifT'] if got == 'T' else c['ifF'] if got == 'F' else 'not_boolean'
        if clause != '':
            fnd.add(clause, [c['x'], c['y']], [short(x), short(y)], {'observed': got}, at=c['at'])
        if c['x'] == c['y']:
            same = outcome(eq, x, x)          # the very same object
            ctx.evals += 1
            if same != 'T':
                fnd.add('copy_unequal', [c['x'], c['x']], [short(x), short(x)], {'observed': same, 'same_object': True})
        if project(x, ids) != c['x'] or project(y, ids) != c['y']:
            fnd.add('operand_changed', [c['x'], c['y']], [short(x), short(y)])
        if c['ifF'] != '' and c['x'] != c['y']:
            ctx.note(('s2c', repr((c['x'], c['y']))))
        if k % 1999 == 7:
            ctx.sample({'s2c_case': c, 'observed': got})
        ctx.traces += 1
    fnd.flush()
    if min(fam.values()) == 0:
        raise Machinery('vacuous: the generated pairs hold no realisation variants of some family: %r' % fam)
    ctx.extra.setdefault('c14_s2c_pairs_with_realisation_variants', {})[tag] = fam
    # the descriptors of TLC's universe; those that occur in the block of realisation variants only are marked
    plain = {repr(c['x']) for c in cases if not c['var']}
    return [(d, repr(d) not in plain) for d in sorted({repr(c['x']): c['x'] for c in cases}.values(), key=repr)]


def s2c_in(ctx, cases):
    from pyg_base import in_
    fnd = Findings(ctx, 's2c-in')
    for k, c in enumerate(cases):
        ids = Ids()
        x = realise(c['x'], ids)
        seq = [realise(d, Ids(ids.heap)) for d in c['seq']]     # fresh NaN objects, the same buffers: views alias x
        got = outcome(in_, x, seq)
        ctx.evals += 1
        ctx.traces += 1
        if got not in c['want']:
            clause = 'in_not_boolean' if got not in ('T', 'F') else 'in_not_spec_membership'
            fnd.add(clause, [c['x'], ['l', c['seq']]], [short(x), short(seq)], {'observed': got, 'expected_one_of': c['want']})
        if c['want'] == ['T']:
            ctx.note(('s2c-in', repr((c['x'], c['seq']))))
    fnd.flush()


# ---------------------------------------------------------------------------------------------
# objects that change in place: histories call - write - call ...
# ---------------------------------------------------------------------------------------------
def apply_write(obj, e, ids):
    """one in-place write on a real object, as named by the history entry e (MC_EqHist / the random histories)"""
    op = e['op']
    if op == 'set':
        k, v = e['k'] - 1, realise(e['v'], ids)
        if type(obj) is list:
            obj[k] = v
        elif isinstance(obj, dict):
            obj[sorted(dict.keys(obj))[k]] = v
        elif isinstance(obj, np.ndarray):
            obj[np.unravel_index(k, obj.shape)] = v
        elif isinstance(obj, pd.Series):
            obj.iloc[k] = v
        elif isinstance(obj, pd.DataFrame):
            obj.iloc[k // obj.shape[1], k % obj.shape[1]] = v
        else:
            raise Machinery('cannot write into %r' % type(obj))
    elif op == 'label':
        old = obj.index if e['axis'] == 0 else obj.columns
        leaves = _index_leaves(old, ids)
        leaves[e['k'] - 1] = e['v']
        if e['axis'] == 0:
            obj.index = _index(leaves, ids)
        else:
            obj.columns = _index(leaves, ids)
    elif op == 'reinsert':
        key = sorted(dict.keys(obj))[e['k'] - 1]
        obj[key] = obj.pop(key)
    elif op == 'append':
        obj.append(realise(e['v'], ids))
    elif op == 'pop':
        obj.pop()
    else:
        raise Machinery('unknown write %r' % (e,))


def s2c_hist(ctx, emitted, tag='hist'):
    """every history TLC enumerated (MC_EqHist): the objects are built once, every write is applied to the real object
    in place and read back (it must project to the descriptor TLC computed), every call is compared with what the
    statement pins for the descriptors the objects have at that moment.  SESSIONS (hist[0].sess): calls eq(obj_i, obj_j)
    for any i, j and in_(obj_i, [the others]) on a group of objects that collide on class / length / text; between two
    calls the caller may drop an object and build a new one in its place (rebuild)"""
    from pyg_base import eq, in_
    fnd, sfnd = Findings(ctx, 's2c-' + tag), Findings(ctx, 's2c-' + tag + '-session')
    stats = {'histories': 0, 'calls': 0, 'calls_after_a_write': 0, 'pinned_answer_changed_by_a_write': 0, 'writes': {}}
    sstats = {'sessions': 0, 'eq_calls': 0, 'in_calls': 0, 'rebuilds': 0, 'later_call_of_one_class_pair_pinned_the_other_way': 0,
              'same_call_again_after_a_rebuild_pinned_the_other_way': 0, 'calls_on_the_very_same_object': 0, 'longest': 0}
    seen = set()
    for h in emitted:
        hist = h['hist']
        key = repr(hist)
        if key in seen:                 # (a simulated behaviour may be printed more than once)
            continue
        seen.add(key)
        sess = bool(hist[0].get('sess'))
        ids = Ids()
        objs = [realise(d, ids) for d in hist[0]['init']]
        if sess:
            sstats['sessions'] += 1
            sstats['longest'] = max(sstats['longest'], len(hist) - 1)
        else:
            stats['histories'] += 1
        last, wrote, ops, byclass, rebuilt = {}, False, [], {}, False
        x = y = o = seq = None
        for e in hist[1:]:
            if e['op'] == 'eq':
                x, y = objs[e['i'] - 1], objs[e['j'] - 1]
                dx, dy = project(x, ids), project(y, ids)
                got = outcome(eq, x, y)
                ctx.evals += 1
                pinned = 'T' if e['ifF'] else 'F' if e['ifT'] else 'free'
                if sess:
                    sstats['eq_calls'] += 1
                    sstats['calls_on_the_very_same_object'] += e['i'] == e['j']
                    cp = (klass(dx), klass(dy))
                    if pinned != 'free' and byclass.get(cp, pinned) != pinned:
                        sstats['later_call_of_one_class_pair_pinned_the_other_way'] += 1
                        ctx.note(('s2c-session', repr(hist[:len(ops) + 2])))
                    if pinned != 'free':
                        byclass.setdefault(cp, pinned)
                    if rebuilt and last.get((e['i'], e['j']), pinned) != pinned:
                        sstats['same_call_again_after_a_rebuild_pinned_the_other_way'] += 1
                else:
                    stats['calls'] += 1
                    stats['calls_after_a_write'] += wrote
                    if last.get((e['i'], e['j']), pinned) != pinned:
                        stats['pinned_answer_changed_by_a_write'] += 1
                        ctx.note(('s2c-hist', repr(hist[:len(ops) + 2])))
                last[(e['i'], e['j'])] = pinned
                clause = e['ifT'] if got == 'T' else e['ifF'] if got == 'F' else 'not_boolean'
                if clause != '':
                    (sfnd if sess else fnd).add(clause, [dx, dy], [short(x), short(y)],
                                                {'observed': got, 'history': ops + ['eq(%d,%d)' % (e['i'], e['j'])], 'init': hist[0]['init']}, at=e['at'])
                if project(x, ids) != dx or project(y, ids) != dy:
                    (sfnd if sess else fnd).add('operand_changed', [dx, dy], [short(x), short(y)], {'history': ops + ['eq(%d,%d)' % (e['i'], e['j'])], 'init': hist[0]['init']})
                ops.append('eq(%d,%d)=%s' % (e['i'], e['j'], got))
            elif e['op'] == 'in':
                x, seq = objs[e['i'] - 1], [objs[j - 1] for j in e['seq']]
                dx, dseq = project(x, ids), [project(v, ids) for v in seq]
                got = outcome(in_, x, seq)
                ctx.evals += 1
                sstats['in_calls'] += 1
                if got not in e['want']:
                    clause = 'in_not_boolean' if got not in ('T', 'F') else 'in_not_spec_membership'
                    sfnd.add(clause, [dx, ['l', dseq]], [short(x), short(seq)],
                             {'observed': got, 'expected_one_of': e['want'], 'history': ops + ['in_(%d,%s)' % (e['i'], e['seq'])], 'init': hist[0]['init']})
                ops.append('in_(%d,%s)=%s' % (e['i'], e['seq'], got))
            elif e['op'] == 'rebuild':
                x = y = o = seq = None
                objs[e['i'] - 1] = None                       # the caller drops the object ...
                objs[e['i'] - 1] = realise(e['now'], ids)     # ... and builds a new one: another value, possibly at the address of the dead one
                rebuilt = True
                sstats['rebuilds'] += 1
                if project(objs[e['i'] - 1], ids) != e['now']:
                    raise Machinery('rebuild %r: the new object reads back as %r' % (e, project(objs[e['i'] - 1], ids)))
                ops.append('rebuild(%d)' % e['i'])
            else:
                o = objs[e['i'] - 1]
                apply_write(o, e, ids)
                wrote = True
                stats['writes'][e['op']] = stats['writes'].get(e['op'], 0) + 1
                if project(o, ids) != e['now']:
                    raise Machinery('write %r: the object reads back as %r, the specification says %r' % (e, project(o, ids), e['now']))
                ops.append('%s(%s)' % (e['op'], ','.join(str(e[k]) for k in ('i', 'axis', 'k', 'v') if k in e)))
        ctx.traces += 1
    fnd.flush()
    sfnd.flush()
    if tag == 'hist':
        if stats['pinned_answer_changed_by_a_write'] == 0 or len(stats['writes']) < 5:
            raise Machinery('vacuous: the histories never change a pinned answer / miss a kind of write: %r' % stats)
        if min(sstats[k] for k in ('sessions', 'in_calls', 'rebuilds', 'later_call_of_one_class_pair_pinned_the_other_way',
                                   'same_call_again_after_a_rebuild_pinned_the_other_way', 'calls_on_the_very_same_object')) == 0:
            raise Machinery('vacuous: the sessions never collide / never rebuild / never call in_: %r' % sstats)
        ctx.extra['c14_s2c_histories'] = stats
    elif sstats['sessions'] == 0:
        raise Machinery('vacuous: no simulated session')
    ctx.extra.setdefault('c14_s2c_sessions', {})[tag] = sstats
    ctx.sample({'s2c_history_' + tag: emitted[len(emitted) // 2]})


def s2c_wide(ctx, cases, tag):
    """the WIDE containers TLC enumerated (MC_EqWide): n structurally identical members, in y one of them - at position p,
    every position - replaced; eq(x, y) and eq(y, x) compared with what the statement pins; for the list kind also
    in_(another copy of the replaced member, the members of y)"""
    from pyg_base import eq, in_
    fnd = Findings(ctx, 's2c-' + tag)
    stats = {'cases': 0, 'copies': 0, 'late_difference': 0, 'kinds': {}, 'widths': {}, 'in_calls': 0, 'pinned': {}}
    for k, c in enumerate(cases):
        ids = Ids()
        x, y = realise(c['x'], ids), realise(c['y'], ids)
        if project(x, ids) != c['x'] or project(y, ids) != c['y']:
            raise Machinery('descriptor does not survive realise/project: %r' % (c,))
        stats['cases'] += 1
        stats['copies'] += c['p'] == 0
        stats['late_difference'] += c['p'] >= 6 and c['ifT'] != ''
        stats['kinds'][c['kind']] = stats['kinds'].get(c['kind'], 0) + 1
        stats['widths'][str(c['n'])] = stats['widths'].get(str(c['n']), 0) + 1
        key = c['ifT'] or c['ifF'] or 'free'
        stats['pinned'][key] = stats['pinned'].get(key, 0) + 1
        for a, b, da, db, ift, iff, at in ((x, y, c['x'], c['y'], c['ifT'], c['ifF'], c['at']), (y, x, c['y'], c['x'], c['rifT'], c['rifF'], c['rat'])):
            got = outcome(eq, a, b)
            ctx.evals += 1
            clause = ift if got == 'T' else iff if got == 'F' else 'not_boolean'
            if clause != '':
                fnd.add(clause, [da, db], [short(a), short(b)], {'observed': got, 'wide': {'kind': c['kind'], 'n': c['n'], 'p': c['p']}}, at=at)
        if project(x, ids) != c['x'] or project(y, ids) != c['y']:
            fnd.add('operand_changed', [c['x'], c['y']], [short(x), short(y)])
        if c['inw']:
            alt, seq = realise(c['alt'], ids), [realise(d, ids) for d in c['seq']]
            got = outcome(in_, alt, seq)
            ctx.evals += 1
            stats['in_calls'] += 1
            if got not in c['inw']:
                clause = 'in_not_boolean' if got not in ('T', 'F') else 'in_not_spec_membership'
                fnd.add(clause, [c['alt'], ['l', c['seq']]], [short(alt), short(seq)], {'observed': got, 'expected_one_of': c['inw'], 'wide': {'n': c['n'], 'p': c['p']}})
        if c['ifT'] != '' and c['p'] >= 2:
            ctx.note(('s2c-wide', k))
        if k % 997 == 5:
            ctx.sample({'s2c_wide_case': {kk: c[kk] for kk in ('kind', 'n', 'p', 'ifT', 'ifF', 'rifT', 'rifF', 'inw')}, 'x': short(x, 300), 'y': short(y, 300)})
        ctx.traces += 1
    fnd.flush()
    if stats['late_difference'] == 0 or stats['copies'] == 0 or stats['in_calls'] == 0 or len(stats['kinds']) < 6:
        raise Machinery('vacuous: the wide cases hold no late difference / no copy / no in_ call / too few container kinds: %r' % stats)
    ctx.extra.setdefault('c14_s2c_wide', {})[tag] = stats


def random_histories(ctx, nhist):
    """C2S: seeded random histories on random mutable values and a copy of each (sometimes a third object, sometimes two
    views into one buffer): call - write - call - ..., a write often repeated on the other object so that the two become
    equal again.  Every call is logged with the descriptors the two objects project to AT THAT MOMENT."""
    from pyg_base import eq
    g = Gen(ctx.rng)
    lines, meta = [], []
    pool = {'int64': lambda: I(ctx.rng.choice([0, 1, 2, 7])), 'float64': lambda: ctx.rng.choice([Fl(0), Fl(1), Fl(7), Fl(5, 2), NaN(0)]),
            'bool': lambda: ["b", ctx.rng.choice([0, 1])]}
    made = 0
    while made < nhist:
        if ctx.rng.random() < 0.15:
            ds = g.view_family()[:2]
            if ds[0][0] != 'v':
                continue
        else:
            d = g.value(ctx.rng.choice([1, 2, 3]))
            if d[0] not in ('l', 'm', 'mo', 'M', 'Mo', 'a', 'S', 'F') or len(items(d)) == 0 or (d[0] in ('a', 'S', 'F') and d[1][0] not in ('int64', 'float64', 'bool', 'object')):
                continue
            ds = [d, d] + ([d] if ctx.rng.random() < 0.2 else [])
        heap = Heap()
        idss = [Ids(heap) for _ in ds]
        objs = [realise(d, ids) for d, ids in zip(ds, idss)]
        made += 1
        pending = None
        for step in range(ctx.rng.choice([3, 5, 5, 7])):
            if step % 2 == 0:
                i, j = ctx.rng.sample(range(len(objs)), 2)
                dx, dy = project(objs[i], idss[i]), project(objs[j], idss[j])
                lines.append({'op': 'call', 'h': made, 'step': step, 'x': renumber(dx, 10000), 'y': renumber(dy, 20000), 'out': outcome(eq, objs[i], objs[j])})
                meta.append((short(objs[i]), short(objs[j])))
                continue
            if pending is not None and ctx.rng.random() < 0.6:
                i, e = pending                                # the same write on another object: equal again
                pending = None
            else:
                i = ctx.rng.randrange(len(objs))
                now = project(objs[i], idss[i])
                k = now[0]
                kinds = {'l': ['set', 'append', 'pop'], 'm': ['set', 'reinsert'], 'mo': ['set', 'reinsert'], 'M': ['set', 'reinsert'], 'Mo': ['set', 'reinsert'],
                         'a': ['set'], 'v': ['set'], 'S': ['set', 'label'], 'F': ['set', 'label']}.get(k, [])
                n = len(items(now))
                kinds = [op for op in kinds if n > 0 or op == 'append']
                if not kinds:
                    break
                op = ctx.rng.choice(kinds)
                dt = now[1][0] if k in ('a', 'S', 'F', 'v') else 'object'
                val = pool[dt]() if dt in pool else g.value(1) if k in ('l', 'm', 'mo', 'M', 'Mo') else g.leaf()
                e = {'op': op}
                if op in ('set', 'reinsert'):
                    e['k'] = ctx.rng.randrange(n) + 1
                if op in ('set', 'append'):
                    e['v'] = val
                if op == 'label':
                    axis = 0 if k == 'S' or not now[1][2] or ctx.rng.random() < 0.5 else 1
                    if not now[1][1 if axis == 0 else 2]:
                        break
                    e.update(axis=axis, k=ctx.rng.randrange(len(now[1][1 if axis == 0 else 2])) + 1, v=ctx.rng.choice([I(5), Str("z"), Fl(5, 2)]))
                pending = ((i + 1) % len(objs), e)
            try:
                with warnings.catch_warnings():
                    warnings.simplefilter('ignore')
                    apply_write(objs[i], e, idss[i])
            except Machinery:
                raise
            except Exception:
                break                                         # the other object has no such item (any more) / refuses the value
    ctx.evals += len(lines)
    return lines, meta


def _shorter(d):
    """d with its last item dropped (one row / one key / one cell less), or None"""
    k, p = d[0], d[1]
    if k in ('l', 't') and p: return [k, p[:-1]]
    if k == 'm' and p: return [k, p[:-1]]
    if k == 'M' and p[1]: return [k, [p[0], p[1][:-1]]]
    if k == 'a' and len(p[1]) == 1 and p[1][0] >= 1: return [k, [p[0], [p[1][0] - 1], p[2][:-1]]]
    if k == 'S' and p[2]: return [k, [p[0], p[1][:-1], p[2][:-1]]]
    if k == 'F' and p[1] and p[2]: return [k, [p[0], p[1][:-1], p[2], p[3][:-len(p[2])]]]
    return None


def _box(kind, members):
    n = len(members)
    keyed = [['k%02d' % (i + 1), m] for i, m in enumerate(members)]
    if kind == 'l': return ['l', members]
    if kind == 't': return ['t', members]
    if kind == 'm': return ['m', keyed]
    if kind == 'M': return ['M', ['Dict', keyed]]
    if kind == 'a': return ['a', ['object', [n], members]]
    if kind == 'S': return ['S', ['object', [I(i) for i in range(n)], members]]
    if kind == 'll': return ['l', [I(0), ['l', members]]]
    if kind == 'mt': return ['m', [['a', ['t', members]], ['b', I(0)]]]
    raise Machinery('unknown box %r' % kind)


def random_wide_and_sessions(ctx, nwide, nsess):
    """C2S, logged as `call` lines (judged by Trace_Eq!CallVerdict against what is pinned for the two descriptors):
    * WIDE: a random member repeated 6 .. 14 times in a random container kind, in y one position (any, often a late one)
      holds a near variant of the member (another cell, another type, another realisation, a nudged float, another
      missing marker); eq(x, y) and eq(y, x);
    * SESSIONS: a random value, its copy, the value with its last item dropped and a near variant - objects that collide
      on class / length - and 6 calls eq(obj_i, obj_j) on random pairs (also the very same object) with nothing in between."""
    from pyg_base import eq
    g = Gen(ctx.rng)
    g.nan = 5000
    lines, meta = [], []
    made = tries = 0
    while made < nwide and tries < 50 * nwide + 100:
        tries += 1
        d = g.value(ctx.rng.choice([1, 1, 2]))
        if not nontrivial(d) and ctx.rng.random() < 0.7:
            continue
        alts = [r for r in (g.reorder(d), g.rehouse(d), g.missing(d), g.near(d), g.lenient(d), _shorter(d)) if r is not None] + g.variants(d) + [g.other(d)]
        alt = ctx.rng.choice(alts)
        n = ctx.rng.choice([6, 7, 8, 9, 10, 11, 12, 14])
        p = ctx.rng.choice([0, ctx.rng.randrange(1, n + 1), ctx.rng.randrange(max(1, n - 3), n + 1), n])
        kind = ctx.rng.choice(['l', 'l', 't', 'm', 'm', 'M', 'a', 'S', 'll', 'mt'])
        dx, dy = _box(kind, [d] * n), _box(kind, [alt if i + 1 == p else d for i in range(n)])
        heap = Heap()
        ix, iy = Ids(heap), Ids(heap)
        try:
            x, y = realise(dx, ix), realise(dy, iy)
            px, py = project(x, ix), project(y, iy)
        except (ValueError, TypeError, OverflowError):
            continue                                          # numpy refuses the member as a cell of an object array
        if has_tag(px, ('o',)) or has_tag(py, ('o',)):
            continue
        made += 1
        for step, (a, b, da, db) in enumerate(((x, y, px, py), (y, x, py, px))):
            lines.append({'op': 'call', 'h': 100000 + made, 'step': step, 'x': renumber(da, 10000), 'y': renumber(db, 20000), 'out': outcome(eq, a, b),
                          'wide': '%s:%d:%d' % (kind, n, p)})
            meta.append((short(a), short(b)))
    nw = len(lines)
    made = tries = 0
    while made < nsess and tries < 50 * nsess + 100:
        tries += 1
        d = g.value(ctx.rng.choice([1, 2, 2]))
        if not nontrivial(d) or has_tag(d, ('v', 'Sv', 'Fv')):
            continue
        ds = [d, d] + [r for r in (_shorter(d),) if r is not None]
        vs = g.variants(d) + [r for r in (g.near(d), g.missing(d), g.lenient(d)) if r is not None]
        if vs:
            ds.append(ctx.rng.choice(vs))
        heap = Heap()
        idss = [Ids(heap) for _ in ds]
        try:
            objs = [realise(x, ids) for x, ids in zip(ds, idss)]
        except (ValueError, TypeError, OverflowError):
            continue
        made += 1
        for step in range(6):
            i, j = ctx.rng.randrange(len(objs)), ctx.rng.randrange(len(objs))
            dx, dy = project(objs[i], idss[i]), project(objs[j], idss[j])
            if i == j:                                        # the very same object: the same NaN objects on both sides
                lines.append({'op': 'call', 'h': 200000 + made, 'step': step, 'x': renumber(dx, 10000), 'y': renumber(dy, 10000), 'out': outcome(eq, objs[i], objs[j])})
            else:
                lines.append({'op': 'call', 'h': 200000 + made, 'step': step, 'x': renumber(dx, 10000), 'y': renumber(dy, 20000), 'out': outcome(eq, objs[i], objs[j])})
            meta.append((short(objs[i]), short(objs[j])))
    ctx.evals += len(lines)
    ctx.extra['c14_c2s_wide_and_sessions'] = {'wide_calls': nw, 'wide_calls_answered_F': sum(1 for l in lines[:nw] if l['out'] == 'F'),
                                              'session_calls': len(lines) - nw, 'session_calls_answered_T': sum(1 for l in lines[nw:] if l['out'] == 'T')}
    if nwide and (nw == 0 or len(lines) == nw):
        raise Machinery('vacuous: no random wide container / no random session was built')
    return lines, meta


# ---------------------------------------------------------------------------------------------
# C2S: a universe of concrete values and their copies, the full matrix, validated by Trace_Eq
# ---------------------------------------------------------------------------------------------
def L(*xs): return ["l", list(xs)]
def T(*xs): return ["t", list(xs)]
def M(**kw): return ["m", [[k, kw[k]] for k in sorted(kw)]]
def Sub(cls, **kw): return ["M", [cls, [[k, kw[k]] for k in sorted(kw)]]]
def I(k): return ["i", k]
def Fl(p, q=1): return ["f", [p, q]]
def NaN(k): return ["nan", k]
def A(dt, shape, *cells): return ["a", [dt, list(shape), list(cells)]]
def S(dt, index, *cells): return ["S", [dt, list(index), list(cells)]]
def F(dt, index, cols, *cells): return ["F", [dt, list(index), list(cols), list(cells)]]
def Np(dt, leaf): return ["np", [dt, leaf]]
def Str(s): return ["s", s]
def MO(perm, **kw): return ["mo", [list(perm), [[k, kw[k]] for k in sorted(kw)]]]
def V(buf, off, shape, strides): return ["v", [POOL[buf][0], buf, POOL[buf][1], off, list(shape), list(strides)]]
NONE = ["n", 0]
NAT = ["nat", 0]
RI3 = [["i", 0], ["i", 1], ["i", 2]]
# the buffers of the driver's own views (buffer numbers 1 .. 9 belong to spec/MC_Eq.tla): number -> (dtype, cells)
POOL = {21: ("int64", [I(0), I(1), I(0), I(1), I(2), I(0), I(1), I(3)]),
        22: ("float64", [NaN(0), Fl(1), NaN(0), Fl(1), Fl(2), NaN(0), Fl(1), Fl(7)]),
        23: ("bool", [["b", 1], ["b", 0], ["b", 1], ["b", 0], ["b", 1], ["b", 1]]),
        24: ("object", [NONE, I(1), NaN(41), I(1), Str("a"), NONE, I(1), NAT])}


def strange():
    """hand-picked values: the corners the statement names and the places where numpy broadcasting,
    len(), np.array(..., dtype=object) and isinstance(x, float) could bite"""
    z22 = A("float64", (2, 2), *[Fl(0)] * 4)
    return [
        Np("float64", Fl(1)), L(Fl(1)), L(Fl(1), Fl(1)), T(Fl(1)), I(1), A("int64", (2,), I(1), I(1)), A("int64", (1,), I(1)),
        z22, A("float64", (2, 3), *[Fl(0)] * 6), A("float64", (4,), *[Fl(0)] * 4), A("float64", (1, 2), Fl(0), Fl(0)),
        A("float64", (2,), Fl(0), Fl(0)), A("float64", (2, 2, 1), *[Fl(0)] * 4),
        A("int64", (), I(1)), A("float64", (), NaN(0)), A("object", (), NONE), A("float64", (), Fl(1)),
        M(a=L(I(1), I(2)), b=L(I(3), I(4))), M(a=T(I(1), I(2)), b=T(I(3), I(4))),
        M(a=A("int64", (2,), I(1), I(2)), b=A("int64", (2,), I(3), I(4))),
        M(a=L(I(1), I(2)), b=L(I(3))), M(a=L(I(1), I(2)), b=I(3)), M(a=L(I(1)), b=L(I(3))), M(a=I(1), b=I(3)), M(a=L(), b=L()),
        M(a=T(), b=T()), M(a=L(I(1), I(2))), M(a=T(I(1), I(2))), M(a=Str("xy")), M(a=L(Str("x"), Str("y"))),
        A("int64", (2,), I(1), I(2)), A("float64", (2,), Fl(1), Fl(2)), A("object", (2,), I(1), I(2)), A("bool", (2,), ["b", 1], ["b", 1]),
        Np("float32", NaN(1)), Np("float64", NaN(2)), NaN(3), L(Np("float32", NaN(4))), L(NaN(5)), T(Np("float64", NaN(6))),
        M(a=Np("float32", NaN(7))), A("object", (1,), Np("float32", NaN(8))), A("float32", (1,), NaN(0)), A("float64", (1,), NaN(0)),
        NONE, A("object", (1,), NONE), A("object", (2,), NONE, NONE), L(NONE), S("object", [I(0)], NONE),
        Str("a"), A("str", (1,), Str("a")), A("str", (2,), Str("a"), Str("a")), A("object", (1,), Str("a")), L(Str("a")), Np("str_", Str("a")),
        ["b", 1], Np("bool_", ["b", 1]), A("bool", (1,), ["b", 1]), A("bool", (), ["b", 1]), ["b", 0], I(0), L(), T(), M(), Sub("Dict"), Sub("dictattr"),
        A("float64", (0,)), A("float64", (2, 0)), A("float64", (0, 2)), A("float64", (2, 5), *[Fl(0)] * 10), A("float64", (1, 0)), A("int64", (0,)), A("object", (0,)),
        S("float64", []), S("object", []), F("object", [], []), F("object", [], [Str("a")]), F("object", [], [Str("b")]), F("object", RI2, []),
        F("object", [I(1), I(2)], []),
        S("int64", RI2, I(1), I(1)), S("int64", RI2, I(1), I(2)), S("float64", RI2, Fl(1), Fl(2)), S("float64", RI2, Fl(1), NaN(0)),
        S("int64", [I(1), I(2)], I(1), I(2)), S("int64", [Fl(0), Fl(1)], I(1), I(2)), S("int64", [Str("a"), Str("b")], I(1), I(2)),
        S("int64", [["ts", D1], ["ts", D2]], I(1), I(2)), S("int64", [["ts", D1], ["ts", D4]], I(1), I(2)), S("int64", [I(0)], I(1)),
        S("object", RI2, L(I(1), I(2)), NaN(9)), S("object", RI2, T(I(1), I(2)), NaN(10)), S("datetime64[ns]", [I(0)], ["d64", D3]),
        F("int64", RI2, [Str("a")], I(1), I(2)), F("int64", RI2, [Str("b")], I(1), I(2)), F("int64", RI2, [I(0)], I(1), I(2)),
        F("float64", RI2, [Str("a")], Fl(1), NaN(0)), F("float64", RI2, [Str("a")], Fl(1), Fl(2)), F("int64", RI2, [Str("a")], I(1), I(1)),
        F("int64", RI2, [Str("a"), Str("b")], I(1), I(3), I(2), I(4)), F("int64", RI2, [Str("b"), Str("a")], I(3), I(1), I(4), I(2)),
        F("int64", [I(0)], [Str("a"), Str("b")], I(1), I(2)), F("int64", [["ts", D1], ["ts", D2]], [Str("a")], I(1), I(2)),
        F("object", RI2, [Str("a")], L(I(1)), NONE), F("int64", [I(0)], [Str("a")], I(1)),
        ["d", D1], ["ts", D1], ["d", D2], ["ts", D2], ["d64", D3], ["d64", D4], ["date", D1[0]], ["date", D3[0]], L(["d", D1]), L(["ts", D1]),
        A("datetime64[ns]", (1,), ["d64", D3]), A("object", (1,), ["ts", D1]), A("object", (1,), ["d", D1]),
        ["inf", 1], ["inf", -1], Np("float64", ["inf", 1]), Fl(1), Fl(5, 2), Np("float32", Fl(5, 2)), Np("int32", I(1)), Np("int64", I(2)), I(2),
        A("object", (2,), A("int64", (2,), I(1), I(2)), I(2)), A("object", (2,), L(I(1), I(2)), I(2)), A("object", (2,), T(I(1), I(2)), I(2)),
        A("object", (2,), A("float64", (2,), Fl(1), NaN(0)), NaN(11)), L(A("int64", (2,), I(1), I(2)), I(2)),
        A("object", (1, 2), I(1), Str("a")), A("object", (2, 1), I(1), Str("a")), A("object", (2,), I(1), Str("a")),
        L(I(1), L(I(2), L(NaN(12), T(NaN(13))))), T(I(1), M(a=L(NaN(14)))), Sub("Dict", a=I(1)), Sub("dictattr", a=I(1)), M(a=I(1)), M(a=Fl(1)),
        Sub("Dict", a=NaN(15), b=L(I(1))), M(a=NaN(16), b=L(I(1))), M(a=M(a=M(a=NaN(17)))), M(a=M(a=M(a=NaN(18))), b=I(1)),
    ]


def strange_variants():
    """hand-picked realisation variants and look-alikes (each realised once: they are copies / near misses of each other)"""
    return [
        # the same mapping in several insertion orders, at several depths (also inside tuples, object arrays, dict subclasses)
        M(a=I(1), b=I(2), c=I(3)), MO([3, 1, 2], a=I(1), b=I(2), c=I(3)), MO([2, 3, 1], a=I(1), b=I(2), c=I(3)), MO([3, 2, 1], a=I(1), b=I(2), c=I(4)),
        MO([2, 1], a=NaN(19), b=L(NaN(20))), M(a=NaN(21), b=L(NaN(22))), M(k=T(MO([2, 1], a=I(1), b=I(2)))), M(k=T(M(a=I(1), b=I(2)))),
        MO([2, 1], a=MO([2, 1], a=I(1), b=I(2)), b=L()), M(a=M(a=I(1), b=I(2)), b=L()),
        ["Mo", ["Dict", [2, 1], [["a", I(1)], ["b", NaN(23)]]]], Sub("Dict", a=I(1), b=NaN(24)), ["Mo", ["dictattr", [2, 1], [["a", I(1)], ["b", I(2)]]]],
        A("object", (1,), MO([2, 1], a=I(1), b=I(2))), A("object", (1,), M(a=I(1), b=I(2))),
        MO([2, 1], a=A("int64", (2,), I(1), I(2)), b=S("float64", RI2, Fl(1), NaN(0))), M(a=A("int64", (2,), I(1), I(2)), b=S("float64", RI2, Fl(1), NaN(0))),
        # missing-value look-alikes: None / NaN / NaT in the same position of the carriers that hold objects
        S("object", RI2, NONE, NONE), S("object", RI2, NaN(26), NaN(27)), S("object", RI2, NONE, NaN(28)), S("object", RI2, NAT, NONE),
        F("object", RI2, [Str("a"), Str("b")], NONE, I(1), NaN(30), Str("x")), F("object", RI2, [Str("a"), Str("b")], NaN(31), I(1), NONE, Str("x")),
        A("object", (1, 2), NONE, I(1)), A("object", (1, 2), NaN(33), I(1)),
        L(NONE, I(1)), L(NaN(34), I(1)), L(NAT, I(1)), T(NAT), M(a=NONE), M(a=NaN(35)), M(a=NAT), NAT, L(M(k=S("object", [I(0)], NONE))), L(M(k=S("object", [I(0)], NaN(36)))),
    ]


LAYOUT = ('short_log', 'misplaced_value', 'misplaced_cell', 'unknown_op', 'bad_descriptor')
LEAFPOOL = [NONE, NAT, ["b", 1], I(0), I(1), I(2), Fl(1), Fl(2), Fl(5, 2), ["inf", 1], Str("a"), Str("b"), Str(""), ["d", D1], ["ts", D1], ["ts", D2],
            ["d64", D3], Np("int64", I(1)), Np("float64", Fl(2)), Np("float32", Fl(5, 2)), Np("bool_", ["b", 1]), Np("str_", Str("b"))]


class Gen(object):
    """seeded random descriptors (nestings to depth 4) and near variants of them"""
    def __init__(self, rng):
        self.rng, self.nan = rng, 100

    def nanid(self):
        self.nan += 1
        return self.nan

    def leaf(self):
        r = self.rng.random()
        if r < 0.15:
            return NaN(self.nanid())
        if r < 0.2:
            return Np(self.rng.choice(["float64", "float32"]), NaN(self.nanid()))
        return self.rng.choice(LEAFPOOL)

    def num(self, dt):
        if dt == 'int64':
            return I(self.rng.choice([0, 1, 2, 3]))
        if dt == 'bool':
            return ["b", self.rng.choice([0, 1])]
        return self.rng.choice([Fl(0), Fl(1), Fl(2), Fl(5, 2), NaN(0), NaN(0), ["inf", 1]])

    def shape(self):
        return self.rng.choice([(), (1,), (2,), (3,), (1, 2), (2, 1), (2, 2), (2, 3), (0,), (2, 0), (1, 1, 2)])

    def index(self, n):
        k = self.rng.choice(['range', 'range', 'int', 'str', 'ts', 'float'])
        if k == 'range': return [I(i) for i in range(n)]
        if k == 'int': return [I(i + 1) for i in range(n)]
        if k == 'float': return [Fl(i) for i in range(n)]
        if k == 'str': return [Str("abcd"[i]) for i in range(n)]
        return [["ts", [D1[0] + i, 0, 0]] for i in range(n)]

    def perm(self, n, other_than=None):
        """an insertion order of n keys (1-based positions in key order) that is not `other_than`"""
        while True:
            p = list(range(1, n + 1))
            self.rng.shuffle(p)
            if p != other_than:
                return p

    def order(self, d):
        """dict descriptor d (in key order) realised in a random insertion order (half of the time when it has >= 2 keys)"""
        kvs = d[1] if d[0] == 'm' else d[1][1]
        if len(kvs) < 2 or self.rng.random() < 0.5:
            return d
        p = self.perm(len(kvs), list(range(1, len(kvs) + 1)))
        return ["mo", [p, kvs]] if d[0] == 'm' else ["Mo", [d[1][0], p, kvs]]

    def layout(self, buf, rank=None):
        """a shape and element strides for a view into POOL[buf], and the offsets at which it stays inside the buffer"""
        n = len(POOL[buf][1])
        while True:
            rank = rank if rank is not None else self.rng.choice([1, 1, 1, 2, 2, 0])
            if rank == 0:
                sh, st = (), ()
            elif rank == 1:
                sh, st = (self.rng.choice([1, 2, 3, 4]),), (self.rng.choice([1, 1, 2, 3, -1, -2]),)
            else:
                sh = self.rng.choice([(2, 2), (2, 3), (3, 2), (2, 1), (1, 2)])
                st = self.rng.choice([(sh[1], 1), (1, sh[0]), (sh[1] + 1, 1), (1, 1), (2, 1), (-sh[1], 1), (0, 1)])
            pos = [sum(i * t for i, t in zip(idx, st)) for idx in np.ndindex(*sh)]
            offs = list(range(-min(pos), n - max(pos)))
            if offs:
                return sh, st, offs

    def view(self, rank=None, numeric=False):
        """a view into a pool buffer (numeric: not the object buffer - pandas re-types object cells when it is handed an
        object array, so Series / frames are built on views of numeric buffers only)"""
        buf = self.rng.choice([b for b in sorted(POOL) if not (numeric and POOL[b][0] == 'object')])
        sh, st, offs = self.layout(buf, rank)
        return V(buf, self.rng.choice(offs), sh, st)

    def view_family(self):
        """views of ONE buffer with ONE shape and strides at different offsets (a[1:] / a[:-1], two columns, overlapping
        windows): they share memory and, the pool buffers being periodic, some of them hold the same cells"""
        buf = self.rng.choice(sorted(POOL))
        while True:
            sh, st, offs = self.layout(buf)
            if len(offs) >= 2:
                break
        offs = self.rng.sample(offs, min(len(offs), 3))
        vs = [V(buf, o, sh, st) for o in offs]
        numeric = POOL[buf][0] != 'object'
        if len(sh) == 1 and 0 not in st and numeric and self.rng.random() < 0.5:
            ix = self.index(sh[0])
            return [["Sv", [ix, v]] for v in vs]
        if len(sh) == 2 and 0 not in st and numeric and self.rng.random() < 0.5:
            ix, cols = self.index(sh[0]), [Str("abc"[j]) for j in range(sh[1])]
            return [["Fv", [ix, cols, v]] for v in vs]
        if self.rng.random() < 0.3:
            wrap = self.rng.choice([lambda v: L(v), lambda v: M(k=v), lambda v: T(I(1), v), lambda v: A("object", (1,), v)])
            return [wrap(v) for v in vs]
        return vs

    def value(self, depth):
        r = self.rng.random()
        if depth <= 0 or r < 0.25:
            return self.leaf()
        n = self.rng.choice([0, 1, 2, 2, 3])
        if r < 0.40: return L(*[self.value(depth - 1) for _ in range(n)])
        if r < 0.50: return T(*[self.value(depth - 1) for _ in range(n)])
        if r < 0.62: return self.order(M(**{k: self.value(depth - 1) for k in self.rng.sample(["a", "b", "c", "d"], n)}))
        if r < 0.67: return self.order(Sub(self.rng.choice(["Dict", "dictattr"]), **{k: self.value(depth - 1) for k in self.rng.sample(["a", "b", "c"], n)}))
        if r < 0.80:
            if self.rng.random() < 0.3:
                return self.view()
            dt = self.rng.choice(["int64", "float64", "float64", "bool"])
            sh = self.shape()
            return A(dt, sh, *[self.num(dt) for _ in range(int(np.prod(sh)))])
        if r < 0.86:
            sh = self.rng.choice([(), (1,), (2,), (1, 2), (2, 1)])
            return A("object", sh, *[self.value(depth - 1) for _ in range(int(np.prod(sh)))])
        if r < 0.94:
            if self.rng.random() < 0.2:
                v = self.view(1, numeric=True)
                return ["Sv", [self.index(v[1][4][0]), v]]
            dt = self.rng.choice(["int64", "float64", "object"])
            n = self.rng.choice([0, 1, 2, 3])
            cells = [self.value(depth - 1) if dt == 'object' else self.num(dt) for _ in range(n)]
            return S(dt, self.index(n), *cells)
        dt = self.rng.choice(["int64", "float64", "object"])
        n, m = self.rng.choice([0, 1, 2]), self.rng.choice([0, 1, 2])
        cells = [self.leaf() if dt == 'object' else self.num(dt) for _ in range(n * m)]
        cols = [Str("abc"[j]) for j in range(m)] if self.rng.random() < 0.8 else [I(j) for j in range(m)]
        return F('object' if n * m == 0 else dt, self.index(n), cols, *cells)

    def reorder(self, d):
        """the same value with every dict of >= 2 keys, at every depth, inserted in another order (None when there is none)"""
        hit = [False]

        def go(x):
            k, p = x[0], x[1]
            kv = lambda kvs: [[kk, go(y)] for kk, y in kvs]
            if k in ('t', 'l'): return [k, [go(y) for y in p]]
            if k in ('m', 'mo', 'M', 'Mo'):
                cls = p[0] if k in ('M', 'Mo') else None
                kvs = kv(p if k == 'm' else p[1] if k in ('M', 'mo') else p[2])
                old = list(range(1, len(kvs) + 1)) if k in ('m', 'M') else p[0] if k == 'mo' else p[1]
                new = old
                if len(kvs) >= 2:
                    new = self.perm(len(kvs), old)
                    hit[0] = True
                if new == list(range(1, len(kvs) + 1)):
                    return ["m", kvs] if cls is None else ["M", [cls, kvs]]
                return ["mo", [new, kvs]] if cls is None else ["Mo", [cls, new, kvs]]
            if k in ('a', 'S') and p[0] == 'object': return [k, [p[0], p[1], [go(y) for y in p[2]]]]
            if k == 'F' and p[0] == 'object': return [k, [p[0], p[1], p[2], [go(y) for y in p[3]]]]
            return x
        out = go(d)
        return out if hit[0] else None

    def rehouse(self, d):
        """a view at another offset of its buffer with the same shape and strides (None when there is no other offset)"""
        if d[0] in ('Sv', 'Fv'):
            w = self.rehouse(d[1][-1])
            return None if w is None else [d[0], d[1][:-1] + [w]]
        if d[0] != 'v':
            return None
        dt, buf, bc, off, sh, st = d[1]
        pos = [sum(i * t for i, t in zip(idx, st)) for idx in np.ndindex(*sh)]
        offs = [o for o in range(-min(pos), len(bc) - max(pos)) if o != off]
        return ["v", [dt, buf, bc, self.rng.choice(offs), sh, st]] if offs else None

    def spots(self, d, boxed=True, top=True):
        """(node, held as an object?, top level?) for every node of d that can be rewritten (not inside views)"""
        yield d, boxed, top
        k, p = d[0], d[1]
        if k in ('t', 'l'): kids, b = p, True
        elif k in ('m', 'M', 'mo', 'Mo'): kids, b = items(d), True
        elif k in ('a', 'S'): kids, b = p[2], p[0] == 'object'
        elif k == 'F': kids, b = p[3], p[0] == 'object'
        else: kids, b = [], True
        for x in kids:
            for y in self.spots(x, b, False):
                yield y

    def rewrite(self, d, target, new):
        """d with the node `target` (an object of the descriptor tree) replaced by `new`"""
        def go(x):
            if x is target:
                return new
            k, p = x[0], x[1]
            kv = lambda kvs: [[kk, go(y)] for kk, y in kvs]
            if k in ('t', 'l'): return [k, [go(y) for y in p]]
            if k == 'm': return [k, kv(p)]
            if k == 'M': return [k, [p[0], kv(p[1])]]
            if k == 'mo': return [k, [p[0], kv(p[1])]]
            if k == 'Mo': return [k, [p[0], p[1], kv(p[2])]]
            if k in ('a', 'S'): return [k, [p[0], p[1], [go(y) for y in p[2]]]]
            if k == 'F': return [k, [p[0], p[1], p[2], [go(y) for y in p[3]]]]
            return x
        return go(d)

    def missing(self, d):
        """the same value with one missing-value marker held as an object (None / NaN / NaT) replaced by another marker"""
        cand = [n for n, boxed, top in self.spots(d) if boxed and n[0] in ('n', 'nan', 'nat')]
        if not cand:
            return None
        target = self.rng.choice(cand)
        return self.rewrite(d, target, self.rng.choice([m for m in (NONE, NaN(self.nanid()), NAT) if m[0] != target[0]]))

    def nudged(self, c):
        """a float that is close to the finite float c but not equal: inside the default tolerances of np.allclose /
        np.isclose / pandas.testing (rtol 1e-5, atol 1e-8) and exactly representable"""
        from fractions import Fraction
        p, q = c[1]
        if p == 0:
            return Fl(1, 2 ** 27)
        if abs(p) >= 10000:
            return Fl(p + 1, q) if q == 1 else None
        if (p, q) == (1, 1) and self.rng.random() < 0.5:
            return Fl(2 ** 30 + 1, 2 ** 30)                   # inside math.isclose's default rel_tol, too
        f = Fraction(p, q) * (1 + Fraction(1, 2 ** 17))
        return Fl(f.numerator, f.denominator)

    def near(self, d):
        """the same value with one finite float - a leaf, a cell of a float array / Series / frame, a numpy scalar - nudged"""
        cand = []
        for n, boxed, top in self.spots(d):
            leaf = n[1][1] if n[0] == 'np' and n[1][0] in ('float64', 'float32') else n
            if leaf[0] == 'f' and self.nudged(leaf) is not None:
                cand.append((n, leaf))
        if not cand:
            return None
        n, leaf = self.rng.choice(cand)
        return self.rewrite(d, n, self.nudged(leaf) if n is leaf else ['np', [n[1][0], self.nudged(leaf)]])

    def lenient(self, d):
        """the same value with one item below the top level replaced by something Python's == / numpy's broadcasting
        calls equal to it although the container type differs: dict <-> dict subclass, a number <-> a 0-d or
        one-cell array holding it, list <-> tuple stays to `other`"""
        def twin(n):
            if n[0] == 'm': return ["M", [self.rng.choice(["Dict", "dictattr"]), n[1]]]
            if n[0] == 'M': return ["m", n[1][1]]
            if n[0] == 'mo': return ["Mo", ["Dict", n[1][0], n[1][1]]]
            if n[0] in ('i', 'f', 'b'):
                return A({'i': 'int64', 'f': 'float64', 'b': 'bool'}[n[0]], self.rng.choice([(), (1,), (1, 1)]), n)
            if n[0] == 'a' and len(n[1][2]) == 1 and n[1][0] in ('int64', 'float64', 'bool'):
                return n[1][2][0] if n[1][2][0][0] != 'nan' else NaN(self.nanid())
            return None
        cand = [n for n, boxed, top in self.spots(d) if boxed and not top and twin(n) is not None]
        if not cand:
            return None
        target = self.rng.choice(cand)
        return self.rewrite(d, target, twin(target))

    def variants(self, d):
        """values that are close to d: another container type, another shape / dtype / index, one
        cell replaced by an equal or by a different value"""
        out = []
        k, p = d[0], d[1]
        if k in ('l', 't'):
            out.append([{'l': 't', 't': 'l'}[k], p])
            out.append(A("object", (len(p),), *p))
            if p:
                out.append([k, p[:-1]])
        if k == 'm':
            out.append(["M", ["Dict", p]])
            if p:
                out.append(["m", p[:-1]])
        if k == 'M':
            out.append(["m", p[1]])
        if k == 'mo':
            out.append(["Mo", ["Dict", p[0], p[1]]])
            out.append(["m", p[1][:-1]])
        if k == 'Mo':
            out.append(["mo", [p[1], p[2]]])
        if k == 'a':
            dt, sh, cells = p
            n = len(cells)
            if dt == 'int64':
                out.append(A("float64", sh, *[Fl(c[1]) for c in cells]))
            if dt in ('int64', 'float64', 'bool'):
                out.append(A("object", sh, *[c if c[0] != 'nan' else NaN(self.nanid()) for c in cells]))
            if len(sh) == 1:
                out.append(L(*[c if c[0] != 'nan' else NaN(self.nanid()) for c in cells]))
                out.append(A(dt, (1, n), *cells))
                out.append(A(dt, (n, 1), *cells))
                if dt != 'object':
                    out.append(S(dt, [I(i) for i in range(n)], *cells))
            if len(sh) == 2:
                out.append(A(dt, (sh[1], sh[0]), *cells))
                out.append(A(dt, (n,), *cells))
                if n and dt != 'object':
                    out.append(F(dt, [I(i) for i in range(sh[0])], [I(j) for j in range(sh[1])], *cells))
            if len(sh) == 0:
                out.append(cells[0] if cells[0][0] != 'nan' else NaN(self.nanid()))
                out.append(A(dt, (1,), *cells))
        if k == 'S':
            dt, ix, cells = p
            out.append(S(dt, [I(i + 5) for i in range(len(ix))], *cells))
            if dt != 'object':
                out.append(A(dt, (len(cells),), *cells))
            if cells and dt != 'object':
                out.append(F(dt, ix, [I(0)], *cells))
        if k == 'F':
            dt, ix, cols, cells = p
            out.append(F(dt, ix, [Str("xyz"[j]) for j in range(len(cols))], *cells))
        its = items(d)
        if its and k not in ('F', 'v', 'Sv', 'Fv') and not (k in ('a', 'S') and p[0] != 'object'):
            j = self.rng.randrange(len(its))
            for new in (self.twin(its[j]), self.other(its[j])):
                if new is not None:
                    out.append(self.replace(d, j, new))
        return out

    def twin(self, c):
        """an equal but differently typed value"""
        if c[0] == 'i': return Fl(c[1])
        if c[0] == 'f' and c[1][1] == 1: return I(c[1][0])
        if c[0] == 'nan': return Np("float64", NaN(self.nanid()))
        if c[0] == 'd': return ["ts", c[1]]
        if c[0] == 'ts': return ["d", c[1]]
        if c[0] == 's': return Np("str_", c)
        if c[0] == 'np': return c[1][1] if c[1][1][0] != 'nan' else NaN(self.nanid())
        return None

    def other(self, c):
        if c[0] == 'l': return ["t", c[1]]
        if c[0] == 't': return ["l", c[1]]
        if c[0] == 'i': return I(c[1] + 1)
        if c[0] == 'nan': return Fl(1)
        return I(7)

    def replace(self, d, j, new):
        k, p = d[0], d[1]
        if k in ('l', 't'):
            return [k, p[:j] + [new] + p[j + 1:]]
        if k == 'm':
            return [k, p[:j] + [[p[j][0], new]] + p[j + 1:]]
        if k == 'M':
            return [k, [p[0], p[1][:j] + [[p[1][j][0], new]] + p[1][j + 1:]]]
        if k == 'mo':
            return [k, [p[0], p[1][:j] + [[p[1][j][0], new]] + p[1][j + 1:]]]
        if k == 'Mo':
            return [k, [p[0], p[1], p[2][:j] + [[p[2][j][0], new]] + p[2][j + 1:]]]
        if k in ('a', 'S'):
            return [k, [p[0], p[1], p[2][:j] + [new] + p[2][j + 1:]]]
        return d


def nontrivial(d):
    return not is_leaf(d) and len(items(d)) > 0


def universe(ctx, base, nrandom):
    """descriptors of the universe: TLC's abstract universe and realisation variants, the hand-picked corners, seeded
    random nestings, variants of them (near values and other realisations of the same value: every dict re-ordered at
    every depth, views at another offset of the shared buffer, another missing-value marker, one float nudged inside
    numpy's default tolerances, one nested item replaced by a ==-equal item of another container type) and families of
    views into one buffer; without duplicates (copies are added by the caller).  Returns the descriptors, for each the number of
    realisations wanted beyond the first (0: the universe holds other realisations / look-alikes of it anyway), and the
    pairs (i, j) of descriptors that were made as two realisations of one value or as look-alikes, for the in_ calls."""
    g = Gen(ctx.rng)
    known = {repr(d) for d, _ in base}
    ds = []
    for d, var in base:
        nested_again = d[0] == 'l' and len(d[1]) == 1 and repr(d[1][0]) in known        # MC_Eq!Nest
        once = (var and d[0] not in ('Sv', 'Fv') and not (has_tag(d, ('v',)) and d[0] != 'v')) or (nested_again and not ctx.quick)
        ds.append((d, 0 if once else 1))
    ds += [(d, 1) for d in strange()] + [(d, 0) for d in strange_variants()]
    rnd, twins = [], []
    while len(rnd) < nrandom:
        if ctx.rng.random() < 0.12:
            fam = g.view_family()
            rnd.extend(fam)
            twins += [(repr(fam[0]), repr(f)) for f in fam[1:]]
            continue
        d = g.value(ctx.rng.choice([1, 2, 2, 3, 4]))
        rnd.append(d)
        for r in (g.reorder(d), g.rehouse(d), g.missing(d), g.near(d), g.lenient(d)):
            if r is not None:
                rnd.append(r)
                twins.append((repr(d), repr(r)))
        vs = g.variants(d)
        ctx.rng.shuffle(vs)
        rnd.extend(vs[:2])
    ds += [(d, 1) for d in rnd[:nrandom]]
    seen, out, more = {}, [], []
    for d, m in ds:
        if repr(d) not in seen:
            seen[repr(d)] = len(out)
            out.append(d)
            more.append(m)
    return out, more, sorted({(seen[a], seen[b]) for a, b in twins if a in seen and b in seen and a != b})


def build(descs, more=None, deep=True):
    """every descriptor realised twice (once where more[k] = 0): the value and a structural copy (fresh NaN objects,
    fresh containers); the logged descriptor is the projection of the real object.  All first realisations live in
    ONE world (one Heap): views with one buffer number share memory across the universe.  The copy of a descriptor
    that holds a view lives in a world of its own (other memory, logged with its own buffer numbers); when `deep`,
    it is also realised once more in the shared world (another view object on the same memory).
    Returns the values, the logged descriptors, the Ids and, per value, the index of its descriptor."""
    vals, logged, keep, origin = [], [], [], []
    shared, worlds = Heap(), 0
    for n, d in enumerate(descs):
        plan = [shared, shared]
        if has_tag(d, ('v', 'Sv', 'Fv')):
            plan = [shared, shared, None] if deep else [shared, None]
        if more is not None and more[n] == 0:
            plan = [shared]
        for heap in plan:
            dd = d
            if heap is None:
                worlds += 1
                heap, dd = Heap(), dmap(d, buf=lambda b, w=worlds: b + 100 * w)
            ids = Ids(heap)
            v = realise(dd, ids)
            pd_ = project(v, ids)
            if pd_ != dd:
                raise Machinery('descriptor does not survive realise/project: %r -> %r' % (dd, pd_))
            keep.append(ids)
            vals.append(v)
            origin.append(n)
    # NaN identities must differ between objects: renumber per value
    for k, (v, ids) in enumerate(zip(vals, keep)):
        logged.append(renumber(project(v, ids), 10000 * (k + 1)))
    return vals, logged, keep, origin


def renumber(d, base):
    return dmap(d, nan=lambda k: k + base if k else 0)


def c2s(ctx, base, nrandom, nin, descs=None, nhist=0):
    from pyg_base import eq, in_
    descs, more, twins = (descs, None, []) if descs is not None else universe(ctx, base, nrandom)
    vals, logged, keep, origin = build(descs, more, deep=not ctx.quick)
    n = len(vals)
    where = {}
    for i, k in enumerate(origin):
        where.setdefault(k, []).append(i)
    obs = [{'op': 'hdr', 'n': n}]
    obs += [{'op': 'val', 'id': i + 1, 'desc': logged[i]} for i in range(n)]
    for i in range(n):
        for j in range(n):
            obs.append({'op': 'eq', 'i': i + 1, 'j': j + 1, 'out': outcome(eq, vals[i], vals[j])})
    ctx.evals += n * n
    ins = []
    for _ in range(nin):
        i = ctx.rng.randrange(n)
        seq = [ctx.rng.randrange(n) for _ in range(ctx.rng.choice([0, 1, 2, 3, 5, 8]))]
        if seq and ctx.rng.random() < 0.5:
            seq[ctx.rng.randrange(len(seq))] = ctx.rng.choice([i] + where[origin[i]])    # the value itself or a copy of it
        elif seq and twins and ctx.rng.random() < 0.6:
            a, b = ctx.rng.choice(twins)                     # another realisation of the value / a look-alike of it
            a, b = ctx.rng.choice([(a, b), (b, a)])
            i = ctx.rng.choice(where[a])
            seq[ctx.rng.randrange(len(seq))] = ctx.rng.choice(where[b])
        ins.append({'op': 'in', 'i': i + 1, 'seq': [j + 1 for j in seq], 'out': outcome(in_, vals[i], [vals[j] for j in seq])})
    obs += ins
    ctx.evals += len(ins)
    calls, calls_meta = random_histories(ctx, nhist) if nhist else ([], [])
    if nhist:
        more_calls, more_meta = random_wide_and_sessions(ctx, nhist, nhist // 2)
        calls, calls_meta = calls + more_calls, calls_meta + more_meta
    first_call = len(obs)
    obs += calls
    # operands afterwards: eq / in_ must not have modified anything
    for k, (v, ids) in enumerate(zip(vals, keep)):
        if renumber(project(v, ids), 10000 * (k + 1)) != logged[k]:
            ctx.violation('operand_changed', case_of('operand_changed', [logged[k]], [short(v)], names=('x',)), {'after': project(v, ids)})
    # (the thorough matrix is one log of > 1 M lines: it needs the heap the thorough tier always had, whatever VERIF_TLC_HEAP says)
    bad = ctx.validate('Trace_Eq', obs, whole=True, **({'heap': '6g'} if len(obs) > 600000 else {}))
    fnd, hfnd = Findings(ctx, 'c2s'), Findings(ctx, 'c2s-hist')
    for line, verdict in bad:
        o = obs[line - 1]
        verdict, _, at = verdict.partition('@')
        at = at or None
        for clause in [c for c in verdict.split('+') if c]:
            if clause in LAYOUT:
                raise Machinery('trace specification rejected the layout of the log: line %d %s' % (line, verdict))
            if o['op'] == 'eq':
                i, j = o['i'] - 1, o['j'] - 1
                if clause.startswith('intransitive:'):
                    k = int(clause.split(':')[1]) - 1
                    fnd.add('intransitive', [logged[i], logged[j], logged[k]], [short(vals[i]), short(vals[j]), short(vals[k])],
                            {'eq(x,y)': o['out'], 'eq(y,z)': 'T', 'eq(x,z)': 'F', 'i,j,k': [i + 1, j + 1, k + 1]}, at=at)
                else:
                    fnd.add(clause, [logged[i], logged[j]], [short(vals[i]), short(vals[j])],
                            {'eq(x,y)': o['out'], 'eq(y,x)': obs[1 + n + j * n + i]['out'], 'i,j': [i + 1, j + 1]}, at=at)
            elif o['op'] == 'call':
                hfnd.add(clause, [o['x'], o['y']], list(calls_meta[line - 1 - first_call]),
                         {'eq(x,y)': o['out'], 'history': o['h'], 'step': o['step'], 'earlier_calls_of_the_history': [c['out'] for c in calls if c['h'] == o['h'] and c['step'] < o['step']]}, at=at)
            elif o['op'] == 'in':
                i = o['i'] - 1
                seq = [j - 1 for j in o['seq']]
                fnd.add(clause, [logged[i], ['l', [logged[j] for j in seq]]], [short(vals[i]), short([vals[j] for j in seq])],
                        {'in_(x,y)': o['out'], 'eq(x,y[k])': [obs[1 + n + i * n + j]['out'] for j in seq]})
            else:
                raise Machinery('trace specification rejected the layout of the log: line %d %s' % (line, verdict))
    fnd.flush()
    hfnd.flush()
    if calls:
        ctx.extra['c14_c2s_histories'] = {'histories': len({c['h'] for c in calls}), 'calls': len(calls), 'calls_after_a_write': sum(1 for c in calls if c['step'] > 0),
                                          'answers': {k: sum(1 for c in calls if c['out'] == k) for k in sorted({c['out'] for c in calls})}}
        for c in calls:
            if c['step'] > 0 and c['out'] == 'T':
                ctx.note(('c2s-hist', c['h'], c['step']))
        ctx.sample({'c2s_call_after_writes': calls[-1]})
    # distinct non-trivial cases: pairs of different objects that eq calls equal, per pair of descriptors
    for i in range(n):
        for j in range(n):
            if i != j and obs[1 + n + i * n + j]['out'] == 'T' and nontrivial(logged[i]):
                ctx.note(('c2s', i, j))
    ctx.sample({'c2s_cell': {'x': short(vals[0]), 'desc_x': logged[0], 'y': short(vals[1]), 'desc_y': logged[1], 'out': obs[1 + n + 1]['out']}})
    ctx.sample({'c2s_in': ins[0]} if ins else {})
    outs = {}
    for o in obs[1 + n:]:
        key = o['op'] + ':' + o['out'].split(':')[0]
        outs[key] = outs.get(key, 0) + 1
    fam = {nm: sum(1 for d in logged if features([d])[nm]) for nm in ('reordered', 'view', 'nat')}
    aliased = sum(1 for i in range(n) for j in range(n) if i != j and logged[i][0] == 'v' and logged[j][0] == 'v'
                  and logged[i][1][1] == logged[j][1][1] and np.shares_memory(vals[i], vals[j]))
    ctx.extra['c14_universe'] = {'values_with_copies': n, 'cells': n * n, 'in_calls': len(ins), 'outcomes': outs,
                                 'values_holding_a_realisation_variant': fam, 'cells_between_arrays_sharing_memory': aliased,
                                 'descriptor_pairs_made_as_realisations_or_lookalikes': len(twins)}
    if len(descs) > 50 and (min(fam.values()) == 0 or aliased == 0):
        raise Machinery('vacuous: the observed matrix holds no realisation variants of some family: %r, aliased cells %d' % (fam, aliased))
    return n


def run(ctx):
    ctx.rule = ('MC: EqSpec is an equivalence on the abstract universe (every pair a state, third value quantified); a second block of '
                'pairs holds REALISATION VARIANTS of values - every insertion order of the dicts of a value at every depth, arrays / Series / '
                'frames that are views into one shared buffer at every offset and stride next to arrays owning the same cells, look-alikes '
                'with None / NaN / NaT in the same position - whose value is Norm(descriptor); what the statement pins is a function of the '
                'values alone. Mechanism models inside TLC: the recursion on realisations agrees with the law, three shortcuts that look at '
                'the realisation (insertion-ordered dict comparison, same-buffer-same-layout, pandas equals) are refuted. '
                'A third block holds look-alikes that Python\'s == / numpy\'s tolerant comparisons would let through: container-type '
                'mismatches below the top level (dict vs dict subclass, number vs 0-d / one-cell array inside lists, dict values, tuples) '
                'and numbers that are close but not equal (1e6 / 1e6+1, 1 / 1+2^-17, 0 / 2^-27) in every carrier of floats. '
                'MC_EqHist: a state machine over live mutable objects (list, dict, dict subclass, ndarray, two views of one buffer, Series, '
                'DataFrame) with the in-place writes x[k] = v, x.index / x.columns = .., d[k] = d.pop(k), append, pop; the answer expected '
                'from a call is what the statement pins for the CURRENT descriptors; an identity-keyed memo of earlier answers is refuted. '
                'SESSIONS (MC_EqHist, sess): a call has no memory - groups of four live objects that collide on whatever a memo inside eq '
                'could be keyed on (one class, one length, one text, ==-equal across types: a value, its copy, a shorter one whose '
                'index comparison raises inside eq, one with another cell; Series on Range / Datetime / label indexes, frames, a frame inside '
                'a record inside a list, arrays, 1 / 1.0 / "1" / np.int64(1), list / tuple, thorough also dicts / Dict, instants, NaNs, object '
                'Series / arrays); every ordered pair of calls eq(obj_i, obj_j) (i = j included) / in_(obj_i, [the others]), and call - '
                'the caller drops an operand and builds another value in its place - the same call again; thorough: TLC-simulated '
                'sessions of 4 calls with any rebuild / in-place write between them; a memo keyed by the pair of classes is refuted. '
                'WIDE (MC_EqWide): containers of 3 / 10 (thorough 2 .. 13, 20) structurally identical members - records of one / two keys, '
                'records holding lists / records, lists, arrays, Series, NaN-holding records, dict subclasses, scalars - in every container '
                'kind (list, tuple, dict, Dict, object array, object Series, a list / tuple / dict one level further down; for integer members also '
                'the cells of an int64 array / Series / frame, the labels of a Series, the column labels of a frame), y a copy '
                'with the member at ONE position - every position - replaced by one that differs (cell, key, type) or by another '
                'realisation of it; the pinned answer is that of the member pair at every width and position, in both argument orders; '
                'the walk over the members accumulates the law; an address-keyed memo fed with recycled temporaries is refuted. '
                'S2C: every TLC-enumerated pair of descriptors realised as Python values IN ONE WORLD (views of one buffer number share '
                'memory between the operands), eq compared with what the statement pins; in_ on TLC-enumerated (value, sequence); every '
                'TLC-enumerated history call - write - call (- write - call) replayed on real objects, each write read back and compared with '
                'the descriptor TLC computed, each call compared with what is pinned at that moment; every session replayed on fresh '
                'objects BEFORE any other comparison of the run (eq and in_ calls, rebuilds read back); every wide case eq(x, y), eq(y, x) '
                'and in_(the replaced member, the members of y). '
                'C2S: full matrix eq(x, y) over TLC\'s universe + hand-picked corners + seeded random nestings (random insertion orders, '
                'views into shared pool buffers, re-ordered / re-housed / other-missing-marker variants of each random value), each '
                'with a structural copy (values holding views: a second view object on the same memory and a copy in other memory), '
                'validated cell by cell (boolean, reflexive on copies and on other realisations, symmetric, transitive over '
                'every third value, pinned answers) by Trace_Eq; seeded random histories of in-place writes on random values and their copies, '
                'every call logged with the descriptors the two objects project to at that moment and judged against what is pinned for those; '
                'in the same way random WIDE pairs (a random member 6 .. 14 times in a random container kind, one - often late - position '
                'holding a near variant) and random SESSIONS (a random value, its copy, the value one item shorter, a near variant: 6 calls on '
                'random pairs). '
                'Non-trivial = a pair of different non-scalar objects that are equal '
                '(C2S) or a pair of different descriptors whose answer is pinned (S2C).')
    ctx.mc('MC_Eq', 'MC_Eq_quick.cfg' if ctx.quick else 'MC_Eq_thorough.cfg')
    ctx.mc('MC_Eq', 'MC_Eq_in.cfg' if ctx.quick else 'MC_Eq_in_thorough.cfg')
    # mechanism models against the law level, inside TLC only: today's recursion is expected to break
    # the statement on the model already; the recursion with the proposed repairs must satisfy it
    ctx.mc('MC_EqMech', 'MC_EqMech_today.cfg')
    for inv in (('TodayTotal', 'TodaySymmetric') if ctx.quick else ('TodayTotal', 'TodaySymmetric', 'TodayPinned', 'TodayCopies')):
        ctx.mc('MC_EqMech', 'MC_EqMech_today_%s.cfg' % inv, must_fail=inv)
    ctx.mc('MC_EqMech', 'MC_EqMech_fixed_quick.cfg' if ctx.quick else 'MC_EqMech_fixed_thorough.cfg')
    # shortcuts that look at the realisation instead of the value: each must be refuted on the block of variants
    for inv in (() if ctx.quick else ('RealOrderPinned', 'RealAliasPinned', 'RealMissingPinned')):
        ctx.mc('MC_EqMech', 'MC_EqMech_real_%s.cfg' % inv, must_fail=inv)
    # objects that change in place: the law is a function of the current values; an identity-keyed memo is refuted
    ctx.mc('MC_EqHist', 'MC_EqHist_quick.cfg' if ctx.quick else 'MC_EqHist_thorough.cfg')
    if not ctx.quick:
        ctx.mc('MC_EqHist', 'MC_EqHist_memo.cfg', must_fail='MemoAdmitted', coverage=False)
        ctx.mc('MC_EqHist', 'MC_EqHist_cmemo.cfg', must_fail='ClassMemoAdmitted', coverage=False)
    # wide containers: the walk over the members accumulates the law; an address-keyed memo fed with recycled temporaries is refuted
    if not ctx.quick:
        ctx.mc('MC_EqWide', 'MC_EqWide_thorough.cfg')
        ctx.mc('MC_EqWide', 'MC_EqWide_memo.cfg', must_fail='MemoWalkSound', coverage=False)
    # sessions first: what a call answers may not depend on what was compared before it - the histories are replayed before
    # the process has seen any other comparison of the run
    s2c_hist(ctx, ctx.generate('MC_EqHist', 'MC_EqHist_gen3.cfg' if ctx.quick else 'MC_EqHist_gen5.cfg'))
    if not ctx.quick:
        s2c_hist(ctx, ctx.generate('MC_EqHist', 'MC_EqHist_sim.cfg', simulate=400, depth=9, seed=ctx.seed + 1, workers=1), tag='sim')
    # (the generator run checks the clauses of MC_EqWide on every case it prints)
    s2c_wide(ctx, ctx.generate('MC_EqWide', 'MC_EqWide_gen.cfg' if ctx.quick else 'MC_EqWide_gent.cfg'), 'wide')
    base = s2c(ctx, ctx.generate('MC_Eq', 'MC_Eq_gen1.cfg' if ctx.quick else 'MC_Eq_gen3.cfg'), 'eq')
    s2c_in(ctx, ctx.generate('MC_Eq', 'MC_Eq_genin.cfg' if ctx.quick else 'MC_Eq_genin_thorough.cfg'))
    c2s(ctx, base, 50 if ctx.quick else 110, 300 if ctx.quick else 3000, nhist=150 if ctx.quick else 1500)
    ctx.exhaustive = False
    ctx.assumptions += [
        'numpy booleans count as booleans (eq returns np.bool_ from np.all)',
        'np.datetime64 instants are kept distinct from the datetime / Timestamp instants of the universe: numpy/pandas == between '
        'np.datetime64, pd.Timestamp and datetime of ONE instant (datetime != datetime64 == Timestamp == datetime) is not eq\'s doing; '
        'where a pair differs only by that reading nothing is pinned (named deviation Datetime64Triangle in spec/Eq.tla)',
        'dict keys are strings; pandas extension arrays are outside the universe: string cells / labels are held with dtype object; '
        'Series have no name, indexes no names',
        'arrays / pandas objects of equal shape, index, columns and cells that are not structural copies of each other (int64 vs float64 '
        'cells ...) are bound by the equivalence axioms only (named deviation SameCellsOtherCarrier): the statement says "only if"',
        'a dict is its key -> value mapping: the same mapping inserted in another order is a structural copy (== on dicts does not look '
        'at the order); an array is its dtype, shape and cells wherever they live: a view is a structural copy of an array owning the '
        'same cells, and two views of one buffer are equal iff their cells are (Eq!Norm)',
        'pd.NaT (the one object, held in lists / tuples / dicts / object-dtype arrays, Series, frames) is a scalar of the universe: equal '
        'to itself, different from None and every other value; whether it counts as a NaN is not pinned (named deviation NaTIsMissing); '
        'np.datetime64("NaT") and NaT cells of datetime64 arrays are outside the universe',
        'numbers are compared exactly, without tolerance (rationals in lowest terms, |numerator|, denominator < 2^31)',
        'eq speaks of the values its operands have at the moment of the call: an object written to in place is another value of the '
        'universe (writes: item / cell / label / re-inserted key / append / pop; a write through a view is seen by the other views of the buffer)',
        'a call has no memory: sessions are replayed in ONE process (module state of pyg_base cannot be reset between histories), each on '
        'fresh objects; what an earlier history left behind in the process can only add violations to a later one, never hide one of its own '
        '(every history is judged call by call against what is pinned for its operands); address re-use after a rebuild is likely, not guaranteed',
        'wide containers: the members of x are one descriptor repeated (NaN-holding members share one NaN object inside x; the members of y '
        'hold another one); widths up to 20; the replaced member sits at one position only',
        'small scope: MC / S2C on the fixed abstract universe of spec/MC_Eq.tla; C2S on the values actually built (seeded)',
    ]


def replay(ctx, body):
    """./check C14 --replay <file>: the values of the recorded example (and a copy of each) as a tiny
    universe - full matrix and in_ calls validated by Trace_Eq again"""
    ex = body['detail']['examples'][0]
    descs = []
    for d in ex['desc']:
        descs += d[1] if (body['case'].get('op') == 'in_' and d is ex['desc'][-1]) else [d]
    seen, uniq = set(), []
    for d in descs:
        d = renumber_back(d)
        if repr(d) not in seen:
            seen.add(repr(d))
            uniq.append(d)
    c2s(ctx, [], 0, 200, descs=uniq)
    for v in ctx.violations:
        print('  clause=%s pattern=%s x=%s y=%s%s' % (v['clause'], v['case']['pattern'], v['case'].get('x'), v['case'].get('y'),
                                                     ' z=%s' % v['case']['z'] if 'z' in v['case'] else ''))
    print('C14 replay: %d pattern(s) still violated' % len(ctx.violations))
    import shutil
    shutil.rmtree(ctx.tmp, ignore_errors=True)
    return 1 if ctx.violations else 0


def renumber_back(d):
    """descriptors in replay files carry the NaN identities and the buffer numbers of the logged universe; bring
    them back under TLC's integer range / into one world for a new universe"""
    return dmap(d, nan=lambda k: k % 10000 if k else 0, buf=lambda b: b % 100)
