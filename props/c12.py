"""C12 - df_fillna / nona fill or drop exactly the missing cells, arrays and pandas alike.

TLA+ (spec/Fill.tla) decides; this driver renders abstract frames (cells: -1 = NaN, values >= 0) into
numpy arrays / pd.Series / pd.DataFrame, calls df_fillna / nona, and encodes result and argument."""
import datetime, math, warnings
import numpy as np
import pandas as pd
from harness.x_pool import pmap

NAN = -1
BASE = datetime.datetime(2020, 1, 1)
# row label -> date of the S2C replays: an irregular daily index (gaps, a weekend, a month end)
S2C_OFFSETS = [0, 1, 2, 5, 6, 9, 30, 31, 33, 40, 41, 45]
COLNAMES = ['a', 'b', 'c', 'd']
FFILLX = ('ffill_na', 'ffill_0')


# ---------------------------------------------------------------------------------------------
# rendering abstract -> concrete
# ---------------------------------------------------------------------------------------------
def carriers_of(f):
    return ['arr1', 'ser', 'arr2', 'df'] if len(f['cols']) == 1 else ['arr2', 'df']


def build(f, carrier, offsets):
    n, k = len(f['rows']), len(f['cols'])
    a = np.full((n, k), np.nan)
    for j, col in enumerate(f['cols']):
        for i, c in enumerate(col):
            if c != NAN:
                a[i, j] = float(c)
    idx = pd.DatetimeIndex([BASE + datetime.timedelta(days=offsets[r - 1]) for r in f['rows']])
    if carrier == 'arr1':
        return a[:, 0].copy()
    if carrier == 'arr2':
        return a
    if carrier == 'ser':
        return pd.Series(a[:, 0].copy(), idx)
    if carrier == 'df':
        return pd.DataFrame(a, idx, columns=COLNAMES[:k])
    raise ValueError(carrier)


def render_method(m, style):
    name, arg = m
    if name == 'const':
        return float(arg) if style % 2 else int(arg)
    if name == 'bfill' and style % 3 == 2:
        return 'backfill'
    return name


def render_methods(ms, style):
    """style picks among the spellings of the same method list (bare string / list, None / [])"""
    if len(ms) == 0:
        return None if style % 2 == 0 else []
    if len(ms) == 1 and style % 2 == 0:
        return render_method(ms[0], style // 2)
    return [render_method(m, style // 2) for m in ms]


# ---------------------------------------------------------------------------------------------
# encoding concrete -> abstract
# ---------------------------------------------------------------------------------------------
def cell(v):
    try:
        v = float(v)
    except Exception:
        return -3
    if math.isnan(v):
        return NAN
    if v == int(v) and 0 <= v < 2 ** 31 - 1:
        return int(v)
    return -2                       # a value no input or constant can explain


def labels(index, offsets):
    inv = {BASE + datetime.timedelta(days=o): r + 1 for r, o in enumerate(offsets)}
    out = []
    for t in index:
        try:
            out.append(inv.get(pd.Timestamp(t).to_pydatetime(), -9))
        except Exception:
            out.append(-9)
    return out


def enc_out(res, carrier, k, offsets):
    bad = {'kind': 'val', 'dim': 0, 'rows': [], 'cols': [], 'type': type(res).__name__}
    if carrier in ('arr1', 'arr2'):
        if not isinstance(res, np.ndarray):
            return bad
        if res.ndim == 1:
            return {'kind': 'val', 'dim': 1, 'rows': [], 'cols': [[cell(v) for v in res]]}
        if res.ndim == 2:
            return {'kind': 'val', 'dim': 2, 'rows': [], 'cols': [[cell(v) for v in res[:, j]] for j in range(res.shape[1])]}
        return bad
    if carrier == 'ser':
        if not isinstance(res, pd.Series):
            return bad
        return {'kind': 'val', 'dim': 1, 'rows': labels(res.index, offsets), 'cols': [[cell(v) for v in res.values]]}
    if not isinstance(res, pd.DataFrame) or list(res.columns) != COLNAMES[:res.shape[1]]:
        return bad
    return {'kind': 'val', 'dim': 2, 'rows': labels(res.index, offsets),
            'cols': [[cell(v) for v in res.iloc[:, j].values] for j in range(res.shape[1])]}


def enc_after(x, carrier, k, offsets):
    if carrier in ('arr1', 'arr2'):
        cols = [[cell(v) for v in x]] if x.ndim == 1 else [[cell(v) for v in x[:, j]] for j in range(x.shape[1])]
        return {'rows': list(range(1, x.shape[0] + 1)), 'cols': cols, 'dtype': str(x.dtype), 'shape': list(x.shape)}
    if carrier == 'ser':
        return {'rows': labels(x.index, offsets), 'cols': [[cell(v) for v in x.values]], 'dtype': str(x.dtype), 'shape': list(x.shape)}
    dts = sorted({str(d) for d in x.dtypes})
    ok = list(x.columns) == COLNAMES[:k]
    return {'rows': labels(x.index, offsets), 'cols': [[cell(v) for v in x.iloc[:, j].values] for j in range(x.shape[1])],
            'dtype': (dts[0] if len(dts) == 1 else 'mixed') if ok else 'columns_renamed', 'shape': list(x.shape)}


# ---------------------------------------------------------------------------------------------
# one abstract call on every carrier
# ---------------------------------------------------------------------------------------------
def observe(case):
    """case: {op, f, ms, lim, edge, style, offsets} -> the observation of Trace_Fill"""
    from pyg_base import df_fillna, nona
    f, offsets = case['f'], case.get('offsets') or S2C_OFFSETS
    k = len(f['cols'])
    runs = []
    for carrier in carriers_of(f):
        x = build(f, carrier, offsets)
        try:
            with warnings.catch_warnings():
                warnings.simplefilter('ignore')
                if case['op'] == 'fillna':
                    limit = None if case['lim'] == 0 else case['lim']
                    res = df_fillna(x, render_methods(case['ms'], case.get('style', 0)), limit=limit)
                else:
                    edge = None if case['edge'] == 0 else case['edge']
                    res = nona(x, edge=edge)
            out = enc_out(res, carrier, k, offsets)
        except Exception as e:
            out = {'kind': 'exc', 'cls': type(e).__name__, 'dim': 0, 'rows': [], 'cols': []}
        runs.append({'carrier': carrier, 'out': out, 'after': enc_after(x, carrier, k, offsets)})
    return {'op': case['op'], 'f': f, 'ms': case.get('ms', []), 'lim': case.get('lim', 0), 'edge': case.get('edge', 0),
            'style': case.get('style', 0), 'runs': runs}


def form_of(ms):
    if len(ms) == 0:
        return 'empty'
    if len(ms) == 1:
        return 'single'
    return 'list_ffillx' if any(m[0] in FFILLX for m in ms) else 'list'


def case_key(o, carrier=None):
    """the stable, matchable description of a failing case: op, form (shape of the method list), two traits of
    the input (fnna_after_drop: an fnna follows a row-dropping method) and one symptom (columns_lost: a 2-d
    result came back without its columns), then the input itself"""
    ms = o['ms']
    runs = [r for r in o['runs'] if carrier is None or r['carrier'] == carrier]
    c = {'op': 'df_fillna' if o['op'] == 'fillna' else 'nona', 'form': form_of(ms) if o['op'] == 'fillna' else 'edge%d' % o['edge'],
         'fnna_after_drop': any(m[0] == 'fnna' and any(p[0] in ('nona', 'fnna') for p in ms[:i]) for i, m in enumerate(ms)),
         'symptom': 'columns_lost' if any(r['out']['dim'] == 2 and r['out']['cols'] == [] for r in runs) else 'values',
         'ncols': len(o['f']['cols']), 'ms': ms, 'lim': o['lim'], 'edge': o['edge'], 'f': o['f']}
    if carrier:
        c['carrier'] = carrier
    return c


DIM = {'arr1': 1, 'ser': 1, 'arr2': 2, 'df': 2}


def nontrivial(f, outs):
    cells = [c for col in f['cols'] for c in col]
    return NAN in cells and any(c != NAN for c in cells) and any(o.get('cols') != f['cols'] for o in outs)


def s2c_chunk(cases):
    """replay TLC's cases: plain == against the single expected outcome; cases for which the
    specification admits several outcomes are returned as observations for Trace_Fill"""
    res = []
    for case in cases:
        f = case['f']
        n, k = len(f['rows']), len(f['cols'])
        viol, deferred, nevals = [], [], 0
        styles = [case.get('style', 1)]
        calls = [dict(op='fillna', f=f, ms=case['ms'], lim=case['lim'], style=s, want=case['want']) for s in styles]
        for e, g in zip((0, 1, -1), case['nonafn']):
            calls.append(dict(op='nona', f=f, edge=e, want=[g]))
        nt = False
        for c in calls:
            o = observe(c)
            nevals += len(o['runs'])
            want = c['want']
            nt = nt or nontrivial(f, [r['out'] for r in o['runs']])
            if len(want) != 1 or (c['op'] == 'nona' and c['edge'] != 0):
                deferred.append(o)       # several admitted outcomes: TLC judges (Trace_Fill)
                continue
            w = want[0]
            for r in o['runs']:
                cr, out = r['carrier'], r['out']
                exp_after = {'rows': f['rows'], 'cols': f['cols'], 'dtype': 'float64', 'shape': [n] if DIM[cr] == 1 else [n, k]}
                if r['after'] != exp_after:
                    viol.append(('input_modified', case_key(o, cr), {'after': r['after']}))
                elif out['kind'] == 'exc':
                    viol.append(('raised', case_key(o, cr), {'expected': w, 'observed': out}))
                elif out['dim'] != DIM[cr]:
                    viol.append(('result_shape', case_key(o, cr), {'expected': w, 'observed': out}))
                elif cr in ('arr1', 'arr2'):
                    if out['cols'] != w['cols']:
                        viol.append(('array_result', case_key(o, cr), {'expected': w['cols'], 'observed': out['cols']}))
                elif {'rows': out['rows'], 'cols': out['cols']} != w:
                    viol.append(('pandas_result', case_key(o, cr), {'expected': w, 'observed': {'rows': out['rows'], 'cols': out['cols']}}))
        res.append((viol, deferred, nevals, nt))
    return res


def c2s_chunk(cases):
    return [observe(c) for c in cases]


PENDING = []       # (clause, case, detail) of the whole run; reported at the end, one representative per kind first


def report(ctx):
    """hand the collected violations to the harness: first one per (clause, op, form, traits, carrier), then the rest"""
    seen, first, rest = set(), [], []
    for v in PENDING:
        c = v[1]
        k = (v[0], c['op'], c['form'], c['fnna_after_drop'], c['symptom'], c.get('carrier'))
        (rest if k in seen else first).append(v)
        seen.add(k)
    for clause, key, detail in first + rest:
        ctx.violation(clause, key, detail)
    del PENDING[:]


def canonical(cases):
    """TLC's workers print the cases in a schedule-dependent order: sort them, so that sampling and the choice of
    spellings depend on the seed only"""
    import json
    return sorted(cases, key=lambda c: json.dumps(c, sort_keys=True))


def s2c(ctx, cases, tag):
    for i, c in enumerate(cases):
        c['style'] = i % 12              # which spelling of the method list is used for this case
    out = pmap(s2c_chunk, cases, chunk=250)
    deferred = []
    for i, (case, (viol, dfr, nevals, nt)) in enumerate(zip(cases, out)):
        PENDING.extend(viol)
        deferred += dfr
        ctx.evals += nevals
        ctx.traces += 1
        if nt:
            ctx.note(('s2c', repr((case['f']['cols'], case['ms'], case['lim']))))
        if i % 20011 == 7:
            ctx.sample({'s2c_case_' + tag: case})
    if deferred:
        judge(ctx, deferred)
    return len(deferred)


def judge(ctx, obs):
    """C2S: TLC validates the observations against Trace_Fill"""
    bad = ctx.validate('Trace_Fill', obs)
    for i, clause in bad:
        o = obs[i - 1]
        PENDING.append((clause, case_key(o), {'runs': [{'carrier': r['carrier'], 'out': r['out']} for r in o['runs']]}))
    return bad


# ---------------------------------------------------------------------------------------------
# C2S inputs
# ---------------------------------------------------------------------------------------------
def rand_column(rng, n):
    style = rng.choice(['runs', 'runs', 'runs', 'allnan', 'full', 'sparse', 'lead', 'trail'])
    if style == 'allnan':
        return [NAN] * n
    col = []
    valid = rng.random() < 0.5
    if style == 'lead':
        valid = False
    while len(col) < n:
        run = rng.choice([1, 1, 2, 3, 4, 6, 9])
        if style == 'sparse' and valid:
            run = 1
        if style == 'full':
            valid, run = True, n
        col += [rng.choice([0, 7, rng.randrange(1, 1000), rng.randrange(1, 2000000)]) if valid else NAN for _ in range(run)]
        valid = not valid
    col = col[:n]
    if style == 'trail' and n:
        t = rng.randrange(1, n + 1)
        col[-t:] = [NAN] * t
    return col


def rand_case(rng):
    n = rng.choice([0, 1, 2, 3, 5, 8, 13, 21, 34, 40, rng.randrange(0, 41)])
    k = rng.choice([1, 1, 2, 2, 3])
    cols = [rand_column(rng, n) for _ in range(k)]
    if k > 1 and n and rng.random() < 0.5:       # make some rows entirely NaN
        for i in rng.sample(range(n), rng.randrange(0, n // 2 + 1)):
            for c in cols:
                c[i] = NAN
    f = {'rows': list(range(1, n + 1)), 'cols': cols}
    offs, t = [], 0
    for _ in range(n):
        offs.append(t)
        t += rng.choice([1, 1, 1, 2, 3, 7, 30])
    if rng.random() < 0.2:
        return {'op': 'nona', 'f': f, 'edge': rng.choice([0, 1, -1]), 'offsets': offs}
    names = ['ffill', 'bfill', 'const', 'nona', 'fnna', 'ffill_na', 'ffill_0']
    ms = []
    for _ in range(rng.choice([0, 1, 1, 1, 2, 2, 3])):
        nm = rng.choice(names)
        ms.append([nm, rng.choice([0, 7, 5, 123456]) if nm == 'const' else 0])
    lim = rng.choice([0, 0, 1, 2, 3, 4, 6, max(n, 1), n + 5])
    return {'op': 'fillna', 'f': f, 'ms': ms, 'lim': lim, 'style': rng.randrange(0, 12), 'offsets': offs}


def c2s(ctx, ncases):
    cases = [rand_case(ctx.rng) for _ in range(ncases)]
    obs = pmap(c2s_chunk, cases, chunk=100)
    ctx.evals += sum(len(o['runs']) for o in obs)
    judge(ctx, obs)
    for o in obs:
        if nontrivial(o['f'], [r['out'] for r in o['runs']]):
            ctx.note(('c2s', repr((o['f']['cols'], o['ms'], o['lim'], o['op'], o['edge']))))
    ctx.sample({'c2s_observation': obs[len(obs) // 2]})
    return obs


def replay(ctx, body):
    """./check C12 --replay <file>: run the recorded case again and let Trace_Fill judge it"""
    import json, shutil
    c = body['case']
    o = observe({'op': 'fillna' if c['op'] == 'df_fillna' else 'nona', 'f': c['f'], 'ms': c['ms'], 'lim': c['lim'], 'edge': c['edge'], 'style': 1})
    bad = ctx.validate('Trace_Fill', [o])
    print(json.dumps({'case': c, 'runs': o['runs']})[:4000])
    print('REPLAY property=C12 %s' % ('rejected: %s' % bad[0][1] if bad else 'accepted by the specification'))
    shutil.rmtree(ctx.tmp, ignore_errors=True)
    return 1 if bad else 0


def run(ctx):
    ctx.rule = ('S2C: every (NaN mask, method list, limit) TLC enumerates is replayed on np.ndarray (1-d and n x k), pd.Series '
                'and pd.DataFrame (date index) and compared with == to the outcome TLC printed (argument re-read after the '
                'call: cells, dtype, shape); cases with several admitted outcomes, nona(edge) and the C2S runs (random vectors '
                '/ frames <= 40 rows, 1-3 columns, lists of <= 3 methods) are judged by Trace_Fill.  Non-trivial = the input '
                'has both NaN and valid cells and the call changed something; distinct by (cells, methods, limit).')
    if ctx.quick:
        ctx.mc('MC_Fill', 'MC_Fill_quick.cfg')
        cases = canonical(ctx.generate('MC_Fill', 'MC_Fill_gen.cfg'))
        short = [c for c in cases if len(c['ms']) <= 1]
        pairs = [c for c in cases if len(c['ms']) > 1]
        s2c(ctx, short + ctx.rng.sample(pairs, 7000), 'quick')     # thorough replays every case
        ctx.extra['s2c_enumerated'] = len(cases)
        c2s(ctx, 400)
    else:
        ctx.mc('MC_Fill', 'MC_Fill_thorough.cfg')
        ctx.mc('MC_Fill', 'MC_Fill_thorough3.cfg')
        s2c(ctx, canonical(ctx.generate('MC_Fill', 'MC_Fill_gen_big.cfg')), 'big')
        s2c(ctx, canonical(ctx.generate('MC_Fill', 'MC_Fill_gen3.cfg')), 'triples')
        c2s(ctx, 6000)
    report(ctx)
    ctx.exhaustive = False
    ctx.assumptions += [
        'cells are data-independent: values are non-negative integer-valued floats (NaN = -1 in the encoding); position codes in MC',
        'small-scope: MC/S2C vectors <= 6 (thorough 8) cells, frames <= 4x2 (thorough 5x2), lists of <= 2 (thorough 3) methods; C2S <= 40 rows',
        'named deviations accepted by the specification: ConstLimit (a constant under a limit fills all or the first `limit` NaNs per column), '
        'NoValidObservation (ffill_na/ffill_0 on a column without any valid cell: unchanged or all tail value), '
        'ArrayIgnoresEdge (nona(array, edge) ignores edge; edge is not part of the statement)',
        'interpolation methods, "pad" (rejected by pandas 3), axis=1 and nona(value=...) are outside the statement and not exercised',
    ]
