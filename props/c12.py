"""C12 - df_fillna / nona fill or drop exactly the missing cells, arrays and pandas alike.

TLA+ (spec/Fill.tla) decides; this driver renders abstract frames (cells: -1 = NaN, values >= 0, symbolic codes
for the strange floats: spec/Fill.tla Specials) into numpy arrays / pd.Series / pd.DataFrame, calls df_fillna /
nona - single calls and histories of calls on shared objects - and encodes results and arguments."""
import datetime, json, math, random, struct, sys, warnings
import numpy as np
import pandas as pd
from harness.x_pool import pmap

NAN = -1
# Fill.tla Specials: floats that are NOT missing
SPECIAL = {-2: float('inf'), -3: float('-inf'), -4: -0.0, -5: sys.float_info.max, -6: -sys.float_info.max,
           -7: 5e-324, -8: 0.5, -9: -3.5}
BITS = {struct.pack('<d', v): c for c, v in SPECIAL.items()}
UNEXPLAINED, UNREADABLE = -99, -98
BASE = datetime.datetime(2020, 1, 1)
# row label code -> offset of the S2C replays: an irregular index (gaps, a weekend, a month end); the first is 0
S2C_OFFSETS = [0, 1, 2, 5, 6, 9, 30, 31, 33, 40, 41, 45, 46, 50, 61, 62]
COLNAMES = ['a', 'b', 'c', 'd']
FFILLX = ('ffill_na', 'ffill_0')
IX_KINDS = ['date', 'int0', 'int', 'float', 'str', 'range']      # how a label code is rendered; range = the default index
LABEL_FREE = ('ffill', 'bfill', 'const', 'nona')


# ---------------------------------------------------------------------------------------------
# rendering abstract -> concrete
# ---------------------------------------------------------------------------------------------
def carriers_of(f):
    return ['arr1', 'ser', 'arr2', 'df'] if len(f['cols']) == 1 else ['arr2', 'df']


def value_of(c):
    if c == NAN:
        return float('nan')
    if c in SPECIAL:
        return SPECIAL[c]
    if c <= -1000:
        return float(c + 1000)          # Fill.tla NegInt(k) = -1000 - k  is the float -k
    return float(c)


def label_of(code, ix, offsets):
    o = offsets[code - 1]
    if ix == 'date':
        return BASE + datetime.timedelta(days=o)
    if ix == 'int0':
        return int(o)                   # offsets start at 0: the first label is falsy
    if ix == 'int':
        return int(o) + 5
    if ix == 'float':
        return o + 0.5
    if ix == 'str':
        return 'r%04d' % o
    if ix == 'range':
        return code - 1
    raise ValueError(ix)


def colnames(k, style=0):
    """the column labels of the DataFrame carrier play no part: plain, repeated, integer and reversed names take turns"""
    kind = ('ab', 'ab', 'dup', 'int', 'rev')[(style // 3) % 5]
    if kind == 'dup':
        return ['a'] * k
    if kind == 'int':
        return list(range(k))
    if kind == 'rev':
        return COLNAMES[:k][::-1]
    return COLNAMES[:k]


def ix_for(f, ix):
    """the default RangeIndex exists for the labels 1..n only"""
    return 'int0' if ix == 'range' and f['rows'] != list(range(1, len(f['rows']) + 1)) else ix


def make_index(codes, ix, offsets):
    labs = [label_of(r, ix, offsets) for r in codes]
    if ix == 'date':
        return pd.DatetimeIndex(labs)
    return pd.Index(labs, dtype={'int0': 'int64', 'int': 'int64', 'float': 'float64', 'str': object, 'range': 'int64'}[ix])


def build(f, carrier, offsets, ix='date', style=0):
    n, k = len(f['rows']), len(f['cols'])
    a = np.full((n, k), np.nan)
    for j, col in enumerate(f['cols']):
        for i, c in enumerate(col):
            if c != NAN:
                a[i, j] = value_of(c)
    if carrier == 'arr1':
        return a[:, 0].copy()
    if carrier == 'arr2':
        return a
    ix = ix_for(f, ix)
    if ix == 'range':
        return pd.Series(a[:, 0].copy()) if carrier == 'ser' else pd.DataFrame(a, columns=colnames(k, style))
    idx = make_index(f['rows'], ix, offsets)
    if carrier == 'ser':
        return pd.Series(a[:, 0].copy(), idx)
    if carrier == 'df':
        return pd.DataFrame(a, idx, columns=colnames(k, style))
    raise ValueError(carrier)


def render_method(m, style):
    name, arg = m
    if name == 'const':
        return float(arg) if style % 2 else int(arg)
    if name == 'bfill' and style % 3 == 2:
        return 'backfill'
    return name


def render_methods(ms, style):
    """style picks among the spellings of the same method list (bare string / list / tuple, None / [])"""
    if len(ms) == 0:
        return None if style % 2 == 0 else []
    if len(ms) == 1 and style % 2 == 0:
        return render_method(ms[0], style // 2)
    out = [render_method(m, style // 2) for m in ms]
    return tuple(out) if style % 12 == 11 else out


NAMES = {'ffill': 'ffill', 'bfill': 'bfill', 'backfill': 'bfill', 'nona': 'nona', 'fnna': 'fnna', 'ffill_na': 'ffill_na', 'ffill_0': 'ffill_0'}


def unrender_methods(obj):
    """what a method-list object holds, as the pairs of Fill.tla"""
    out = []
    for m in list(obj):
        if isinstance(m, str):
            out.append([NAMES.get(m, '?' + m), 0])
        elif isinstance(m, (int, float)) and not isinstance(m, bool) and m == int(m):
            out.append(['const', int(m)])
        else:
            out.append(['?', 0])
    return out


def first_cell(x, code):
    """an element read from the data that holds the cell `code` (None if there is none)"""
    a = x if isinstance(x, np.ndarray) else x.values
    flat = a.ravel()
    for i in range(flat.shape[0]):
        if cell(flat[i]) == code:
            if isinstance(x, np.ndarray):
                return x[np.unravel_index(i, x.shape)]
            if isinstance(x, pd.Series):
                return x.iloc[i]
            return x.iat[np.unravel_index(i, a.shape)]
    return None


def render_value(v, spell, x):
    """the `value` argument of nona: a cell code spelled the way the specification's case says"""
    if v == NAN:
        if spell == 'np.nan':
            return np.nan
        if spell == 'float':
            return float('nan')
        if spell == 'math':
            return math.nan
        if spell == 'np.float64':
            return np.float64('nan')
        if spell == 'np.float32':
            return np.float32('nan')
        if spell == 'negative':
            return float('-nan')
        if spell == 'cell':
            c = first_cell(x, NAN)
            if c is not None:
                return c
        with np.errstate(all='ignore'):
            return np.float64(np.inf) - np.float64(np.inf)          # 'computed'
    val = value_of(v)
    if spell == 'int' and math.isfinite(val) and val == int(val) and struct.pack('<d', val) not in BITS:
        return int(val)
    if spell == 'np.float64':
        return np.float64(val)
    if spell == 'cell':
        c = first_cell(x, v)
        if c is not None:
            return c
    return float(val)


# ---------------------------------------------------------------------------------------------
# encoding concrete -> abstract
# ---------------------------------------------------------------------------------------------
def cell(v):
    try:
        v = float(v)
    except Exception:
        return UNREADABLE
    if math.isnan(v):
        return NAN
    b = struct.pack('<d', v)
    if b in BITS:
        return BITS[b]
    if v == int(v) and 0 <= v < 2 ** 31 - 1:
        return int(v)
    if v == int(v) and -2 ** 30 < v < 0:
        return int(v) - 1000
    return UNEXPLAINED                  # a value no input or constant can explain


def norm_label(t):
    if isinstance(t, (pd.Timestamp, datetime.datetime, np.datetime64)):
        return pd.Timestamp(t).to_pydatetime()
    if isinstance(t, (bool, np.bool_)):
        return ('bool', bool(t))
    if isinstance(t, (int, np.integer)):
        return int(t)
    if isinstance(t, (float, np.floating)):
        return float(t)
    return t


def labels(index, offsets, ix='date'):
    inv = {}
    for code in range(1, len(offsets) + 1):
        inv[(type(norm_label(label_of(code, ix, offsets))), norm_label(label_of(code, ix, offsets)))] = code
    out = []
    for t in index:
        try:
            t = norm_label(t)
            out.append(inv.get((type(t), t), -9))
        except Exception:
            out.append(-9)
    return out


def enc_out(res, carrier, k, offsets, ix='date', style=0):
    bad = {'kind': 'val', 'dim': 0, 'rows': [], 'cols': [], 'type': type(res).__name__}
    if carrier in ('arr1', 'arr2'):
        if not isinstance(res, np.ndarray):
            return bad
        if res.ndim == 1:
            return {'kind': 'val', 'dim': 1, 'rows': [], 'cols': [[cell(v) for v in res]]}
        if res.ndim == 2:
            return {'kind': 'val', 'dim': 2, 'rows': [], 'cols': [[cell(v) for v in res[:, j]] for j in range(res.shape[1])]}
        return bad
    if carrier == 'ser':
        if not isinstance(res, pd.Series):
            return bad
        return {'kind': 'val', 'dim': 1, 'rows': labels(res.index, offsets, ix), 'cols': [[cell(v) for v in res.values]]}
    if not isinstance(res, pd.DataFrame) or list(res.columns) != colnames(k, style)[:res.shape[1]] or res.shape[1] > k:
        return bad
    return {'kind': 'val', 'dim': 2, 'rows': labels(res.index, offsets, ix),
            'cols': [[cell(v) for v in res.iloc[:, j].values] for j in range(res.shape[1])]}


def enc_after(x, carrier, k, offsets, ix='date', style=0):
    if carrier in ('arr1', 'arr2'):
        cols = [[cell(v) for v in x]] if x.ndim == 1 else [[cell(v) for v in x[:, j]] for j in range(x.shape[1])]
        return {'rows': list(range(1, x.shape[0] + 1)), 'cols': cols, 'dtype': str(x.dtype), 'shape': list(x.shape)}
    if carrier == 'ser':
        return {'rows': labels(x.index, offsets, ix), 'cols': [[cell(v) for v in x.values]], 'dtype': str(x.dtype), 'shape': list(x.shape)}
    dts = sorted({str(d) for d in x.dtypes})
    ok = list(x.columns) == colnames(k, style)
    return {'rows': labels(x.index, offsets, ix), 'cols': [[cell(v) for v in x.iloc[:, j].values] for j in range(x.shape[1])],
            'dtype': (dts[0] if len(dts) == 1 else 'mixed') if ok else 'columns_renamed', 'shape': list(x.shape)}


def exp_after(f, carrier):
    """the encoding of an untouched argument: arrays have no labels (their rows are numbered 1..n)"""
    n, k = len(f['rows']), len(f['cols'])
    return {'rows': list(range(1, n + 1)) if carrier in ('arr1', 'arr2') else f['rows'], 'cols': f['cols'], 'dtype': 'float64',
            'shape': [n] if DIM[carrier] == 1 else [n, k]}


RAISED = object()


def exc_out(e):
    return {'kind': 'exc', 'cls': type(e).__name__, 'dim': 0, 'rows': [], 'cols': []}


# ---------------------------------------------------------------------------------------------
# one abstract call / one abstract history on every carrier
# ---------------------------------------------------------------------------------------------
def observe(case):
    """case: {op, f, ms, lim, edge, value, spell, style, offsets, ix, calls} -> the observation of Trace_Fill"""
    if case['op'] == 'session':
        return observe_session(case)
    if case['op'] == 'psession':
        return observe_psession(case)
    from pyg_base import df_fillna, nona
    f, offsets, style = case['f'], case.get('offsets') or S2C_OFFSETS, case.get('style', 0)
    k = len(f['cols'])
    edge, value, spell = case.get('edge', 0), case.get('value', NAN), case.get('spell', 'default')
    ix = ix_for(f, case.get('ix', 'date'))
    runs = []
    for carrier in carriers_of(f):
        x = build(f, carrier, offsets, ix, style)
        if case['op'] == 'fillna':
            marg, limit = render_methods(case['ms'], style), None if case['lim'] == 0 else case['lim']
        else:
            kw = {} if edge == 0 and style % 2 else {'edge': None if edge == 0 else edge}
            varg = None if value == NAN and spell == 'default' else render_value(value, spell, x)
        try:
            with warnings.catch_warnings():
                warnings.simplefilter('ignore')
                if case['op'] == 'fillna':
                    res = df_fillna(x, method=marg, limit=limit) if style % 5 == 4 else df_fillna(x, marg, limit=limit)
                elif varg is None:
                    res = nona(x, **kw)
                else:
                    res = nona(x, varg, **kw) if style % 3 == 0 else nona(x, value=varg, **kw)
        except Exception as e:
            res, out = RAISED, exc_out(e)
        if res is not RAISED:
            out = enc_out(res, carrier, k, offsets, ix, style)
        runs.append({'carrier': carrier, 'out': out, 'after': enc_after(x, carrier, k, offsets, ix, style)})
    return {'op': case['op'], 'f': f, 'ms': case.get('ms', []), 'lim': case.get('lim', 0), 'edge': edge, 'value': value, 'spell': spell,
            'style': style, 'ix': ix, 'lab': case.get('lab', ''), 'runs': runs}


def observe_session(case):
    """a history of df_fillna calls on the caller's objects: the input object x, the shared method-list object M (a list,
    or a tuple for style % 4 == 3) and the object the previous call returned; every object is re-read after every call"""
    from pyg_base import df_fillna
    f, offsets, style = case['f'], case.get('offsets') or S2C_OFFSETS, case.get('style', 0)
    k = len(f['cols'])
    ix = ix_for(f, case.get('ix', 'date'))
    runs = []
    for carrier in carriers_of(f):
        x = build(f, carrier, offsets, ix, style)
        M = [render_method(m, style // 2) for m in case['ms']]
        if style % 4 == 3:
            M = tuple(M)
        prev, steps = x, []
        for c in case['calls']:
            inp = x if c['src'] == 'x' else prev
            marg = M if c['obj'] == 'M' else render_methods(c['ms'], style)
            limit = None if c['lim'] == 0 else c['lim']
            try:
                with warnings.catch_warnings():
                    warnings.simplefilter('ignore')
                    res = df_fillna(inp, marg, limit=limit)
            except Exception as e:
                res, out = RAISED, exc_out(e)
            if res is not RAISED:
                out, prev = enc_out(res, carrier, k, offsets, ix, style), res
            inp_after = enc_out(inp, carrier, k, offsets, ix, style)
            steps.append({'out': out, 'after': enc_after(x, carrier, k, offsets, ix, style), 'm_after': unrender_methods(M),
                          'inp_after': {'rows': inp_after['rows'], 'cols': inp_after['cols']}})
        runs.append({'carrier': carrier, 'steps': steps})
    return {'op': 'session', 'f': f, 'ms': case['ms'], 'lim': case.get('lim', 0), 'edge': 0, 'value': NAN, 'spell': 'default',
            'style': style, 'ix': ix, 'lab': case.get('lab', ''), 'calls': case['calls'], 'runs': runs}


IN_PLACE = ('poke', 'put')


def shares(a, b):
    """the object a is b or (arrays: a slice is a view) shares its data with b"""
    return a is b or (isinstance(a, np.ndarray) and isinstance(b, np.ndarray) and np.shares_memory(a, b))


def derive(r, d, carrier, n0, offsets, ix):
    """the caller's own action between two calls (Fill.tla Derive), done the way a caller does it with pandas / numpy; `poke`
    (an observation is withdrawn) and `put` (one arrives) edit the object IN PLACE (a read-only array - what pandas hands out
    as .values - has to be copied first)"""
    kind, nan = d['kind'], float('nan')
    v = value_of(900 + d['i']) if kind == 'put' else nan          # Fill.tla PutValue
    if carrier in ('arr1', 'arr2'):
        if kind == 'extend':
            return np.concatenate([r, np.full((d['k'],) + r.shape[1:], nan)])
        if kind == 'lag':
            return np.concatenate([np.full((1,) + r.shape[1:], nan), r[:-1]]) if r.shape[0] else r.copy()
        if kind in IN_PLACE:
            if not r.flags.writeable:
                r = np.array(r)
            if r.ndim == 1 or d['j'] == 0:
                r[d['i'] - 1] = v
            else:
                r[d['i'] - 1, d['j'] - 1] = v
            return r
        if kind == 'head':
            return r[:-1]
        if kind == 'tail':
            return r[1:]
        if kind == 'copy':
            return r.copy()
        if kind == 'values':
            return np.array(r.tolist(), dtype=float).reshape(r.shape)
        if kind == 'arith':
            return r * 1
        raise ValueError(kind)
    if kind == 'extend':
        top = max([n0] + [c for c in labels(r.index, offsets, ix) if c > 0])
        return r.reindex(r.index.append(make_index(list(range(top + 1, top + 1 + d['k'])), ix, offsets)))
    if kind == 'calendar':
        return r.reindex(make_index(list(range(1, n0 + d['k'] + 1)), ix, offsets))
    if kind == 'lag':
        return r.shift(1)
    if kind in IN_PLACE:
        if carrier == 'ser':
            r.iloc[d['i'] - 1] = v
        elif d['j'] == 0:
            r.iloc[d['i'] - 1, :] = v
        else:
            r.iloc[d['i'] - 1, d['j'] - 1] = v
        return r
    if kind == 'head':
        return r.iloc[:-1]
    if kind == 'tail':
        return r.iloc[1:]
    if kind == 'copy':
        return r.copy()
    if kind == 'values':
        return pd.Series(r.values.copy(), r.index) if carrier == 'ser' else pd.DataFrame(r.values.copy(), r.index, r.columns)
    if kind == 'arith':
        return r * 1
    raise ValueError(kind)


LABEL_KINDS = ('calendar',)          # derivations that need labels: not done to an array


def observe_psession(case):
    """a process session (Fill.tla): calls and the caller's own actions, in order, in this one process.  acts: {a: call, src:
    x / y / cur, ms, lim} or {a: der, d}.  x and y are built once; `cur` is the working object (the previous result or what
    the caller derived from it).  After every step: the working object, both inputs re-read, the object passed as input"""
    from pyg_base import df_fillna, nona
    f, g, offsets, style = case['f'], case['g'], case.get('offsets') or S2C_OFFSETS, case.get('style', 0)
    k, n0 = len(f['cols']), len(f['rows'])
    ix = ix_for(f, case.get('ix', 'date'))
    pandas_only = any(a['a'] != 'call' and a['d']['kind'] in LABEL_KINDS for a in case['acts'])
    carriers = [c for c in carriers_of(f) if not (pandas_only and c in ('arr1', 'arr2'))]
    if any('frac' in a['d'] for a in case['acts']):
        carriers = [carriers[case.get('style', 0) % len(carriers)]]      # the recorded history is the one of this carrier
    runs = []
    for carrier in carriers:
        acts = [dict(a) for a in case['acts']]
        x, y = build(f, carrier, offsets, ix, style), build(g, carrier, offsets, ix, style)
        cur, steps = None, []
        for a in acts:
            if a['a'] in ('der', 'edit'):
                tgt = x if a['a'] == 'edit' else cur
                if 'frac' in a['d']:             # C2S: the row is chosen on the object as it is now (and recorded); an input
                    d, nr = a['d'], tgt.shape[0]     # object handed back by an empty method list is copied, not edited
                    a['d'] = ({'kind': d['kind'], 'k': 0, 'i': 1 + int(d['frac'] * nr), 'j': d['j']} if nr and (a['a'] == 'edit' or not any(shares(cur, z) for z in (x, y)))
                              else {'kind': 'copy', 'k': 0, 'i': 0, 'j': 0})
                try:
                    with warnings.catch_warnings():
                        warnings.simplefilter('ignore')
                        tgt = derive(tgt, a['d'], carrier, n0, offsets, ix)
                    if a['a'] == 'der':
                        cur = tgt
                    elif a['d']['kind'] in IN_PLACE and tgt is not x:
                        raise AssertionError('the input object was not edited in place')
                    out = enc_out(tgt, carrier, k, offsets, ix, style)
                except AssertionError:
                    raise
                except Exception as e:
                    out = exc_out(e)
                inp_after = out
            else:
                inp = x if a['src'] == 'x' else y if a['src'] == 'y' else cur
                try:
                    with warnings.catch_warnings():
                        warnings.simplefilter('ignore')
                        if a['ms'] == [['nona', 0]] and a['lim'] == 0 and style % 3 == 1:
                            res = nona(inp)                  # the function form of the same method
                        else:
                            res = df_fillna(inp, render_methods(a['ms'], style), limit=None if a['lim'] == 0 else a['lim'])
                except Exception as e:
                    res, out = RAISED, exc_out(e)
                if res is not RAISED:
                    out, cur = enc_out(res, carrier, k, offsets, ix, style), res
                inp_after = enc_out(inp, carrier, k, offsets, ix, style)
            steps.append({'out': out, 'after': enc_after(x, carrier, k, offsets, ix, style), 'after_y': enc_after(y, carrier, k, offsets, ix, style),
                          'inp_after': {'rows': inp_after['rows'], 'cols': inp_after['cols']}})
            if out['kind'] == 'exc':
                break
        while len(steps) < len(acts):        # nothing is done after a step that raised
            steps.append(steps[-1])
        runs.append({'carrier': carrier, 'steps': steps})
    for a in acts:
        if 'frac' in a['d']:                 # never reached (a step before it raised): any well-formed derivation
            a['d'] = {'kind': 'copy', 'k': 0, 'i': 0, 'j': 0}
    return {'op': 'psession', 'f': f, 'g': g, 'ms': [], 'lim': 0, 'edge': 0, 'value': NAN, 'spell': 'default',
            'style': style, 'ix': ix, 'lab': case.get('lab', ''), 'acts': acts, 'runs': runs}


def form_of(ms):
    if len(ms) == 0:
        return 'empty'
    if len(ms) == 1:
        return 'single'
    return 'list_ffillx' if any(m[0] in FFILLX for m in ms) else 'list'


def outs_of(o, carrier=None):
    runs = [r for r in o['runs'] if carrier is None or r['carrier'] == carrier]
    return [s['out'] for r in runs for s in r['steps']] if o['op'] in ('session', 'psession') else [r['out'] for r in runs]


def case_key(o, carrier=None):
    """the stable, matchable description of a failing case: op, form (shape of the method list / edge of nona / the calls of
    a history), two traits of the input (fnna_after_drop: an fnna follows a row-dropping method) and one symptom
    (columns_lost: a 2-d result came back without its columns), then the input itself (everything --replay needs)"""
    ms = o['ms']
    if o['op'] == 'fillna':
        op, form = 'df_fillna', form_of(ms)
    elif o['op'] == 'nona':
        op, form = 'nona', 'edge%d' % o['edge']
    elif o['op'] == 'psession':
        op, form = 'psession', '+'.join(a['src'] if a['a'] == 'call' else a['a'] + ':' + a['d']['kind'] for a in o['acts'])
        ms = [m for a in o['acts'] for m in a['ms']]
    else:
        op, form = 'session', '+'.join(c['src'] + ':' + c['obj'] for c in o['calls'])
    c = {'op': op, 'form': form,
         'fnna_after_drop': any(m[0] == 'fnna' and any(p[0] in ('nona', 'fnna') for p in ms[:i]) for i, m in enumerate(ms)),
         'symptom': 'columns_lost' if any(t['dim'] == 2 and t['cols'] == [] for t in outs_of(o, carrier)) else 'values',
         'ncols': len(o['f']['cols']), 'ms': ms, 'lim': o['lim'], 'edge': o['edge'], 'value': o.get('value', NAN),
         'spell': o.get('spell', 'default'), 'ix': o.get('ix', 'date'), 'lab': o.get('lab', ''), 'style': o.get('style', 0), 'f': o['f']}
    if o['op'] == 'session':
        c['calls'] = o['calls']
    if o['op'] == 'psession':
        c['acts'], c['g'] = o['acts'], o['g']
    if carrier:
        c['carrier'] = carrier
    return c


DIM = {'arr1': 1, 'ser': 1, 'arr2': 2, 'df': 2}


def nontrivial(f, outs):
    cells = [c for col in f['cols'] for c in col]
    return NAN in cells and any(c != NAN for c in cells) and any(o.get('cols') != f['cols'] for o in outs)


def compare_run(viol, o, cr, out, after, f, w, wA):
    """plain == of one encoded result / re-read argument against the single outcome TLC printed (w: frame, wA: cell matrix)"""
    if after != exp_after(f, cr):
        viol.append(('input_modified', case_key(o, cr), {'after': after}))
    elif out['kind'] == 'exc':
        viol.append(('raised', case_key(o, cr), {'expected': w, 'observed': out}))
    elif out['dim'] != DIM[cr]:
        viol.append(('result_shape', case_key(o, cr), {'expected': w, 'observed': out}))
    elif cr in ('arr1', 'arr2'):
        if out['cols'] != wA:
            viol.append(('array_result', case_key(o, cr), {'expected': wA, 'observed': out['cols']}))
    elif {'rows': out['rows'], 'cols': out['cols']} != w:
        viol.append(('pandas_result', case_key(o, cr), {'expected': w, 'observed': {'rows': out['rows'], 'cols': out['cols']}}))


def s2c_chunk(cases):
    """replay TLC's cases: plain == against the single expected outcome; cases for which the
    specification admits several outcomes are returned as observations for Trace_Fill"""
    res = []
    for case in cases:
        f = case['f']
        viol, deferred, nevals = [], [], 0
        style = case.get('style', 1)
        fam = case.get('fam', 'masks')
        if fam == 'nona':
            par = case['par']
            calls = [dict(op='nona', f=f, edge=par['edge'], value=par['v'], spell=par['spell'], style=style, ix='date',
                          want=case['want'], wantA=case['wantA'])]
        else:
            ix = IX_KINDS[(style // 2) % len(IX_KINDS)] if style % 2 else 'date'      # every other case on another kind of index
            calls = [dict(op='fillna', f=f, ms=case['ms'], lim=case['lim'], style=style, ix=ix, lab=case.get('par', {}).get('lab', ''),
                          want=case['want'], wantA=case.get('wantA') or [w['cols'] for w in case['want']])]
            for e, g in zip((0, 1, -1), case.get('nonafn', [])):
                calls.append(dict(op='nona', f=f, edge=e, style=style, ix='date', want=[g], wantA=[g['cols']] if e == 0 else []))  # ArrayIgnoresEdge
        nt = False
        for c in calls:
            o = observe(c)
            nevals += len(o['runs'])
            nt = nt or nontrivial(f, [r['out'] for r in o['runs']])
            if len(c['want']) != 1 or len(c['wantA']) != 1:
                deferred.append(o)       # several admitted outcomes (also: an array under nona(edge)): TLC judges (Trace_Fill)
                continue
            for r in o['runs']:
                compare_run(viol, o, r['carrier'], r['out'], r['after'], f, c['want'][0], c['wantA'][0])
        res.append((viol, deferred, nevals, nt))
    return res


def session_chunk(cases):
    """replay TLC's histories: every step of every carrier against the single outcome TLC printed after that call (==); the
    input object, the shared method list and the object passed as input are re-read after every call"""
    res = []
    for case in cases:
        f = case['x']
        calls = [h['c'] for h in case['hist']]
        o = observe(dict(op='session', f=f, ms=case['m'], lim=case['lim'], calls=calls, style=case.get('style', 0),
                         ix=IX_KINDS[case.get('style', 0) % len(IX_KINDS)]))
        viol, deferred = [], []
        nevals = sum(len(r['steps']) for r in o['runs'])
        if any(len(h['want']) != 1 for h in case['hist']):
            deferred.append(o)
        else:
            for r in o['runs']:
                cr, win = r['carrier'], f
                for s, h in zip(r['steps'], case['hist']):
                    w = h['want'][0]
                    before = len(viol)
                    g = f if h['c']['src'] == 'x' else win
                    if s['m_after'] != case['m']:
                        viol.append(('method_list_modified', case_key(o, cr), {'m_after': s['m_after']}))
                    elif s['inp_after']['cols'] != g['cols'] or (cr in ('ser', 'df') and s['inp_after']['rows'] != g['rows']):
                        viol.append(('input_modified', case_key(o, cr), {'input_after': s['inp_after'], 'input_before': g}))
                    else:
                        compare_run(viol, o, cr, s['out'], s['after'], f, w, w['cols'])
                    if len(viol) > before:
                        break            # later steps build on this one
                    win = w
        res.append((viol, deferred, nevals, nontrivial(f, outs_of(o))))
    return res


def psession_chunk(cases):
    """replay TLC's process sessions: every step of every carrier against the single contents TLC printed after that step (==)
    - the result of a call, the object the caller derived -, both input objects and the object passed as input re-read"""
    res = []
    for case in cases:
        f = case['x']
        g = case['y'] if case['y']['cols'] else f          # NoY: the history builds no second input
        acts = [{'a': h['a'], 'src': h['src'], 'ms': h['ms'], 'lim': h['lim'], 'd': h['d']} for h in case['hist']]
        style = case.get('style', 0)
        o = observe(dict(op='psession', f=f, g=g, acts=acts, style=style, ix=IX_KINDS[style % len(IX_KINDS)]))
        viol, deferred = [], []
        nevals = sum(1 for r in o['runs'] for a in acts if a['a'] == 'call')
        if any(len(h['want']) != 1 for h in case['hist']):
            deferred.append(o)
        else:
            for r in o['runs']:
                cr, win, fnow = r['carrier'], None, f
                for s, h in zip(r['steps'], case['hist']):
                    w = h['want'][0]
                    before = len(viol)
                    src = {'x': fnow, 'y': g}.get(h['src'], win)
                    if h['a'] == 'edit':
                        fnow = w                 # the caller edited x in place: TLC printed what it holds now
                    if s['after'] != exp_after(fnow, cr) or s['after_y'] != exp_after(g, cr):
                        viol.append(('input_modified', case_key(o, cr), {'after': s['after'], 'after_y': s['after_y']}))
                    elif h['a'] == 'edit':
                        continue
                    elif h['a'] == 'der':
                        if s['out']['kind'] != 'val' or s['out']['dim'] != DIM[cr] or s['out']['cols'] != w['cols'] or (cr in ('ser', 'df') and s['out']['rows'] != w['rows']):
                            viol.append(('derived_input', case_key(o, cr), {'expected': w, 'observed': s['out']}))
                    elif s['inp_after']['cols'] != src['cols'] or (cr in ('ser', 'df') and s['inp_after']['rows'] != src['rows']):
                        viol.append(('input_modified', case_key(o, cr), {'input_after': s['inp_after'], 'input_before': src}))
                    else:
                        compare_run(viol, o, cr, s['out'], s['after'], fnow, w, w['cols'])
                    if len(viol) > before:
                        break            # later steps build on this one
                    win = w
        res.append((viol, deferred, nevals, nontrivial(f, outs_of(o))))
    return res


def c2s_chunk(cases):
    return [observe(c) for c in cases]


PENDING = []       # (clause, case, detail) of the whole run; reported at the end, one representative per kind first
DEFERRED = []      # S2C observations for which the specification admits several outcomes: Trace_Fill judges them


def report(ctx):
    """hand the collected violations to the harness: first one per (clause, op, form, traits, carrier), then the rest"""
    seen, first, rest = set(), [], []
    for v in PENDING:
        c = v[1]
        k = (v[0], c['op'], c['form'], c['fnna_after_drop'], c['symptom'], c.get('carrier'))
        (rest if k in seen else first).append(v)
        seen.add(k)
    for clause, key, detail in first + rest:
        ctx.violation(clause, key, detail)
    del PENDING[:]


def canonical(cases):
    """TLC's workers print the cases in a schedule-dependent order: sort them, so that sampling and the choice of
    spellings depend on the seed only"""
    import json
    return sorted(cases, key=lambda c: json.dumps(c, sort_keys=True))


def s2c(ctx, cases, tag, chunk_fn=s2c_chunk):
    for i, c in enumerate(cases):
        c['style'] = i % 12              # which spelling of the method list / kind of index is used for this case
    out = pmap(chunk_fn, cases, chunk=250)
    deferred = []
    for i, (case, (viol, dfr, nevals, nt)) in enumerate(zip(cases, out)):
        PENDING.extend(viol)
        deferred += dfr
        ctx.evals += nevals
        ctx.traces += 1
        if nt:
            ctx.note(('s2c', tag, repr((case.get('f', case.get('x'))['cols'], case.get('ms', case.get('m')), case.get('lim'), case.get('par'), case.get('y'),
                                        case.get('hist') and [h.get('c') or (h['src'], h['ms'], h['lim'], h['d']) for h in case['hist']]))))
        if i % 20011 == 7:
            ctx.sample({'s2c_case_' + tag: case})
    DEFERRED.extend(deferred)            # judged by Trace_Fill together with the C2S observations (one TLC run)
    ctx.extra['s2c_' + tag] = {'replayed': len(cases), 'judged_by_trace_spec': len(deferred)}
    return len(deferred)


def judge(ctx, obs):
    """C2S: TLC validates the observations against Trace_Fill"""
    bad = ctx.validate('Trace_Fill', obs)
    for i, clause in bad:
        o = obs[i - 1]
        runs = [{'carrier': r['carrier'], 'steps': [s['out'] for s in r['steps']]} if o['op'] in ('session', 'psession') else {'carrier': r['carrier'], 'out': r['out']}
                for r in o['runs']]
        PENDING.append((clause, case_key(o), {'runs': runs}))
    return bad


# ---------------------------------------------------------------------------------------------
# C2S inputs
# ---------------------------------------------------------------------------------------------
STRANGE = sorted(SPECIAL) + [-1003, -1001, -2000000]


def rand_column(rng, n):
    style = rng.choice(['runs', 'runs', 'runs', 'allnan', 'full', 'sparse', 'lead', 'trail'])
    if style == 'allnan':
        return [NAN] * n
    col = []
    valid = rng.random() < 0.5
    if style == 'lead':
        valid = False
    while len(col) < n:
        run = rng.choice([1, 1, 2, 3, 4, 6, 9])
        if style == 'sparse' and valid:
            run = 1
        if style == 'full':
            valid, run = True, n
        col += [rng.choice([0, 7, rng.randrange(1, 1000), rng.randrange(1, 2000000)]) if valid else NAN for _ in range(run)]
        valid = not valid
    col = col[:n]
    if style == 'trail' and n:
        t = rng.randrange(1, n + 1)
        col[-t:] = [NAN] * t
    return col


def rand_frame(rng):
    n = rng.choice([0, 1, 2, 3, 5, 8, 13, 21, 34, 40, rng.randrange(0, 41)])
    k = rng.choice([1, 1, 2, 2, 3])
    cols = [rand_column(rng, n) for _ in range(k)]
    if k > 1 and n and rng.random() < 0.5:       # make some rows entirely NaN
        for i in rng.sample(range(n), rng.randrange(0, n // 2 + 1)):
            for c in cols:
                c[i] = NAN
    f = {'rows': list(range(1, n + 1)), 'cols': cols}
    offs, t = [], 0
    for _ in range(n):
        offs.append(t)
        t += rng.choice([1, 1, 1, 2, 3, 7, 30])
    return f, offs


def rand_methods(rng, names):
    ms = []
    for _ in range(rng.choice([0, 1, 1, 1, 2, 2, 3])):
        nm = rng.choice(names)
        ms.append([nm, rng.choice([0, 7, 5, 123456]) if nm == 'const' else 0])
    return ms


ALL_NAMES = ['ffill', 'bfill', 'const', 'nona', 'fnna', 'ffill_na', 'ffill_0']


def rand_case(rng):
    f, offs = rand_frame(rng)
    n = len(f['rows'])
    if rng.random() < 0.2:
        return {'op': 'nona', 'f': f, 'edge': rng.choice([0, 1, -1]), 'offsets': offs}
    ms = rand_methods(rng, ALL_NAMES)
    lim = rng.choice([0, 0, 1, 2, 3, 4, 6, max(n, 1), n + 5])
    return {'op': 'fillna', 'f': f, 'ms': ms, 'lim': lim, 'style': rng.randrange(0, 12), 'offsets': offs}


def strangify(rng, f, pool):
    """write strange floats (Fill.tla Specials, negative numbers) over some of the valid cells - and over a few NaNs"""
    for col in f['cols']:
        for i in range(len(col)):
            if rng.random() < (0.3 if col[i] != NAN else 0.05):
                col[i] = rng.choice(pool)


NAN_SPELLS = ['default', 'np.nan', 'float', 'math', 'np.float64', 'np.float32', 'negative', 'computed', 'cell']


def rand_case_x(rng):
    """the corners beside the plain NaN masks: strange cells, other kinds of index, repeated / unsorted labels (for the
    methods the statement defines by position alone), nona(value, edge) in every spelling, histories on shared objects"""
    f, offs = rand_frame(rng)
    n = len(f['rows'])
    kind = rng.choice(['cells', 'cells', 'index', 'labels', 'nona', 'nona', 'session', 'session'])
    style = rng.randrange(0, 12)
    lim = rng.choice([0, 0, 1, 2, 3, max(n, 1)])
    if kind == 'cells':
        strangify(rng, f, rng.choice([STRANGE, [-2, -3], [-4, 0], [rng.choice(STRANGE)]]))
        ms = rand_methods(rng, ALL_NAMES)
        if rng.random() < 0.5:                   # the plain call: one method, no limit
            nm = rng.choice(ALL_NAMES)
            ms, lim = [[nm, rng.choice([0, 7, 5]) if nm == 'const' else 0]], 0
        return {'op': 'fillna', 'f': f, 'ms': ms, 'lim': lim, 'style': style, 'offsets': offs, 'ix': rng.choice(['date', 'range'])}
    if kind == 'index':
        if rng.random() < 0.3:
            strangify(rng, f, STRANGE)
        return {'op': 'fillna', 'f': f, 'ms': rand_methods(rng, ALL_NAMES), 'lim': lim, 'style': style, 'offsets': offs,
                'ix': rng.choice(IX_KINDS[1:])}
    if kind == 'labels':
        how = rng.choice(['dup', 'same', 'rev', 'shuffle', 'pairs'])
        if how == 'dup':
            f['rows'] = sorted(rng.randrange(1, n + 1) for _ in range(n))
        elif how == 'same':
            f['rows'] = [1] * n
        elif how == 'rev':
            f['rows'] = list(range(n, 0, -1))
        elif how == 'shuffle':
            rng.shuffle(f['rows'])
        else:
            f['rows'] = [rng.randrange(1, max(2, n // 2 + 1)) for _ in range(n)]
        return {'op': 'fillna', 'f': f, 'ms': rand_methods(rng, list(LABEL_FREE)), 'lim': lim, 'style': style, 'offsets': offs, 'lab': how,
                'ix': rng.choice(['date', 'int', 'float', 'str', 'int0'])}
    if kind == 'nona':
        sp = rng.choice([0, 0, -4, -2, -3, 7, -8])
        strangify(rng, f, [sp, sp, sp, {0: -4, -4: 0, -2: -3, -3: -2}.get(sp, 0)])
        if len(f['cols']) > 1 and n:
            for i in rng.sample(range(n), rng.randrange(0, n // 2 + 1)):     # rows entirely the value
                for c in f['cols']:
                    c[i] = sp
        v = rng.choice([NAN, NAN, sp, sp, {0: -4, -4: 0, -2: -3, -3: -2}.get(sp, 5)])
        spell = rng.choice(NAN_SPELLS) if v == NAN else rng.choice(['int', 'float', 'np.float64', 'cell'])
        return {'op': 'nona', 'f': f, 'edge': rng.choice([0, 0, 1, -1]), 'value': v, 'spell': spell, 'style': style, 'offsets': offs}
    if rng.random() < 0.2:
        strangify(rng, f, STRANGE)
    m = rand_methods(rng, ALL_NAMES) or [['ffill', 0]]
    calls = []
    for _ in range(rng.choice([2, 2, 3, 4])):
        obj = rng.choice(['M', 'M', 'fresh'])
        calls.append({'src': rng.choice(['x', 'prev']), 'obj': obj, 'ms': m if obj == 'M' else rand_methods(rng, ALL_NAMES),
                      'lim': rng.choice([lim, lim, 0, 1])})
    return {'op': 'session', 'f': f, 'ms': m, 'lim': lim, 'calls': calls, 'style': style, 'offsets': offs, 'ix': rng.choice(['date', 'date', 'range', 'int'])}


NO_D = {'kind': '', 'k': 0, 'i': 0, 'j': 0}


def rand_psession(rng):
    """a process session at random: 2-4 calls on a vector / frame x, on another input y of the same shape and on the working
    object, with the caller's derivations of the working object / in-place edits of x in between (the row of an in-place
    edit is chosen when the history is run)"""
    f, offs = rand_frame(rng)
    n, k = len(f['rows']), len(f['cols'])
    g = {'rows': list(f['rows']), 'cols': [rand_column(rng, n) for _ in range(k)]}
    if rng.random() < 0.15:
        g['cols'] = [list(c) for c in f['cols']]             # equal by value, another object
    if rng.random() < 0.15:
        strangify(rng, f, STRANGE)
    t = offs[-1] if offs else 0
    for _ in range(12):                                      # later labels for the reindexes
        t += rng.choice([1, 1, 2, 3, 7])
        offs.append(t)
    def call(src, like=None):
        ms = rand_methods(rng, ALL_NAMES) if like is None or rng.random() < 0.4 else like
        return {'a': 'call', 'src': src, 'ms': ms, 'lim': rng.choice([0, 0, 0, 1, 2, 3, max(n, 1)]), 'd': NO_D}
    acts = [call('x')]
    if not acts[0]['ms'] and rng.random() < 0.8:
        acts[0]['ms'] = [[rng.choice(ALL_NAMES[:2] + ALL_NAMES[3:]), 0]]
    ncalls, ext, nown, focus = rng.choice([2, 2, 3, 4]), 0, 0, ''
    while sum(a['a'] == 'call' for a in acts) < ncalls:
        last = [a for a in acts if a['a'] == 'call'][-1]['ms']
        u = rng.random()
        if focus != 'x' and ((nown == 0 and u < 0.5) or (nown == 1 and u < 0.25)):
            kind = rng.choice(['extend', 'extend', 'calendar', 'lag', 'lag', 'poke', 'poke', 'put', 'head', 'tail', 'copy', 'values', 'arith'])
            if kind in ('extend', 'calendar') and ext >= 3:
                kind = 'lag'
            if kind in IN_PLACE:
                d = {'kind': kind, 'k': 0, 'frac': rng.random(), 'i': 0, 'j': rng.randrange(0, k + 1) if k > 1 else 0}
            elif kind in ('extend', 'calendar'):
                d = {'kind': kind, 'k': rng.choice([0, 1, 2, 3]) if kind == 'calendar' else rng.choice([1, 2, 3]), 'i': 0, 'j': 0}
                ext += 1
            else:
                d = {'kind': kind, 'k': 0, 'i': 0, 'j': 0}
            acts.append({'a': 'der', 'src': 'cur', 'ms': [], 'lim': 0, 'd': d})
            nown, focus = nown + 1, 'cur'
        elif focus != 'cur' and n and ((nown == 0 and u > 0.85) or (nown == 1 and u > 0.7)):
            d = {'kind': rng.choice(IN_PLACE), 'k': 0, 'frac': rng.random(), 'i': 0, 'j': rng.randrange(0, k + 1) if k > 1 else 0}
            acts.append({'a': 'edit', 'src': 'x', 'ms': [], 'lim': 0, 'd': d})      # the input object itself is edited in place
            nown, focus = nown + 1, 'x'
        else:
            acts.append(call(focus or rng.choice(['x', 'y', 'y', 'cur']), last))
            nown, focus = 0, ''
    return {'op': 'psession', 'f': f, 'g': g, 'acts': acts, 'style': rng.randrange(0, 12), 'offsets': offs,
            'ix': rng.choice(['date', 'date', 'range', 'int', 'str', 'float'])}


def c2s(ctx, ncases, nx, nps=0):
    cases = [rand_case(ctx.rng) for _ in range(ncases)] + [rand_case_x(ctx.rng) for _ in range(nx)] + [rand_psession(ctx.rng) for _ in range(nps)]
    obs = pmap(c2s_chunk, cases, chunk=100)
    ctx.evals += sum(len(r.get('steps', [0])) for o in obs for r in o['runs'])
    judge(ctx, obs + DEFERRED)
    del DEFERRED[:]
    for o in obs:
        if nontrivial(o['f'], outs_of(o)):
            ctx.note(('c2s', repr((o['f']['cols'], o['f']['rows'] if o.get('lab') else 0, o['ms'], o['lim'], o['op'], o['edge'], o['value'], o['spell'],
                                   o.get('calls'), o.get('acts'), o.get('g')))))
    ctx.sample({'c2s_observation': obs[ncases // 2]})
    ctx.sample({'c2s_observation_x': obs[ncases + nx // 2]})
    return obs


def replay(ctx, body):
    """./check C12 --replay <file>: run the recorded case again and let Trace_Fill judge it"""
    import json, shutil
    c = body['case']
    o = observe({'op': {'df_fillna': 'fillna', 'nona': 'nona', 'session': 'session', 'psession': 'psession'}[c['op']], 'f': c['f'], 'ms': c['ms'], 'lim': c['lim'],
                 'g': c.get('g'), 'acts': c.get('acts', []),
                 'edge': c['edge'], 'value': c.get('value', NAN), 'spell': c.get('spell', 'default'), 'ix': c.get('ix', 'date'),
                 'lab': c.get('lab', ''), 'calls': c.get('calls', []), 'style': c.get('style', 1)})
    bad = ctx.validate('Trace_Fill', [o])
    print(json.dumps({'case': c, 'runs': o['runs']})[:4000])
    print('REPLAY property=C12 %s' % ('rejected: %s' % bad[0][1] if bad else 'accepted by the specification'))
    shutil.rmtree(ctx.tmp, ignore_errors=True)
    return 1 if bad else 0


def pfamily(case):
    """the stratum of a process session: which object the later calls take (y: another input of the same shape; der: an object
    derived from the result; edit: the input x edited in place; x: the input again as it is; cur: the result itself) and whether the last call repeats the first method list"""
    calls = [h for h in case['hist'] if h['a'] == 'call']
    fam = 'y' if any(h['src'] == 'y' for h in calls) else 'der' if any(h['a'] == 'der' for h in case['hist']) else 'edit' if any(h['a'] == 'edit' for h in case['hist']) else calls[-1]['src']
    return fam + ('_same' if calls[-1]['ms'] == calls[0]['ms'] else '_other')


def pick_psessions(rng, cases, sizes):
    strata = {}
    for c in cases:
        strata.setdefault(pfamily(c), []).append(c)
    out = []
    for k in sorted(strata):
        out += rng.sample(strata[k], min(len(strata[k]), sizes.get(k, sizes['*'])))
    return out, {k: len(v) for k, v in sorted(strata.items())}


def by_family(cases):
    out = {}
    for c in cases:
        out.setdefault(c['fam'], []).append(c)
    return out


def run(ctx):
    ctx.rule = ('S2C: every (NaN mask, method list, limit) TLC enumerates is replayed on np.ndarray (1-d and n x k), pd.Series '
                'and pd.DataFrame (date index; every other case on an integer / float / string / default index) and compared '
                'with == to the outcome TLC printed (argument re-read after the call: cells, dtype, shape).  The same for the '
                'families of MC_FillX - frames with strange floats (+-inf, -0.0, extreme, fractional, negative cells), repeated '
                'and unsorted row labels, nona(value, edge) in every spelling of NaN and of numbers - and for the histories '
                'of MC_FillS (calls on the input object / the previous result with a shared method-list object; every object '
                're-read after every call) - and for the PROCESS SESSIONS of MC_FillP, replayed in one process in the order of '
                'the history: call ; the caller derives a new input from the RESULT (reindex onto a longer index / back onto the '
                'full calendar, lag, withdraw / write an observation in place, slice, copy, x * 1, values into a new object) or builds '
                'ANOTHER input of the same shape (every mask, other values) or takes the same input again - as it is or after '
                'editing it IN PLACE - ; call (nona also in its function form) with the same '
                'methods (same / other limit) or another method list; outcome after every step == what TLC printed (law = Fillna '
                'of the contents of the object passed at that moment), both inputs and the passed object re-read after every step; '
                'stratified by (object of the later call, same / other methods).  Cases with several admitted outcomes and the C2S runs (random vectors / frames '
                '<= 40 rows, 1-3 columns, lists of <= 3 methods; the same corners at random, histories of 2-4 calls; random '
                'process sessions of 2-4 calls with <= 2 derivations in a row, the poked row chosen on the live object) are '
                'judged by Trace_Fill.  Non-trivial = the input has both NaN and valid cells and a call changed something; '
                'distinct by (cells, methods, limit, family parameters / calls).')
    rng = ctx.rng
    rngP = random.Random(ctx.seed * 1000003 + 1212)      # the process-session strata draw from their own seeded stream (the other families keep theirs)
    if ctx.quick:
        ctx.mc('MC_Fill', 'MC_Fill_quick.cfg')
        cases = canonical(ctx.generate('MC_Fill', 'MC_Fill_gen.cfg'))
        short = [c for c in cases if len(c['ms']) <= 1]
        pairs = [c for c in cases if len(c['ms']) > 1]
        s2c(ctx, short + rng.sample(pairs, 7000), 'quick')     # thorough replays every case
        ctx.extra['s2c_enumerated'] = len(cases)
        fams = by_family(canonical(ctx.mc('MC_FillX', 'MC_FillX_quick.cfg').emitted))
        ctx.extra['s2c_enumerated_x'] = {k: len(v) for k, v in fams.items()}
        # every strange float x every single method on every vector (all four carriers), a seeded sample of the rest
        core = [c for c in fams['cells'] if c['lim'] == 0 and len(c['f']['cols']) == 1]
        rest = [c for c in fams['cells'] if not (c['lim'] == 0 and len(c['f']['cols']) == 1)]
        s2c(ctx, core + rng.sample(rest, 700) + rng.sample(fams['labels'], 1200) + rng.sample(fams['nona'], 1500), 'corners')
        hists = canonical(ctx.mc('MC_FillS', 'MC_FillS_quick.cfg').emitted)
        ctx.extra['s2c_enumerated_histories'] = len(hists)
        s2c(ctx, rng.sample(hists, 1200), 'histories', session_chunk)
        # process sessions: call ; the caller derives a new input from the result / builds another input of the same shape ; call
        psess = canonical(ctx.mc('MC_FillP', 'MC_FillP_quick.cfg').emitted)
        chosen, ctx.extra['s2c_enumerated_process_sessions'] = pick_psessions(rngP, psess, {'y_same': 500, 'y_other': 300, 'der_same': 800, 'der_other': 500, 'edit_same': 300, 'edit_other': 200, '*': 150})
        s2c(ctx, chosen, 'process_sessions', psession_chunk)
        c2s(ctx, 400, 500, 300)
    else:
        ctx.mc('MC_Fill', 'MC_Fill_thorough.cfg')
        ctx.mc('MC_Fill', 'MC_Fill_thorough3.cfg')
        ctx.mc('MC_FillS', 'MC_FillS_consume.cfg', must_fail='SRefines')       # the list-consuming dispatcher breaks the second call
        ctx.mc('MC_FillS', 'MC_FillS_thorough.cfg')
        s2c(ctx, canonical(ctx.generate('MC_Fill', 'MC_Fill_gen_big.cfg')), 'big')
        s2c(ctx, canonical(ctx.generate('MC_Fill', 'MC_Fill_gen3.cfg')), 'triples')
        fams = by_family(canonical(ctx.mc('MC_FillX', 'MC_FillX_thorough.cfg').emitted))
        ctx.extra['s2c_enumerated_x'] = {k: len(v) for k, v in fams.items()}
        core = [c for c in fams['cells'] if len(c['ms']) <= 1]        # every strange float x every method x every frame
        rest = [c for c in fams['cells'] if len(c['ms']) > 1]
        pick = lambda cs, n: rng.sample(cs, min(len(cs), n))
        s2c(ctx, core + pick(rest, 20000) + pick(fams['labels'], 30000) + pick(fams['nona'], 30000), 'corners')
        hists = canonical(ctx.mc('MC_FillS', 'MC_FillS_gen.cfg').emitted)
        ctx.extra['s2c_enumerated_histories'] = len(hists)
        s2c(ctx, pick(hists, 20000), 'histories', session_chunk)
        del hists, fams, core, rest
        ctx.mc('MC_FillP', 'MC_FillP_memo.cfg', must_fail='PRefines')       # a memo carried by the data object breaks the call after a derivation
        psess = canonical(ctx.mc('MC_FillP', 'MC_FillP_thorough.cfg').emitted)
        chosen, ctx.extra['s2c_enumerated_process_sessions'] = pick_psessions(rngP, psess, {'y_same': 12000, 'y_other': 6000, 'der_same': 14000, 'der_other': 8000, 'edit_same': 6000, 'edit_other': 4000, '*': 3000})
        del psess
        s2c(ctx, chosen, 'process_sessions', psession_chunk)
        sims = ctx.generate('MC_FillP', 'MC_FillP_sim.cfg', simulate=3000, depth=40, seed=ctx.seed + 1, workers=1)      # longer sessions: 4 calls, <= 2 derivations in a row
        sims = [json.loads(c) for c in sorted({json.dumps(c, sort_keys=True) for c in sims})]
        s2c(ctx, sims, 'simulated_sessions', psession_chunk)
        c2s(ctx, 6000, 6000, 4000)
    report(ctx)
    ctx.exhaustive = False
    ctx.assumptions += [
        'cells are data-independent: values are non-negative integer-valued floats (NaN = -1 in the encoding), position codes in MC; '
        'plus the strange floats of Fill.tla Specials (+inf, -inf, -0.0, +-largest double, smallest subnormal, 0.5, -3.5) and negative '
        'integers, compared bit-exactly (0.0 and -0.0 are different cells)',
        'small-scope: MC/S2C vectors <= 6 (thorough 8) cells, frames <= 4x2 (thorough 5x2), lists of <= 2 (thorough 3) methods; strange-cell / '
        'label / nona(value) families on vectors <= 3-4 (thorough 4-5) and frames <= 2x2 (thorough 3x2); histories of 2 (MC thorough: 3) calls '
        'on vectors <= 3 (thorough 4; frames 2x2); C2S <= 40 rows, histories of 2-4 calls',
        'process sessions: MC/S2C x = vectors <= 3 (thorough 4) and 2-column frames of 1 (thorough 2) rows, y = every frame of the same '
        'shape (vectors <= 3 / thorough 4, 1 x 2), 8 (thorough 11) method lists, limits {None, 1}; two calls with at most one derivation in '
        'between (thorough: TLC-simulated sessions of 4 calls, <= 2 derivations in a row, limits <= 2, frames <= 3 x 2); a derivation is '
        'always passed on to the next call, an in-place edit of x is followed by a call on x; named deviation SameObject: a result whose '
        'contents equal the input may BE the input object (empty method list; ffill_na / ffill_0 on a Series without observations), so the '
        'working object is edited in place only when its contents differ from the input it was made from or after a copying derivation (a slice '
        'of an array is a view: it does not count); '
        '"back onto the full calendar" needs labels and is not done to arrays; '
        'a read-only array result (pandas hands out read-only .values) is copied before it is edited',
        'IncreasingIndex: fnna, ffill_na, ffill_0 and nona(edge) find their boundary BY LABEL; they are exercised on strictly increasing '
        'indexes only (date, integer - also starting at the falsy 0 -, float, string, default RangeIndex); ffill, bfill, constants and nona, '
        'which the statement defines by position alone, also on repeated, constant, decreasing and shuffled labels.  nona(edge=+-1) is '
        'exercised on date indexes only (df_slice reads integer bounds as positions)',
        'named deviations accepted by the specification: SameObject (above), ConstLimit (a constant under a limit fills all or the first `limit` NaNs per column), '
        'NoValidObservation (ffill_na/ffill_0 on a column without any valid cell: unchanged or all tail value), '
        'ArrayIgnoresEdge (nona(array, edge) ignores edge; edge is not part of the statement), InfEitherSign (nona(value=+-inf) may take '
        'the rows that are entirely infinite of either sign)',
        'nona(value=v): every NaN object (np.nan, float("nan"), math.nan, numpy scalars of both widths, a negative NaN, a computed one, a cell '
        'read from the data) means the rows that are entirely NaN; a number means the rows all of whose cells equal it (0 == -0.0)',
        'interpolation methods, "pad" (rejected by pandas 3), axis=1, a NaN / date as a fill method and non-numeric nona values are outside the '
        'statement and not exercised',
    ]
