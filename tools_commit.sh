#!/bin/sh
# tools_commit.sh "<message>": commit everything in /verif except new/changed .tla modules that SANY does not parse
# (work in progress of a builder) - setup.sh parses every committed module, so a broken one must never get in.
cd /verif
git add -A
for f in $(git diff --cached --name-only --diff-filter=AM | grep '^spec/.*\.tla$'); do
  ( cd spec && java -cp /opt/veriftools/tla/tla2tools.jar:/opt/veriftools/tla/CommunityModules-deps.jar tla2sany.SANY "$(basename $f)" > /tmp/sany.c.$$ 2>&1 )
  if grep -q -e "Semantic errors" -e "Parse Error" -e "Fatal errors" -e "Could not" /tmp/sany.c.$$; then echo "not committed (does not parse): $f"; git reset -q HEAD -- "$f"; fi
done
rm -f /tmp/sany.c.$$
/venv/bin/python tools_manifest.py --validate >/dev/null 2>&1 || true
git commit -qm "${1:-work in progress}" && git log --oneline | head -1
