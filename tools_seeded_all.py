#!/venv/bin/python
"""Runs the owning quick check against every seeded change (scratch copy of /repo's tracked files + patch,
VERIF_REPO_SRC) and writes seeded/STATUS.json: the current catch matrix (exit code and failing clauses).
usage: tools_seeded_all.py [-j N] [--out file] [id-prefix ...]     (exit 0 always; read the table)"""
import glob, json, os, re, shutil, subprocess, sys, tempfile, time
from concurrent.futures import ThreadPoolExecutor

args = sys.argv[1:]
jobs, out = 4, '/verif/seeded/STATUS.json'
if '-j' in args:
    i = args.index('-j'); jobs = int(args[i + 1]); args = args[:i] + args[i + 2:]
if '--out' in args:
    i = args.index('--out'); out = args[i + 1]; args = args[:i] + args[i + 2:]
VERIF = os.path.dirname(os.path.abspath(__file__))
dirs = sorted(glob.glob('/verif/seeded/C*-*'), key=lambda p: (p.split('/')[-1].split('-')[0], int(p.split('-')[-1])))
if args:
    dirs = [d for d in dirs if any(os.path.basename(d).startswith(a) for a in args)]


def one(d):
    sid = os.path.basename(d)
    prop = json.load(open(os.path.join(d, 'meta.json')))['property']
    tmp = tempfile.mkdtemp(prefix='seedall-')
    t0 = time.time()
    try:
        subprocess.run('git ls-files -z | xargs -0 cp --parents -t %s' % tmp, shell=True, cwd='/repo', check=True)
        p = subprocess.run('git init -q . && git apply --whitespace=nowarn %s/patch.diff' % d, shell=True, cwd=tmp,
                           stdout=subprocess.PIPE, stderr=subprocess.STDOUT, text=True)
        if p.returncode != 0:
            p = subprocess.run('patch -p1 -s < %s/patch.diff' % d, shell=True, cwd=tmp, stdout=subprocess.PIPE, stderr=subprocess.STDOUT, text=True)
            if p.returncode != 0:
                return sid, {'property': prop, 'exit': None, 'error': 'patch does not apply: ' + p.stdout[-300:]}
        env = dict(os.environ, VERIF_REPO_SRC=os.path.join(tmp, 'src'), VERIF_TLC_WORKERS=os.environ.get('VERIF_TLC_WORKERS', '4'))
        p = subprocess.run(['./check', prop, '--tier', 'quick'], cwd=VERIF, env=env, stdout=subprocess.PIPE, stderr=subprocess.STDOUT, text=True, timeout=3600)
        lines = p.stdout.splitlines()
        clauses = sorted({m.group(1) for l in lines for m in [re.search(r' x clause=(\S+)', l)] if m})
        summ = [l for l in lines if l.startswith(prop + ' ')][-1:]
        if p.returncode == 1 and not any(l.startswith('VIOLATION property=%s ' % prop) for l in lines):
            return sid, {'property': prop, 'exit': None, 'error': 'exit 1 without a VIOLATION line', 'tail': lines[-6:]}
        return sid, {'property': prop, 'exit': p.returncode, 'clauses': clauses[:8], 'summary': summ, 'wall_s': round(time.time() - t0),
                     'tail': lines[-6:] if p.returncode not in (0, 1) else []}
    except Exception as e:                                          # noqa
        return sid, {'property': prop, 'exit': None, 'error': repr(e)[:300]}
    finally:
        shutil.rmtree(tmp, ignore_errors=True)


res = {}
with ThreadPoolExecutor(jobs) as ex:
    for sid, r in ex.map(one, dirs):
        res[sid] = r
        print(sid, r.get('exit'), r.get('clauses'), r.get('error', ''), flush=True)
        if args and os.path.exists(out):
            old = json.load(open(out)); old.update(res); json.dump(old, open(out, 'w'), indent=1, sort_keys=True)
        else:
            json.dump(res, open(out, 'w'), indent=1, sort_keys=True)
caught = sum(1 for r in res.values() if r.get('exit') == 1)
print('caught %d of %d; not caught: %s' % (caught, len(res), sorted(k for k, r in res.items() if r.get('exit') != 1)))
