#!/venv/bin/python
"""Binding self-test: for each hand-built trace specification, an accepted observation recorded from the
real code is corrupted in one field (and one event dropped from a history) and must then be rejected.
Run: PYTHONPATH=/verif:/repo/src /venv/bin/python tools_selftest.py"""
import copy, json, sys
sys.path.insert(0, '/verif')
from harness.core import Ctx

fails = []

def expect(name, ctx, module, good, bad_list, **kw):
    r = ctx.validate(module, good, **kw)
    if r:
        fails.append('%s: good observations rejected %s' % (name, r))
    for label, b in bad_list:
        r = ctx.validate(module, b, **kw)
        ok = bool(r)
        print('%-28s %-34s %s' % (name, label, 'rejected ' + str(r[0][1]) if ok else 'ACCEPTED (binding too weak)'))
        if not ok:
            fails.append('%s: %s accepted' % (name, label))

# C06
from props import c06
ctx = Ctx('C06', 'quick', 0)
t = {'cols': ['a', 'b'], 'rows': [{'a': ['i', 1], 'b': ['s', 'ab']}, {'a': ['n', 0], 'b': ['s', 'b']}, {'a': ['i', 1], 'b': ['nan', 1]}]}
cond = {'kind': 'kw', 'items': [['a', ['val', ['i', 1]]]]}
good = [c06.observe(t, cond, op, 'kw') for op in ('inc', 'exc', 'one')] + [c06.observe(t, cond, 'find', 'kw', 'a')]
b1 = copy.deepcopy(good); b1[0]['out']['rows'].pop()                    # a selected row dropped
b2 = copy.deepcopy(good); b2[1]['out']['rows'][0]['b'] = ['s', 'ab']    # a cell changed
b3 = copy.deepcopy(good); b3[0]['after']['rows'][0]['a'] = ['i', 2]     # operand changed
expect('C06 Trace_Inc', ctx, 'Trace_Inc', good, [('row dropped from inc', b1), ('cell changed in exc', b2), ('operand changed', b3)])

# C02
from props import c02
ctx = Ctx('C02', 'quick', 0)
kx = {'cols': ['a'], 'rows': [{'a': ['i', 1]}, {'a': ['nan', 1]}]}; ky = {'cols': ['a'], 'rows': [{'a': ['f', [1, 1]]}, {'a': ['nan', 2]}, {'a': ['i', 1]}]}
x, y, lk, rk = c02.decorate(ctx.rng, kx, ky, 'plain')
good = [c02.observe(x, y, lk, rk, 'join', 'none', 'str', 'method'), c02.observe(x, y, lk, rk, 'xor', 'l', 'str', 'method')]
b1 = copy.deepcopy(good); b1[0]['out']['rows'].pop()
b2 = copy.deepcopy(good); b2[0]['out']['rows'][0]['q'] = ['i', 99]
b3 = copy.deepcopy(good); b3[1]['out']['rows'].append(x['rows'][0])
expect('C02 Trace_Join', ctx, 'Trace_Join', good, [('pair dropped from join', b1), ('right cell changed', b2), ('matched row kept by xor', b3)])

# C11
from props import c11
ctx = Ctx('C11', 'quick', 0)
t = {'cols': ['a', 'b', 'p'], 'rows': [{'a': ['i', 1], 'b': ['s', 's'], 'p': ['i', 1]}, {'a': ['f', [1, 1]], 'b': ['n', 0], 'p': ['i', 2]}, {'a': ['n', 0], 'b': ['s', 's'], 'p': ['i', 3]}]}
good = [c11.obs_listby(t, ['a'], 0), c11.obs_groupby(t, ['a'], 0)]
b1 = copy.deepcopy(good); b1[0]['out']['rows'][1]['p'][1].reverse()       # class values out of row order
b2 = copy.deepcopy(good); b2[0]['unl']['rows'].reverse()                  # unlist not sorted
b3 = copy.deepcopy(good); b3[1]['ung']['rows'].pop()                      # a row lost by ungroup
expect('C11 Trace_Regroup', ctx, 'Trace_Regroup', good, [('class values reordered', b1), ('unlist reversed', b2), ('ungroup loses a row', b3)])

# C01
from props import c01
from harness.enc import IdMap
import random
ctx = Ctx('C01', 'quick', 0)
ids = IdMap(); regs = {}; events = []
rng = random.Random(3)
for k in range(10):
    e = c01.rand_event(rng, regs); e['out'] = c01.step(regs, e, ids, k); e['post'] = c01.post(regs, ids); events.append(e)
good = [{'events': events}]
b1 = copy.deepcopy(good); del b1[0]['events'][2]                          # one event missing from the history
b2 = copy.deepcopy(good)
for e in b2[0]['events']:
    for r in e['post'].values():
        if r.get('live') and r['table']['rows']:
            r['table']['len'] += 1; break
    else:
        continue
    break
expect('C01 Trace_Dictable', ctx, 'Trace_Dictable', good, [('event dropped', b1), ('len corrupted', b2)])

print('SELFTEST', 'FAILED: ' + '; '.join(fails) if fails else 'ok')
sys.exit(1 if fails else 0)
