#!/venv/bin/python
"""Import seeded changes produced by independent sub-agents (a scratch worktree each, no access to /verif),
confirm them (tests unchanged, demo passes without / fails with the change) and run the owning check.
usage: tools_import_seeded.py <property> <agent seeded dir> [k ...]"""
import json, os, shutil, subprocess, sys, tempfile
prop, src = sys.argv[1], sys.argv[2]
offset = 0
rest = sys.argv[3:]
if '--offset' in rest:            # second-round changes: ids continue after the first round's
    i = rest.index('--offset'); offset = int(rest[i + 1]); rest = rest[:i] + rest[i + 2:]
ks = rest or ['1', '2', '3']
ENV = dict(os.environ, PYTHONHASHSEED='0')

def sh(cmd, cwd=None, env=None, timeout=3000):
    p = subprocess.run(cmd, shell=True, cwd=cwd, env=env or ENV, stdout=subprocess.PIPE, stderr=subprocess.STDOUT, text=True, timeout=timeout)
    return p.returncode, p.stdout

def baseline_regressed(junit):
    import xml.etree.ElementTree as ET
    base = set(json.load(open('/root/.vp/BASELINE.json'))['stable_pass'])
    passed = set()
    for tc in ET.parse(junit).getroot().iter('testcase'):
        if not any(ch.tag in ('failure', 'error', 'skipped') for ch in tc):
            passed.add('%s::%s' % (tc.get('classname'), tc.get('name')))
    return sorted(base - passed)


for k in ks:
    sid = '%s-%s' % (prop, int(k) + offset)
    dst = os.path.join('/verif/seeded', sid)
    os.makedirs(dst, exist_ok=True)
    shutil.copy(os.path.join(src, 'change_%s.diff' % k), os.path.join(dst, 'patch.diff'))
    shutil.copy(os.path.join(src, 'demo_%s.py' % k), os.path.join(dst, 'demo.py'))
    notes = open(os.path.join(src, 'notes_%s.md' % k)).read()
    tmp = tempfile.mkdtemp(prefix='seedchk-')
    try:
        sh('git ls-files -z | xargs -0 cp --parents -t %s' % tmp, cwd='/repo')
        env = dict(ENV, PYTHONPATH=os.path.join(tmp, 'src'))
        rc0, out0 = sh('/venv/bin/python -W ignore %s/demo.py' % dst, cwd=tmp, env=env)
        rca, outa = sh('git init -q . && git apply --whitespace=nowarn %s/patch.diff' % dst, cwd=tmp)
        rc1, out1 = sh('/venv/bin/python -W ignore %s/demo.py' % dst, cwd=tmp, env=env)
        rct, outt = sh('/venv/bin/python -m pytest -q -p no:cacheprovider --timeout=900 --continue-on-collection-errors --junitxml=%s/j.xml 2>&1 | tail -1' % tmp, cwd=tmp, env=env)
        regressed = baseline_regressed(os.path.join(tmp, 'j.xml'))
        rcc, outc = sh('VERIF_REPO_SRC=%s/src ./check %s --tier quick' % (tmp, prop), cwd='/verif')
        summary = [l for l in outc.splitlines() if ' x clause' in l or l.startswith(prop + ' ') or 'MACHINERY' in l][:12]
        meta = {'id': sid, 'property': prop, 'origin': 'independent sub-agent in a scratch worktree of /repo, given only the property text',
                'needs_to_manifest': notes.strip()[:1500],
                'confirmed': {'patch_applies': rca == 0, 'demo_without_change_exit': rc0, 'demo_with_change_exit': rc1,
                              'demo_with_change_last_line': (out1.strip().splitlines() or [''])[-1][:300],
                              'pytest_with_change': outt.strip()[-200:], 'baseline_tests_regressed': regressed},
                'ran': ['demo.py on an unpatched scratch copy of /repo', 'git apply patch.diff on the copy', 'demo.py again', 'full pytest on the copy',
                        'VERIF_REPO_SRC=<copy>/src ./check %s --tier quick' % prop],
                'check_result': {'exit': rcc, 'summary': summary}}
        json.dump(meta, open(os.path.join(dst, 'meta.json'), 'w'), indent=1)
        print(sid, 'applies', rca == 0, 'demo', rc0, '->', rc1, '| pytest:', outt.strip()[-60:], '| regressed:', regressed, '| check exit', rcc, '|', '; '.join(s.strip() for s in summary[:3])[:200])
    finally:
        shutil.rmtree(tmp, ignore_errors=True)
