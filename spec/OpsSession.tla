------------------------------ MODULE OpsSession ------------------------------
(* Property C08 over HISTORIES of calls that share the caller's objects.                        *)
(*                                                                                             *)
(* A session is a HEAP of caller-owned objects                                                  *)
(*     [objs  |-> <<operand, ...>>             series / frames / scalars of Series.tla           *)
(*      lists |-> <<[k |-> "l" | "t", ids |-> <<object numbers>>], ...>>]                        *)
(* the containers (python lists, tuples) hold the objects BY IDENTITY: two containers may share  *)
(* a member, a container may hold the same object twice.                                        *)
(* A call names its two arguments on the heap - this is the calling FORM, which the single-call  *)
(* families of MC_Ops leave to the driver:                                                      *)
(*     [op |-> operator, a |-> ref, b |-> ref, join |-> index policy, cols |-> column policy,    *)
(*      m |-> fill method (OpsLaw!OpsMethods)]                                                  *)
(*     ref = [r |-> "o", i |-> object] | [r |-> "l", i |-> container] | [r |-> "none", i |-> 0] *)
(* e.g.  add_(L1, s3)   mul_(s1, L2)   min_(L1, L2)   add_(L1, L1)   df_count(L1)   sub_(s1, L2) *)
(* Between two calls the caller may change its own objects (append to / pop from a list,         *)
(* overwrite a cell of a series) - and EDIT AN OPERAND IN PLACE so that it stays the same object *)
(* of the same shape: re-date its index (shift every stamp, replace one stamp), rename a column  *)
(* of a frame, re-order the columns of a frame (the same abstract frame), overwrite several      *)
(* cells.  Whatever a call may have remembered about an object (keyed on its identity, length,   *)
(* shape) is stale after such an edit: the law looks at the objects as they are at the call.      *)
(*                                                                                             *)
(* LAW (from the statement): "lists of operands reduce left to right" - the operands of a call   *)
(* are the members of its arguments, as the caller holds them AT THE TIME OF THE CALL, in order; *)
(* the result is the left-to-right reduction of exactly these; and a call changes nothing on the *)
(* heap: no container gains, loses or swaps a member, no operand changes a cell.  Hence nothing  *)
(* an earlier call did can be seen in a later one.                                              *)
(* MECHANISM (from the code): dfs = as_list(a) + as_list(b), where as_list(x) IS x when x is a   *)
(* python list.  Variant Extend (dfs = as_list(a); dfs += as_list(b)) shows what the law         *)
(* forbids: the concatenation is then written into the caller's own list.                       *)
EXTENDS OpsLaw, FiniteSetsExt

NoRef   == [i |-> 0, r |-> "none"]
ORef(i) == [i |-> i, r |-> "o"]
LRef(i) == [i |-> i, r |-> "l"]
MkCont(k, ids) == [ids |-> ids, k |-> k]

FoldOps == {"add", "mul", "min", "max"}          \* reduce any number of operands
CutOps  == {"sub", "div"}                        \* lhs / rhs may each be a list
PairOps == {"pow", "gt", "ge", "lt", "le"}       \* exactly two operands

Ids(h, ref) == CASE ref.r = "none" -> <<>>
                 [] ref.r = "o"    -> <<ref.i>>
                 [] ref.r = "l"    -> h.lists[ref.i].ids
ArgIds(h, c) == Ids(h, c.a) \o Ids(h, c.b)
ObjsOf(h, ids) == [k \in 1..Len(ids) |-> h.objs[ids[k]]]
Xs(h, c) == ObjsOf(h, ArgIds(h, c))              \* the operands of the call, left to right

\* ---------------------------------------------------------------------------------------------
\* domain of the statement (the restrictions are those of Trace_Ops!InDomain, plus the forms)
\* ---------------------------------------------------------------------------------------------
RefOK(h, ref) == \/ ref.r = "none" /\ ref.i = 0
                 \/ ref.r = "o" /\ ref.i \in 1..Len(h.objs)
                 \/ ref.r = "l" /\ ref.i \in 1..Len(h.lists)
IsPyList(h, ref) == ref.r = "l" /\ h.lists[ref.i].k = "l"
ShapeOf(o) == IF IsScalar(o) THEN "c" ELSE IF IsS(o) THEN "s" ELSE IF Len(o.c) = 1 THEN "q" ELSE "f"
CellsOfS(o) == IF IsScalar(o) THEN {o.v} ELSE IF IsS(o) THEN Range(o.v) ELSE UNION {Range(o.v[j]) : j \in 1..Len(o.v)}
\* Named restriction AggUniformShapes: df_sum / df_mean / df_count of operands of different shapes (frame + series, ..)
\* is the recorded finding C08-aggregate-mixed-shapes; it is watched by the single-call families and kept out of the
\* histories, where one recorded defect would hide everything that follows it.
AggUniformShapes(xs) == Cardinality({ShapeOf(xs[i]) : i \in 1..Len(xs)} \ {"c"}) <= 1
SessDomain(h, c) ==
    /\ RefOK(h, c.a) /\ RefOK(h, c.b) /\ c.a.r # "none"
    /\ c.op \in BinOps \cup AggOps /\ c.join \in {"ij", "oj"} /\ c.cols \in {"ij", "oj"}
    /\ LET xs == Xs(h, c)
           multi == SelectSeq(xs, IsMulti) IN
       /\ Len(xs) \in 2..4                                              \* "tuples of 2..4"
       /\ \E i \in 1..Len(xs) : IsTs(xs[i])
       /\ \A i \in 1..Len(xs) : IsTs(xs[i]) => WellFormed(xs[i])
       /\ c.op \in PairOps => c.a.r = "o" /\ c.b.r = "o"
       /\ c.op = "pow" => \A y \in CellsOfS(xs[2]) : PowDomain(y)
       \* sub_ / div_ take a python list on either side (a tuple is not a list of operands for them), neither side empty
       /\ c.op \in CutOps => /\ c.b.r # "none" /\ Ids(h, c.a) # <<>> /\ Ids(h, c.b) # <<>>
                             /\ c.a.r = "l" => IsPyList(h, c.a)
                             /\ c.b.r = "l" => IsPyList(h, c.b)
       \* the scalar divisor 0 is the named deviation DivScalarZero of Series.tla, stated for two operands only
       /\ (c.op = "div" /\ Len(xs) > 2) => \A i \in 2..Len(xs) : ~(IsScalar(xs[i]) /\ xs[i].v = Zero)
       /\ c.op \in AggOps => c.join = "oj" /\ AggUniformShapes(xs)
       /\ c.op \notin AggOps => OpsColsPinned(c.op, xs, c.cols)
       /\ OpsMethodOK(xs, c.m) /\ (c.op \in AggOps => c.m = "none")
       /\ (c.cols = "ij" /\ multi # <<>>) =>
              Cardinality(CommonCols("ij", [i \in 1..Len(multi) |-> Cols(multi[i])])) >= (IF Len(xs) >= 3 /\ Len(multi) >= 2 THEN 2 ELSE 1)

\* ---------------------------------------------------------------------------------------------
\* LAW
\* ---------------------------------------------------------------------------------------------
\* sub_ / div_ with a list: "lists of operands reduce left to right" has two readings and the statement does not choose:
\*   flat   - the operands of both arguments in one row, reduced left to right by the operation:  ((a - b1) - b2)
\*   nested - a list stands for what it reduces to by the companion operation (the docstring's "lhs / rhs: list of
\*            these"):  (a1 + a2) - (b1 + b2),  (a1 * a2) / (b1 * b2)
\* Named deviation CutListReading: both are accepted.  With a single operand on the left they are the same data
\* (checked by TLC: MC_OpsSession!RightListPinned), so sub_(a, [b1, b2]) is pinned down.
Companion(op) == IF op = "sub" THEN "add" ELSE "mul"
SideOf(h, ref, op, j, cp) == Reduce(op, ObjsOf(h, Ids(h, ref)), j, cp)
Flat(h, c)   == Reduce(c.op, Xs(h, c), c.join, c.cols)
Nested(h, c) == BinOp(c.op, SideOf(h, c.a, Companion(c.op), c.join, c.cols), SideOf(h, c.b, Companion(c.op), c.join, c.cols), c.join, c.cols)
SessOutcomes(h, c) ==
    LET xs == Xs(h, c) IN
    IF c.op \in AggOps THEN {Agg(c.op, xs, c.cols)}
    ELSE IF c.op \in CutOps /\ Len(xs) > 2 THEN {Flat(h, c), Nested(h, c)}
    ELSE OpsOutcomes(c.op, xs, c.join, c.cols, c.m)

\* what the caller does to its own objects between calls: a step [act, c, l, o, x, p] (x: a number, p: names)
\*   [act |-> "append", l |-> list, o |-> object]   [act |-> "pop", l |-> list]   [act |-> "poke", o |-> series]
\* and the in-place edits that keep the object's identity and shape
\*   [act |-> "shift",   o |-> timeseries, x |-> +1 | -1]     ts.index = ts.index + x days
\*   [act |-> "restamp", o |-> timeseries, x |-> position]   stamp number x moves one day on (it stays before the next one)
\*   [act |-> "rename",  o |-> frame, p |-> <<old, new>>]     a column gets another name
\*   [act |-> "reorder", o |-> frame]                         the columns are put in another physical order: the same frame
\*   [act |-> "pokes",   o |-> timeseries, x |-> 0 | 1]       every other cell (1st, 3rd, ..; of a frame: in its first column)
\*                                                           is overwritten with NaN (0) resp. with the number 0 (1)
CanAppend(h, l, o) == l \in 1..Len(h.lists) /\ h.lists[l].k = "l" /\ o \in 1..Len(h.objs)
CanPop(h, l)       == l \in 1..Len(h.lists) /\ h.lists[l].k = "l" /\ h.lists[l].ids # <<>>
CanPoke(h, o)      == o \in 1..Len(h.objs) /\ IsS(h.objs[o]) /\ Len(h.objs[o].v) >= 1 /\ ~IsNaN(h.objs[o].v[1])
IsTsAt(h, o)       == o \in 1..Len(h.objs) /\ IsTs(h.objs[o])
CanShift(h, o, d)  == IsTsAt(h, o) /\ Len(h.objs[o].t) >= 1 /\ d \in {-1, 1} /\ h.objs[o].t[1] + d >= 1
CanRestamp(h, o, i) == IsTsAt(h, o) /\ i \in 1..Len(h.objs[o].t) /\ (i = Len(h.objs[o].t) \/ h.objs[o].t[i + 1] > h.objs[o].t[i] + 1)
CanRename(h, o, p) == IsTsAt(h, o) /\ IsMulti(h.objs[o]) /\ Len(p) = 2 /\ p[1] \in Cols(h.objs[o]) /\ p[2] \in Range(ColU) \ Cols(h.objs[o])
CanReorder(h, o)   == IsTsAt(h, o) /\ IsMulti(h.objs[o])
CanPokes(h, o, x)  == IsTsAt(h, o) /\ Len(h.objs[o].t) >= 1 /\ x \in {0, 1}
Shifted(ob, d)   == [ob EXCEPT !.t = [i \in 1..Len(ob.t) |-> ob.t[i] + d]]
Restamped(ob, i) == [ob EXCEPT !.t[i] = @ + 1]
Renamed(ob, p)   == MkF(Times(ob), (Cols(ob) \ {p[1]}) \cup {p[2]}, LAMBDA c, x : FVal(ob, IF c = p[2] THEN p[1] ELSE c, x))
EveryOther(cells, x) == [i \in 1..Len(cells) |-> IF i % 2 = 1 THEN (IF x = 0 THEN NaNC ELSE Zero) ELSE cells[i]]
Poked(ob, x)     == IF IsS(ob) THEN [ob EXCEPT !.v = EveryOther(@, x)] ELSE [ob EXCEPT !.v[1] = EveryOther(@, x)]
CanDo(h, s) == CASE s.act = "append"  -> CanAppend(h, s.l, s.o)
                 [] s.act = "pop"     -> CanPop(h, s.l)
                 [] s.act = "poke"    -> CanPoke(h, s.o)
                 [] s.act = "shift"   -> CanShift(h, s.o, s.x)
                 [] s.act = "restamp" -> CanRestamp(h, s.o, s.x)
                 [] s.act = "rename"  -> CanRename(h, s.o, s.p)
                 [] s.act = "reorder" -> CanReorder(h, s.o)
                 [] s.act = "pokes"   -> CanPokes(h, s.o, s.x)
                 [] OTHER             -> FALSE
Apply(h, s) == CASE s.act = "append"  -> [h EXCEPT !.lists[s.l].ids = Append(@, s.o)]
                 [] s.act = "pop"     -> [h EXCEPT !.lists[s.l].ids = SubSeq(@, 1, Len(@) - 1)]
                 [] s.act = "poke"    -> [h EXCEPT !.objs[s.o].v[1] = NaNC]          \* the first observation is withdrawn
                 [] s.act = "shift"   -> [h EXCEPT !.objs[s.o] = Shifted(@, s.x)]
                 [] s.act = "restamp" -> [h EXCEPT !.objs[s.o] = Restamped(@, s.x)]
                 [] s.act = "rename"  -> [h EXCEPT !.objs[s.o] = Renamed(@, s.p)]
                 [] s.act = "reorder" -> h                                           \* column order is no part of a frame
                 [] s.act = "pokes"   -> [h EXCEPT !.objs[s.o] = Poked(@, s.x)]
\* the edits that keep identity and shape (what a memo could be keyed on)
ShapeKeeping == {"poke", "shift", "restamp", "rename", "reorder", "pokes"}

\* ---------------------------------------------------------------------------------------------
\* MECHANISM of the argument handling
\* ---------------------------------------------------------------------------------------------
\* as_list(a) IS the caller's object when a is a python list; of a tuple, a single operand or None it is a new list
AsListIsCallers(h, ref) == IF IsPyList(h, ref) THEN ref.i ELSE 0
MechCall(h, c, extend) ==
    LET ids == ArgIds(h, c)                       \* as_list(a) + as_list(b)
        own == AsListIsCallers(h, c.a)
        h2  == IF extend /\ own # 0 /\ c.op \in FoldOps \cup AggOps
               THEN [h EXCEPT !.lists[own].ids = ids]                   \* dfs = as_list(a); dfs += as_list(b)
               ELSE h
        xs  == ObjsOf(h, ids)
        out == IF c.op \in AggOps THEN Agg(c.op, xs, c.cols)
               ELSE IF c.op \in CutOps /\ Len(xs) > 2 THEN Nested(h, c)                \* a = add_(a) .. b = add_(b) .. _sub_(a, b)
               ELSE OpsReduce(c.op, xs, c.join, c.cols, c.m, "row")
    IN  [heap |-> h2, out |-> out]
=============================================================================
