CONSTANTS Family = "share"
 Depth = 2
INIT Init
NEXT NextGen
INVARIANT HeapIsHistory
