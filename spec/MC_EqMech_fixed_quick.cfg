CONSTANTS Wide = FALSE
          Nest = FALSE
INIT Init
NEXT Eval
INVARIANT FixedTotal
INVARIANT FixedPinned
INVARIANT FixedCopies
INVARIANT FixedSymmetric
INVARIANT RealIsFixed
