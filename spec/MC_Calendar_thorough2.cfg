CONSTANTS HW = 7
          Margins = {1, 2, 3, 4, 5, 6}
          Anchors = {1, 2, 3}
          NMax = 8
          MCMod = 3
          GenMod = 1
          TPad = 3
INIT Init
NEXT Eval
INVARIANT AdjustLaw
INVARIANT AddLaw
INVARIANT DrangeLaw
INVARIANT MechanismIsLaw
INVARIANT BeyondIsLawOrRefusal
INVARIANT PathsAgree
INVARIANT TableLaw
INVARIANT Straddles
INVARIANT MonthNoIsMonthOf
