CONSTANTS HW = 7
          Margins = {21, 2}
          Anchors = {1, 2}
          NMax = 8
          GenMod = 1
          TPad = 3
INIT Init
NEXT Eval
INVARIANT AdjustLaw
INVARIANT AddLaw
INVARIANT DrangeLaw
INVARIANT MechanismIsLaw
INVARIANT PathsAgree
INVARIANT TableLaw
INVARIANT Straddles
INVARIANT MonthNoIsMonthOf
