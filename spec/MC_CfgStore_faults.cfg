CONSTANTS KeyOrd <- KeyAB
          Vals = {1, 2}
          Bad = 0
          Procs = {1, 2}
          NPaths = 1
          Blocked = {}
          Allow = {"crash_truncated", "crash_partial", "between_truncated", "between_partial", "bad_value"}
          GenFlush = {1, 2, 3, 4}
          WarmReads = TRUE
          InitCfgs <- OneInit
          WriteCfgs <- TwoBadWrite
          MaxBegin = 2
          MaxRead = 1
          MaxSpawn = 2
          MaxCrash = 1
INIT Init
NEXT NextFaults
INVARIANT TypeOK
INVARIANT RL_none
