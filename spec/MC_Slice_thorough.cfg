CONSTANTS NPts = 8
          NDays = 2
          NSlots = 4
          StitchCfg <- StitchBig
INIT Init
NEXT Next
PROPERTY ArgsFrame
INVARIANT SliceSub
INVARIANT Unbounded
INVARIANT OneSided
INVARIANT TwoSided
INVARIANT Brackets
INVARIANT Partition
INVARIANT WrapComplement
INVARIANT WrapMechDefault
INVARIANT StitchOnce
INVARIANT StitchN1
INVARIANT StitchColumn
INVARIANT StitchRows
INVARIANT StitchReverse
INVARIANT RoundTrip
INVARIANT Recovers
