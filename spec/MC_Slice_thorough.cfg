CONSTANTS NPts = 8
          NDays = 2
          NSlots = 4
          StitchCfg <- StitchBig
          NDup = 3
          MaxMult = 3
          NDupSlots = 2
          ZoneCfg <- ZonesBig
          NZE = 4
          NZ2 = 1
          StitchDupCfg <- DupStitchBig
          StitchNaNCfg <- NaNStitchBig
INIT Init
NEXT Next
PROPERTY ArgsFrame
INVARIANT SliceSub
INVARIANT Unbounded
INVARIANT OneSided
INVARIANT TwoSided
INVARIANT Brackets
INVARIANT Partition
INVARIANT WrapComplement
INVARIANT DupTogether
INVARIANT SameTodTogether
INVARIANT LocalClock
INVARIANT WrapMechDefault
INVARIANT ElapsedOrdinary
INVARIANT TrimOneUnique
INVARIANT StitchOnce
INVARIANT StitchN1
INVARIANT StitchColumn
INVARIANT StitchRows
INVARIANT StitchReverse
INVARIANT RoundTrip
INVARIANT Recovers
INVARIANT StitchValueBlind
INVARIANT StitchDupLaw
INVARIANT StitchDupStrict
