CONSTANTS Variant = "code"
          Size = "wide"
          Depth = 2
          Hist = TRUE
INIT Init
NEXT Next
INVARIANT CallsAreLaw
INVARIANT PoolsUntouched
INVARIANT ResultsIndependent
INVARIANT HeapStaysOk
