------------------------- MODULE MC_PerdictableSess -------------------------
(* Property C20: SESSIONS on caller-owned tables, enumerated (see PerdictableSess.tla).          *)
(* The pool: X (object 1) over all K keys, Y (object 2) over all of them or over the first one  *)
(* only ("few" pools on two key columns: over all of them); every pair of forms of FormPairs; with two key columns every table lists them in the    *)
(* order of `on` or against it.  A session is                                                    *)
(*      call ; [ an edit of the caller ] ; call                                                  *)
(* the first call without cache (perdictable or join) in any shape of Shapes (one table, two    *)
(* tables, ONE table under two parameter names, a table and a scalar, the tables under swapped   *)
(* names; with / without a default), the edit one of: payload column of X or Y replaced in place,*)
(* X replaced by a table derived from it (new payload / fewer rows), the returned table edited   *)
(* in place; the second call in the same shape or in its neighbour Alt, as join, as perdictable  *)
(* without cache or with the table the first call returned (as the caller left it) as `data` -   *)
(* no expiry / one past expiry for all rows / past, future, None dealt to its keys - and with    *)
(* optional parameters rotating through OptSeq.                                                   *)
(* State = the pool and `last` as the LAW says they are (a call changes nothing, an edit what it *)
(* says); hist records every step with what the law expects of it.  Invariants: the law follows *)
(* the caller's edits (FollowsEdit), edits are local, options are not inputs, and the mechanism  *)
(* of _item - a renamed COPY - reads what the law reads (CopyIsLaw), while                        *)
(* a mechanism that writes the renamed column into the caller's table does not (InPlaceIsLaw,      *)
(* expected to fail: configuration `inplace`).                                                     *)
EXTENDS PerdictableSess, Json
CONSTANTS SSizes        \* set of <<nk, K, pools>>: key columns, keys, "few" | "all" pools

SS_quick    == {<<1, 2, "few">>, <<2, 2, "few">>}
SS_thorough == {<<1, 2, "all">>, <<2, 2, "few">>, <<1, 3, "few">>, <<2, 3, "few">>}
SS_mc       == {<<1, 2, "few">>}
SS_mc_thorough == {<<1, 2, "few">>, <<2, 2, "few">>, <<1, 3, "few">>, <<2, 3, "few">>}

VARIABLES sz, pool0, pool, last, hist, mem
vars == <<sz, pool0, pool, last, hist, mem>>

NK == sz[1]
AllKeys(nk) == IF nk = 1 THEN <<<<1>>, <<2>>, <<3>>>> ELSE <<<<1, 2>>, <<2, 1>>, <<1, 1>>>>
KeysOf(s)   == {AllKeys(s[1])[n] : n \in 1..s[2]}
KeyNo(k)    == IF Len(k) = 1 THEN k[1] ELSE 10 * k[1] + k[2]
Today   == 739000
PastD   == <<"d", <<730120, 0, 0>>>>
FutureD == <<"d", <<1094998, 0, 0>>>>

InitOthers(form, n) == IF form \in {"extra", "renamed"} THEN [noise |-> [i \in 1..n |-> VInt(0)]] ELSE <<>>
MkTable(j, S, nk, form, ord) ==
    LET ks == SortedKeys(S, nk) IN
    [rows |-> [n \in 1..Len(ks) |-> [key |-> ks[n], sp |-> 0, v |-> VInt(100 * j + KeyNo(ks[n]))]],
     others |-> InitOthers(form, Len(ks)), form |-> form, ord |-> ord]
FormPairs(s) == IF s[3] = "few" THEN {<<"data", "single">>, <<"single", "own">>, <<"renamed", "data">>, <<"own", "extra">>, <<"extra", "renamed">>}
                ELSE Forms \X Forms
OrdPairs(s)  == IF s[1] = 1 THEN {<<"same", "same">>} ELSE IF s[3] = "few" THEN {<<"reverse", "same">>, <<"reverse", "reverse">>}
                ELSE {<<"reverse", "same">>, <<"reverse", "reverse">>, <<"same", "reverse">>, <<"same", "same">>}
YKeys(s)     == IF s[3] = "few" /\ s[1] = 2 THEN {KeysOf(s)} ELSE {KeysOf(s), {AllKeys(s[1])[1]}}
Pools(s) == {<<MkTable(1, KeysOf(s), s[1], fp[1], op[1]), MkTable(2, yk, s[1], fp[2], op[2])>> :
                fp \in FormPairs(s), op \in OrdPairs(s), yk \in YKeys(s)}

\* ---- the menu of calls ------------------------------------------------------------------------
T(j) == [kind |-> "table", obj |-> j]
S(v) == [kind |-> "scalar", v |-> v]
Shapes == << [params |-> <<T(1)>>,        defs |-> <<<<>>>>],
             [params |-> <<T(1), T(2)>>,  defs |-> <<<<>>, <<>>>>],
             [params |-> <<T(1), T(2)>>,  defs |-> <<<<>>, <<VInt(0 - 2)>>>>],
             [params |-> <<T(1), T(1)>>,  defs |-> <<<<>>, <<>>>>],
             [params |-> <<T(1), S(VInt(1002))>>, defs |-> <<<<>>, <<>>>>],
             [params |-> <<T(2), T(1)>>,  defs |-> <<<<>>, <<None>>>>] >>
Alt(n) == (n % Len(Shapes)) + 1
Variants == <<"join", "run", "last_absent", "last_scalar", "last_keyed">>
ExpiryFor(variant, lst) ==
    CASE variant = "last_scalar" -> [kind |-> "scalar", rows |-> <<>>, v |-> PastD]
      [] variant = "last_keyed" /\ lst.kind = "table" -> [kind |-> "keyed", v |-> None,
                                     rows |-> [n \in 1..Len(lst.rows) |-> [key |-> lst.rows[n].key, sp |-> 0,
                                                                           v |-> IF n = 1 THEN PastD ELSE IF n = 2 THEN FutureD ELSE None]]]
      [] OTHER -> AbsentJ
MkCall(sh, vn, at) ==
    LET variant == Variants[vn] IN
    [kind |-> "call", api |-> IF variant = "join" THEN "join" ELSE "run", shape |-> sh, variant |-> variant,
     params |-> Shapes[sh].params, defs |-> Shapes[sh].defs,
     opts |-> IF variant = "join" THEN DefaultOpts ELSE OptSeq[((sh + vn + at) % Len(OptSeq)) + 1],
     cache |-> IF variant \in {"last_absent", "last_scalar", "last_keyed"} THEN "last" ELSE "none",
     expiry |-> ExpiryFor(variant, last)]
CallOK(st) == /\ CallInDomain(pool, st)
              /\ st.cache = "last" => last.kind = "table"
              /\ st.api = "run" => InDomain(CfgOfJ(StepCfgJ(NK, pool, last, st), Today))

\* what the law expects of a call on the pool as it is now
Expect(p, l, st) ==
    LET cf == CfgOfJ(StepCfgJ(NK, p, l, st), Today) IN
    IF st.api = "join" THEN [outs |-> SetToSeq(JoinOutcomes(cf, NK, TRUE)), calls |-> <<>>]
    ELSE [outs |-> SetToSeq(RunOutcomesOpt(cf, NK, TRUE, st.opts)), calls |-> RunCalls(cf, NK)]
LastAfter(p, l, st) ==
    LET cf == CfgOfJ(StepCfgJ(NK, p, l, st), Today) IN
    IF st.api = "join" THEN l
    ELSE IF AllScalar(cf) \/ JoinKeys(cf) = {} THEN NoLast
    ELSE LET rs == RunRows(cf, NK) IN [kind |-> "table", rows |-> [n \in 1..Len(rs) |-> [key |-> rs[n].key, v |-> rs[n].v]]]

\* ---- the mechanism of _item, as a memory in the caller's tables: mem[how][j] = parameter position -> the payload cells a call
\* left in table j under that parameter's name.  A later call that finds such a column reads IT ("key in d.keys()").
\* how = "copy": the code (a renamed copy is made, nothing is left; renames = {..} writes the column anew before it is read)
\* how = "inplace": the 'data' / only-column fallbacks written into the caller's table
Hows == {"copy", "inplace"}
NoMem == [h \in Hows |-> [j \in 1..2 |-> <<>>]]
Leaves(how, t, i, j) == IF t.form = "renamed" THEN TRUE
                        ELSE how = "inplace" /\ (t.form \in {"data", "single"} \/ (t.form = "own" /\ i # j))
MechReads(m, p, st, i) == LET j == st.params[i].obj IN
                          IF i \in DOMAIN m[j] /\ p[j].form # "renamed" THEN m[j][i] ELSE Payload(p[j])
MemAfterCall(how, m, p, st) ==
    [j \in 1..2 |-> LET is == {i \in 1..Len(st.params) : st.params[i].kind = "table" /\ st.params[i].obj = j /\ Leaves(how, p[j], i, j)} IN
                    [i \in is |-> IF i \in DOMAIN m[j] /\ p[j].form # "renamed" THEN m[j][i] ELSE Payload(p[j])] @@ m[j]]
\* an edit: the payload changes, what was left stays (derive copies every column; subset drops it - never read again - for simplicity)
MemAfterEdit(m, st) == IF st.kind = "subset" THEN [m EXCEPT ![st.obj] = <<>>] ELSE m
MechIsLawFor(how) == \A n \in 1..Len(hist) : hist[n].step.kind = "call" => hist[n].mech[how]

\* ---- behaviours --------------------------------------------------------------------------------
NCalls == Cardinality({n \in 1..Len(hist) : hist[n].step.kind = "call"})
Init == /\ sz \in SSizes /\ pool0 \in Pools(sz) /\ pool = pool0 /\ last = NoLast /\ hist = <<>> /\ mem = NoMem
DoCall(st) ==
    /\ CallOK(st)
    /\ hist' = Append(hist, [step |-> st, expect |-> Expect(pool, last, st),
                             mech |-> [h \in Hows |-> \A i \in 1..Len(st.params) : st.params[i].kind = "table" => MechReads(mem[h], pool, st, i) = Payload(pool[st.params[i].obj])]])
    /\ last' = LastAfter(pool, last, st)
    /\ mem' = [h \in Hows |-> MemAfterCall(h, mem[h], pool, st)]
    /\ UNCHANGED <<sz, pool0, pool>>
FirstCall  == /\ hist = <<>>
              /\ \E sh \in 1..Len(Shapes), vn \in 1..2 : DoCall(MkCall(sh, vn, 1))
SecondCall == /\ NCalls = 1
              /\ \E sh \in {hist[1].step.shape, Alt(hist[1].step.shape)}, vn \in 1..Len(Variants) : DoCall(MkCall(sh, vn, Len(hist) + 1))
NewVal(j, k, at) == VInt(1000 * at + 100 * j + KeyNo(k))
Edits == LET at == Len(hist) + 1
             setrows(j) == [n \in 1..Len(pool[j].rows) |-> [key |-> pool[j].rows[n].key, v |-> NewVal(j, pool[j].rows[n].key, at)]] IN
         {[kind |-> "setcol", obj |-> 1, rows |-> setrows(1)], [kind |-> "derive", obj |-> 1, rows |-> setrows(1)],
          [kind |-> "setcol", obj |-> 2, rows |-> setrows(2)],
          [kind |-> "subset", obj |-> 1, keep |-> <<pool[1].rows[Len(pool[1].rows)].key>>]}
         \cup (IF last.kind = "table" THEN {[kind |-> "editresult", rows |-> [n \in 1..Len(last.rows) |-> [key |-> last.rows[n].key, v |-> VStr("edited" \o ToString(KeyNo(last.rows[n].key)))]]]}
               ELSE {})
Edit == /\ Len(hist) = 1
        /\ \E st \in Edits :
              /\ EditWellFormed(pool, last, st)
              /\ hist' = Append(hist, [step |-> st])
              /\ pool' = ApplyEdit(pool, st)
              /\ last' = EditLast(last, st)
              /\ mem' = [h \in Hows |-> MemAfterEdit(mem[h], st)]
        /\ UNCHANGED <<sz, pool0>>
Next == FirstCall \/ Edit \/ SecondCall

\* ---- invariants ---------------------------------------------------------------------------------
\* the law follows the caller: call ; the payload of a table of that call replaced ; the same call again (no cache) - every row
\* of the second result whose key the edited table holds differs from the first (all new payload values are new)
IsTableOut(e) == Len(e.outs) = 1 /\ e.outs[1].kind = "table"
FollowsEdit == (Len(hist) = 3 /\ hist[2].step.kind \in {"setcol", "derive"} /\ hist[3].step.shape = hist[1].step.shape
                /\ hist[3].step.variant = hist[1].step.variant /\ IsTableOut(hist[1].expect) /\ IsTableOut(hist[3].expect)
                /\ \E i \in 1..Len(hist[1].step.params) : hist[1].step.params[i] = T(hist[2].step.obj)) =>
                   LET r1 == hist[1].expect.outs[1].rows  r3 == hist[3].expect.outs[1].rows IN
                   /\ Len(r1) = Len(r3)
                   /\ \A n \in 1..Len(r1) : r1[n].key = r3[n].key /\ (r1[n].key \in RowKeys(pool[hist[2].step.obj].rows) => r1[n] # r3[n])
\* a call never changes the pool; an edit changes the one table it names and nothing else
EditIsLocal == \A n \in 1..Len(hist) : hist[n].step.kind \in {"setcol", "derive", "subset"} => pool[3 - hist[n].step.obj] = pool0[3 - hist[n].step.obj]
\* options are not inputs: whatever the optional parameters, the rows / values / calls are those of the default call
OptionsAreNotInputs == \A n \in {Len(hist)} \ {0} : (hist[n].step.kind = "call" /\ hist[n].step.api = "run") =>
                          \A op \in {OptSeq[m] : m \in 1..Len(OptSeq)} : ~op.inc =>
                              Expect(pool, last, [hist[n].step EXCEPT !.opts = op]) = Expect(pool, last, [hist[n].step EXCEPT !.opts = DefaultOpts])
CopyIsLaw    == MechIsLawFor("copy")
InPlaceIsLaw == MechIsLawFor("inplace")

\* ---- generator: one line per complete session ----------------------------------------------------
Emit == /\ NCalls = 2
        /\ PrintT(ToJson([nk |-> NK, size |-> sz, pool |-> pool0, hist |-> [n \in 1..Len(hist) |-> [step |-> hist[n].step, expect |-> IF "expect" \in DOMAIN hist[n] THEN hist[n].expect ELSE [outs |-> <<>>, calls |-> <<>>]]]]))
        /\ UNCHANGED vars
Gen == FirstCall \/ Edit \/ SecondCall \/ Emit
=============================================================================
