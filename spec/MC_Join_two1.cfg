CONSTANTS MaxRows = 1
          Shape = "two"
INIT Init
NEXT Next
INVARIANT LeftJoinDecomposition
INVARIANT Symmetric
INVARIANT ClassesOK
INVARIANT RowsOK
