CONSTANTS MaxLen1 = 5
          MaxRows2 = 3
          MaxList = 3
          Lims = {0, 1, 2}
INIT Init
NEXT Eval
INVARIANT Shape
INVARIANT NonNaNKept
INVARIANT FilledAreCopies
INVARIANT Reach
INVARIANT LimitNone
INVARIANT MechIsLaw
INVARIANT FillKeepsRows
INVARIANT DropOnly
INVARIANT NonaExact
INVARIANT FnnaExact
INVARIANT DropAlgebra
INVARIANT FfillXLaw
INVARIANT Idempotent
INVARIANT Complete
INVARIANT FewOutcomes
