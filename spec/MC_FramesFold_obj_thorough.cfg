CONSTANTS
 MaxLen = 5
 NStamps = 2
 Leaky = FALSE
 Depth = 4
INIT InitObj
NEXT ObjNext
INVARIANT AnswerIsLaw
INVARIANT NothingRemembered
PROPERTY ObjectUnchanged
