CONSTANTS LeafSet = "std"
          RebuildWide = TRUE
          Deep = TRUE
          Wide3 = TRUE
          TableWide = TRUE
          StrangeWide = TRUE
          Only = "all"
INIT Init
NEXT Next
INVARIANT RebuildStep
INVARIANT RebuildInverse
INVARIANT FlattenInverse
INVARIANT ItemsPrefixFree
INVARIANT WalksAgree
INVARIANT GetListed
INVARIANT MergeSelf
INVARIANT MergeEmpty
INVARIANT SingleIsInsert
INVARIANT MergeItems
INVARIANT MergeMechanism
INVARIANT MergeWellFormed
INVARIANT MergeIdempotent
INVARIANT MergeOverrides
INVARIANT MergeKeeps
INVARIANT MatchIsLaw
INVARIANT InverseOnTree
INVARIANT FromTableSound
INVARIANT InverseOnRows
