----------------------------- MODULE MC_RollCall -----------------------------
(* Extension X03-b on the specification: single calls of df_roll_off.  One behaviour per case     *)
(*   call --Eval--> out.  The calls are drawn from the worlds of MC_Roll: a clock, a curve size,  *)
(*   the caller's data = nothing / what a load from scratch returned `back` days earlier (with    *)
(*   the chain it returned, or with the caller's original chain), with / without transform,       *)
(*   marking live_check, the three reactions to "fewer than n live contracts", no cutoff.         *)
(* EvalGen prints every case with the outcome the specification expects (S2C).                    *)
EXTENDS MC_Roll
CONSTANTS Nows, Backs

FlagU == {[tr |-> 0, mark |-> 0, ifno |-> "no", nocut |-> FALSE],
          [tr |-> 1, mark |-> 1, ifno |-> "no", nocut |-> FALSE],
          [tr |-> 0, mark |-> 0, ifno |-> "raise", nocut |-> FALSE],
          [tr |-> 1, mark |-> 0, ifno |-> "call", nocut |-> TRUE]}

CInit == /\ w \in Worlds /\ n \in Ns /\ now \in Nows /\ keep \in BOOLEAN
         /\ daily = TRUE /\ truncs = 0 /\ out = NoCall /\ hist = <<>>
         /\ \E back \in Backs, fl \in FlagU :
               LET prev == IF back = 0 THEN [data |-> NoFrame, rolls |-> w.rolls0] ELSE Fresh(now - back)
                   c0 == CallOf(now, prev.data, IF keep THEN prev.rolls ELSE w.rolls0) IN
               /\ back = 0 => keep
               /\ data = prev.data /\ rolls = (IF keep THEN prev.rolls ELSE w.rolls0)
               /\ call = [c0 EXCEPT !.tr = fl.tr, !.mark = fl.mark, !.ifno = fl.ifno,
                                    !.cutoff = IF fl.nocut /\ back = 0 THEN 0 ELSE @]
         /\ Domain(call)
Eval    == out = NoCall /\ out' = Apply(call) /\ UNCHANGED <<w, n, now, data, rolls, call, keep, daily, truncs, hist>>
EvalGen == Eval /\ PrintT(ToJson([call |-> call, want |-> out']))

Done == out # NoCall
Ok   == Done /\ out.kind = "ok"
\* the kept part of the caller's data comes back as it was, and everything else lies after it
KeepsOld == (Ok /\ DataOK(call)) => RowsUpTo(out.data, LastT(Old(call))) = Old(call)
\* the rows after the kept part are the freshly rolled rows after it
AppendsNew == (Ok /\ Len(Contrib(call)) > 0) =>
                 LET from == IF DataOK(call) THEN LastT(Old(call)) ELSE 0 IN
                 RowsAfter(out.data, from) = PadCols(RowsAfter(New(call), from), NCols(out.data))
\* no roll date that was written in the chain is changed; an unloaded contract never gets its own last date
RollsKept == Ok => \A i \in 1..NC(call) : call.rolls[i] # 0 => out.rolls[i] = call.rolls[i]
\* fewer than n live contracts: the caller's choice decides
IfNoLaw == Done => CASE out.kind = "exc" -> call.ifno = "raise" /\ NLive(call) < NEff(call)
                     [] out.kind = "called" -> call.ifno = "call" /\ out.args = <<NLive(call), NEff(call)>> /\ NLive(call) < NEff(call)
                     [] out.kind = "ok" -> call.ifno = "no" \/ NLive(call) >= NEff(call)
CallMechanismIsLaw == Done => /\ MechLoaded(call) = LoadedSeq(call)
                              /\ MechRolls(call) = [p \in 1..Len(KeptSeq(call)) |-> RollOut(call, KeptSeq(call)[p])]
CallFrontIsStitch == Done =>
    LET N == New(call)  con == Contrib(call)  ubs == RawUBs(call) IN
    /\ \A r \in 1..NRows(N), j \in 1..NCols(N) : N.cols[j][r] = CellAtU(call, con, ubs, N.rows[r], j)
    /\ RangeOf(N.rows) = {t \in 1..Horizon : \E j \in 1..NEff(call) : CellAtU(call, con, ubs, t, j) # NaN}
CallLoadsPrefix == Done => \A p \in 1..Len(out.loaded) :
                    Cardinality({q \in 1..(p - 1) : Live(call, out.loaded[q])}) < NEff(call)
=============================================================================
