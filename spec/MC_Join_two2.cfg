CONSTANTS MaxRows = 2
          Shape = "two"
INIT Init
NEXT Next
INVARIANT LeftJoinDecomposition
INVARIANT Symmetric
INVARIANT ClassesOK
INVARIANT RowsOK
