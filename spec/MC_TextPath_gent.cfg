CONSTANTS PathLen = 5
          Strata = {"path", "csv"}
INIT Init
NEXT EvalGen
