CONSTANTS MaxLen1 = 6
          MaxRows2 = 4
          MaxList = 2
          Lims = {0, 1, 2, 3}
INIT Init
NEXT Eval
INVARIANT Shape
INVARIANT NonNaNKept
INVARIANT FilledAreCopies
INVARIANT Reach
INVARIANT LimitNone
INVARIANT MechIsLaw
INVARIANT FillKeepsRows
INVARIANT DropOnly
INVARIANT NonaExact
INVARIANT FnnaExact
INVARIANT DropAlgebra
INVARIANT FfillXLaw
INVARIANT Idempotent
INVARIANT Complete
INVARIANT FewOutcomes
