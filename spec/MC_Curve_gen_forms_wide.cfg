CONSTANTS Kinds = {"forms", "frame"}
          Wide = TRUE
INIT Init
NEXT EvalGen
