CONSTANTS Family = "edit"
 Depth = 3
INIT Init
NEXT Next
INVARIANT HeapIsHistory
INVARIANT CallsOwnNothing
INVARIANT OnCurrentIndex
INVARIANT SpellingIrrelevant
INVARIANT LastIsLastPlace
