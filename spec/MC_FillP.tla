------------------------------- MODULE MC_FillP -------------------------------
(* Property C12 over PROCESS SESSIONS (Fill.tla, "process sessions"): a call has no memory and    *)
(* its result is ordinary data.  One behaviour = what one caller does in one interpreter:         *)
(*     Call(x, A, l1) ; [the caller's own actions on the result] ; Call(src, B, l2) ; ...         *)
(* where src is  "x"   the same input object again,                                               *)
(*               "cur" the working object: the result of the previous call, possibly after the    *)
(*                     caller derived a new object from it (Der: reindexed onto a longer calendar *)
(*                     / back onto the full one, lagged, an observation withdrawn / arrived in    *)
(*                     place,                                                                     *)
(*                     sliced, copied, multiplied by one, its values put into a new object),      *)
(*               "y"   ANOTHER input of the same length / shape (other NaN mask, other values),   *)
(* and <<B, l2>> is the same method list with the same / another limit or another method list.    *)
(* Law (PLaw, built into Call): the outcome is Fillna of the CONTENTS of src at that moment.      *)
(*   PShape      every admitted working object is a well-formed frame with the columns of x       *)
(*   PNoCross    a result shows cells of the input it descends from only (x and y carry different *)
(*               values), NaN, and the constants 7 / 0 a method writes                            *)
(*   PIdem       without a limit the same call on its own untouched result changes nothing - the  *)
(*               good-faith reason for an "already filled" short-cut; Der is what makes it wrong  *)
(*   PRefines    (mechanism) a dispatcher that consults a memo carried by the data object (a tag  *)
(*               "filled with ms", written when limit is None, inherited by everything derived    *)
(*               from the object) refines the law iff the memo is OFF (must_fail configuration)   *)
(* Generator configuration: `hist` records calls and derivations with the contents admitted after *)
(* each; the driver replays them in ONE process, in the order of the history.                     *)
EXTENDS Fill, TLC, Json, SequencesExt
CONSTANTS MaxLenP, MaxRowsP,       \* x: vectors of <= MaxLenP cells, 2-column frames of <= MaxRowsP rows
          MaxLenY, MaxRowsY,       \* the shapes for which a second input y is built
          ListsP,                  \* the method lists
          LimsP,                   \* limits of the first call and of a later call with the same method list
          OtherLimsP,              \* limits of a later call with another method list
          ExtendsP,                \* how many later labels a reindex onto a longer index adds
          CalendarsP,              \* ... a reindex back onto the full calendar adds
          PokeColsP,               \* the columns of a 2-column frame in which an observation is withdrawn (0 = the whole row)
          MaxCallsP, MaxDerP, Memo, Emit

VARIABLES x0,                \* what the caller wrote into the first input object
          x, y,              \* the contents of the first input object now (the caller may edit it in place between calls); the
                             \* second input (NoY until it is built)
          cur,               \* law level: the contents the statement admits for the working object
          root,              \* "x" / "y": the input the working object descends from
          own,               \* the working object is certainly the caller's alone (not an input object handed back)
          lastms, lastlim,   \* the arguments of the previous call
          n, nd,             \* calls made; the caller's own actions since the last call
          focus,             \* "" / "cur" / "x": the object the caller has worked on since the last call - the next call takes it
          tag, mech,         \* mechanism: the memo the working object carries; the contents it produces
          pend,              \* simulation only: the step the caller has decided on (NoPend in the breadth-first configurations)
          hist
vars == <<x0, x, y, cur, root, own, lastms, lastlim, n, nd, focus, tag, mech, pend, hist>>

CodeX(j, i) == 100 * j + i
CodeY(j, i) == 100 * j + 50 + i
FrameOf(k, masks, C(_, _)) ==
    [rows |-> Idx(k), cols |-> [j \in 1..Len(masks) |-> [i \in 1..k |-> IF masks[j][i] THEN C(j, i) ELSE NaN]]]
FramesOf(k, nc, C(_, _)) == IF nc = 1 THEN {FrameOf(k, <<a>>, C) : a \in [1..k -> BOOLEAN]}
                            ELSE {FrameOf(k, <<a, b>>, C) : a \in [1..k -> BOOLEAN], b \in [1..k -> BOOLEAN]}
FramesP == UNION {FramesOf(k, 1, CodeX) : k \in 0..MaxLenP} \cup UNION {FramesOf(k, 2, CodeX) : k \in 1..MaxRowsP}
NoY == [rows |-> <<>>, cols |-> <<>>]
\* another input of the same shape: every NaN mask (also the one of x), other values
YFrames == IF (NCols(x) = 1 /\ NRows(x) <= MaxLenY) \/ (NCols(x) = 2 /\ NRows(x) <= MaxRowsY)
           THEN FramesOf(NRows(x), NCols(x), CodeY) ELSE {}

CONSTV  == 7
Methods == {<<"ffill", 0>>, <<"bfill", 0>>, <<"const", CONSTV>>, <<"nona", 0>>, <<"fnna", 0>>,
            <<"ffill_na", 0>>, <<"ffill_0", 0>>}
Singles == {<<m>> : m \in Methods}
ListsQuick    == Singles \cup {<< <<"ffill", 0>>, <<"bfill", 0>> >>}
ListsThorough == Singles \cup {<<>>, << <<"ffill", 0>>, <<"bfill", 0>> >>, << <<"nona", 0>>, <<"ffill", 0>> >>,
                               << <<"ffill_0", 0>>, <<"bfill", 0>> >>}

NoD == [kind |-> "", k |-> 0, i |-> 0, j |-> 0]
DOf(kd, k, i, j) == [kind |-> kd, k |-> k, i |-> i, j |-> j]
\* the caller's derivations: j = 0 withdraws row i of every column (one column: that is the cell)
Ders == {DOf("extend", k, 0, 0) : k \in ExtendsP} \cup {DOf("calendar", k, 0, 0) : k \in CalendarsP}
        \cup {DOf(kd, 0, 0, 0) : kd \in {"lag", "head", "tail", "copy", "values", "arith"}}
        \cup {DOf(kd, 0, i, j) : kd \in InPlaceKinds, i \in 1..(NRows(x) + MaxDerP - 1), j \in (IF NCols(x) = 1 THEN {0} ELSE PokeColsP)}
\* the caller's edits of the input object x itself
Edits == {DOf(kd, 0, i, j) : kd \in InPlaceKinds, i \in 1..NRows(x), j \in (IF NCols(x) = 1 THEN {0} ELSE PokeColsP)}
NoPend == [a |-> "", src |-> "", y |-> NoY, ms |-> <<>>, lim |-> 0, d |-> NoD]
SameRows(F) == \A f, g \in F : f.rows = g.rows

Init == /\ x0 \in FramesP /\ x = x0 /\ y = NoY /\ cur = {} /\ root = "x" /\ own = FALSE /\ lastms = <<>> /\ lastlim = 0
        /\ n = 0 /\ nd = 0 /\ focus = "" /\ tag = <<>> /\ mech = {} /\ pend = NoPend /\ hist = <<>>

\* what a later call may ask for: the same method list (any limit), another method list
Asks == IF n = 0 THEN ListsP \X LimsP
        ELSE ({lastms} \X LimsP) \cup ((ListsP \ {lastms}) \X OtherLimsP)
Contents(src, yy) == IF src = "x" THEN {x} ELSE IF src = "y" THEN {yy} ELSE cur

\* mechanism: the dispatcher with a memo carried by the data object.  An input object the caller built carries no tag;
\* the working object carries the tag of the result it descends from ("values" builds a new object from bare numbers)
MechCall(src, yy, ms, l) ==
    LET G  == IF src = "cur" THEN mech ELSE Contents(src, yy)
        tg == IF src = "cur" THEN tag ELSE <<>>
        hit == Memo /\ l = 0 /\ ms # <<>> /\ tg = ms
    IN  /\ mech' = IF hit THEN G ELSE IF G = Contents(src, yy) THEN cur' ELSE UNION {Fillna(g, ms, l) : g \in G}
        /\ tag'  = IF l = 0 /\ ms # <<>> THEN ms ELSE tg

CallOK(src, yy, ms, l) ==
    /\ n < MaxCallsP
    /\ (n = 0) => src = "x"
    /\ (focus # "") => src = focus             \* a derivation / an edit is made in order to be passed on
    /\ IF src = "y" THEN (y # NoY => yy = y) ELSE yy = y            \* (yy is drawn from YFrames)
    /\ <<ms, l>> \in Asks
CallDo(src, yy, ms, l) ==
    /\ n' = n + 1 /\ nd' = 0 /\ focus' = ""
    /\ cur' = UNION {Fillna(g, ms, l) : g \in Contents(src, yy)}              \* PLaw
    /\ root' = IF src = "cur" THEN root ELSE src
    \* a result whose contents differ from the (unmodified) input is a new object; one that equals it may be the input object
    \* itself (the empty list, a column without observations under ffill_na: the input is handed back) - named deviation SameObject
    /\ own' = IF cur' \cap Contents(src, yy) = {} THEN TRUE ELSE (src = "cur" /\ own)
    /\ lastms' = ms /\ lastlim' = l /\ y' = yy
    /\ MechCall(src, yy, ms, l)
    /\ UNCHANGED <<x0, x>>
Call(src, yy, ms, l) == CallOK(src, yy, ms, l) /\ CallDo(src, yy, ms, l) /\ UNCHANGED pend

DerOK(d) ==
    /\ n >= 1 /\ n < MaxCallsP /\ nd < MaxDerP /\ focus \in {"", "cur"}
    /\ SameRows(cur) /\ DeriveOK(d, cur)
    /\ (d.kind \in InPlaceKinds) => own
DerDo(d) ==
    /\ nd' = nd + 1 /\ focus' = "cur"
    /\ cur'  = {Derive(d, g, NRows(x0)) : g \in cur}
    /\ mech' = {Derive(d, g, NRows(x0)) : g \in mech}
    /\ tag'  = IF d.kind = "values" THEN <<>> ELSE tag
    /\ own'  = IF d.kind \in ViewKinds THEN own ELSE TRUE        \* a slice of an array is a view of the same data
    /\ UNCHANGED <<x0, x, y, root, lastms, lastlim, n>>
Der(d) == DerOK(d) /\ DerDo(d) /\ UNCHANGED pend

\* the caller edits the input object x in place and calls on it again (the working object is not looked at before that call
\* has replaced it: whether it is x itself - SameObject - and shows the edit plays no part)
EditOK(d) == n >= 1 /\ n < MaxCallsP /\ nd < MaxDerP /\ focus \in {"", "x"} /\ DeriveOK(d, {x})
EditDo(d) ==
    /\ nd' = nd + 1 /\ focus' = "x"
    /\ x' = Derive(d, x, NRows(x0))
    /\ UNCHANGED <<x0, y, cur, mech, root, own, tag, lastms, lastlim, n>>
Edit(d) == EditOK(d) /\ EditDo(d) /\ UNCHANGED pend

Srcs == {"x", "y", "cur"}
Step == \/ \E src \in Srcs :
              \E yy \in (IF src = "y" THEN YFrames ELSE {y}) : \E ms \in ListsP, l \in LimsP \cup OtherLimsP : Call(src, yy, ms, l)
        \/ \E d \in Ders : Der(d)
        \/ \E d \in Edits : Edit(d)
Next == Step /\ hist' = <<>>

\* want: the contents admitted for the object the step produced / edited (a call, a derivation: the working object; an edit: x)
Entry(a, src, ms, l, d) == [a |-> a, src |-> src, ms |-> ms, lim |-> l, d |-> d, want |-> IF a = "edit" THEN <<x'>> ELSE SetToSeq(cur')]
NextGen ==
    /\ \/ \E src \in Srcs :
             \E yy \in (IF src = "y" THEN YFrames ELSE {y}) : \E ms \in ListsP, l \in LimsP \cup OtherLimsP :
                 Call(src, yy, ms, l) /\ hist' = Append(hist, Entry("call", src, ms, l, NoD))
       \/ \E d \in Ders : Der(d) /\ hist' = Append(hist, Entry("der", "cur", <<>>, 0, d))
       \/ \E d \in Edits : Edit(d) /\ hist' = Append(hist, Entry("edit", "x", <<>>, 0, d))
    /\ (Emit /\ n' = MaxCallsP) => PrintT(ToJson([x |-> x0, y |-> y', hist |-> hist']))

\* simulation (longer sessions): the caller first DECIDES on a step - its kind, then its arguments - and then takes it: a
\* random walk does not pay for the outcome of every successor, and derivations / the three kinds of input object are
\* chosen equally often although there are many more argument combinations for a call
NextSim ==
    IF pend.a = ""                    \* what kind of step: a derivation, or a call on which object
    THEN /\ \/ /\ n >= 1 /\ n < MaxCallsP /\ nd < MaxDerP /\ SameRows(cur) /\ focus \in {"", "cur"}
               /\ pend' = [NoPend EXCEPT !.a = "der?"]
            \/ /\ n >= 1 /\ n < MaxCallsP /\ nd < MaxDerP /\ focus \in {"", "x"} /\ NRows(x) >= 1
               /\ pend' = [NoPend EXCEPT !.a = "edit?"]
            \/ \E src \in Srcs :
                  /\ n < MaxCallsP /\ (n = 0 => src = "x") /\ (focus # "" => src = focus) /\ (src = "y" => YFrames # {})
                  /\ pend' = [NoPend EXCEPT !.a = "call?", !.src = src]
         /\ UNCHANGED <<x0, x, y, cur, root, own, lastms, lastlim, n, nd, focus, tag, mech, hist>>
    ELSE IF pend.a \in {"der?", "edit?", "call?"}     \* with which arguments
    THEN /\ IF pend.a = "der?"
            THEN \E d \in Ders : DerOK(d) /\ pend' = [a |-> "der", src |-> "cur", y |-> y, ms |-> <<>>, lim |-> 0, d |-> d]
            ELSE IF pend.a = "edit?"
            THEN \E d \in Edits : EditOK(d) /\ pend' = [a |-> "edit", src |-> "x", y |-> y, ms |-> <<>>, lim |-> 0, d |-> d]
            ELSE \E yy \in (IF pend.src = "y" THEN YFrames ELSE {y}) : \E ms \in ListsP, l \in LimsP \cup OtherLimsP :
                     CallOK(pend.src, yy, ms, l) /\ pend' = [a |-> "call", src |-> pend.src, y |-> yy, ms |-> ms, lim |-> l, d |-> NoD]
         /\ UNCHANGED <<x0, x, y, cur, root, own, lastms, lastlim, n, nd, focus, tag, mech, hist>>
    ELSE /\ pend' = NoPend
         /\ IF pend.a = "call"
            THEN /\ CallOK(pend.src, pend.y, pend.ms, pend.lim) /\ CallDo(pend.src, pend.y, pend.ms, pend.lim)
                 /\ hist' = Append(hist, Entry("call", pend.src, pend.ms, pend.lim, NoD))
            ELSE IF pend.a = "der"
            THEN /\ DerOK(pend.d) /\ DerDo(pend.d)
                 /\ hist' = Append(hist, Entry("der", "cur", <<>>, 0, pend.d))
            ELSE /\ EditOK(pend.d) /\ EditDo(pend.d)
                 /\ hist' = Append(hist, Entry("edit", "x", <<>>, 0, pend.d))
         /\ (Emit /\ n' = MaxCallsP) => PrintT(ToJson([x |-> x0, y |-> y', hist |-> hist']))

CellsOf(f) == {f.cols[j][i] : j \in 1..NCols(f), i \in 1..NRows(f)}
Arrivals == {PutValue(i) : i \in 1..(NRows(x0) + 2 * MaxDerP * MaxCallsP)}
PShape   == \A g \in cur : WellFormed(g) /\ NCols(g) = NCols(x0)
PNoCross == \A g \in cur : CellsOf(g) \subseteq CellsOf(IF root = "x" THEN x0 ELSE y) \cup {NaN, CONSTV, 0} \cup Arrivals
PInputs  == WellFormed(x) /\ x.rows = x0.rows /\ NCols(x) = NCols(x0) /\ (n = 0 => x = x0)
PIdem    == (n >= 1 /\ nd = 0 /\ lastlim = 0) => \A g \in cur : Fillna(g, lastms, 0) \subseteq cur
PRefines == mech = cur
PFew     == (n >= 1 => cur # {}) /\ Cardinality(cur) <= 64
=============================================================================
