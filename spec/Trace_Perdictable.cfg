INIT Init
NEXT Next
