CONSTANTS LeafSet = "std"
          RebuildWide = FALSE
          Deep = TRUE
          Wide3 = FALSE
          TableWide = FALSE
INIT InitGenMerge
NEXT GenMerge
