CONSTANTS MaxLenP = 4
          MaxRowsP = 2
          MaxLenY = 4
          MaxRowsY = 1
          ListsP <- ListsThorough
          LimsP = {0, 1}
          OtherLimsP = {0}
          ExtendsP = {1, 2}
          CalendarsP = {0, 1}
          PokeColsP = {0, 2}
          MaxCallsP = 2
          MaxDerP = 1
          Memo = FALSE
          Emit = TRUE
INIT Init
NEXT NextGen
INVARIANT PShape
INVARIANT PInputs
INVARIANT PNoCross
INVARIANT PIdem
INVARIANT PRefines
INVARIANT PFew
