CONSTANTS MaxLen = 4
          NNames = 3
          Gen = FALSE
          Cached = FALSE
INIT Init
NEXT Next
PROPERTY Stable
INVARIANT OneObjectPerName
INVARIANT NoDoubleHandlers
INVARIANT OnceEach
INVARIANT OnlyTheFamily
INVARIANT MechIsLaw
