------------------------------ MODULE Trace_Slice ------------------------------
(* Trace validation for property C13.  One line of the log = one public call                     *)
(*   op "slice"   : df_slice(x, lb, ub, openclose) on a pd.Series (first column of o.s) and on a  *)
(*                  pd.DataFrame (all columns of o.s); o.mode / o.B say how bounds are compared   *)
(*                  ("date": instants; "tod": time of day of a naive index; "ltod": index in a     *)
(*                  time zone, o.s.tod = the wall-clock time of day of every row as the index      *)
(*                  itself shows it); the index is sorted and may repeat timestamps;               *)
(*   op "session" : consecutive calls df_slice(xs, ub = bounds, n = call.n) on the SAME two list   *)
(*                  objects xs (series o.ss) and bounds (o.ubs); per call the result and the two   *)
(*                  lists read again afterwards (ubs_after; ss_after = which of the original       *)
(*                  series sits at each position, unchanged);                                      *)
(*   op "unstitch": df_unslice(F, bounds) on a frame F that df_slice produced; out.series are the *)
(*                  recovered series in the order of their bounds out.keys.                       *)
(*   op "step"    : one step of a session on a world of caller-owned objects (SliceSess.tla):      *)
(*                  o.w = the world as read before the step, o.a = the step, o.x = [w |-> the      *)
(*                  world as read afterwards, out |-> what the call returned].                    *)
(* Timestamps and bounds are integers on the time grid the driver chose, 0 = None.               *)
EXTENDS SliceSess, Batch

IsFrame(x) == x.kind = "val"
FrameOf(x) == [rows |-> x.rows, cols |-> x.cols]
FirstCol(f) == [rows |-> f.rows, cols |-> <<f.cols[1]>>]

SliceVerdict(o) ==
    LET want == Slice(o.s, o.lb, o.ub, o.oc, o.mode, o.B)
        RunV(r) == LET w == IF r.carrier = "ser" THEN FirstCol(want) ELSE want IN
                   IF ~IsFrame(r.out) THEN "slice_raised"
                   ELSE IF r.out.rows # w.rows THEN "slice_rows"
                   ELSE IF r.out.cols # w.cols THEN "slice_values" ELSE ""
        bad == SelectSeq(Idx(Len(o.runs)), LAMBDA i : RunV(o.runs[i]) # "")
        \* a zoned index: one wall-clock reading per row, the same for rows at the same instant
        todOK == o.mode # "ltod" \/ (/\ Len(o.s.tod) = NRows(o.s)
                                     /\ \A i \in 1..NRows(o.s) : o.s.tod[i] \in 1..(o.B - 1)
                                     /\ \A i \in 1..(NRows(o.s) - 1) : o.s.rows[i] = o.s.rows[i + 1] => o.s.tod[i] = o.s.tod[i + 1])
    IN  IF ~(o.mode \in {"date", "tod", "ltod"}) \/ ~SortedFrame(o.s) \/ ~todOK \/ Len(o.runs) = 0 THEN "malformed_observation"
        ELSE IF bad # <<>> THEN RunV(o.runs[bad[1]]) ELSE ""

\* Every call of a session answers for the lists as the caller wrote them and leaves them as they are:
\* a call that re-orders or rewrites its arguments changes what the caller's next call means.
\* Series with repeated timestamps are stitched one column wide only, and judged by StitchDupOK (the statement
\* does not say how many of the rows of a timestamp are shown, only whose they are).
SessionVerdict(o) ==
    LET nS == Len(o.ss)
        dup == \E i \in 1..nS : HasDupRows(o.ss[i])
        ok == /\ nS = Len(o.ubs) /\ nS >= 1 /\ Len(o.calls) >= 1
              /\ (Increasing(o.ubs) \/ Decreasing(o.ubs))
              /\ \A i \in 1..nS : SortedFrame(o.ss[i]) /\ NCols(o.ss[i]) = 1
              /\ \A k \in 1..Len(o.calls) : o.calls[k].n \in 1..nS /\ (dup => o.calls[k].n = 1)
        ssI  == IF Increasing(o.ubs) THEN o.ss ELSE Rev(o.ss)
        ubsI == IF Increasing(o.ubs) THEN o.ubs ELSE Rev(o.ubs)
        CallV(cl) == IF ~IsFrame(cl.out) THEN "stitch_raised"
                     ELSE IF dup THEN
                          IF ~StitchDupOK(ssI, ubsI, FrameOf(cl.out)) THEN "stitch_rows"
                          ELSE IF cl.ubs_after # o.ubs \/ cl.ss_after # Idx(nS) THEN "argument_changed" ELSE ""
                     ELSE LET want == Stitch(o.ss, o.ubs, cl.n) IN
                          IF cl.out.rows # want.rows THEN "stitch_rows"
                          ELSE IF cl.out.cols # want.cols THEN "stitch_values"
                          ELSE IF cl.ubs_after # o.ubs \/ cl.ss_after # Idx(nS) THEN "argument_changed" ELSE ""
        bad == SelectSeq(Idx(Len(o.calls)), LAMBDA k : CallV(o.calls[k]) # "")
    IN  IF ~ok THEN "malformed_observation" ELSE IF bad # <<>> THEN CallV(o.calls[bad[1]]) ELSE ""

UnstitchVerdict(o) ==
    IF ~(Increasing(o.ubs) /\ NCols(o.F) = o.n) THEN "malformed_observation"
    ELSE IF ~WellFormed(o.F) THEN ""       \* not a stitched frame (the stitch line reports it): outside the clause
    ELSE IF ~IsFrame(o.out) THEN "unstitch_raised"
    ELSE IF o.out.keys # o.ubs THEN "unstitch_keys"
    ELSE IF ~IsUnstitch(o.out.series, o.F, o.ubs, o.n) THEN "unstitch_roundtrip" ELSE ""

Verdict(o) == CASE o.op = "slice"    -> SliceVerdict(o)
                [] o.op = "session"  -> SessionVerdict(o)
                [] o.op = "unstitch" -> UnstitchVerdict(o)
                [] o.op = "step"     -> StepVerdict(o.w, o.a, o.x)
                [] OTHER -> "unknown_op"

Init == BatchInit
Next == BatchNext(Verdict)
=============================================================================
