CONSTANTS Dates = {1}
          Stamps = {1, 2, 3}
          Vals = {1, 2}
          MaxMerges = 2
          MaxAgain = 1
          Stable = TRUE
          Zones <- ZonesEW
          ZoneAware = TRUE
INIT Init
NEXT NextGen
PROPERTY GenIsSpec
