CONSTANTS MaxCalls = 2
          MaxArgs = 3
          FreeCalls = 1
          Scope = "quick"
          Adopt = FALSE
INIT Init
NEXT Next
CONSTRAINT GenBound
