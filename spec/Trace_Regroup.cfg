INIT Init
NEXT Next
