CONSTANTS MaxSteps = 3
          Shape = "focused"
          SeedNames = {"num", "nan", "mixed", "ties", "dup", "real"}
          ErrOnly = {}
          Hist = TRUE
INIT Init
NEXT Next
CONSTRAINT GenEmit
