\* S2C, thorough: frames under every fill method
CONSTANTS NS = 1
 NT = 0
 NF = 2
 Fill = TRUE
INIT InitGen
NEXT EvalGen
