CONSTANTS MaxLen = 4
          Gen = TRUE
INIT Init
NEXT Next
