CONSTANTS Scope = "quick"
          Mech = "law"
          Loose = FALSE
          PlanSet = {"FII"}
INIT Init
NEXT Next
CONSTRAINT GenDone
