CONSTANTS Wide = FALSE
INIT Init
NEXT Eval
INVARIANT MechK2ASameCall
