----------------------------- MODULE TenorZone -----------------------------
(* Extension X05-c: the time-zone algebra of _dates.py (as_tz, is_tz, tz_replace, tz_convert,    *)
(* dt(..., tzinfo=), dt_bump(t, zone)) as integer arithmetic.                                    *)
(*                                                                                               *)
(* A zone is <<"zone", std, rule>>: std = minutes east of UTC in winter, rule = "none" (a fixed  *)
(* offset), "eu" (summer time from the last Sunday of March 01:00 UTC to the last Sunday of      *)
(* October 01:00 UTC) or "us" (from the second Sunday of March 02:00 local standard time to the  *)
(* first Sunday of November 02:00 local summer time); <<"nozone">> stands for tzinfo = None.     *)
(* The Sundays are TenorCal!NthDowLaw - the n-th weekday law of X05-b.  The rules are those of   *)
(* the EU since 1996 and of the US since 2007; the harness stays inside 2008..2036 and checks     *)
(* every instant it builds from a real zone object against this model before using it.          *)
(*                                                                                               *)
(* A time is <<"naive", o, s, u>> (a wall clock: ordinal, second of day, microsecond) or         *)
(* <<"aware", o, s, u, off>> (a wall clock and its offset from UTC in minutes).                  *)
(*                                                                                               *)
(* Law level                                                                                     *)
(*   Replace(t, z)   keeps the wall clock and attaches z (or nothing); the offset is the one z   *)
(*                   has at that wall clock; wall clocks that z skips (spring) or has twice      *)
(*                   (autumn) are outside the claimed domain                                     *)
(*   Convert(t, z, sys)  keeps the instant: wall' = wall - off + off', off' = the offset of z at  *)
(*                   that instant.  A naive datetime stands for the machine's local time (sys =  *)
(*                   the machine's offset): that is what makes dt(tzinfo = z) "now in z".        *)
(*                   Converting to no zone drops the zone and keeps the wall clock.              *)
(*   SeriesConvert   a timeseries index without a zone is localised (= Replace), with a zone     *)
(*                   converted                                                                   *)
EXTENDS TenorCal, TLC

NoZone == <<"nozone">>
Zone(std, rule) == <<"zone", std, rule>>
IsZone(z) == z[1] = "zone"
Rules == {"none", "eu", "us"}

\* minutes since the beginning of ordinal 0; an offset never has seconds, so seconds and microseconds ride along
MinOf(o, s) == o * 1440 + s \div 60
\* the switch instants of year y in UTC minutes
SummerStart(z, y) == CASE z[3] = "eu" -> MinOf(NthDowLaw(y, 3, -1, 6), 3600)
                       [] z[3] = "us" -> MinOf(NthDowLaw(y, 3, 2, 6), 7200) - z[2]
SummerEnd(z, y)   == CASE z[3] = "eu" -> MinOf(NthDowLaw(y, 10, -1, 6), 3600)
                       [] z[3] = "us" -> MinOf(NthDowLaw(y, 11, 1, 6), 7200) - (z[2] + 60)
\* the offset of zone z at the UTC minute m (summer time lies inside one civil year in every modelled zone)
OffAtUTC(z, m) == IF z[3] = "none" THEN z[2]
                  ELSE LET y == CivilOf(m \div 1440)[1] IN
                       IF SummerStart(z, y) <= m /\ m < SummerEnd(z, y) THEN z[2] + 60 ELSE z[2]
\* the offsets under which the wall-clock minute w exists in z: none in the skipped hour, two in the repeated hour
WallOffsets(z, w) == {off \in {z[2], z[2] + 60} : OffAtUTC(z, w - off) = off}

ShiftMin(t3, dm) == AddDur(t3, 0, 60 * dm, 0)                \* a wall clock moved by dm minutes
Wall(t)    == <<t[2], t[3], t[4]>>
WallMin(t) == MinOf(t[2], t[3])
IsAware(t) == t[1] = "aware"
Naive(w)      == <<"naive", w[1], w[2], w[3]>>
Aware(w, off) == <<"aware", w[1], w[2], w[3], off>>
UTCMin(t) == WallMin(t) - t[5]                            \* of an aware time
Undefined3 == <<"undefined">>

\* ------------------------------------------------------------------------------ the algebra --
Replace(t, z) ==
    IF ~IsZone(z) THEN Naive(Wall(t))
    ELSE LET offs == WallOffsets(z, WallMin(t)) IN
         IF Cardinality(offs) = 1 THEN Aware(Wall(t), CHOOSE off \in offs : TRUE) ELSE Undefined3
\* the aware time of zone z at the UTC wall clock w
AtUTC(w, z) == LET off == OffAtUTC(z, MinOf(w[1], w[2])) IN Aware(ShiftMin(w, off), off)
Convert(t, z, sys) ==
    IF ~IsZone(z) THEN Naive(Wall(t))
    ELSE AtUTC(ShiftMin(Wall(t), 0 - (IF IsAware(t) THEN t[5] ELSE sys)), z)
SeriesConvert(t, z) == IF ~IsZone(z) THEN Naive(Wall(t)) ELSE IF IsAware(t) THEN Convert(t, z, 0) ELSE Replace(t, z)

\* the public calls.  op: "replace" tz_replace(t, z); "convert" tz_convert(t, z); "dt" dt(t, tzinfo = z) (no zone
\* given: t as it is, zone and all); "bump" dt_bump(t, zone object); "sreplace" / "sconvert" / "sdt": the same on the
\* index of a timeseries, stamp by stamp
Answer(op, t, z, sys) ==
    CASE op \in {"replace", "sreplace"} -> Replace(t, z)
      [] op \in {"convert", "bump"}     -> Convert(t, z, sys)
      [] op = "sconvert"                -> SeriesConvert(t, z)
      [] op \in {"dt", "sdt"}           -> IF IsZone(z) THEN Replace(t, z) ELSE t
      [] OTHER                          -> Undefined3
Ops == {"replace", "convert", "dt", "bump", "sreplace", "sconvert", "sdt"}

\* ------------------------------------------------------------------------------ zone names ---
\* what as_tz must understand (cities, country codes, abbreviations the library defines itself, tz database names), in any case
ZoneTable == <<
    <<"london", Zone(0, "eu")>>, <<"GB", Zone(0, "eu")>>, <<"WET", Zone(0, "eu")>>, <<"lisbon", Zone(0, "eu")>>, <<"Europe/London", Zone(0, "eu")>>,
    <<"berlin", Zone(60, "eu")>>, <<"DE", Zone(60, "eu")>>, <<"CET", Zone(60, "eu")>>, <<"AT", Zone(60, "eu")>>, <<"vienna", Zone(60, "eu")>>,
    <<"Europe/Berlin", Zone(60, "eu")>>,
    <<"GR", Zone(120, "eu")>>, <<"EET", Zone(120, "eu")>>, <<"athens", Zone(120, "eu")>>,
    <<"new york", Zone(-300, "us")>>, <<"EST", Zone(-300, "us")>>, <<"ET", Zone(-300, "us")>>, <<"eastern standard", Zone(-300, "us")>>,
    <<"America/New_York", Zone(-300, "us")>>,
    <<"chicago", Zone(-360, "us")>>, <<"CST", Zone(-360, "us")>>, <<"CT", Zone(-360, "us")>>, <<"America/Chicago", Zone(-360, "us")>>,
    <<"los angeles", Zone(-480, "us")>>,
    <<"tokyo", Zone(540, "none")>>, <<"JP", Zone(540, "none")>>, <<"Asia/Tokyo", Zone(540, "none")>>,
    <<"kolkata", Zone(330, "none")>>, <<"IN", Zone(330, "none")>>, <<"Asia/Kolkata", Zone(330, "none")>>,
    <<"UTC", Zone(0, "none")>>, <<"kathmandu", Zone(345, "none")>>, <<"NP", Zone(345, "none")>>,
    <<"Etc/GMT+5", Zone(-300, "none")>>, <<"Etc/GMT-3", Zone(180, "none")>> >>
KnownNames == {ZoneTable[i][1] : i \in 1..Len(ZoneTable)}
NameKnown(nm) == nm \in KnownNames
ZoneOfName(nm) == ZoneTable[CHOOSE i \in 1..Len(ZoneTable) : ZoneTable[i][1] = nm][2]

\* how a zone is handed over: <<"name", key, case>> a string (case = "asis" | "lower" | "upper" | "swap"), <<"obj", key>> the object
\* as_tz makes of that name, <<"fixed", kind, minutes>> a fixed-offset tzinfo object of the standard library / dateutil / pytz,
\* <<"none">> no zone
ZoneOfSpelling(sp) == CASE sp[1] \in {"name", "obj"} -> (IF NameKnown(sp[2]) THEN ZoneOfName(sp[2]) ELSE <<"undefined">>)
                        [] sp[1] = "fixed" -> Zone(sp[3], "none")
                        [] sp[1] = "none"  -> NoZone
                        [] OTHER -> <<"undefined">>

\* Named deviation FixedOffsetObjects: whether a fixed-offset tzinfo object of another library (datetime.timezone,
\* dateutil.tz.tzoffset, pytz.FixedOffset) is recognised as a zone is not pinned - so handing one to dt_bump is not claimed;
\* tz_replace / tz_convert / dt(tzinfo =) take them as they are.
Claimed(op, sp) == ~(op = "bump" /\ sp[1] = "fixed")

\* is_tz: TRUE for every zone that as_tz makes of a name (such a zone can then be handed to dt / dt_bump as it is), FALSE
\* for None, strings and numbers.  Named deviation FixedOffsetObjects: for fixed-offset tzinfo objects (datetime.timezone,
\* dateutil.tz.tzoffset) the statement pins nothing.
IsTzLaw(kind, got) == CASE kind = "named" -> got = TRUE
                        [] kind \in {"none", "str", "int"} -> got = FALSE
                        [] OTHER -> TRUE
=============================================================================
