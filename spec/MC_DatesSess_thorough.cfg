CONSTANTS SessYears = {2000, 2261}
          DayMod = 13
          MaxLen = 2
          Rot = 2
INIT Init
NEXT Next
INVARIANT FullKeyIsLaw
INVARIANT EveryKeyExposed
INVARIANT InDomain
