CONSTANTS SessYears = {1900, 2000, 2261, 2299}
          DayMod = 7
          MaxLen = 2
          Rot = 2
INIT Init
NEXT Next
INVARIANT FullKeyIsLaw
INVARIANT EveryKeyExposed
INVARIANT InDomain
