\* S2C generator (thorough): the same over the wider universe, full squares
CONSTANTS Variant = "code"
          MaxCalls = 2
          Scope = "thorough"
          Family = "all"
INIT InitScript
NEXT NextScript
