------------------------------- MODULE OpsLaw -------------------------------
(* Property C08, law level, the parts of the statement that spec/Series.tla (shared with C03)    *)
(* leaves out:                                                                                 *)
(*   - "aligned by the join policy" with the optional fill METHOD of the public operators       *)
(*     (method = None | 'ffill' | 'bfill' | a number): the operands are put on the joint index   *)
(*     as property C03 says (as-of join on the last / next non-NaN observation; a number         *)
(*     replaces every missing observation), THEN the plain pointwise operation is applied;       *)
(*   - the comparisons under column policy 'oj' when the column sets differ: a comparison has    *)
(*     no neutral element, a column one side lacks is NO DATA there (NaN, exactly as a           *)
(*     timestamp one side lacks under the outer index policy) and every comparison with NaN is   *)
(*     false (named reading OpsMissingColumnNoData);                                            *)
(*   - sub_ / div_ with LISTS on either side for the single-call families (the two readings of   *)
(*     "lists of operands reduce left to right", see OpsSession!CutListReading).                 *)
(* With method "none" and an operation the old ColsPinned pins down, OpsBinOp IS Series!BinOp    *)
(* (checked by TLC: MC_Ops!OpsAgrees).                                                          *)
EXTENDS Series

OpsCmp == {"gt", "ge", "lt", "le"}
\* the fill methods of the checked domain: none, as-of forward / backward, the numbers 0 and 1
OpsMethods == {"none", "ffill", "bfill", "v0", "v1"}
OpsIsNumber(m) == m \in {"v0", "v1"}
OpsNumber(m) == IF m = "v0" THEN Zero ELSE One
OpsFillCell(x, m) == IF IsNaN(x) THEN OpsNumber(m) ELSE x

\* an operand on the joint index I under fill method m (a scalar is not a timeseries: as it is)
OpsAlign(o, I, m, rd) ==
    IF ~IsTs(o) THEN o
    ELSE IF OpsIsNumber(m) THEN
         LET r == Reindex(o, I, "none", rd) IN
         IF IsS(r) THEN [r EXCEPT !.v = [i \in 1..Len(r.v) |-> OpsFillCell(r.v[i], m)]]
         ELSE [r EXCEPT !.v = [j \in 1..Len(r.v) |-> [i \in 1..Len(r.v[j]) |-> OpsFillCell(r.v[j][i], m)]]]
    ELSE Reindex(o, I, m, rd)

\* a column a multi-column frame lacks: the neutral element where the operation has one, no data otherwise
OpsSide(op, o, c, x) == IF IsMulti(o) /\ c \notin Cols(o) THEN (IF HasNeutral(op) THEN Neutral(op) ELSE NaNC) ELSE OVal(o, c, x)

OpsBinOp(op, a, b, join, colpol, m, rd) ==
    IF IsScalar(a) /\ IsScalar(b) THEN [k |-> "c", v |-> OpCell(op, a.v, b.v)]
    ELSE LET I  == OpIndex(join, a, b)
             a2 == OpsAlign(a, I, m, rd)
             b2 == OpsAlign(b, I, m, rd)
             multi == SelectSeq(<<a, b>>, IsMulti)
         IN  IF multi = <<>> THEN MkS(I, LAMBDA x : OpCell(op, OVal(a2, "", x), OVal(b2, "", x)))
             ELSE MkF(I, CommonCols(colpol, [i \in 1..Len(multi) |-> Cols(multi[i])]),
                      LAMBDA c, x : OpCell(op, OpsSide(op, a2, c, x), OpsSide(op, b2, c, x)))
RECURSIVE OpsReduceFrom(_, _, _, _, _, _, _, _)
OpsReduceFrom(op, acc, xs, i, join, colpol, m, rd) ==
    IF i > Len(xs) THEN acc ELSE OpsReduceFrom(op, OpsBinOp(op, acc, xs[i], join, colpol, m, rd), xs, i + 1, join, colpol, m, rd)
OpsReduce(op, xs, join, colpol, m, rd) == OpsReduceFrom(op, xs[1], xs, 2, join, colpol, m, rd)

\* Named reading OpsMissingColumnNoData: the comparisons are pinned down under 'oj' whatever the column sets
OpsColsPinned(op, xs, colpol) == ColsPinned(op, xs, colpol) \/ op \in OpsCmp
\* the fill method is stated for two operands (with more, "fill, then operate" and "operate pairwise, filling every
\* intermediate result again" part where an intermediate result is NaN - division by zero - and the statement does not choose)
OpsMethodOK(xs, m) == m \in OpsMethods /\ (m = "none" \/ Len(xs) = 2)

OpsOutcomes(op, xs, join, colpol, m) ==
    {OpsReduce(op, xs, join, colpol, m, rd) : rd \in Readings}
    \cup (IF DivScalarZero(op, xs)
          THEN (IF IsMulti(xs[1]) THEN {[k |-> "bycol", c |-> xs[1].c, v |-> [j \in 1..Len(xs[1].c) |-> NaNC]]} ELSE {[k |-> "c", v |-> NaNC]})
          ELSE {})

\* sub_ / div_ with lists: nl operands on the left, the others on the right (method none).  Both readings of the
\* statement (OpsSession!CutListReading): one row reduced left to right / a list stands for its sum resp. product.
OpsCompanion(op) == IF op = "sub" THEN "add" ELSE "mul"
OpsCutFlat(op, xs, join, colpol) == OpsReduce(op, xs, join, colpol, "none", "row")
OpsCutNested(op, xs, nl, join, colpol) ==
    OpsBinOp(op, OpsReduce(OpsCompanion(op), SubSeq(xs, 1, nl), join, colpol, "none", "row"),
                 OpsReduce(OpsCompanion(op), SubSeq(xs, nl + 1, Len(xs)), join, colpol, "none", "row"), join, colpol, "none", "row")
OpsCutOutcomes(op, xs, nl, join, colpol) ==
    IF Len(xs) = 2 THEN OpsOutcomes(op, xs, join, colpol, "none")
    ELSE {OpsCutFlat(op, xs, join, colpol), OpsCutNested(op, xs, nl, join, colpol)}
\* the scalar divisor 0 is the named deviation DivScalarZero of Series.tla, stated for two operands only
OpsCutDomain(op, xs) == (op = "div" /\ Len(xs) > 2) => \A i \in 2..Len(xs) : ~(IsScalar(xs[i]) /\ xs[i].v = Zero)
=============================================================================
