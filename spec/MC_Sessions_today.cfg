CONSTANTS HW = 3
          Margin = 8
          Marks = {46800, 81000}
          WeekendNos = {1}
          OwnAdjs = {"m"}
          TPad = 1
          GenMod = 1
INIT Init
NEXT Eval
INVARIANT MechTodayIsLaw
