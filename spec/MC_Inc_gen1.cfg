CONSTANTS MaxRows = 1
          Wide = TRUE
INIT Init
NEXT EvalGen
