CONSTANTS MaxLen = 1
          Gen = FALSE
          WithDicts = TRUE
INIT Init
NEXT Next
INVARIANT KeySound
