\* S2C generator, compound tenors (pairs over Parts + Triples): start days of Jan-Mar 2000, at midnight and 09:30
CONSTANTS Years = {}
          NMax = 60
          GenY = 2000
          GenM0 = 1
          GenM1 = 3
INIT InitGenC
NEXT GenC
