CONSTANTS Cached = FALSE
          Size = "wide"
          Hist = TRUE
INIT Init
NEXT Next
INVARIANT CallsAreMerges
INVARIANT HeapStaysOk
