CONSTANTS NP = 4
 NT = 0
 NF = 0
 NA = 3
 NC = 0
 NS = 6
 Light = FALSE
INIT InitGen
NEXT EvalGen
