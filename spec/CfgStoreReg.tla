---------------------------- MODULE CfgStoreReg ----------------------------
(* Extension X04-b: the process-wide registry behind get_cache(names..) and the place the         *)
(* configuration has in it, as a state machine of ONE process without configuration files          *)
(* (PYG_CFG not set: cfg_write only remembers, cfg_read only recalls).                              *)
(*                                                                                               *)
(* The registry is a tree of objects (dicts) with identity.  get_cache(n1, .., nk) walks down from *)
(* the root and creates what is missing; it returns ONE object per path of names for the life of   *)
(* the process, different paths give different objects, what is stored in the object is found      *)
(* again through any later call.  The configuration lives under the name "CFG": cfg_write(c) puts  *)
(* the caller's object c there (the one deliberate replacement), cfg_read() returns the object     *)
(* that is there, or a new empty one - which it does NOT register - when there is none.            *)
(*                                                                                               *)
(* Objects are numbered in the order of their creation (root = 1); an event that returns an object *)
(* is observed as `tok` = the number of the FIRST event of the history that returned (or, for a    *)
(* write, handed in) the very same object, and `keys` = the set of keys the object has.            *)
EXTENDS Naturals, Sequences, FiniteSets, TLC

CONSTANTS Names,       \* names used in get_cache paths, "CFG" among them
          ItemKeys,    \* keys of items stored into the objects (disjoint from Names)
          ItemVals,    \* stored values (integers)
          MaxDepth     \* longest path

VARIABLES reg,         \* set of [path, id]: the registered paths
          items,       \* set of [id, key, val]: what the objects hold besides their children
          next,        \* the next fresh object number
          rets,        \* per event: the object it returned / was handed (0 = none)
          last         \* what the last event is expected to show: [tok, keys] / [has, val] / [kind |-> "none"]

rvars == <<reg, items, next, rets, last>>

Root == 1
Paths == UNION {[1..n -> Names] : n \in 0..MaxDepth}
Registered(p) == \E r \in reg : r.path = p
IdOf(p) == (CHOOSE r \in reg : r.path = p).id
Prefixes(p) == {SubSeq(p, 1, n) : n \in 0..Len(p)}
IsUnder(p, q) == Len(p) >= Len(q) /\ SubSeq(p, 1, Len(q)) = q         \* q is a prefix of p

\* get_cache(p): every missing prefix gets a new object, the shorter first
Missing(p) == {q \in Prefixes(p) : ~Registered(q)}
Rank(p, q) == Cardinality({m \in Missing(p) : Len(m) < Len(q)})
RegAfter(p) == reg \cup {[path |-> q, id |-> next + Rank(p, q)] : q \in Missing(p)}
IdAfter(p) == IF Registered(p) THEN IdOf(p) ELSE next + Rank(p, p)
NextAfter(p) == next + Cardinality(Missing(p))

KeysOf(rg, it, o) == {r.path[Len(r.path)] : r \in {r \in rg : Len(r.path) > 0 /\ \E s \in rg : s.id = o /\ s.path = SubSeq(r.path, 1, Len(r.path) - 1)}}
                     \cup {i.key : i \in {i \in it : i.id = o}}
Tok(rs, o) == CHOOSE j \in 1..Len(rs) : rs[j] = o /\ \A k \in 1..(j - 1) : rs[k] # o
Shows(rs, rg, it, o) == [kind |-> "obj", tok |-> Tok(rs, o), keys |-> KeysOf(rg, it, o)]

RInit == /\ reg = {[path |-> <<>>, id |-> Root]}
         /\ items = {}
         /\ next = Root + 1
         /\ rets = <<>>
         /\ last = [kind |-> "none"]

GetCache(p) == /\ reg' = RegAfter(p)
               /\ next' = NextAfter(p)
               /\ items' = items
               /\ rets' = Append(rets, IdAfter(p))
               /\ last' = Shows(rets', reg', items', IdAfter(p))

\* get_cache(p..)[k] = v
Store(p, k, v) == /\ reg' = RegAfter(p)
                  /\ next' = NextAfter(p)
                  /\ items' = {i \in items : ~(i.id = IdAfter(p) /\ i.key = k)} \cup {[id |-> IdAfter(p), key |-> k, val |-> v]}
                  /\ rets' = Append(rets, 0)
                  /\ last' = [kind |-> "none"]

\* k in get_cache(p..), get_cache(p..).get(k)
Fetch(p, k) == /\ reg' = RegAfter(p)
               /\ next' = NextAfter(p)
               /\ items' = items
               /\ rets' = Append(rets, 0)
               /\ last' = LET hit == {i \in items : i.id = IdAfter(p) /\ i.key = k} IN
                          IF hit = {} THEN [kind |-> "item", has |-> 0, val |-> 0]
                          ELSE [kind |-> "item", has |-> 1, val |-> (CHOOSE i \in hit : TRUE).val]

\* cfg_write(c) without files: the caller's object (new to the registry) becomes the entry "CFG";
\* c = set of <<key, val>> pairs
Write(c) == /\ reg' = {r \in reg : ~IsUnder(r.path, <<"CFG">>)} \cup {[path |-> <<"CFG">>, id |-> next]}
            /\ items' = items \cup {[id |-> next, key |-> kv[1], val |-> kv[2]] : kv \in c}
            /\ next' = next + 1
            /\ rets' = Append(rets, next)
            /\ last' = [kind |-> "none"]

\* cfg_read() without files
Read == IF Registered(<<"CFG">>)
        THEN /\ UNCHANGED <<reg, items, next>>
             /\ rets' = Append(rets, IdOf(<<"CFG">>))
             /\ last' = Shows(rets', reg, items, IdOf(<<"CFG">>))
        ELSE /\ UNCHANGED <<reg, items>>
             /\ next' = next + 1
             /\ rets' = Append(rets, next)
             /\ last' = Shows(rets', reg, items, next)

\* ---- the laws (from the statement), which the constructive description above must satisfy -------
OnePerName  == \A r, s \in reg : r.path = s.path => r.id = s.id
Different   == \A r, s \in reg : r.id = s.id => r.path = s.path
PrefixClosed == \A r \in reg : \A q \in Prefixes(r.path) : Registered(q)
\* for the life of the process: a path keeps its object - except the configuration entry and what
\* hangs under it, when a configuration is written
Stable == [][\A r \in reg : ~IsUnder(r.path, <<"CFG">>) => r \in reg']_rvars
OnlyWriteReplaces == [][(\E r \in reg : r \notin reg') => Len(rets') > 0 /\ rets'[Len(rets')] = next /\ [path |-> <<"CFG">>, id |-> next] \in reg']_rvars
\* stored items stay until stored again
ItemsStay == [][\A i \in items : (\E r \in reg' : r.id = i.id) => \E j \in items' : j.id = i.id /\ j.key = i.key]_rvars
=============================================================================
