\* S2C generator (quick): scripts of family edit
CONSTANTS Variant = "code"
          MaxCalls = 2
          Scope = "quick"
          Family = "edit"
INIT InitScript
NEXT NextScript
