----------------------------- MODULE MC_Regroup -----------------------------
(* For every small table and key choice: the constructive listby (sort + runs) satisfies the     *)
(* relational verdicts that judge the real code, and unlist of it is the table stably sorted by *)
(* the keys (up to the key representative).  Generator cfgs print the tables for the S2C replay. *)
EXTENDS Regroup, Json
CONSTANTS MaxRows, Wide
VARIABLES t, by, done

D1 == <<"d", <<730120, 0, 0>>>>
KeyU == IF Wide THEN {None, VInt(1), VFlt(1, 1), VInt(2), VStr("s"), D1, VNaN(1), VNaN(2)} ELSE {None, VInt(1), VFlt(1, 1), VStr("s"), VNaN(1), VNaN(2)}
RowsUpTo(n) == UNION {[1..k -> [a : KeyU, b : KeyU]] : k \in 0..n}
WithIds(rows) == [i \in 1..Len(rows) |-> [a |-> rows[i].a, b |-> rows[i].b, p |-> VInt(i)]]
TableU == {[cols |-> <<"a", "b", "p">>, rows |-> WithIds(r)] : r \in RowsUpTo(MaxRows)}
Bys == {<<"a">>, <<"b">>, <<"a", "b">>, <<"b", "a">>}

Init == t \in TableU /\ by \in Bys /\ done = FALSE
Next == done = FALSE /\ done' = TRUE /\ UNCHANGED <<t, by>>
NextGen == Next /\ PrintT(ToJson([t |-> t, by |-> by, nclasses |-> Cardinality(Reps(t, by))]))

ModelCmp(u) == [p \in 1..(Len(u.rows) - 1) |-> [k \in 1..Len(by) |-> CmpModel(u.rows[p][by[k]], u.rows[p + 1][by[k]])]]
ListbyLaw == ListbyVerdict(t, by, CListby(t, by)) = ""
UnlistLaw == LET u == CUnlist(CListby(t, by), by) IN NRows(t) > 0 => UnlistVerdict(t, by, u, ModelCmp(u), "p") = ""
UnlistIsSort == NRows(t) > 0 => LET u == CUnlist(CListby(t, by), by)  s == SortedRows(t, by) IN
                   Len(u.rows) = Len(s) /\ \A n \in 1..Len(s) : RowEquiv(u.rows[n], s[n], Range(by))
SizesAddUp == LET lt == CListby(t, by) IN NRows(t) > 0 =>
                 FoldSeq(LAMBDA r, acc : acc + Len(Pay(r.p)), 0, lt.rows) = NRows(t)
=============================================================================
