--------------------------- MODULE Trace_Decorators ---------------------------
(* Trace validation for property C18.  One line of the log = one recorded observation of the    *)
(* real decorators; `part` says which:                                                           *)
(*   "bind"  one call of an exec-generated function of signature `sig` with arguments cc:       *)
(*           inspect.getcallargs, pyg_base.getcallargs, call_with_callargs, and for every        *)
(*           decorator layer W the outcome of calling W(f) the same way, getargspec(W(f)) and    *)
(*           getcallargs / call_with_callargs through W(f)                                        *)
(*   "hist"  a whole session on one counting base function: wrap events (with the projected      *)
(*           chains of ALL live wrapper objects afterwards) interleaved with calls on any object *)
(*           and with the caller mutating in place what a call returned to it (op "mutate")       *)
(*   "memo"  a call sequence on cache(f) for a counting f, keys of any kind (also unhashable)    *)
(*   "args"  a session on the caller's bindings: getcallargs / call_with_callargs on f (obj 0) and *)
(*           on W(f) (obj 1) / the caller's own edits, every event with ALL the caller's bindings   *)
(*           as they are afterwards                                                                 *)
(*   "deco"  a session with several functions (sigs) and several ready-made decorator objects      *)
(*           (layers): decorate events (decorator k applied to function -on or to the decorated    *)
(*           function on) and calls, every event with the projection [fn, chain] of ALL decorated  *)
(*           functions afterwards; calls with the outcome and the evaluations of every function     *)
(* Every recorded call carries `order`: the names of its keywords in the order they were WRITTEN at *)
(* the call site (cc.kw is the canonical spelling); the verdict is the law on the call, whatever the *)
(* order (Decorators!IsSpelling).  Histories may be of any length: the folds below are the laws of   *)
(* Decorators.tla (c') - hundreds and thousands of distinct combinations on one cached function,     *)
(* then repeats of early, middle and late ones; hundreds of calls on one wrapper object.             *)
(* Verdict folds the events of a history over the abstract state with the operators of           *)
(* Decorators.tla and returns "" or the name of the first clause the observation breaks.         *)
(* Clauses starting with "spec_" mean the specification or the driver is wrong, not pyg-base.    *)
EXTENDS Decorators, Batch

OutOK(want, got) == want = Unspecified \/ got = want

\* ------------------------------------------------------------------------------------- bind
RECURSIVE LayerClauses(_, _, _, _)
LayerClauses(sig, cc, ws, i) ==          \* ws[i] = [layer, out, argspec, gca, cwc]
    IF i > Len(ws) THEN ""
    ELSE LET w == ws[i]  chain == <<w.layer>> IN
         IF w.argspec # ArgSpec(sig) THEN "same_signature@" \o ToString(i)
         ELSE IF ~ValidFor(sig, chain, cc) THEN LayerClauses(sig, cc, ws, i + 1)
         ELSE IF ~OutOK(LawOutcome(sig, chain, cc), w.out)
              THEN (IF IsTry(w.layer) /\ HasBad(Effective(sig, chain, cc)) THEN "fallback_iff_raises@" ELSE "transparent_call@") \o ToString(i)
         ELSE IF Valid(sig, cc) /\ w.gca # Bind(sig, cc) THEN "getcallargs_wrapped@" \o ToString(i)
         ELSE IF Valid(sig, cc) /\ ~OutOK(LawOutcome(sig, chain, cc), w.cwc) THEN "call_with_callargs_wrapped@" \o ToString(i)
         ELSE LayerClauses(sig, cc, ws, i + 1)
BindVerdict(o) ==
    LET sig == o.sig  cc == o.cc IN
    IF ~WellFormed(sig) THEN "spec_bad_signature"
    ELSE IF ~IsSpelling(o.order, cc) THEN "spec_bad_spelling"                  \* the order the keywords were written in
    ELSE IF o.argspec # ArgSpec(sig) THEN "spec_signature_vs_python"         \* inspect.getfullargspec(f)
    ELSE IF o.pyg_argspec # ArgSpec(sig) THEN "same_signature"                \* pyg_base.getargspec(f)
    ELSE IF ~Valid(sig, cc) THEN (IF o.inspect # Raises("TypeError") THEN "spec_validity_vs_python" ELSE LayerClauses(sig, cc, o.layers, 1))
    ELSE IF o.inspect # Bind(sig, cc) THEN "spec_binding_vs_python"
    ELSE IF o.self # BaseOutcome(sig, cc) THEN "spec_base_function"
    ELSE IF o.getcallargs # Bind(sig, cc) THEN "getcallargs"
    ELSE IF o.cwc # BaseOutcome(sig, cc) THEN "call_with_callargs"
    ELSE LayerClauses(sig, cc, o.layers, 1)

\* ------------------------------------------------------------------------------------- hist
\* abstract state: objs (chains), evals (evaluations of the base function so far), seen (first
\* non-raising result of every (object, call) made through a chain with a cache layer)
IsPair(r) == r[1] = "t" /\ Len(r[2]) = 2 /\ r[2][2][1] = "i"
SeenIdx(seen, o, cc) == {i \in 1..Len(seen) : seen[i][1] = o /\ seen[i][2] = cc}

WrapClause(sig, st, e) ==
    LET want == WrapObjs(st.heap, e.layer, e.target) IN
    IF e.target > Len(st.heap) THEN "spec_bad_target"
    ELSE IF Len(e.heap) # Len(want) THEN "heap_size"
    ELSE IF \E i \in 1..Len(st.heap) : e.heap[i] # st.heap[i] THEN "only_new_object"
    ELSE IF e.heap[Len(want)] # want[Len(want)] THEN "normal_form"
    ELSE IF \E i \in 1..Len(e.specs) : e.specs[i] # ArgSpec(sig) THEN "same_signature"
    ELSE ""
CallClause(sig, st, e) ==
    LET chain == IF e.obj = 0 THEN <<>> ELSE st.heap[e.obj]
        cc    == e.cc
        eff   == Effective(sig, chain, cc)
        want  == LawOutcome(sig, chain, cc)
        raises == IsExc(BaseOutcome(sig, eff))
        cached == HasCls(chain, "cache")
        direct == cached /\ chain[Len(chain)][1] = "cache"       \* the cache wraps the base function itself
        prev   == SeenIdx(st.seen, e.obj, cc)
        \* Named deviation SharedMemo: wrappers built from a cached function may share its memo, so the
        \* first call of a key on one object may return what another cached object evaluated earlier.
        othercache == \E j \in 1..Len(st.heap) : j # e.obj /\ HasCls(st.heap[j], "cache")
        \* the number of the evaluation a result carries (a None result carries none: only the counter tells)
        pair  == IsPair(e.out)
        n     == IF pair THEN e.out[2][2][2] ELSE e.evals
    IN
    IF e.obj > Len(st.heap) \/ ~ValidFor(sig, chain, cc) \/ ~IsSpelling(e.order, cc) THEN "spec_invalid_call"
    ELSE IF e.heap # st.heap THEN "call_changed_an_object"
    ELSE IF e.evals < st.nev THEN "spec_counter"
    ELSE IF want = Unspecified THEN ""
    ELSE IF raises THEN (IF e.out = want THEN "" ELSE IF TryIdx(chain) # {} THEN "fallback_iff_raises" ELSE "transparent_call")
    ELSE IF HasQuiet(eff) /\ e.out # None THEN "transparent_call"
    ELSE IF ~HasQuiet(eff) /\ (~pair \/ e.out[2][1] # want) THEN "transparent_call"
    ELSE IF ~cached THEN (IF st.nev < n /\ n <= e.evals THEN "" ELSE "evaluates_f")
         ELSE IF prev # {} THEN (IF e.out = st.seen[Min(prev)][3] /\ e.evals = st.nev THEN "" ELSE "memo_first_result")
         \* "exactly once" is said of the function the cache wraps: pinned when that is the base function itself
         ELSE IF n = st.nev + 1 /\ e.evals = n THEN ""
         ELSE IF ~direct /\ st.nev < n /\ n <= e.evals THEN ""
         ELSE IF othercache /\ (pair => n <= st.nev) /\ e.evals = st.nev THEN ""
         ELSE "memo_evaluates_once"
\* op "mutate": the caller changed, in place, the object the previous call returned to it.  That is not an
\* action of the session: nothing changes, and later calls are judged exactly as before.
HistNext(sig, st, e) ==
    IF e.op = "wrap" THEN [st EXCEPT !.heap = WrapObjs(@, e.layer, e.target), !.nev = e.evals]
    ELSE IF e.op = "mutate" THEN st
    ELSE LET chain == IF e.obj = 0 THEN <<>> ELSE st.heap[e.obj]
             normal == ~IsExc(BaseOutcome(sig, Effective(sig, chain, e.cc))) IN
         [st EXCEPT !.nev = e.evals,
                    !.seen = IF HasCls(chain, "cache") /\ normal /\ SeenIdx(@, e.obj, e.cc) = {}
                             THEN Append(@, <<e.obj, e.cc, e.out>>) ELSE @]
RECURSIVE HistFold(_, _, _, _)
HistFold(sig, es, i, st) ==
    IF i > Len(es) THEN ""
    ELSE LET v == IF es[i].op = "wrap" THEN WrapClause(sig, st, es[i])
                  ELSE IF es[i].op = "mutate" THEN "" ELSE CallClause(sig, st, es[i]) IN
         IF v # "" THEN v \o "@" \o ToString(i) ELSE HistFold(sig, es, i + 1, HistNext(sig, st, es[i]))
HistVerdict(o) == IF ~WellFormed(o.sig) THEN "spec_bad_signature"
                  ELSE HistFold(o.sig, o.events, 1, [heap |-> <<>>, nev |-> 0, seen |-> <<>>])

\* ------------------------------------------------------------------------------------- memo
\* state: [memo, evals] of Decorators!MemoCall; an observed event is [cc, out, evals]
\* one step of the fold: [v = the clause event e breaks ("" = none), m, ev = the memo machine after it]
MemoStep(sig, e, m, ev) ==
    LET cc == e.cc  r == MemoCall(m, ev, sig, cc)
        shape == IF HasQuiet(cc) THEN e.out = None ELSE IsPair(e.out) /\ e.out[2][1] = Bind(sig, cc)
        No(cl) == [v |-> cl, m |-> m, ev |-> ev] IN
    IF ~Valid(sig, cc) \/ ~IsSpelling(e.order, cc) THEN No("spec_invalid_call")
    ELSE IF HasBad(cc) THEN (IF e.out = Raises(FailClass(cc)) /\ e.evals > ev THEN [v |-> "", m |-> m, ev |-> e.evals] ELSE No("transparent_call"))
    ELSE IF ~shape THEN No("transparent_call")
    ELSE IF e.out = r.out /\ e.evals = r.evals THEN [v |-> "", m |-> r.memo, ev |-> r.evals]
    \* Uncached: an unhashable key met again may be evaluated again (its first result stays in the memo)
    ELSE IF UnhashableCall(cc) /\ e.evals = ev + 1 /\ e.out = Result(sig, cc, ev + 1) THEN [v |-> "", m |-> m, ev |-> ev + 1]
    ELSE No(IF MemoIdx(m, cc) # {} THEN "memo_first_result" ELSE "memo_evaluates_once")
RECURSIVE MemoFold(_, _, _, _, _)
MemoFold(sig, es, i, m, ev) ==
    IF i > Len(es) THEN ""
    ELSE LET r == MemoStep(sig, es[i], m, ev) IN
         IF r.v # "" THEN r.v \o "@" \o ToString(i) ELSE MemoFold(sig, es, i + 1, r.m, r.ev)
MemoVerdict(o) == IF ~WellFormed(o.sig) THEN "spec_bad_signature" ELSE MemoFold(o.sig, o.events, 1, <<>>, 0)

\* ------------------------------------------------------------------------------------- args
\* state: the caller's bindings as the specification has them; an event is [op, obj, cc, i, e, out, store]
ArgsClause(sig, chain, st, e) ==
    LET ch == IF e.obj = 0 THEN <<>> ELSE chain  suffix == IF e.obj = 0 THEN "" ELSE "_wrapped" IN
    IF e.op = "get" THEN
         IF ~Valid(sig, e.cc) \/ ~IsSpelling(e.order, e.cc) THEN "spec_invalid_call"
         ELSE IF e.out # Bind(sig, e.cc) THEN "getcallargs" \o suffix
         ELSE IF e.store # Append(st, Bind(sig, e.cc)) THEN "argument_changed" ELSE ""
    ELSE IF e.op = "replay" THEN
         IF e.i > Len(st) THEN "spec_bad_binding"
         ELSE IF e.store # st THEN "argument_changed"                                 \* a call owns nothing of the caller
         ELSE IF ~OutOK(ReplayLaw(sig, ch, st[e.i]), e.out) THEN "call_with_callargs" \o suffix ELSE ""
    ELSE IF e.op = "edit" THEN
         IF e.i > Len(st) \/ ~EditApplies(sig, e.e) THEN "spec_bad_edit"
         ELSE IF e.store # [st EXCEPT ![e.i] = Edited(sig, @, e.e)] THEN "spec_edit" ELSE ""
    ELSE "spec_unknown_event"
ArgsNext(sig, st, e) == IF e.op = "get" THEN Append(st, Bind(sig, e.cc))
                        ELSE IF e.op = "edit" THEN [st EXCEPT ![e.i] = Edited(sig, @, e.e)] ELSE st
RECURSIVE ArgsFold(_, _, _, _, _)
ArgsFold(sig, chain, es, i, st) ==
    IF i > Len(es) THEN ""
    ELSE LET v == ArgsClause(sig, chain, st, es[i]) IN
         IF v # "" THEN v \o "@" \o ToString(i) ELSE ArgsFold(sig, chain, es, i + 1, ArgsNext(sig, st, es[i]))
ArgsVerdict(o) == IF ~WellFormed(o.sig) THEN "spec_bad_signature" ELSE ArgsFold(o.sig, <<o.layer>>, o.events, 1, <<>>)

\* ------------------------------------------------------------------------------------- deco
\* state: decorated functions [fn, chain, memo = keys evaluated]; an event is [op, k, on, cc, out, evals, heap, specs]
DecoViewOf(st) == [i \in 1..Len(st) |-> [fn |-> st[i].fn, chain |-> st[i].chain]]
DecoPinned(st, i) == /\ st[i].chain = <<CacheLayer>>
                     /\ \A j \in 1..Len(st) : (j # i /\ st[j].fn = st[i].fn) => ~HasCls(st[j].chain, "cache")
DecoNew(o, st, e) == IF e.on < 0 THEN [fn |-> -e.on, chain |-> <<o.layers[e.k]>>, memo |-> <<>>]
                     ELSE [fn |-> st[e.on].fn, chain |-> NormalForm(o.layers[e.k], st[e.on].chain), memo |-> <<>>]
DecoClause(o, st, e) ==
    IF e.op = "decorate" THEN
         IF e.k > Len(o.layers) \/ e.on = 0 \/ -e.on > Len(o.sigs) \/ e.on > Len(st) THEN "spec_bad_target"
         ELSE LET want == Append(DecoViewOf(st), [fn |-> DecoNew(o, st, e).fn, chain |-> DecoNew(o, st, e).chain]) IN
              IF Len(e.heap) # Len(want) THEN "heap_size"
              ELSE IF \E i \in 1..Len(st) : e.heap[i] # want[i] THEN "only_new_object"
              ELSE IF e.heap[Len(want)] # want[Len(want)] THEN "normal_form"
              ELSE IF \E i \in 1..Len(want) : e.specs[i] # ArgSpec(o.sigs[want[i].fn]) THEN "same_signature"
              ELSE ""
    ELSE IF e.on < 1 \/ e.on > Len(st) THEN "spec_bad_target"
    ELSE LET ob == st[e.on]  sig == o.sigs[ob.fn]  cc == e.cc
             f == BaseOutcome(sig, Effective(sig, ob.chain, cc))
             want == LawOutcome(sig, ob.chain, cc)
             hit == \E k \in 1..Len(ob.memo) : ob.memo[k] = cc IN
         IF ~ValidFor(sig, ob.chain, cc) \/ ~IsSpelling(e.order, cc) THEN "spec_invalid_call"
         ELSE IF e.heap # DecoViewOf(st) THEN "call_changed_an_object"
         ELSE IF ~OutOK(want, e.out) THEN (IF IsInterrupt(f) THEN "interrupt_passes_through"
                                          ELSE IF IsFailure(f) /\ TryIdx(ob.chain) # {} THEN "fallback_iff_raises" ELSE "transparent_call")
         ELSE IF \E j \in 1..Len(o.sigs) : j # ob.fn /\ e.evals[j] # 0 THEN "evaluates_other_function"
         ELSE IF DecoPinned(st, e.on) /\ ~IsExc(f) /\ ~UnhashableCall(cc) /\ e.evals[ob.fn] # (IF hit THEN 0 ELSE 1)
              THEN (IF hit THEN "memo_first_result" ELSE "memo_evaluates_once")
         ELSE ""
DecoNext(o, st, e) ==
    IF e.op = "decorate" THEN Append(st, DecoNew(o, st, e))
    ELSE LET ob == st[e.on]  sig == o.sigs[ob.fn]
             normal == ~IsExc(BaseOutcome(sig, Effective(sig, ob.chain, e.cc)))
             hit == \E k \in 1..Len(ob.memo) : ob.memo[k] = e.cc IN
         [st EXCEPT ![e.on].memo = IF HasCls(ob.chain, "cache") /\ normal /\ ~hit THEN Append(@, e.cc) ELSE @]
RECURSIVE DecoFold(_, _, _, _)
DecoFold(o, es, i, st) ==
    IF i > Len(es) THEN ""
    ELSE LET v == DecoClause(o, st, es[i]) IN
         IF v # "" THEN v \o "@" \o ToString(i) ELSE DecoFold(o, es, i + 1, DecoNext(o, st, es[i]))
DecoVerdict(o) == IF \E j \in 1..Len(o.sigs) : ~WellFormed(o.sigs[j]) THEN "spec_bad_signature" ELSE DecoFold(o, o.events, 1, <<>>)

Verdict(o) == CASE o.part = "bind" -> BindVerdict(o)
                [] o.part = "deco" -> DecoVerdict(o)
                [] o.part = "args" -> ArgsVerdict(o)
                [] o.part = "hist" -> HistVerdict(o)
                [] o.part = "memo" -> MemoVerdict(o)
                [] OTHER -> "spec_unknown_part"

Init == BatchInit /\ SessionInit([npos |-> 0, ndef |-> 0, varargs |-> FALSE, varkw |-> FALSE, alt |-> FALSE])
Next == BatchNext(Verdict) /\ UNCHANGED vars
=============================================================================
