CONSTANTS MaxLen = 4
          Mode = "lists"
INIT Init
NEXT NextGen
