--------------------------- MODULE MC_AlgebraSes ---------------------------
(* Property C16, SESSIONS (Algebra.tla section 4): histories of public calls and of the caller's own actions *)
(* on the SAME objects.  Two families share the variables:                                                    *)
(*  "useq"  one ulist object u:   call (u fn x, ulist(w) fn u, e in u) ; the owner edits u in place through   *)
(*          the list API, or edits the RESULT of the call ; call                                              *)
(*  "mses"  the caller's objects d, e (two receivers), K (a list of keys), O (another mapping), M (a renaming  *)
(*          dict): call (r - K, r & K, r[K], r[tuple(K)], r + O, r | O, r.keys(), r.relabel(M, **individual))  *)
(*          ; the owner edits one of his objects, or the RESULT of the call ; call.  The arguments K, O, M are   *)
(*          the SAME objects in every call of the session                                                      *)
(* `obj` is what the caller's objects hold; a call never changes it (law).  Every step is recorded in `hist`   *)
(* with the outcome the law expects for the objects as they are at that moment; at the end of a history the     *)
(* generator prints it (S2C).  Shape = "cec": histories call ; edit ; call enumerated exhaustively (the first   *)
(* call from the small alphabet First*, the last from the full one); Shape = "free": any sequence of steps of   *)
(* length Depth (TLC simulation, thorough tier).                                                                *)
(* Mechanism models (compared with the law inside TLC):                                                         *)
(*   MemoPolicy  "none": membership is answered from the list (today's code); "bylength": from a cached set     *)
(*               that is rebuilt when the length differs - breaks MemoIsMembers (must_fail configuration)       *)
(*   ArgPolicy   "copy": relabel copies the renaming it is given (today's code); "adopt": it updates the        *)
(*               caller's dict with the individual relabels - breaks CallsOwnNothing (must_fail configuration)  *)
EXTENDS Algebra, TLC, Json
CONSTANTS Tier,        \* "quick" / "thorough": the size of the universes
          Shape,       \* "cec" / "free"
          Depth,       \* number of steps of a history
          Fams,        \* the families to run
          MemoPolicy, ArgPolicy

VARIABLES fam, obj, ini, cl, hist, memo, done
vars == <<fam, obj, ini, cl, hist, memo, done>>
Nil == <<"nil", 0>>
SeqsUpTo(S, n) == UNION {[1..k -> S] : k \in 0..n}
Thorough == Tier = "thorough"
Free == Shape = "free"

\* --- "useq" ---------------------------------------------------------------------------------------------------
ElemS   == {VInt(1), VInt(2), VInt(9)} \cup (IF Thorough THEN {VBool(TRUE)} ELSE {})          \* thorough: 1 == True
MaxLenS == IF Thorough /\ Free THEN 3 ELSE 2
Fns     == {"add", "or", "sub", "and"}
ListsS  == {<<>>, <<VInt(1), VInt(9)>>} \cup (IF Thorough THEN {<<VBool(TRUE)>>, <<VInt(9), VInt(2), VInt(9)>>} ELSE {})
RopW    == {<<VInt(1), VInt(9)>>} \cup (IF Thorough THEN {<<VInt(2), VInt(1), VInt(2)>>} ELSE {})
\* (quick: the elements are interchangeable - every initial u over them is enumerated -, the first call names two of them)
ElemF   == IF Thorough THEN (IF Free THEN ElemS ELSE {VInt(1), VBool(TRUE)}) ELSE {VInt(1), VInt(9)}
FirstU  == {<<"op", fn, <<"elem", e>>>> : fn \in (IF Thorough THEN Fns ELSE Fns \ {"or"}), e \in ElemF} \cup {<<"in", e>> : e \in ElemF}
           \cup {<<"rop", "and", w>> : w \in RopW}
AllU    == {<<"op", fn, <<"elem", e>>>> : fn \in Fns, e \in ElemS} \cup {<<"in", e>> : e \in ElemS}
           \cup {<<"op", fn, <<"list", s>>>> : fn \in Fns, s \in ListsS}
           \cup {<<"rop", fn, w>> : fn \in Fns, w \in RopW}
InitU == /\ fam = "useq" /\ "useq" \in Fams /\ obj \in {s \in SeqsUpTo(ElemS, MaxLenS) : IsUSeq(s)} /\ cl = Nil

\* --- "mses" ---------------------------------------------------------------------------------------------------
Nest1 == <<"m", [x |-> VInt(1), y |-> VInt(2)]>>
Nest2 == <<"m", [y |-> VInt(20), z |-> <<"m", [p |-> VInt(1)]>>]>>
D0 == {<< <<"a", VInt(1)>>, <<"b", VInt(2)>>, <<"c", VInt(3)>> >>, << <<"a", VInt(1)>>, <<"b", Nest1>> >>}
E0 == << <<"b", VInt(10)>>, <<"q", Nest1>> >>
KOM0 == {[K |-> <<"a">>,      O |-> << <<"b", VInt(20)>>, <<"z", VInt(30)>> >>, M |-> << <<"a", "x">> >>],
         [K |-> <<"b", "z">>, O |-> << <<"b", Nest2>>, <<"c", VInt(4)>> >>,     M |-> << <<"a", "b">>, <<"b", "a">> >>]}
Cls0 == {[d |-> "Dict", e |-> "dictattr"], [d |-> "SubDA", e |-> "SubD"]}
         \cup (IF Thorough THEN {[d |-> "dictattr", e |-> "Dict"], [d |-> "SubD", e |-> "SubDA"]} ELSE {})
Rcv  == {"d", "e"}
Indiv == {<<>>, << <<"b", "y">> >>} \cup (IF Thorough THEN {<< <<"a", "y">>, <<"z", "w">> >>} ELSE {})        \* individual relabels, as items
AllM == {<<nm, r>> : nm \in {"minus", "and", "select", "multiget", "plus", "or", "keys"}, r \in Rcv}
        \cup {<<"relabel", r, iv>> : r \in Rcv, iv \in Indiv}
FirstM == AllM
InitM == /\ fam = "mses" /\ "mses" \in Fams /\ cl \in Cls0
         /\ \E d0 \in D0, kom \in KOM0 : (Free \/ (Len(d0) = 3 <=> kom.K = <<"a">>)) /\ obj = [d |-> d0, e |-> E0, K |-> kom.K, O |-> kom.O, M |-> kom.M]

Init == (InitU \/ InitM) /\ ini = obj /\ hist = <<>> /\ memo = Nil /\ done = FALSE

\* --- steps --------------------------------------------------------------------------------------------------------
MayCall(first, all, c) == Len(hist) < Depth /\ IF Free THEN c \in all ELSE (Len(hist) = 0 /\ c \in first) \/ (Len(hist) = 2 /\ c \in all)
MayEdit == Len(hist) < Depth /\ (Free \/ Len(hist) = 1)
LastCall == hist # <<>> /\ hist[Len(hist)].k = "call"

Members(u) == {u[i] : i \in 1..Len(u)}
CallStepU(c) == /\ fam = "useq" /\ MayCall(FirstU, AllU, c)
                /\ hist' = Append(hist, [k |-> "call", a |-> c, out |-> CallU(obj, c), st |-> obj])
                /\ memo' = IF MemoPolicy = "bylength" /\ memo # Nil /\ Cardinality(memo[2]) = Len(obj) THEN memo ELSE <<"set", Members(obj)>>
                /\ UNCHANGED <<fam, obj, ini, cl, done>>
EditStepU(e) == /\ fam = "useq" /\ MayEdit /\ OwnerKeepsUnique(obj, e)
                /\ obj' = EditL(obj, e)
                /\ hist' = Append(hist, [k |-> "edit", a |-> e, out |-> <<>>, st |-> obj'])
                /\ UNCHANGED <<fam, ini, cl, memo, done>>
\* the caller edits the RESULT of the previous call in place (a list: append / clear): u stays what it is
REditStepU(e) == /\ fam = "useq" /\ MayEdit /\ LastCall /\ hist[Len(hist)].a[1] # "in"
                 /\ hist' = Append(hist, [k |-> "redit", a |-> e, out |-> <<>>, st |-> obj])
                 /\ UNCHANGED <<fam, obj, ini, cl, memo, done>>
StepU == \/ \E c \in AllU : CallStepU(c)
         \/ \E v \in ElemS : \E i \in 1..MaxLenS : EditStepU(<<"set", i, v>>) \/ ((Thorough \/ Free) /\ EditStepU(<<"insert", i, v>>))
         \/ \E v \in ElemS : EditStepU(<<"append", v>>) \/ EditStepU(<<"popappend", v>>)
         \/ \E i \in 1..MaxLenS : EditStepU(<<"del", i>>)
         \/ EditStepU(<<"pop">>) \/ EditStepU(<<"reverse">>) \/ EditStepU(<<"clear">>)
         \/ REditStepU(<<"append", VInt(9)>>) \/ REditStepU(<<"clear">>)

Adopted(st, c) == IF ArgPolicy = "adopt" /\ c[1] = "relabel"
                  THEN [st EXCEPT !.M = LET iv == AsFun(c[3]) IN
                                         [i \in 1..Len(@) |-> IF @[i][1] \in DOMAIN iv THEN <<@[i][1], iv[@[i][1]]>> ELSE @[i]]
                                         \o SetToSeq({<<k, iv[k]>> : k \in DOMAIN iv \ KeySet(@)})]
                  ELSE st
CallStepM(c) == /\ fam = "mses" /\ MayCall(FirstM, AllM, c) /\ CallMOk(obj, c)
                /\ obj' = Adopted(obj, c)
                /\ hist' = Append(hist, [k |-> "call", a |-> c, out |-> CallM(obj, cl, c), st |-> obj'])
                /\ UNCHANGED <<fam, ini, cl, memo, done>>
EditStepM(e) == /\ fam = "mses" /\ MayEdit /\ EditMOk(obj, e)
                /\ obj' = EditM(obj, e)
                /\ hist' = Append(hist, [k |-> "edit", a |-> e, out |-> <<>>, st |-> obj'])
                /\ UNCHANGED <<fam, ini, cl, memo, done>>
\* the caller edits the RESULT of the previous call in place: r[k] = v / r.clear() on a mapping, append on a list
REditStepM(e) == /\ fam = "mses" /\ MayEdit /\ LastCall
                 /\ LET kind == hist[Len(hist)].out[1] IN (kind = "map" /\ e[1] \in {"rset", "rclear"}) \/ (kind = "list" /\ e[1] = "rappend")
                 /\ hist' = Append(hist, [k |-> "redit", a |-> e, out |-> <<>>, st |-> obj])
                 /\ UNCHANGED <<fam, obj, ini, cl, memo, done>>
StepM == \/ \E c \in AllM : CallStepM(c)
         \/ \E o \in {"d", "O"} \cup (IF Thorough THEN {"e"} ELSE {}) : \E k \in {"b", "n"} : EditStepM(<<"set", o, k, VInt(7)>>)
         \/ EditStepM(<<"set", "d", "b", Nest2>>)
         \/ \E k \in {"a", "c"} : EditStepM(<<"set", "M", k, "w">>)
         \/ \E o \in {"d", "O", "M"} : \E k \in {"a", "b"} : (Thorough \/ <<o, k>> \in {<<"d", "a">>, <<"O", "b">>, <<"M", "a">>}) /\ EditStepM(<<"del", o, k>>)
         \/ EditStepM(<<"clear", "M">>) \/ (Thorough /\ EditStepM(<<"clear", "O">>))
         \/ EditStepM(<<"appendK", "c">>) \/ (Thorough /\ EditStepM(<<"appendK", "b">>)) \/ EditStepM(<<"popK">>)
         \/ REditStepM(<<"rset", "b", VInt(99)>>) \/ (Thorough /\ REditStepM(<<"rset", "n", VInt(99)>>)) \/ REditStepM(<<"rclear">>)
         \/ REditStepM(<<"rappend", VStr("n")>>)

Next == StepU \/ StepM

\* --- laws and mechanisms ---------------------------------------------------------------------------------------------
Before(i) == IF i = 1 THEN ini ELSE hist[i - 1].st
\* the owner's edits stay inside the domain of the property
UniqueKept == fam = "useq" => IsUSeq(obj) /\ \A i \in 1..Len(hist) : IsUSeq(hist[i].st)
\* a call leaves every object of the caller as it was
CallsOwnNothing == \A i \in 1..Len(hist) : hist[i].k \in {"call", "redit"} => hist[i].st = Before(i)
\* every recorded outcome is the single-call law on the objects as they were at that moment (no memory)
NoMemory == \A i \in 1..Len(hist) : hist[i].k = "call" =>
                hist[i].out = IF fam = "useq" THEN CallU(Before(i), hist[i].a) ELSE CallM(Before(i), cl, hist[i].a)
\* results of ulist calls are duplicate-free, whatever the history
ResultsUnique == fam = "useq" => \A i \in 1..Len(hist) : hist[i].k = "call" => IsUSeq(hist[i].out)
\* the membership mechanism: what it answers from right after a call are the members of u
MemoIsMembers == (fam = "useq" /\ LastCall) => memo = <<"set", Members(obj)>>
\* a second call of the same relabel sees the same renaming: M is what the owner made it
SameCallSameAnswer == \A i, j \in 1..Len(hist) : (i < j /\ hist[i].k = "call" /\ hist[j].k = "call" /\ hist[i].a = hist[j].a
                                                  /\ \A n \in (i + 1)..j : hist[n].k # "edit") => hist[i].out = hist[j].out

\* --- S2C generator -----------------------------------------------------------------------------------------------------
Emit == /\ Len(hist) = Depth /\ ~done /\ done' = TRUE
        /\ PrintT(ToJson([op |-> fam, init |-> ini, cls |-> cl, hist |-> hist]))
        /\ UNCHANGED <<fam, obj, ini, cl, hist, memo>>
NextGen == Next \/ Emit
=============================================================================
