CONSTANTS NS = 3
 NT = 2
 NF = 2
 Fill = FALSE
INIT Init
NEXT Eval
INVARIANT OnIndex
INVARIANT PointwiseOp
INVARIANT ColumnPolicy
INVARIANT Commutative
INVARIANT NeutralLaw
INVARIANT NoInf
INVARIANT DivByZero
INVARIANT CmpDual
INVARIANT ReduceOrder
INVARIANT Aggregates
INVARIANT SumIsAdd
INVARIANT OpsAgrees
