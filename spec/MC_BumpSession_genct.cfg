\* S2C generator (thorough): collide histories over the larger universe
CONSTANTS Variant = "code"
          MaxSteps = 3
          MaxLen = 4
          Shape = "collide"
          Scope = "thorough"
          Emitting = TRUE
INIT Init
NEXT NextCollide
INVARIANT ResultIsLaw
INVARIANT NoMemory
