CONSTANTS Dates = {1}
          Stamps = {1, 2}
          Vals = {1, 2}
          MaxMerges = 2
          MaxAgain = 0
          Stable = TRUE
          Zones = {0, 1}
          ZoneAware = FALSE
INIT Init
NEXT NextMC
CONSTRAINT ReadsAreLeaves
INVARIANT MCRefines
