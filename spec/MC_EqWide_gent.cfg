CONSTANTS Widths = {2, 4, 6, 7, 8, 9, 11, 13, 20}
          Deep = TRUE
          Warm = 2
INIT Init
NEXT EvalGen
INVARIANT WideOK
INVARIANT WidePinned
INVARIANT WideAt
INVARIANT PositionFree
