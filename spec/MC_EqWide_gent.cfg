CONSTANTS Widths = {2, 3, 4, 5, 6, 7, 8, 9, 10, 11, 12, 13, 20}
          Deep = TRUE
          Warm = 2
INIT Init
NEXT EvalGen
INVARIANT WideOK
INVARIANT WidePinned
INVARIANT WideAt
INVARIANT PositionFree
