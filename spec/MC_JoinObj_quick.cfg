CONSTANTS MaxRows = 2
          MaxRowsY = 1
          MaxSteps = 2
          NKeys = 4
          Stride = 128
          Gen = FALSE
          Emit = "none"
          Variant = "plain"
SPECIFICATION Spec
INVARIANT TypeOK
INVARIANT MechRefinesLaw
INVARIANT Decomposition
INVARIANT SelfJoinReflexive
INVARIANT SelfJoinTranspose
INVARIANT SharingInvisible
PROPERTY CallsLeaveOperands
