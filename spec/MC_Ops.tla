------------------------------- MODULE MC_Ops -------------------------------
(* Property C08 on the specification, and the source of its S2C cases.                          *)
(* A case is a tuple of 2-3 operands (series over 1..N given by an index subset and a NaN mask, *)
(* small frames, scalars).  Values come from two tables on which every operation of the family  *)
(* is exact in binary floating point:                                                          *)
(*   "arith" : 0 and +-powers of two   (+ - * / ** comparisons min max; 1/x and x/1 exact)       *)
(*   "agg"   : multiples of 12         (sums and means of up to 4 operands exact)               *)
(*   MC   : Init = every (operands, family, index policy, column policy); one INVARIANT a clause *)
(*   S2C  : InitGen = every (operands, family); EvalGen prints the operands with the outcome     *)
(*          expected for every operator x index policy x column policy                          *)
EXTENDS OpsLaw, TLC, Json
CONSTANTS NS,       \* series over timestamps 1..NS: pairs (and series x scalar)
          NT,       \* triples of series over 1..NT  (0 = none)
          NF,       \* frames over 1..NF (0 = none): frame x frame, frame x series, frame x one-column frame
          Fill      \* generator only: TRUE = the pairs under every fill method but none (OpsLaw.tla), FALSE = method none

VARIABLES xs, fam, join, colpol, done
vars == <<xs, fam, join, colpol, done>>

Tab == [arith |-> << <<4, 0, 8, 1>>, <<8, 2, 0, 4>>, <<-2, 4, 1, 0>> >>,
        agg   |-> << <<12, 0, 24, -36>>, <<24, 36, 0, 12>>, <<-12, 12, 48, 0>> >>]
V(f, i, x) == VFlt(Tab[f][i][x], 1)
SerU(f, i, n) == UNION {{MkS(I, LAMBDA x : IF x \in M THEN NaNC ELSE V(f, i, x)) : M \in SUBSET I} : I \in SUBSET (1..n)}
ScalarU(f) == {[k |-> "c", v |-> Zero], [k |-> "c", v |-> NaNC], [k |-> "c", v |-> IF f = "arith" THEN VFlt(2, 1) ELSE VFlt(12, 1)]}
\* frames: column j of frame i holds the table value of series ((i + j) mod 3) + 1; "b" is NaN on Mb
ColNo(c) == CHOOSE j \in 1..Len(ColU) : ColU[j] = c
FrU(f, i, n, colsets) ==
    UNION {{MkF(I, C, LAMBDA c, x : IF c = "b" /\ x \in Mb THEN NaNC ELSE V(f, ((i + ColNo(c)) % 3) + 1, x)) : Mb \in SUBSET I}
           : I \in SUBSET (1..n), C \in colsets}

Pairs(f)   == {<<a, b>> : a \in SerU(f, 1, NS), b \in SerU(f, 2, NS)}
              \cup {<<a, s>> : a \in SerU(f, 1, NS), s \in ScalarU(f)}
              \cup {<<s, b>> : s \in ScalarU(f), b \in SerU(f, 2, NS)}
Triples(f) == IF NT = 0 THEN {} ELSE {<<a, b, c>> : a \in SerU(f, 1, NT), b \in SerU(f, 2, NT), c \in SerU(f, 3, NT)}
WithFrames(f) == IF NF = 0 THEN {} ELSE
    LET F1 == FrU(f, 1, NF, {{"a", "b"}, {"a", "b", "c"}})
        F2 == FrU(f, 2, NF, {{"b", "c"}, {"a", "b"}})
        Q  == FrU(f, 3, NF, {{"q"}})
    IN  {<<a, b>> : a \in F1, b \in F2}
        \cup {<<a, s>> : a \in F1, s \in SerU(f, 3, NF) \cup Q \cup ScalarU(f)}
        \cup {<<s, a>> : a \in F1, s \in SerU(f, 3, NF) \cup Q}
        \cup {<<q, s>> : q \in Q, s \in SerU(f, 2, NF)}
        \cup {<<a, b, s>> : a \in FrU(f, 1, 1, {{"a", "b"}}), b \in FrU(f, 2, NF, {{"b", "c"}}), s \in SerU(f, 3, 1)}
Cases(f) == Pairs(f) \cup Triples(f) \cup WithFrames(f)
Fams == {"arith", "agg"}
Joins == {"ij", "oj"}
ColPols == {"ij", "oj"}

HasMulti(ys) == \E i \in 1..Len(ys) : IsMulti(ys[i])
ColPolsOf(ys) == IF HasMulti(ys) THEN ColPols ELSE {"ij"}
Init == fam \in Fams /\ xs \in Cases(fam) /\ join \in Joins /\ colpol \in ColPolsOf(xs) /\ done = FALSE
InitGen == fam \in Fams /\ xs \in Cases(fam) /\ join = "ij" /\ colpol = "ij" /\ done = FALSE
Eval == done = FALSE /\ done' = TRUE /\ UNCHANGED <<xs, fam, join, colpol>>

\* which operators a case is run through
CellsOf(o) == IF IsScalar(o) THEN {o.v} ELSE IF IsS(o) THEN Range(o.v) ELSE UNION {Range(o.v[j]) : j \in 1..Len(o.v)}
PowOK(ys) == Len(ys) = 2 /\ \A y \in CellsOf(ys[2]) : PowDomain(y)
OpsFor(f, ys) ==
    IF f = "arith" THEN (IF Len(ys) = 2 THEN (BinOps \ {"pow"}) \cup (IF PowOK(ys) THEN {"pow"} ELSE {}) ELSE {"add", "mul", "min", "max"})
    ELSE (IF Len(ys) = 2 THEN {"add"} ELSE {"add", "mul", "min", "max"})
AggsFor(f, ys) == IF f = "agg" THEN AggOps ELSE {}
\* an expectation: operator, policies, fill method, calling form ("" = every form the driver knows) and the admissible outcomes
Expect(op, j, cp, m, form, outs) == [op |-> op, join |-> j, cols |-> cp, m |-> m, form |-> form, out |-> SetToSeq(outs)]
PinnedPols(op) == {c \in ColPolsOf(xs) : OpsColsPinned(op, xs, c)}
PlainExp == UNION {{Expect(op, j, cp, "none", "", OpsOutcomes(op, xs, j, cp, "none")) : j \in Joins, cp \in PinnedPols(op)} : op \in OpsFor(fam, xs)}
AggExp   == {Expect(op, "oj", cp, "none", "", {Agg(op, xs, cp)}) : op \in AggsFor(fam, xs), cp \in ColPolsOf(xs)}
\* sub_ / div_ with a LIST on one side: three operands, handed over as (a, [b1, b2]) or ([a1, a2], b)
CutsFor(f, ys) == IF Len(ys) # 3 THEN {} ELSE IF f = "arith" THEN {op \in {"sub", "div"} : OpsCutDomain(op, ys)} ELSE {"sub"}
CutForms == {<<"a_list", 1>>, <<"list_b", 2>>}
CutExp   == UNION {{Expect(op, j, cp, "none", fm[1], OpsCutOutcomes(op, xs, fm[2], j, cp)) : j \in Joins, cp \in PinnedPols(op), fm \in CutForms} : op \in CutsFor(fam, xs)}
\* the pairs under every fill method
FillExp  == IF Len(xs) # 2 THEN {}
            ELSE UNION {{Expect(op, j, cp, m, "", OpsOutcomes(op, xs, j, cp, m)) : j \in Joins, cp \in PinnedPols(op), m \in OpsMethods \ {"none"}} : op \in OpsFor(fam, xs)}
EvalGen == Eval /\ PrintT(ToJson([xs |-> xs, fam |-> fam, exp |-> SetToSeq(IF Fill THEN FillExp ELSE PlainExp \cup AggExp \cup CutExp)]))

\* ---- the clauses of C08 on the law-level operators ---------------------------------------------
Pair == Len(xs) = 2
A == xs[1]
B == xs[2]
TimesOf(o) == IF IsScalar(o) THEN {} ELSE Times(o)
ResCells(r) == CellsOf(r)
Pinned(op) == ColsPinned(op, xs, colpol)
OpsPinned(op) == OpsColsPinned(op, xs, colpol)
\* same index, same values (a one-column frame and a series with the same values are the same data)
SameData(r, a) == IF IsMulti(a) THEN r = a
                  ELSE IF IsScalar(a) THEN r = a
                  ELSE IsS(r) /\ r.t = a.t /\ r.v = (IF IsS(a) THEN a.v ELSE a.v[1])

\* the result lives on the intersection / union of the operands' indices
OnIndex == (done /\ Pair /\ ~(IsScalar(A) /\ IsScalar(B))) => \A op \in OpsFor(fam, xs) : Pinned(op) =>
    Times(BinOp(op, A, B, join, colpol)) = OpIndex(join, A, B)
\* result[t] = a[t] op b[t], NaN standing for a missing observation, on every common column
PointwiseOp == (done /\ Pair /\ ~(IsScalar(A) /\ IsScalar(B))) => \A op \in OpsFor(fam, xs) : Pinned(op) =>
    LET r == BinOp(op, A, B, join, colpol) IN
    \A x \in Times(r) :
        IF IsS(r) THEN SVal(r, x) = OpCell(op, OVal(A, "", x), OVal(B, "", x))
        ELSE \A c \in Cols(r) :
             LET side(o) == IF IsMulti(o) /\ c \notin Cols(o) THEN Neutral(op) ELSE OVal(o, c, x)
             IN  FVal(r, c, x) = OpCell(op, side(A), side(B))
\* with column policy oj the result has every column, with ij the shared ones
ColumnPolicy == (done /\ Pair /\ HasMulti(xs)) => \A op \in OpsFor(fam, xs) : Pinned(op) =>
    LET r == BinOp(op, A, B, join, colpol)
        sets == {Cols(xs[i]) : i \in {i \in 1..2 : IsMulti(xs[i])}}
    IN  IsF(r) /\ Cols(r) = (IF colpol = "ij" THEN {c \in UNION sets : \A S \in sets : c \in S} ELSE UNION sets)
\* add_ and mul_ are commutative (so are min_ and max_)
Commutative == (done /\ Pair) => \A op \in {"add", "mul", "min", "max"} \cap OpsFor(fam, xs) :
    BinOp(op, A, B, join, colpol) = BinOp(op, B, A, join, colpol)
\* the neutral element changes nothing
NeutralLaw == (done /\ Pair) => \A op \in {"add", "sub", "mul", "div"} \cap OpsFor(fam, xs) :
    SameData(BinOp(op, A, [k |-> "c", v |-> Neutral(op)], join, colpol), A)
\* division by zero yields NaN, never +-inf; nothing is ever infinite
NoInf == done => \A op \in OpsFor(fam, xs) : Pinned(op) => \A y \in ResCells(Reduce(op, xs, join, colpol)) : Tag(y) \in {"f", "nan", "b"}
DivByZero == (done /\ Pair /\ "div" \in OpsFor(fam, xs) /\ ~(IsScalar(A) /\ IsScalar(B))) =>
    LET r == BinOp("div", A, B, join, colpol) IN
    \A x \in Times(r) : \A c \in (IF IsS(r) THEN {""} ELSE {c \in Cols(r) : IsMulti(B) => c \in Cols(B)}) :
        OVal(B, c, x) = Zero => IsNaN(IF IsS(r) THEN SVal(r, x) ELSE FVal(r, c, x))
\* comparisons are dual and boolean
CmpDual == (done /\ Pair /\ "gt" \in OpsFor(fam, xs)) =>
    /\ BinOp("gt", A, B, join, "ij") = BinOp("lt", B, A, join, "ij")
    /\ BinOp("ge", A, B, join, "ij") = BinOp("le", B, A, join, "ij")
    /\ \A y \in ResCells(BinOp("ge", A, B, join, "ij")) : Tag(y) = "b"
\* lists reduce left to right; for the commutative, associative operations the order is immaterial
\* (series only: a frame reduced to one column travels on as a pseudo-series, see PseudoSeries)
ReduceOrder == (done /\ Len(xs) = 3 /\ \A i \in 1..3 : IsS(xs[i])) => \A op \in OpsFor(fam, xs) : Pinned(op) =>
    Reduce(op, xs, join, colpol) = Reduce(op, <<xs[3], xs[1], xs[2]>>, join, colpol)
\* Sum = Mean x Count where Count > 0; NaN (count 0) where nobody has data; union index
Aggregates == (done /\ fam = "agg" /\ \E i \in 1..Len(xs) : IsTs(xs[i])) =>
    LET s == Agg("sum", xs, colpol)  mn == Agg("mean", xs, colpol)  n == Agg("count", xs, colpol)
        cell(r, c, x) == IF IsS(r) THEN SVal(r, x) ELSE FVal(r, c, x)
    IN  /\ Times(s) = UNION {TimesOf(xs[i]) : i \in 1..Len(xs)} /\ mn.t = s.t /\ n.t = s.t
        /\ \A x \in Times(s) : \A c \in (IF IsS(s) THEN {""} ELSE Cols(s)) :
              LET k == cell(n, c, x) IN
              /\ k = VFlt(CountC(CellsAt(xs, c, x)), 1)
              /\ IF k = Zero THEN IsNaN(cell(s, c, x)) /\ IsNaN(cell(mn, c, x))
                 ELSE cell(s, c, x) = MulC(cell(mn, c, x), k)
\* where every operand has data the sum is the reduction by add_
SumIsAdd == (done /\ fam = "agg" /\ \E i \in 1..Len(xs) : IsTs(xs[i])) =>
    LET s == Agg("sum", xs, colpol)  r == Reduce("add", xs, "oj", colpol)
        cell(q, c, x) == IF IsS(q) THEN SVal(q, x) ELSE FVal(q, c, x)
    IN  \A x \in Times(s) : \A c \in (IF IsS(s) THEN {""} ELSE Cols(s)) :
            (\A i \in 1..Len(xs) : IsV(OVal(xs[i], c, x)) /\ (IsMulti(xs[i]) => c \in Cols(xs[i]))) => cell(s, c, x) = cell(r, c, x)
\* ---- the clauses on the operators of OpsLaw.tla (fill methods, comparisons with no data, lists of denominators) ----
\* without a fill method OpsLaw is Series, wherever Series pins the result down
OpsAgrees == done => \A op \in OpsFor(fam, xs) : Pinned(op) => OpsReduce(op, xs, join, colpol, "none", "row") = Reduce(op, xs, join, colpol)
ResCell(r, c, x) == IF IsS(r) THEN SVal(r, x) ELSE FVal(r, c, x)
ResCols(r) == IF IsS(r) THEN {""} ELSE Cols(r)
\* every comparison in which an aligned operand has no data (NaN in the data, a timestamp only the other operand has,
\* a column only the other frame has) is false, under every fill method; where both have data a >= b is "not a < b"
RdsFor == IF HasMulti(xs) THEN Readings ELSE {"row"}          \* the two readings of a frame's observation part for frames only
CmpNoData == (done /\ Pair /\ "gt" \in OpsFor(fam, xs) /\ ~(IsScalar(A) /\ IsScalar(B))) =>
    \A m \in OpsMethods : \A rd \in RdsFor :
        LET I   == OpIndex(join, A, B)
            a2  == OpsAlign(A, I, m, rd)
            b2  == OpsAlign(B, I, m, rd)
            rgt == OpsBinOp("gt", A, B, join, colpol, m, rd)
            rge == OpsBinOp("ge", A, B, join, colpol, m, rd)
            rlt == OpsBinOp("lt", A, B, join, colpol, m, rd)
            rle == OpsBinOp("le", A, B, join, colpol, m, rd)
        IN  \A x \in I : \A c \in ResCols(rge) :
                IF IsNaN(OpsSide("ge", a2, c, x)) \/ IsNaN(OpsSide("ge", b2, c, x))
                THEN \A r \in {rgt, rge, rlt, rle} : ResCell(r, c, x) = VBool(FALSE)
                ELSE /\ ResCell(rge, c, x) = VBool(ResCell(rlt, c, x) = VBool(FALSE))
                     /\ ResCell(rle, c, x) = VBool(ResCell(rgt, c, x) = VBool(FALSE))
\* a number as fill method leaves no gap: the sum of two timeseries has a value at every timestamp of the joint index
FillNumber == (done /\ Pair /\ IsTs(A) /\ IsTs(B) /\ "add" \in OpsFor(fam, xs)) =>
    \A m \in {"v0", "v1"} : \A y \in ResCells(OpsBinOp("add", A, B, join, colpol, m, "row")) : IsV(y)
\* as-of fill: at a timestamp both operands have with data nothing is filled (the plain cell), and nothing is ever infinite
FillAsOf == (done /\ Pair /\ ~(IsScalar(A) /\ IsScalar(B))) =>
    \A m \in OpsMethods \ {"none"} : \A rd \in RdsFor : \A op \in OpsFor(fam, xs) \ {"pow"} : OpsPinned(op) =>
        LET r == OpsBinOp(op, A, B, join, colpol, m, rd)
            p == OpsBinOp(op, A, B, join, colpol, "none", rd)
        IN  /\ Times(r) = OpIndex(join, A, B)
            /\ \A y \in ResCells(r) : Tag(y) \in {"f", "nan", "b"}
            /\ \A x \in Times(r) : \A c \in ResCols(r) :
                   (~IsNaN(OpsSide(op, A, c, x)) /\ ~IsNaN(OpsSide(op, B, c, x)) /\ (IsTs(A) => x \in Times(A)) /\ (IsTs(B) => x \in Times(B)))
                       => ResCell(r, c, x) = ResCell(p, c, x)
\* division by zero yields NaN also when the zero arrives by the fill method or stands in a LIST of denominators
DivZeroFilled == (done /\ Pair /\ IsTs(B) /\ "div" \in OpsFor(fam, xs)) =>
    \A m \in OpsMethods : \A rd \in RdsFor :
        LET r  == OpsBinOp("div", A, B, join, colpol, m, rd)
            b2 == OpsAlign(B, Times(r), m, rd)
        IN  \A x \in Times(r) : \A c \in ResCols(r) : OpsSide("div", b2, c, x) = Zero => IsNaN(ResCell(r, c, x))
DivListZero == (done /\ Len(xs) = 3 /\ "div" \in CutsFor(fam, xs) /\ \A i \in 1..3 : IsS(xs[i])) =>
    \A nl \in {1, 2} : \A r \in OpsCutOutcomes("div", xs, nl, join, colpol) :
        \A x \in Times(r) : (\E i \in (nl + 1)..3 : SVal(xs[i], x) = Zero) => IsNaN(SVal(r, x))
=============================================================================
