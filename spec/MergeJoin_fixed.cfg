CONSTANTS Variant = "fixed"
          MaxRows = 2
SPECIFICATION Spec
INVARIANT RefinesJoin
INVARIANT RefinesXor
INVARIANT OnlyEqualPairs
INVARIANT RunsOK
PROPERTY Termination
