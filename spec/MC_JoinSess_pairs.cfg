CONSTANTS MaxSteps = 3
          Stride = 16
          PoolStride = 12007
          Gen = TRUE
          Form = "pairs"
          Memo = "none"
          Variant = "plain"
INIT Init
NEXT Next
