CONSTANTS KeyOrd <- KeyAB
          Vals = {1, 2}
          Bad = 0
          Procs = {1, 2}
          NPaths = 1
          Blocked = {}
          Allow = {"crash_truncated"}
          GenFlush = {1, 2, 3, 4}
          WarmReads = TRUE
          InitCfgs <- FewCfgs
          WriteCfgs <- FewWrite
          MaxBegin = 2
          MaxRead = 2
          MaxSpawn = 3
          MaxCrash = 1
INIT Init
NEXT NextMC
INVARIANT TypeOK
INVARIANT ReadLaw
