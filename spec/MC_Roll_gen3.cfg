CONSTANTS Worlds <- WorldsSmall
          Starts = {6}
          Horizon = 19
          MaxStep = 3
          CutLag = 2
          ExpLag = 3
          Ns = {0, 2}
          EmptyAsNone = TRUE
          LiveRule = "post"
          MaxTrunc = 2
          TruncBack = {1, 4}
          Depth = 3
INIT MCInit
NEXT MCNext
