CONSTANTS MaxSteps = 3
          Shape = "focused"
          SeedNames = {"num"}
          Hist = TRUE
INIT Init
NEXT Next
INVARIANT EditsBite
