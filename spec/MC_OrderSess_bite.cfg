CONSTANTS MaxSteps = 3
          Shape = "focused"
          SeedNames = {"num"}
          ErrOnly = {}
          Hist = TRUE
INIT Init
NEXT Next
INVARIANT EditsBite
