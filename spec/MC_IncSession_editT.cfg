\* editT1
CONSTANTS MaxCalls = 2
          MaxArgs = 1
          FreeCalls = 1
          Scope = "editT"
          Adopt = FALSE
          MaxEdits = 1
          MinEdits = 1
          Probes = TRUE
          FirstOps = {"inc", "exc", "find", "one"}
          Srcs = {"live", "old"}
          Ons = {"t", "last", "u"}
          NameIds = {0}
          Gen = TRUE
INIT Init
NEXT Next
CONSTRAINT GenBound
INVARIANT PoolUntouched
INVARIANT ResultByOriginal
INVARIANT SessPartition
INVARIANT SessIdempotent
INVARIANT SessKeepsCols
INVARIANT NoCondIsIdentity
INVARIANT EchoLaw
INVARIANT EditIsLocal
INVARIANT NamingInjective
PROPERTY ArgumentsLeftAlone
