\* quick tier: ONE run model-checks the clauses on every history of two calls and prints them for the S2C replay
\* (FormIrrelevant, the costly one, is checked by the thorough configurations)
CONSTANTS MaxSteps = 2
          FreeSteps = 1
          Scope = "quick"
          Caller = FALSE
          Edits = FALSE
          Pairs = "no"
          Extend = FALSE
          Mech = TRUE
INIT Init
NEXT NextGen
INVARIANT PoolUntouched
INVARIANT ResultByOriginal
INVARIANT RightListPinned
INVARIANT SwapArguments
INVARIANT ListAggregates
PROPERTY CallsChangeNothing
