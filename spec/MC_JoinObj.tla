------------------------------ MODULE MC_JoinObj ------------------------------
(* Property C02 as a state machine over ONE PAIR OF OPERAND OBJECTS: a base table X (columns a, b *)
(* = key material, p = row id), a second operand object related to X by `shape` (JoinCalls.tla:   *)
(* X itself, copies / projections / derived tables / plain dicts sharing X's column lists, an     *)
(* equal table, an unrelated table), and a history of steps on these same objects:                *)
(*     CallJoin / CallXor / CallLeftJoin   one call plan JoinCalls!PlanAt(i, ..)   (the outcome      *)
(*                                         register holds what the mechanism model JoinMech       *)
(*                                         returns; the operands stay as they are)                *)
(*     Edit                                one key cell of X overwritten in place through the     *)
(*                                         column list (every object sharing the list sees it)    *)
(* Model checking (Gen = FALSE): the mechanism's outcome of every call satisfies the verdict the  *)
(* trace specification applies to the real code; the laws of the statement hold for every key     *)
(* plan on every operand pair, aliased ones included.                                             *)
(* Generation (Gen = TRUE): hist carries the steps; breadth-first with Emit = "each" prints every *)
(* history when it is extended by a call, simulation with Emit = "end" prints histories of        *)
(* MaxSteps steps.  Stride thins the enumeration deterministically: plan number i is taken from   *)
(* operand pair (x, shape) iff (61 * (5 * Weight(x) + 11 * shape number) + 7 * i) % Stride = 0             *)
EXTENDS JoinMech, TLC, Json
CONSTANTS MaxRows,      \* rows of X
          MaxRowsY,     \* rows of the unrelated table (shape "distinct")
          MaxSteps,     \* steps of a history
          NKeys,        \* size of the universe of key cells of X (<= 6)
          Stride,
          Gen, Emit
VARIABLES x0,           \* X as it was built
          x,            \* X now
          yd,           \* the independently built table (shapes "equal", "distinct"), else the empty table
          shape,
          n,            \* number of steps taken
          last,         \* the last step
          out,          \* outcome of the last call (mechanism model)
          hist          \* generator only
vars == <<x0, x, yd, shape, n, last, out, hist>>

KeyUSeq == <<VInt(1), VFlt(1, 1), VNaN(1), VNaN(2), None, VInt(2)>>
KeyU == {KeyUSeq[i] : i \in 1..NKeys}                 \* key cells of X: the first NKeys values
KIx(v) == CHOOSE i \in 1..Len(KeyUSeq) : KeyUSeq[i] = v
KeyUY == {VInt(1), VNaN(3)}
XU == UNION {{[cols |-> XCols, rows |-> [i \in 1..k |-> [a |-> f[i][1], b |-> f[i][2], p |-> VInt(i)]]] : f \in [1..k -> KeyU \X KeyU]} : k \in 0..MaxRows}
YU == UNION {{[cols |-> YCols, rows |-> [i \in 1..k |-> [a |-> f[i], b |-> VInt(1), q |-> VInt(10 + i)]]] : f \in [1..k -> KeyUY]} : k \in 0..MaxRowsY}
EmptyY == [cols |-> YCols, rows |-> <<>>]
NoStep == [kind |-> "none"]
NoOut == [kind |-> "none"]

RECURSIVE SumTo(_, _)
SumTo(f, k) == IF k = 0 THEN 0 ELSE f[k] + SumTo(f, k - 1)
Weight(t) == SumTo([i \in 1..NRows(t) |-> i * (7 * KIx(t.rows[i].a) + KIx(t.rows[i].b))], NRows(t))
Base == (Weight(x0) * 5) + (11 * ShapeIx(shape))
\* the aliased pair is the point of this module: it is sampled four times as densely, the unrelated pair half as densely
StrideOf == CASE shape = "same" -> IF Stride >= 4 THEN Stride \div 4 ELSE 1
              [] shape = "dictof" -> IF Stride >= 2 THEN Stride \div 2 ELSE 1
              [] shape = "distinct" -> Stride * 2
              [] OTHER -> Stride
Picked(lo, hi) == LET w == Base * 61  s == StrideOf IN {i \in lo..hi : (w + (i * 7)) % s = 0}

L == LeftVal(x, yd, shape)
R == RightVal(x, yd, shape)

Init == /\ x0 \in XU /\ x = x0
        /\ shape \in Range(Shapes)
        /\ yd \in (IF shape = "distinct" THEN YU ELSE IF shape = "equal" THEN {x0} ELSE {EmptyY})
        /\ n = 0 /\ last = NoStep /\ out = NoOut /\ hist = <<>>

InitSame == Init /\ shape = "same"          \* the mechanism variants differ on the aliased pair only

Record(step) == IF Gen THEN Append(hist, step) ELSE hist
Snapshot(h) == [x |-> x0, yd |-> IF shape = "equal" THEN x0 ELSE yd, shape |-> shape, steps |-> h]
DoCall(p) == /\ n < MaxSteps /\ PlanOK(p, shape)
             /\ last' = p /\ n' = n + 1
             /\ out' = IF Gen THEN NoOut          \* the generator only enumerates; the real code supplies the outcome
                       ELSE MechCall(p.op, CallLeft(p, L, R), CallRight(p, L, R), p.lk, p.rk, p.mode, shape = "same")
             /\ hist' = Record(p)
             /\ (Gen /\ Emit = "each") => PrintT(ToJson(Snapshot(hist')))
             /\ UNCHANGED <<x0, x, yd, shape>>
CallJoin     == \E i \in Picked(1, NPlans) : LET p == PlanAt(i, L, R) IN p.op = "join" /\ DoCall(p)
CallXor      == \E i \in Picked(1, NPlans) : LET p == PlanAt(i, L, R) IN p.op = "xor" /\ DoCall(p)
CallLeftJoin == \E i \in Picked(1, NPlans) : LET p == PlanAt(i, L, R) IN p.op = "leftjoin" /\ DoCall(p)
\* in-place edit of one key cell of X: dict.__getitem__(X, c)[i - 1] = v
Edits == {<<c, i, v>> \in {"a", "b"} \X (1..NRows(x)) \X KeyU : v # x.rows[i][c]}
EditNo(e) == (IF e[1] = "a" THEN 0 ELSE 1) + (2 * e[2]) + (5 * KIx(e[3]))
Edit == \E e \in Edits :
           /\ n < MaxSteps - 1 /\ (300 + EditNo(e)) \in Picked(300, 400)             \* an edit is always followed by at least one call
           /\ x' = [x EXCEPT !.rows[e[2]][e[1]] = e[3]]
           /\ last' = [kind |-> "edit", col |-> e[1], row |-> e[2], val |-> e[3]]
           /\ n' = n + 1 /\ out' = NoOut /\ hist' = Record(last')
           /\ UNCHANGED <<x0, yd, shape>>
\* simulation: one deterministic last step prints the finished history (the simulator evaluates all successors)
Finish == /\ Gen /\ Emit = "end" /\ n = MaxSteps
          /\ n' = n + 1 /\ PrintT(ToJson(Snapshot(hist)))
          /\ UNCHANGED <<x0, x, yd, shape, last, out, hist>>
Next == CallJoin \/ CallXor \/ CallLeftJoin \/ Edit \/ Finish

\* ---- invariants ----------------------------------------------------------------------------------
\* the mechanism's outcome of the last call is what the law demands (the verdict of the trace specification)
MechRefinesLaw == (last.kind = "call" /\ ~Gen) =>
    CallVerdict(last.op, CallLeft(last, L, R), CallRight(last, L, R), last.lk, last.rk, last.mode, out) = ""
\* the laws of the statement for every explicit key plan on the current operand pair
KPs == {k \in 1..Len(KeyPlans) : Len(KeyPlans[k].lk) > 0}
MatchedRows(k) == {p[1] : p \in Pairs(L, R, KeyPlans[k].lk, KeyPlans[k].rk)}
\* left join = x*y + x/y: every row of x lies in exactly one of the matched part and xor
Decomposition == last.kind # "call" => \A k \in KPs :
    LET xr == XorRows(L, R, KeyPlans[k].lk, KeyPlans[k].rk) IN
    /\ Len(xr) + Cardinality(MatchedRows(k)) = NRows(L)
    /\ \A i \in 1..NRows(L) : (i \in MatchedRows(k)) # (\E j \in 1..Len(xr) : xr[j] = L.rows[i])      \* p identifies the row
    /\ Len(LeftJoinRows(L, R, KeyPlans[k].lk, KeyPlans[k].rk, "none")) = Cardinality(Pairs(L, R, KeyPlans[k].lk, KeyPlans[k].rk)) + Len(xr)
\* a table joined with itself on ONE key expression: every row finds itself, xor is empty
SelfJoinReflexive == last.kind # "call" => \A k \in KPs :
    (R = L /\ KeyPlans[k].lk = KeyPlans[k].rk) =>
        /\ \A i \in 1..NRows(L) : <<i, i>> \in Pairs(L, R, KeyPlans[k].lk, KeyPlans[k].rk)
        /\ XorRows(L, R, KeyPlans[k].lk, KeyPlans[k].rk) = <<>>
\* ... on two key expressions: the pairs of (lk, rk) are the transposed pairs of (rk, lk)
SelfJoinTranspose == last.kind # "call" => \A k \in KPs :
    R = L => Pairs(L, R, KeyPlans[k].lk, KeyPlans[k].rk) = {<<p[2], p[1]>> : p \in Pairs(L, R, KeyPlans[k].rk, KeyPlans[k].lk)}
\* sharing the column lists is not observable by a call: same result as for the independently built equal table
SharingInvisible == (SharesLists(shape) /\ shape \notin {"project", "derive"}) => R = L
TypeOK == /\ n \in 0..(MaxSteps + 1) /\ (~Gen => hist = <<>>) /\ Rectangular(x) /\ NRows(x) = NRows(x0)
\* calls leave both operands as they were
CallsLeaveOperands == [][last'.kind = "call" => (x' = x /\ yd' = yd)]_vars
Spec == Init /\ [][Next]_vars
=============================================================================
