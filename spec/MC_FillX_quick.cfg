CONSTANTS MaxLenX = 3
          MaxRowsX = 2
          MaxLenL = 4
          MaxRowsL = 2
          MaxListX = 1
          MaxListL = 2
          LimsX = {0, 1}
          SpecialsX <- SpecialsAll
          NonaCells <- NonaCellsQ
          LabelKinds = {"dup", "same", "rev", "mixed", "gaps"}
          AllSpells = FALSE
          Emit = TRUE
INIT Init
NEXT Next
INVARIANT XValueBlind
INVARIANT XNonNaNKept
INVARIANT XSpecialFromNeighbour
INVARIANT XSpecialIsObservation
INVARIANT XSpecialRowStays
INVARIANT XLabelBlind
INVARIANT XLabelShape
INVARIANT XNonaExact
INVARIANT XNonaCells
INVARIANT XNonaNaN
INVARIANT XNonaAbsent
INVARIANT XNonaZero
INVARIANT XNonaEdge
INVARIANT XFewOutcomes
