CONSTANTS MaxDepth = 3
          MaxRowsC = 20
INIT Init
NEXT NextNary
CONSTRAINT NaryBound
