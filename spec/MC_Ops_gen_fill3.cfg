\* S2C, thorough: the pairs over three timestamps under every fill method
CONSTANTS NS = 3
 NT = 0
 NF = 0
 Fill = TRUE
INIT InitGen
NEXT EvalGen
