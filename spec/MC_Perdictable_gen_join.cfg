CONSTANT Sizes <- SZ_gen_join
INIT Init
NEXT Gen
