------------------------------- MODULE TextKey -------------------------------
(* Extension X08-b, second half: WHICH calls of a cached function count as the same call (_cache.py: the key made of    *)
(* the arguments).  C18 owns the memo machine over opaque keys and the list / tuple question; here the arguments are      *)
(* STRUCTURED (nested lists and dicts, keywords in any order) and the question is the key function itself:                *)
(*     equal arguments  <=>  equal keys.                                                                                  *)
(* Values:  <<"i", k>>, <<"s", text>>, <<"l", <<v1, ..>>>> a list, <<"d", <<<<key, value>>, ..>>>> a dict in insertion      *)
(* order (keys are "i"/"s" leaves, distinct).  A call = [args |-> <<v1, ..>>, kw |-> <<<<name, value>>, ..>>] as passed.    *)
(* Law level (Python's ==): lists are equal position by position, dicts and keyword sets key by key WHATEVER the order.   *)
(*   soundness:    a call is served a memoised result only if an EARLIER call had equal arguments (else the caller gets    *)
(*                 the answer to another question);                                                                       *)
(*   completeness: a call with arguments equal to an earlier one is served that one's result and the function is not       *)
(*                 evaluated again - except (named deviation UnsortedMiss) when a dict with keys of mixed types is          *)
(*                 involved: its key keeps the insertion order, a miss is then admitted (the cache may always fall back     *)
(*                 to evaluating).                                                                                        *)
(* Mechanism twin of the code (KyFreeze): lists become tuples, dicts become the tuple of their (key, value) pairs, sorted   *)
(* when the keys can be sorted.  Compared with the law inside TLC: complete, but NOT sound - a dict and the list of its     *)
(* pairs, an empty dict and an empty list freeze to the same key (MC_TextKey_sound.cfg must fail).                          *)
EXTENDS Naturals, Sequences, FiniteSets, SequencesExt

KyLeaf(v) == v[1] \in {"i", "s"}
KyLeafEq(a, b) == a[1] = b[1] /\ a[2] = b[2]
RECURSIVE KyEq(_, _)
KyEq(a, b) == IF a[1] # b[1] THEN FALSE
              ELSE IF KyLeaf(a) THEN a[2] = b[2]
              ELSE IF a[1] = "l" THEN Len(a[2]) = Len(b[2]) /\ \A i \in DOMAIN a[2] : KyEq(a[2][i], b[2][i])
              ELSE /\ Len(a[2]) = Len(b[2])
                   /\ \A i \in DOMAIN a[2] : \E j \in DOMAIN b[2] : KyLeafEq(a[2][i][1], b[2][j][1]) /\ KyEq(a[2][i][2], b[2][j][2])
KyKwEq(k1, k2) == Len(k1) = Len(k2) /\ \A i \in DOMAIN k1 : \E j \in DOMAIN k2 : k1[i][1] = k2[j][1] /\ KyEq(k1[i][2], k2[j][2])
KyCallEq(c1, c2) == /\ Len(c1.args) = Len(c2.args) /\ \A i \in DOMAIN c1.args : KyEq(c1.args[i], c2.args[i])
                    /\ KyKwEq(c1.kw, c2.kw)

\* ---- the mechanism: freezing ------------------------------------------------------------------------------
\* text keys are taken from this menu, in alphabetical order (TLA+ strings have no order of their own)
KeyOrder == <<"a", "b", "c", "d", "x", "y">>
KyRank(k) == IF k[1] = "i" THEN k[2] ELSE CHOOSE r \in DOMAIN KeyOrder : KeyOrder[r] = k[2]
KySortable(pairs) == \A i, j \in DOMAIN pairs : pairs[i][1][1] = pairs[j][1][1]           \* all keys of one type
KySorted(pairs) == IF KySortable(pairs) THEN SortSeq(pairs, LAMBDA p, q : KyRank(p[1]) < KyRank(q[1])) ELSE pairs
RECURSIVE KyFreeze(_)
KyFreeze(v) == IF KyLeaf(v) THEN v
               ELSE IF v[1] = "l" THEN <<"t", [i \in DOMAIN v[2] |-> KyFreeze(v[2][i])]>>
               ELSE LET ps == KySorted(v[2]) IN <<"t", [i \in DOMAIN ps |-> <<"t", <<ps[i][1], KyFreeze(ps[i][2])>>>>]>>
RECURSIVE KyFrozenEq(_, _)
KyFrozenEq(a, b) == a[1] = b[1] /\ (IF KyLeaf(a) THEN a[2] = b[2] ELSE Len(a[2]) = Len(b[2]) /\ \A i \in DOMAIN a[2] : KyFrozenEq(a[2][i], b[2][i]))
KyKey(c) == <<"t", <<KyFreeze(<<"l", c.args>>), KyFreeze(<<"d", [i \in DOMAIN c.kw |-> <<<<"s", c.kw[i][1]>>, c.kw[i][2]>>]>>)>>>>
KyMechSame(c1, c2) == KyFrozenEq(KyKey(c1), KyKey(c2))

\* a dict with keys of mixed types somewhere in the value / the call
RECURSIVE KyMixed(_)
KyMixed(v) == IF KyLeaf(v) THEN FALSE
              ELSE IF v[1] = "l" THEN \E i \in DOMAIN v[2] : KyMixed(v[2][i])
              ELSE ~KySortable(v[2]) \/ \E i \in DOMAIN v[2] : KyMixed(v[2][i][2])
KyCallMixed(c) == (\E i \in DOMAIN c.args : KyMixed(c.args[i])) \/ (\E i \in DOMAIN c.kw : KyMixed(c.kw[i][2]))

\* ---- the memo as a history: memo = the calls that were evaluated, in order; the result of the k-th evaluation is token k
KyFirstEq(memo, call) == IF \E i \in DOMAIN memo : KyCallEq(memo[i], call) THEN CHOOSE i \in DOMAIN memo : KyCallEq(memo[i], call) /\ \A j \in 1..(i - 1) : ~KyCallEq(memo[j], call) ELSE 0
KyMiss(memo) == [eval |-> 1, token |-> Len(memo) + 1]
\* the observations the law admits for this call: [eval 0/1 (was the function evaluated), token (whose result came back)]
KyWant(memo, call) == LET i == KyFirstEq(memo, call) IN
                      IF i = 0 THEN {KyMiss(memo)}
                      ELSE {[eval |-> 0, token |-> j] : j \in {j \in DOMAIN memo : KyCallEq(memo[j], call)}}
                           \cup (IF KyCallMixed(call) THEN {KyMiss(memo)} ELSE {})
KyAfter(memo, call, obs) == IF obs.eval = 1 THEN Append(memo, call) ELSE memo
\* where the specification speaks with one voice (the generator prints only such steps)
KyDetermined(memo, call) == Cardinality(KyWant(memo, call)) = 1

\* a recorded history: steps = sequence of [call, obs]; "" or the clause of the first step the law does not explain; the suffix
\* ":mech" says that the mechanism twin above predicts this very confusion (the features findings are filed under)
RECURSIVE KyJudge(_, _)
KyJudge(memo, steps) ==
    IF steps = <<>> THEN ""
    ELSE LET st == steps[1] IN
         IF "after" \in DOMAIN st /\ st.after # st.call THEN "argument_changed"
         ELSE IF st.obs \in KyWant(memo, st.call) THEN KyJudge(KyAfter(memo, st.call, st.obs), Tail(steps))
         ELSE IF st.obs.eval = 0 /\ st.obs.token \in DOMAIN memo /\ ~KyCallEq(memo[st.obs.token], st.call)
              THEN "cache_served_other" \o (IF KyMechSame(memo[st.obs.token], st.call) THEN ":mech" ELSE "")
         ELSE IF st.obs.eval = 1 /\ st.obs.token = Len(memo) + 1 THEN "cache_missed"
         ELSE "cache_wrong_result"
=============================================================================
