CONSTANTS MaxLenP = 3
          MaxRowsP = 1
          MaxLenY = 3
          MaxRowsY = 1
          ListsP <- ListsQuick
          LimsP = {0, 1}
          OtherLimsP = {0}
          ExtendsP = {1}
          CalendarsP = {0}
          PokeColsP = {0, 2}
          MaxCallsP = 2
          MaxDerP = 1
          Memo = FALSE
          Emit = TRUE
INIT Init
NEXT NextGen
INVARIANT PShape
INVARIANT PInputs
INVARIANT PNoCross
INVARIANT PIdem
INVARIANT PRefines
INVARIANT PFew
