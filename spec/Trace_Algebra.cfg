INIT Init
NEXT Next
