CONSTANTS Worlds <- WorldsAll
          Starts = {4}
          Horizon = 19
          MaxStep = 0
          CutLag = 2
          ExpLag = 3
          Ns = {0, 1, 2, 3}
          EmptyAsNone = TRUE
          LiveRule = "post"
          MaxTrunc = 0
          TruncBack = {}
          Depth = 0
          Nows = {5, 9, 12, 13, 16}
          Backs = {0, 1, 3}
INIT CInit
NEXT EvalGen
