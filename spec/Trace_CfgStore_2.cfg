CONSTANTS KeyOrd <- TKeys4
          Vals = {1, 2, 3, 4, 5}
          Bad = 0
          Procs = {1, 2, 3, 4, 5, 6}
          NPaths = 2
          Blocked = {}
          Allow = {}
INIT Init
NEXT Next
