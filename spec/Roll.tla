-------------------------------- MODULE Roll --------------------------------
(* Extension X03-b/c: `df_roll_off` - one continuous timeseries (or curve of n columns) rolled   *)
(* from a chain of contracts that trade one after the other.                                     *)
(*                                                                                              *)
(* Time is a grid of positive integers, 0 stands for None.  A timeseries is a frame of           *)
(* spec/Slice.tla:  [rows |-> increasing timestamps, cols |-> <<column, ..>>], cells integers,   *)
(* NaN = -1; what a loader returns has one column and a flag `none` (1: the loader returned      *)
(* None, not even an empty series).  NoFrame (no column at all) stands for "no data".            *)
(*                                                                                              *)
(* One call:  c = [L |-> what the loader returns for contract 1..K at this moment,               *)
(*                 rolls |-> the roll dates written in the chain (0 = none),                     *)
(*                 now, expiry, cutoff |-> grid positions, n |-> curve size (0: a series),       *)
(*                 data |-> the caller's previously rolled frame or NoFrame,                      *)
(*                 tr |-> 0/1 transform given, mark |-> 0/1 live_check marks the values,          *)
(*                 ifno |-> "no" | "raise" | "call",                                              *)
(*                 live |-> "post" (the law) | "at" (today's reading, see Live)]                  *)
(*                                                                                              *)
(* LAW (written from the docstring):                                                            *)
(*  * contract i is rolled off at U(i) = its roll date or the last date of its data, whichever    *)
(*    comes first; the front contract at date t is the first contract with data that is not yet   *)
(*    rolled off (U >= t); column j of the curve is the (j-1)th contract after the front one      *)
(*    (FrontPos / CellAt below = "function date -> contract index"; it equals the stitching law   *)
(*    StitchInc of Slice.tla at the running maximum of the roll-off points, checked in MC_Roll); *)
(*  * data given: its rows up to min(last row, cutoff) are kept as they are, contracts whose roll *)
(*    date lies before that point are not loaded again, the rest is rolled afresh and appended    *)
(*    after the last kept row;                                                                   *)
(*  * loading goes down the chain and stops after the n-th live contract (live: not rolled        *)
(*    before now and with data up to the cutoff); live_check sees exactly the live ones;          *)
(*  * a contract without roll date whose data ended before `expiry` gets its last date as roll    *)
(*    date in the returned chain; roll dates already there are never changed.                     *)
EXTENDS Slice, TLC

NoFrame == [rows |-> <<>>, cols |-> <<>>]
IsNoFrame(f) == NCols(f) = 0
HasData(s)   == NRows(s) > 0
LastT(s)     == s.rows[NRows(s)]
FirstT(s)    == s.rows[1]
MaxI(a, b)   == IF a > b THEN a ELSE b
TakeCols(f, w) == [rows |-> f.rows, cols |-> SubSeq(f.cols, 1, w)]
PadCols(f, w)  == [rows |-> f.rows,
                   cols |-> [j \in 1..w |-> IF j <= NCols(f) THEN f.cols[j] ELSE [r \in 1..NRows(f) |-> NaN]]]
AppendRows(f, g) == [rows |-> f.rows \o g.rows, cols |-> [j \in 1..NCols(f) |-> f.cols[j] \o g.cols[j]]]
MapCol(s, Op(_)) == [rows |-> s.rows, cols |-> <<[r \in 1..NRows(s) |-> IF s.cols[1][r] = NaN THEN NaN ELSE Op(s.cols[1][r])]>>]
RowsUpTo(f, t) == KeepRows(f, LAMBDA r : f.rows[r] <= t)
RowsAfter(f, t) == KeepRows(f, LAMBDA r : f.rows[r] > t)
RowsFrom(f, t)  == KeepRows(f, LAMBDA r : f.rows[r] >= t)

TR == 100000         \* what the transform of the drivers adds to every value
MK == 50000          \* what a marking live_check adds

\* ---------------------------------------------------------------------------------------------
\* the kept part of the caller's data and the contracts that are not looked at again
\* ---------------------------------------------------------------------------------------------
NC(c)   == Len(c.L)
NEff(c) == IF c.n < 1 THEN 1 ELSE c.n
DataGiven(c) == ~IsNoFrame(c.data) /\ NRows(c.data) > 0
\* a curve of n > 1 columns cannot be continued from fewer columns: such data is ignored
DataOK(c) == DataGiven(c) /\ (c.n > 1 => NCols(c.data) >= c.n)
Data0(c)  == TakeCols(c.data, NEff(c))
DC(c)     == MinI(LastT(Data0(c)), c.cutoff)
Old(c)    == IF DataOK(c) THEN RowsUpTo(Data0(c), DC(c)) ELSE NoFrame
IsOld(c, i) == DataOK(c) /\ c.rolls[i] # 0 /\ c.rolls[i] < DC(c)

\* ---------------------------------------------------------------------------------------------
\* the loading protocol
\* ---------------------------------------------------------------------------------------------
\* live: not rolled off before now, and with "data post cutoff date" (docstring): rows AFTER the cutoff - the rows up to
\* the cutoff are the ones that are final and may be kept from the caller's data.  Without a cutoff: data up to now.
\* c.live = "at" is the reading of today's code (a contract whose data ends ON the cutoff still counts as live); it is
\* used only to show in TLC what that reading does to the session law (MC_Roll_today.cfg).
PostCutoff(c, i) == IF c.cutoff = 0 THEN LastT(c.L[i]) >= c.now
                    ELSE IF c.live = "at" THEN LastT(c.L[i]) >= c.cutoff ELSE LastT(c.L[i]) > c.cutoff
Live(c, i) == (c.rolls[i] = 0 \/ c.rolls[i] >= c.now) /\ HasData(c.L[i]) /\ PostCutoff(c, i)
LiveBefore(c, i) == Cardinality({j \in 1..(i - 1) : ~IsOld(c, j) /\ Live(c, j)})
IsLoaded(c, i)   == ~IsOld(c, i) /\ LiveBefore(c, i) < NEff(c)
LoadedSeq(c)  == SelectSeq(Idx(NC(c)), LAMBDA i : IsLoaded(c, i))
CheckedSeq(c) == SelectSeq(LoadedSeq(c), LAMBDA i : Live(c, i))
NLive(c)      == Len(CheckedSeq(c))
\* the contracts that supply rows, in chain order
Contrib(c)    == SelectSeq(LoadedSeq(c), LAMBDA i : HasData(c.L[i]))

\* ---------------------------------------------------------------------------------------------
\* the rolled curve
\* ---------------------------------------------------------------------------------------------
UB(c, i)  == IF c.rolls[i] = 0 THEN LastT(c.L[i]) ELSE MinI(c.rolls[i], LastT(c.L[i]))
Bump(c, i) == (IF c.tr = 1 THEN TR ELSE 0) + (IF c.mark = 1 /\ Live(c, i) THEN MK ELSE 0)
Src(c, i) == MapCol(c.L[i], LAMBDA v : v + Bump(c, i))
RawUBs(c) == LET con == Contrib(c) IN [p \in 1..Len(con) |-> UB(c, con[p])]
NonDecreasing(xs) == \A p \in 1..(Len(xs) - 1) : xs[p] <= xs[p + 1]
\* A contract further down the chain whose data stops earlier (it has no row today yet, it trades thinly) is simply
\* never the front contract: the switching points of the stitching are the running maximum of the roll-off points.
RunMax(xs) == [p \in 1..Len(xs) |-> CHOOSE m \in {xs[q] : q \in 1..p} : \A q \in 1..p : xs[q] <= m]
UBs(c)    == RunMax(RawUBs(c))
\* law as a function  date -> contract: the front contract at t is the first contributing contract not yet rolled off
\* (con = Contrib(c), ubs = UBs(c), handed over so that they are computed once)
FrontPosU(ubs, t) == LET P == {p \in 1..Len(ubs) : ubs[p] >= t} IN IF P = {} THEN 0 ELSE CHOOSE p \in P : \A q \in P : p <= q
\* the cell of column j at date t: the value of contract front + j - 1 at t (NaN: no such contract, or it has no row at t)
CellAtU(c, con, ubs, t, j) == LET p == FrontPosU(ubs, t) IN
                   IF p = 0 \/ p + j - 1 > Len(con) THEN NaN
                   ELSE LET s == Src(c, con[p + j - 1]) IN IF HasT(s, t) THEN ValAt(s, t) ELSE NaN
FrontPos(c, t)  == FrontPosU(RawUBs(c), t)
CellAt(c, t, j) == CellAtU(c, Contrib(c), RawUBs(c), t, j)
\* the same through the stitching law of Slice.tla; a curve is as wide as there are contracts to fill it (NarrowCurve)
CurveWidth(c) == MinI(NEff(c), Len(Contrib(c)))
NewFull(c) == LET con == Contrib(c) IN StitchInc([p \in 1..Len(con) |-> Src(c, con[p])], UBs(c), NEff(c))
New(c)     == TakeCols(NewFull(c), CurveWidth(c))

ResultData(c) ==
    IF Len(Contrib(c)) = 0 THEN Old(c)                                      \* nothing new: the kept data (or none)
    ELSE IF DataOK(c) /\ NRows(Old(c)) > 0
         THEN LET w == NCols(Old(c)) IN AppendRows(Old(c), PadCols(RowsAfter(New(c), LastT(Old(c))), w))
         ELSE New(c)

\* ---------------------------------------------------------------------------------------------
\* the roll dates of the returned chain
\* ---------------------------------------------------------------------------------------------
\* named deviation NoDataRoll (as coded; the docstring is silent): a contract without roll date that was not loaded, or
\* whose loader returned None, gets the first date of the next contract down the chain that supplied data (none: stays 0)
NextDataFirst(c, i) == LET J == {j \in (i + 1)..NC(c) : IsLoaded(c, j) /\ HasData(c.L[j])} IN
                       IF J = {} THEN 0 ELSE FirstT(c.L[CHOOSE j \in J : \A k \in J : j <= k])
RollOut(c, i) ==
    IF c.rolls[i] # 0 THEN c.rolls[i]                                      \* roll dates are never rewritten
    ELSE IF IsLoaded(c, i) /\ HasData(c.L[i]) THEN (IF LastT(c.L[i]) < c.expiry THEN LastT(c.L[i]) ELSE 0)
    ELSE IF ~IsLoaded(c, i) \/ c.L[i].none = 1 THEN NextDataFirst(c, i)
    ELSE 0
RollsOut(c) == [i \in 1..NC(c) |-> RollOut(c, i)]
\* the entries the law pins: everything but NoDataRoll
Pinned(c)   == {i \in 1..NC(c) : c.rolls[i] # 0 \/ (IsLoaded(c, i) /\ HasData(c.L[i])) \/ (IsLoaded(c, i) /\ c.L[i].none = 0)}

\* ---------------------------------------------------------------------------------------------
\* the outcome of one call
\* ---------------------------------------------------------------------------------------------
Apply(c) ==
    IF NLive(c) < NEff(c) /\ c.ifno = "raise" THEN [kind |-> "exc", cls |-> "ValueError", loaded |-> LoadedSeq(c), checked |-> CheckedSeq(c)]
    ELSE IF NLive(c) < NEff(c) /\ c.ifno = "call" THEN [kind |-> "called", args |-> <<NLive(c), NEff(c)>>, loaded |-> LoadedSeq(c), checked |-> CheckedSeq(c)]
    ELSE [kind |-> "ok", data |-> ResultData(c), rolls |-> RollsOut(c), pinned |-> Pinned(c),
          loaded |-> LoadedSeq(c), checked |-> CheckedSeq(c)]

\* where the law speaks: a cutoff whenever data is given,
\* kept data that is not empty, well-formed series
WellSeries(s) == NCols(s) = 1 /\ WellFormed(s) /\ (s.none = 1 => NRows(s) = 0)
Domain(c) == /\ \A i \in 1..NC(c) : WellSeries(c.L[i])
             /\ Len(c.rolls) = NC(c) /\ c.n >= 0
             /\ DataGiven(c) => (c.cutoff # 0 /\ WellFormed(c.data))
             /\ DataOK(c) => NRows(Old(c)) > 0
             /\ c.expiry # 0

\* ---------------------------------------------------------------------------------------------
\* mechanism of today's code: the while-loop that loads (j walks down the kept chain, i counts the
\* live contracts) and the backward pass that fills in roll dates (lb = first date of the data
\* last seen).  Compared with the law in MC_Roll (MechanismIsLaw).
\* ---------------------------------------------------------------------------------------------
KeptSeq(c) == SelectSeq(Idx(NC(c)), LAMBDA i : ~IsOld(c, i))
RECURSIVE LoadLoop(_, _, _, _, _)
LoadLoop(c, kept, j, i, acc) ==
    IF j > Len(kept) \/ i >= NEff(c) THEN [loaded |-> acc, live |-> i]
    ELSE LoadLoop(c, kept, j + 1, IF Live(c, kept[j]) THEN i + 1 ELSE i, Append(acc, kept[j]))
RECURSIVE RollBack(_, _, _, _, _, _)
RollBack(c, kept, nloaded, j, lb, acc) ==       \* acc: the roll dates of kept[j+1..], in order
    IF j = 0 THEN acc
    ELSE LET id == kept[j]
             isnone == j > nloaded \/ c.L[id].none = 1          \* loaded_data[j] is None
             hasd == ~isnone /\ HasData(c.L[id])
             r == IF c.rolls[id] = 0 /\ isnone THEN lb
                  ELSE IF hasd /\ LastT(c.L[id]) < c.expiry /\ c.rolls[id] = 0 THEN LastT(c.L[id])
                  ELSE c.rolls[id]
         IN  RollBack(c, kept, nloaded, j - 1, IF hasd THEN FirstT(c.L[id]) ELSE lb, <<r>> \o acc)
MechLoaded(c) == LoadLoop(c, KeptSeq(c), 1, 0, <<>>).loaded
MechRolls(c)  == RollBack(c, KeptSeq(c), Len(MechLoaded(c)), Len(KeptSeq(c)), 0, <<>>)
=============================================================================
