---------------------------- MODULE MC_Sessions ----------------------------
(* Extension X01 on the specification: one behaviour  (c, sc, d) --Eval--> done  per            *)
(*   calendar configuration c : every holiday subset of an HW-day window Fri 2000-01-28 ..      *)
(*                    (a weekend, the month end Mon 2000-01-31, the first days of February)      *)
(*                    x weekends x the calendar's own convention, range = window +- Margin,      *)
(*   session sc     : every ordered pair (ds, de) of Marks - daytime, overnight and one-instant  *)
(*                    sessions,                                                                  *)
(*   day d          : the window and TPad days on either side;                                   *)
(* the seconds of the day are quantified inside the invariants: both midnights, both bounds of   *)
(* the session with the seconds before and after them, the middles of the session and of its gap *)
(* The invariants say (a) the law level has the properties of the statement (the oracle is       *)
(* consistent), (b) the branch structure of the code with closed boundaries equals the law level *)
(* on the claimed domain, (c) today's comparisons leave it exactly where TodayOff says           *)
(* (MC_Sessions_today.cfg must violate MechTodayIsLaw).                                          *)
EXTENDS Sessions, TLC, Json, FiniteSetsExt, IOUtils
CONSTANTS HW, Margin, Marks, WeekendNos, OwnAdjs, TPad, GenMod

VARIABLES c, sc, d, done
vars == <<c, sc, d, done>>

W0 == Ord(2000, 1, 28)                       \* a Friday; W0 + 3 = Monday 31 January, the month end
WkMenu == <<{5, 6}, {4, 5}, {}, {6}>>
Configs == {[hol |-> h, wk |-> WkMenu[w], adj |-> a, lo |-> W0 - Margin, hi |-> W0 + HW - 1 + Margin] :
               h \in SUBSET (W0..(W0 + HW - 1)), w \in WeekendNos, a \in OwnAdjs}
SessionCfgs == {[ds |-> x, de |-> y] : x \in Marks, y \in Marks}

Init == /\ c \in Configs /\ sc \in SessionCfgs
        /\ d \in (W0 - TPad)..(W0 + HW - 1 + TPad)
        /\ done = FALSE
Eval == done = FALSE /\ done' = TRUE /\ UNCHANGED <<c, sc, d>>

Mid == (sc.ds + sc.de) \div 2
Secs == ({0, 86399, Mid, (Mid + 43200) % 86400} \cup {sc.ds + k : k \in {-1, 0, 1}} \cup {sc.de + k : k \in {-1, 0, 1}}) \cap (0..86399)
T(s) == <<d, s>>
Dom(s) == SessDomain(c, sc, T(s))

\* ---- (a) the law level ------------------------------------------------------------------------
\* at most one session contains an instant, and it is the session of d or of d + 1
SessionsDisjoint == ~done \/ \A s \in Secs :
    /\ Cardinality({D \in (d - 3)..(d + 3) : InSession(sc, D, T(s))}) <= 1
    /\ \A D \in (d - 3)..(d + 3) : InSession(sc, D, T(s)) => D \in {d, d + 1}
ClosedForms == ~done \/ \A s \in Secs :
    TdF(c, sc, T(s)) = TdFClosed(c, sc, T(s)) /\ TdP(c, sc, T(s)) = TdPClosed(c, sc, T(s))
\* both trade dates are business days; the two conventions agree exactly on trading instants
TradingIffAgree == ~done \/ \A s \in Secs :
    LET f == TdF(c, sc, T(s))  p == TdP(c, sc, T(s)) IN
    /\ IsBday(c, f) /\ IsBday(c, p) /\ p <= f
    /\ IsTrading(c, sc, T(s)) <=> f = p
    /\ IsTrading(c, sc, T(s)) => InSession(sc, f, T(s))
\* outside trading: the previous session has closed, the following one has not opened, and no
\* business day lies between the two
Bracket == ~done \/ \A s \in Secs : ~IsTrading(c, sc, T(s)) =>
    LET f == TdF(c, sc, T(s))  p == TdP(c, sc, T(s)) IN
    /\ Lt(Close(sc, p), T(s)) /\ Lt(T(s), Open(sc, f))
    /\ \A D \in (p + 1)..(f - 1) : ~IsBday(c, D)
\* the trade date never decreases as time advances (the instants examined on d, then on d + 1)
Monotone == ~done \/ \A a \in {"f", "p"} :
    LET today == [s \in Secs |-> TradeDate(c, sc, T(s), a)]
        next  == [s \in Secs |-> TradeDate(c, sc, <<d + 1, s>>, a)]
    IN  \A s \in Secs, u \in Secs : (s <= u => today[s] <= today[u]) /\ today[s] <= next[u]
\* asking again at either end of the returned day's session returns that day under both conventions;
\* so does midnight of the returned day (what trade_date returns) under 'following'
Idempotent == ~done \/ \A s \in Secs, a \in {"f", "p"} :
    LET D == TradeDate(c, sc, T(s), a) IN
    /\ \A u \in {Open(sc, D), Close(sc, D)}, b \in {"f", "p"} : TradeDate(c, sc, u, b) = D
    /\ TdF(c, sc, <<D, 0>>) = D
\* "if day_start = 0 and day_end = 23:59:59 then this is exactly adjust"
WholeDayIsAdjust == ~done \/ (sc = DefaultSession => \A s \in Secs :
    TdF(c, sc, T(s)) = AdjF(c, d) /\ TdP(c, sc, T(s)) = AdjP(c, d) /\ (IsTrading(c, sc, T(s)) <=> IsBday(c, d)))

\* ---- (b), (c) the mechanism ---------------------------------------------------------------------
MechClosedIsLaw == ~done \/ \A s \in Secs : Dom(s) =>
    /\ \A a \in {"f", "p"} : MTradeDate(c, sc, T(s), a, TRUE) = TradeDate(c, sc, T(s), a)
    /\ MIsTrading(c, sc, T(s)) = IsTrading(c, sc, T(s))
MechTodayIsLaw == ~done \/ \A s \in Secs : Dom(s) =>
    \A a \in {"f", "p"} : MTradeDate(c, sc, T(s), a, FALSE) = TradeDate(c, sc, T(s), a)
\* today's comparisons differ from the law only on the two bounds of an overnight session, and there
\* whenever the bound lies in the session of a business day
TodayOffExactly == ~done \/ \A s \in Secs : Dom(s) => \A a \in {"f", "p"} :
    /\ MTradeDate(c, sc, T(s), a, FALSE) # TradeDate(c, sc, T(s), a) => TodayOff(sc, s, a)
    /\ (TodayOff(sc, s, a) /\ IsTrading(c, sc, T(s))) => MTradeDate(c, sc, T(s), a, FALSE) # TradeDate(c, sc, T(s), a)

\* ---- times of day ---------------------------------------------------------------------------------
SpellingLaw == ~done \/ \A x \in {sc.ds, sc.de} :
    /\ \A n \in IntSpellings(x) : ReadInt(n) = x
    /\ ReadColon(HMS(x)) = x /\ (HMS(x)[3] = 0 => ReadColon(<<HMS(x)[1], HMS(x)[2]>>) = x)
    /\ SecOf(HMS(x)[1], HMS(x)[2], HMS(x)[3]) = x /\ ValidHMS(HMS(x)[1], HMS(x)[2], HMS(x)[3])
\* vacuity guards: the window straddles a weekend and a month end; the sessions come in all shapes
Shapes == /\ \E x \in SessionCfgs : Overnight(x)
          /\ \E x \in SessionCfgs : ~Overnight(x) /\ x.ds < x.de
          /\ \E x \in SessionCfgs : x.ds = x.de
          /\ \E x \in W0..(W0 + HW - 1) : ~SameMonth(x, x + 1)
          /\ {5, 6} \subseteq {Weekday(x) : x \in W0..(W0 + HW - 1)}

\* ---- S2C generator: every in-domain instant examined on (c, sc, d) with the expected answers ----
Seed == atoi(IOEnv.X01_SEED)
CfgNo == SumSet(c.hol) + 7 * Cardinality(c.wk) + sc.ds + 3 * sc.de + d
Spell(x) == [x |-> x, hms |-> HMS(x), ints |-> SetToSortSeq(IntSpellings(x), <)]
Case(s) == [s |-> s, w |-> Where(sc, s), f |-> TdF(c, sc, T(s)), p |-> TdP(c, sc, T(s)), tr |-> B(IsTrading(c, sc, T(s))),
            xf |-> B(TodayOff(sc, s, "f")), xp |-> B(TodayOff(sc, s, "p"))]
Emit == [cfg |-> [hol |-> SetToSortSeq(c.hol, <), wk |-> SetToSortSeq(c.wk, <), adj |-> c.adj, lo |-> c.lo, hi |-> c.hi],
         ds |-> Spell(sc.ds), de |-> Spell(sc.de), d |-> d, on |-> B(Overnight(sc)),
         cases |-> SetToSeq({Case(s) : s \in {x \in Secs : Dom(x)}})]
EvalGen == Eval /\ ((CfgNo + Seed) % GenMod = 0 => PrintT(ToJson(Emit)))
=============================================================================
