CONSTANTS Big = TRUE
          Strata = {"calls", "types", "casts", "both", "decl"}
          MaxOps = 0
INIT Init
NEXT Eval
INVARIANT NonEmpty
INVARIANT SingleValued
INVARIANT MechRefines
INVARIANT PositionIsKeyword
INVARIANT MappingIsKeywords
INVARIANT DefaultIsExplicit
INVARIANT HoldsAllKeys
INVARIANT ChecksHold
INVARIANT KeepsExtras
