INIT Init
NEXT Next
