CONSTANTS PathLen = 4
          Strata = {"path", "csv"}
INIT Init
NEXT Eval
INVARIANT CanonLaws
INVARIANT DirLaws
INVARIANT JoinLaws
INVARIANT CsvShape
