CONSTANTS DSpan = 12
          NDay = 7
          MJMax = 13
          MYears = {2000}
          WSpanAbs = {0, 1, 2, 5}
          WKAbs = {1, 2, 3}
SPECIFICATION Spec
PROPERTY Termination
INVARIANT StrictlyMonotone
INVARIANT StartsAtT0
INVARIANT WithinBounds
INVARIANT IteratesBump
INVARIANT WeekdaysOnly
INVARIANT SinglePoint
INVARIANT RejectsAway
INVARIANT NothingOnReject
INVARIANT KeepsDirection
INVARIANT SingleDirIsSign
INVARIANT FinalIsDrange
INVARIANT FinalExplained
INVARIANT IntTdDaySame
INVARIANT EveryKthWeekday
INVARIANT MachineIsFunction
INVARIANT SpellingsSame
INVARIANT WholeDayClosed
INVARIANT ShortSpanIsT0
