\* S2C generator, single units: every start day of 1999 and 2000 x n in -60..60
CONSTANTS Years = {}
          NMax = 60
          GenY = 1999
          GenM0 = 1
          GenM1 = 24
INIT InitGenU
NEXT GenU
