CONSTANTS MaxSteps = 2
          Shape = "free"
          SeedNames = {"num", "nan", "mixed", "ties", "dup", "real"}
          ErrOnly = {}
          Hist = FALSE
INIT Init
NEXT Next
INVARIANT CallLaw
INVARIANT Idempotent
INVARIANT FrameLaw
