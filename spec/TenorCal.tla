------------------------------ MODULE TenorCal ------------------------------
(* Extension X05-b: what the small date helpers of _dates.py denote, on the integer calendar.    *)
(*                                                                                               *)
(*   month / ym            spellings of a month (integers, whole floats, futures codes, names)   *)
(*   nth_weekday_of_month  the n-th (n >= 1) / |n|-th from the end (n <= -1) weekday of a month   *)
(*   num2dt                which number denotes an offset from today, a year, a spreadsheet      *)
(*                         serial, an ordinal, a yyyymmdd date, a UTC timestamp                  *)
(*   np2dt                 numpy.datetime64(count, unit) = count units after 1970-01-01T00:00    *)
(*   is_period / is_bump   the grammar of a period string                                        *)
(*   dt2str                a format is a sequence of fields and literal characters; the string   *)
(*                         is the concatenation of the fields' renderings; and which formats the *)
(*                         reader dt() takes back to the (truncated) instant                     *)
(*                                                                                               *)
(* A string is a sequence of one-character strings (the driver joins / splits them: rendering).  *)
(* An instant is <<ordinal, second of day, microsecond>> as in Bump.tla; the calendar is          *)
(* Civil.tla through Bump.tla (closed forms CivilOf / OrdOf, AddDur).                             *)
(* Outcomes: <<"ok", ...>>, <<"exc", "ValueError">> (Rejected), <<"undefined">> (outside the      *)
(* claimed domain: the harness never produces such an input).                                    *)
EXTENDS Bump

Rejected  == <<"exc", "ValueError">>
Undefined == <<"undefined">>

\* ------------------------------------------------------------------------------ characters --
LowerAZ == <<"a","b","c","d","e","f","g","h","i","j","k","l","m","n","o","p","q","r","s","t","u","v","w","x","y","z">>
UpperAZ == <<"A","B","C","D","E","F","G","H","I","J","K","L","M","N","O","P","Q","R","S","T","U","V","W","X","Y","Z">>
Pos(seq, c) == IF \E i \in 1..Len(seq) : seq[i] = c THEN CHOOSE i \in 1..Len(seq) : seq[i] = c ELSE 0
ToLower(c) == LET i == Pos(UpperAZ, c) IN IF i > 0 THEN LowerAZ[i] ELSE c
ToUpper(c) == LET i == Pos(LowerAZ, c) IN IF i > 0 THEN UpperAZ[i] ELSE c
LowerStr(s) == [i \in 1..Len(s) |-> ToLower(s[i])]
UpperStr(s) == [i \in 1..Len(s) |-> ToUpper(s[i])]
Digits == {"0", "1", "2", "3", "4", "5", "6", "7", "8", "9"}
Take(s, n) == SubSeq(s, 1, IF n < Len(s) THEN n ELSE Len(s))

\* ---------------------------------------------------------------------------------- month ----
FutCodes   == <<"F", "G", "H", "J", "K", "M", "N", "Q", "U", "V", "X", "Z">>
MonthNames == << <<"j","a","n","u","a","r","y">>, <<"f","e","b","r","u","a","r","y">>, <<"m","a","r","c","h">>, <<"a","p","r","i","l">>,
                 <<"m","a","y">>, <<"j","u","n","e">>, <<"j","u","l","y">>, <<"a","u","g","u","s","t">>,
                 <<"s","e","p","t","e","m","b","e","r">>, <<"o","c","t","o","b","e","r">>, <<"n","o","v","e","m","b","e","r">>,
                 <<"d","e","c","e","m","b","e","r">> >>
MonthAbbr(i) == Take(MonthNames[i], 3)
\* a string: one character is a futures code (any case); longer strings are read by their first three letters (any case)
MonthOfStr(s) ==
    IF Len(s) = 1 THEN (LET i == Pos(FutCodes, ToUpper(s[1])) IN IF i > 0 THEN <<"ok", i>> ELSE Rejected)
    ELSE IF Len(s) >= 3 /\ \E i \in 1..12 : LowerStr(Take(s, 3)) = MonthAbbr(i)
         THEN <<"ok", CHOOSE i \in 1..12 : LowerStr(Take(s, 3)) = MonthAbbr(i)>>
    ELSE Rejected
\* values: <<"int", k>>, <<"float", p, q>> (= p / q, q > 0, reduced), <<"nan">>, <<"inf", sign>>, <<"str", s>>, <<"other", type name>>
\* an integer is returned as it is (it is ym / dt that normalise months outside 1..12), a whole float as that integer
Month(v) ==
    CASE v[1] = "int"   -> <<"ok", v[2]>>
      [] v[1] = "float" -> IF v[3] = 1 THEN <<"ok", v[2]>> ELSE Rejected
      [] v[1] = "str"   -> MonthOfStr(v[2])
      [] OTHER          -> Rejected                  \* nan, +-inf, None, containers ...
\* ym(y, m): the month count carried into the year, both ways
YM(y, mv) == LET r == Month(mv) IN IF r[1] = "ok" THEN <<"ok", NormYM(y, r[2])>> ELSE Rejected

\* ------------------------------------------------------------------- n-th weekday of a month --
WdNames == << <<"m","o","n","d","a","y">>, <<"t","u","e","s","d","a","y">>, <<"w","e","d","n","e","s","d","a","y">>,
              <<"t","h","u","r","s","d","a","y">>, <<"f","r","i","d","a","y">>, <<"s","a","t","u","r","d","a","y">>, <<"s","u","n","d","a","y">> >>
WeekdayOfStr(s) == IF Len(s) >= 3 /\ \E i \in 1..7 : LowerStr(Take(s, 3)) = Take(WdNames[i], 3)
                   THEN (CHOOSE i \in 1..7 : LowerStr(Take(s, 3)) = Take(WdNames[i], 3)) - 1 ELSE -1
\* the days of the (normalised) month, and those of them that fall on weekday w (Monday = 0)
MonthDays(y, m) == LET ym == NormYM(y, m)  f == OrdOf(ym[1], ym[2], 1) IN f..(f + DIM(ym[1], ym[2]) - 1)
DowIn(y, m, w)  == {o \in MonthDays(y, m) : Weekday(o) = w}
\* law, by counting: n >= 1 has exactly n - 1 such days before it, n <= -1 exactly |n| - 1 after it; counts beyond the
\* number of such days in the month go on in steps of seven days into the neighbouring months.  n = 0 is not claimed.
NthDowLaw(y, m, n, w) ==
    LET S  == DowIn(y, m, w)
        c  == Cardinality(S)
        lo == CHOOSE o \in S : \A z \in S : o <= z
        hi == CHOOSE o \in S : \A z \in S : z <= o
    IN  IF n >= 1 THEN (IF n <= c THEN CHOOSE o \in S : Cardinality({z \in S : z < o}) = n - 1 ELSE hi + 7 * (n - c))
        ELSE (IF 0 - n <= c THEN CHOOSE o \in S : Cardinality({z \in S : z > o}) = (0 - n) - 1 ELSE lo - 7 * ((0 - n) - c))
\* mechanism: the first such day by the weekday of the 1st; from the end = the first one of the next month minus weeks
FirstDow(y, m, w) == LET ym == NormYM(y, m)  f == OrdOf(ym[1], ym[2], 1) IN f + ((w - Weekday(f)) % 7)
NthDowMech(y, m, n, w) == IF n < 0 THEN FirstDow(y, m + 1, w) + 7 * n ELSE FirstDow(y, m, w) + 7 * (n - 1)
\* the public call: month in any spelling, weekday by name; <<"ok", ordinal, 0, 0>>
NthDow(y, mv, n, ws) ==
    LET r == Month(mv)  w == WeekdayOfStr(ws) IN
    IF r[1] # "ok" \/ w < 0 \/ n = 0 THEN Undefined ELSE <<"ok", NthDowLaw(y, r[2], n, w), 0, 0>>

\* --------------------------------------------------------------------------------- numbers ---
\* A number is <<"n", i, fk>>: integer part i (towards zero) and the fraction fk / 64 (same sign as the number, |fk| < 64:
\* exactly representable, so that nothing is lost on the way), or <<"ts", d, s, fk>> = d * 86400 + s + fk / 64 for the integers
\* TLC cannot hold (d >= 348, i.e. beyond the yyyymmdd band).  today = the ordinal of the day of the call.
Epoch      == 719163       \* OrdOf(1970, 1, 1)
SerialBase == 693594       \* spreadsheet serial 1 = 1899-12-31
Band(i) == CASE i <= 1500 -> "offset"
             [] i > 1500 /\ i <= 3000 -> "year"
             [] i > 3000 /\ i < 300000 -> "serial"
             [] i >= 300000 /\ i < 1095000 -> "ordinal"
             [] i > 10000101 /\ i < 30001231 -> "yyyymmdd"
             [] OTHER -> "timestamp"
DayPlus(o, fk) == LET t == AddDur(<<o, 0, 0>>, 0, fk * 1350, 0) IN <<"ok", t[1], t[2], t[3]>>      \* fk / 64 of a day = fk * 1350 s
NumDenote(v, today) ==
    IF v[1] = "ts" THEN (IF v[2] >= 348 /\ v[3] \in 0..86399 /\ v[4] \in 0..63 THEN <<"ok", Epoch + v[2], v[3], v[4] * 15625>> ELSE Undefined)
    ELSE LET i == v[2]  fk == v[3]  b == Band(i) IN
    IF ~((i >= 0 /\ fk \in 0..63) \/ (i <= 0 /\ fk \in -63..0)) THEN Undefined
    ELSE CASE b = "offset"    -> IF today + i >= 2 THEN DayPlus(today + i, fk) ELSE Undefined
           [] b = "year"      -> DayPlus(OrdOf(i, 1, 1), fk)
           [] b = "serial"    -> DayPlus(i + SerialBase, fk)
           [] b = "ordinal"   -> DayPlus(i, fk)
           [] b = "yyyymmdd"  -> LET y == i \div 10000  m == (i \div 100) % 100  d == i % 100 IN
                                 IF ValidYMD(y, m, d) THEN DayPlus(OrdOf(y, m, d), fk) ELSE Undefined      \* 20001301 is nobody's date
           [] b = "timestamp" -> <<"ok", Epoch + i \div 86400, i % 86400, fk * 15625>>                     \* fk / 64 of a second

\* ------------------------------------------------------------------------ numpy.datetime64 ---
\* units Y M W D: c = <<count>>.  Units h m s ms us ns: c = <<d, s, sub>> = d days, s seconds and sub units of the
\* sub-second unit after the epoch (d may be negative; the driver multiplies them out into the 64-bit count).
\* <<"ok", ordinal, second, microsecond, nanosecond>>
Ok5(o, s, u, n) == <<"ok", o, s, u, n>>
NpUnits == {"Y", "M", "W", "D", "h", "m", "s", "ms", "us", "ns"}
NpDenote(u, c) ==
    CASE u = "Y" -> Ok5(OrdOf(1970 + c[1], 1, 1), 0, 0, 0)
      [] u = "M" -> LET ym == NormYM(1970, 1 + c[1]) IN Ok5(OrdOf(ym[1], ym[2], 1), 0, 0, 0)
      [] u = "W" -> Ok5(Epoch + 7 * c[1], 0, 0, 0)
      [] u = "D" -> Ok5(Epoch + c[1], 0, 0, 0)
      [] u \in {"h", "m", "s", "ms", "us", "ns"} ->
            IF c[2] \notin 0..86399 THEN Undefined
            ELSE CASE u = "h"  -> IF c[2] % 3600 = 0 /\ c[3] = 0 THEN Ok5(Epoch + c[1], c[2], 0, 0) ELSE Undefined
                   [] u = "m"  -> IF c[2] % 60 = 0 /\ c[3] = 0 THEN Ok5(Epoch + c[1], c[2], 0, 0) ELSE Undefined
                   [] u = "s"  -> IF c[3] = 0 THEN Ok5(Epoch + c[1], c[2], 0, 0) ELSE Undefined
                   [] u = "ms" -> IF c[3] \in 0..999 THEN Ok5(Epoch + c[1], c[2], c[3] * 1000, 0) ELSE Undefined
                   [] u = "us" -> IF c[3] \in 0..999999 THEN Ok5(Epoch + c[1], c[2], c[3], 0) ELSE Undefined
                   [] u = "ns" -> IF c[3] \in 0..999999999 THEN Ok5(Epoch + c[1], c[2], c[3] \div 1000, c[3] % 1000) ELSE Undefined
      [] OTHER -> Undefined
\* the instants numpy / pandas / datetime can all hold: years 1..9999, nanoseconds only 1678..2261
NpInDomain(u, r) == r[1] = "ok" /\ LET y == CivilOf(r[2])[1] IN IF u = "ns" THEN y \in 1678..2261 ELSE y \in 2..9998

\* ---------------------------------------------------------------------------- period strings -
PeriodLetters == {"d", "b", "w", "m", "q", "y", "h", "n", "s", "D", "B", "W", "M", "Q", "Y", "H", "N", "S"}
RECURSIVE DigitRun(_, _)
DigitRun(s, i) == IF i <= Len(s) /\ s[i] \in Digits THEN 1 + DigitRun(s, i + 1) ELSE 0
\* a period begins with an optional sign, at least one digit and a unit letter (what follows is not looked at)
IsPeriod(s) == LET k  == IF Len(s) >= 1 /\ s[1] \in {"-", "+"} THEN 2 ELSE 1
                   nd == DigitRun(s, k)
               IN  nd >= 1 /\ k + nd <= Len(s) /\ s[k + nd] \in PeriodLetters
\* values: <<"str", s>>, <<"int", k>>, <<"timedelta">>, <<"relativedelta">>, <<"other", type name>>
IsBump(v) == CASE v[1] = "str" -> IsPeriod(v[2])
               [] v[1] = "int" -> v[2] < 1500
               [] v[1] \in {"timedelta", "relativedelta"} -> TRUE
               [] OTHER -> FALSE

\* -------------------------------------------------------------------------------- dt2str -----
\* A civil instant is c = <<y, m, d, h, mi, s, us>> (year 1000..9999).  A format is <<"none">> or <<"str", characters>>.
StrftimeLetters == {"a", "A", "w", "d", "b", "B", "m", "y", "Y", "H", "I", "p", "M", "S", "f", "z", "Z", "j", "U", "W", "c", "X", "x"}
Modelled        == {"a", "A", "w", "d", "b", "B", "m", "y", "Y", "H", "I", "p", "M", "S", "f", "j"}
Field(x) == <<"f", x>>
Lit(x)   == <<"l", x>>
YmdWith(sep) == IF Len(sep) = 0 THEN <<Field("Y"), Field("m"), Field("d")>> ELSE <<Field("Y"), Lit(sep[1]), Field("m"), Lit(sep[1]), Field("d")>>
RECURSIVE PercentTokens(_, _)
PercentTokens(s, i) == IF i > Len(s) THEN <<>>
                       ELSE IF s[i] = "%" /\ i < Len(s) THEN <<Field(s[i + 1])>> \o PercentTokens(s, i + 2)
                       ELSE <<Lit(s[i])>> \o PercentTokens(s, i + 1)
\* at most one character: the separator of year, month, day.  No '%': every strftime letter is a field.  Else strftime's own syntax.
Tokens(s) == IF Len(s) <= 1 THEN YmdWith(s)
             ELSE IF \E i \in 1..Len(s) : s[i] = "%" THEN PercentTokens(s, 1)
             ELSE [i \in 1..Len(s) |-> IF s[i] \in StrftimeLetters THEN Field(s[i]) ELSE Lit(s[i])]
IsIso(toks) == Len(toks) = 3 /\ \A i \in 1..3 : toks[i][1] = "l" /\ ToLower(toks[i][2]) = <<"i", "s", "o">>[i]
\* what a field writes, as characters: numbers zero padded to their width, English names with a capital first letter
DigitChar(v) == <<"0", "1", "2", "3", "4", "5", "6", "7", "8", "9">>[v + 1]
RECURSIVE NumChars(_, _)
NumChars(v, w) == IF w = 0 THEN <<>> ELSE NumChars(v \div 10, w - 1) \o <<DigitChar(v % 10)>>
Cap(s) == <<ToUpper(s[1])>> \o Tail(s)
CivOrd(c) == OrdOf(c[1], c[2], c[3])
Piece(tok, c) ==
    IF tok[1] = "l" THEN <<tok[2]>>
    ELSE LET x == tok[2] IN
    CASE x = "Y" -> NumChars(c[1], 4)
      [] x = "m" -> NumChars(c[2], 2)
      [] x = "d" -> NumChars(c[3], 2)
      [] x = "y" -> NumChars(c[1] % 100, 2)
      [] x = "b" -> Cap(Take(MonthNames[c[2]], 3))
      [] x = "B" -> Cap(MonthNames[c[2]])
      [] x = "H" -> NumChars(c[4], 2)
      [] x = "M" -> NumChars(c[5], 2)
      [] x = "S" -> NumChars(c[6], 2)
      [] x = "f" -> NumChars(c[7], 6)
      [] x = "j" -> NumChars(CivOrd(c) - OrdOf(c[1], 1, 1) + 1, 3)
      [] x = "a" -> Cap(Take(WdNames[Weekday(CivOrd(c)) + 1], 3))
      [] x = "A" -> Cap(WdNames[Weekday(CivOrd(c)) + 1])
      [] x = "w" -> NumChars((Weekday(CivOrd(c)) + 1) % 7, 1)          \* Sunday = 0
      [] x = "I" -> NumChars(IF c[4] % 12 = 0 THEN 12 ELSE c[4] % 12, 2)
      [] x = "p" -> IF c[4] < 12 THEN <<"A", "M">> ELSE <<"P", "M">>
IsoTokens(c) == <<Field("Y"), Lit("-"), Field("m"), Lit("-"), Field("d"), Lit("T"), Field("H"), Lit(":"), Field("M"), Lit(":"), Field("S")>>
                \o (IF c[7] = 0 THEN <<>> ELSE <<Lit("."), Field("f")>>)
IsMidnightCiv(c) == c[4] = 0 /\ c[5] = 0 /\ c[6] = 0 /\ c[7] = 0
EffTokens(fmt, c) ==
    IF fmt[1] = "none" THEN (IF IsMidnightCiv(c) THEN YmdWith(<<>>) ELSE IsoTokens(c))
    ELSE LET toks == Tokens(fmt[2]) IN IF IsIso(toks) THEN IsoTokens(c) ELSE toks
FormatInDomain(fmt, c) == LET toks == EffTokens(fmt, c) IN \A i \in 1..Len(toks) : toks[i][1] = "l" \/ toks[i][2] \in Modelled
\* the string, as characters
Dt2Str(fmt, c) == LET toks == EffTokens(fmt, c) IN FoldLeft(LAMBDA acc, tok : acc \o Piece(tok, c), <<>>, toks)

\* Which formats the reader takes back.  A layout is [order, sep, mon, time, join]:
\*   order  "ymd" | "dmy" | "mdy"          the order of year, month, day (dmy is read by the UK dialect, mdy by the US one when
\*                                         the month is a number; with a month name the dialect does not matter)
\*   sep    one of - / . blank             between the three (the same twice)
\*   mon    "m" | "b" | "B"                the month as a number, an abbreviated or a full name
\*   time   "" | "HM" | "HMS" | "HMSf"     how much of the time of day is written, as H:M[:S[.f]]
\*   join   blank | "T"                    between date and time
Seps4 == {"-", "/", ".", " "}
Orders == {"ymd", "dmy", "mdy"}
LayoutFormat(L) ==
    LET y == "Y"  m == L.mon  d == "d"
        three == CASE L.order = "ymd" -> <<y, m, d>> [] L.order = "dmy" -> <<d, m, y>> [] L.order = "mdy" -> <<m, d, y>>
        date  == <<three[1], L.sep, three[2], L.sep, three[3]>>
        time  == CASE L.time = ""     -> <<>>
                   [] L.time = "HM"   -> <<L.join, "H", ":", "M">>
                   [] L.time = "HMS"  -> <<L.join, "H", ":", "M", ":", "S">>
                   [] L.time = "HMSf" -> <<L.join, "H", ":", "M", ":", "S", ".", "f">>
    IN  date \o time
LayoutOk(L) == L.order \in Orders /\ L.sep \in Seps4 /\ L.mon \in {"m", "b", "B"} /\ L.time \in {"", "HM", "HMS", "HMSf"} /\ L.join \in {" ", "T"}
DialectsOf(L) == IF L.mon # "m" \/ L.order = "ymd" THEN {"uk", "us"} ELSE IF L.order = "dmy" THEN {"uk"} ELSE {"us"}
\* what was written comes back, the rest of the time of day is zero
ReadBack(L, c) == CASE L.time = ""     -> <<"ok", CivOrd(c), 0, 0>>
                    [] L.time = "HM"   -> <<"ok", CivOrd(c), c[4] * 3600 + c[5] * 60, 0>>
                    [] L.time = "HMS"  -> <<"ok", CivOrd(c), c[4] * 3600 + c[5] * 60 + c[6], 0>>
                    [] L.time = "HMSf" -> <<"ok", CivOrd(c), c[4] * 3600 + c[5] * 60 + c[6], c[7]>>
\* the special spellings: no format / 'iso' come back whole; the empty format (yyyymmdd) and a one-character separator of
\* the four come back as the day
SpecialReadBack(fmt, c) ==
    IF fmt[1] = "none" THEN <<"ok", CivOrd(c), c[4] * 3600 + c[5] * 60 + c[6], c[7]>>
    ELSE IF IsIso(Tokens(fmt[2])) THEN <<"ok", CivOrd(c), c[4] * 3600 + c[5] * 60 + c[6], c[7]>>
    ELSE IF Len(fmt[2]) = 0 \/ (Len(fmt[2]) = 1 /\ fmt[2][1] \in Seps4) THEN <<"ok", CivOrd(c), 0, 0>>
    ELSE Undefined
=============================================================================
