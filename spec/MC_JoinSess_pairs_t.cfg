CONSTANTS MaxSteps = 3
          Stride = 12
          PoolStride = 173
          ZStride = 25
          Gen = TRUE
          Form = "pairs"
          Memo = "none"
          Variant = "plain"
INIT Init
NEXT Next
