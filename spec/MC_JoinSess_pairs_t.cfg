CONSTANTS MaxSteps = 3
          Stride = 8
          PoolStride = 97
          ZStride = 25
          Gen = TRUE
          Form = "pairs"
          Memo = "none"
          Variant = "plain"
INIT Init
NEXT Next
