CONSTANTS NPts = 6
          NDays = 2
          NSlots = 3
          StitchCfg <- StitchSmall
          NDup = 3
          MaxMult = 2
          NDupSlots = 2
          ZoneCfg <- ZonesQuick
          NZE = 3
          NZ2 = 2
          StitchDupCfg <- DupStitchSmall
          StitchNaNCfg <- NaNStitchSmall
INIT Init
NEXT Next
PROPERTY ArgsFrame
INVARIANT SliceSub
INVARIANT Unbounded
INVARIANT OneSided
INVARIANT TwoSided
INVARIANT Brackets
INVARIANT Partition
INVARIANT WrapComplement
INVARIANT DupTogether
INVARIANT SameTodTogether
INVARIANT LocalClock
INVARIANT WrapMechDefault
INVARIANT ElapsedOrdinary
INVARIANT TrimOneUnique
INVARIANT StitchOnce
INVARIANT StitchN1
INVARIANT StitchColumn
INVARIANT StitchRows
INVARIANT StitchReverse
INVARIANT RoundTrip
INVARIANT Recovers
INVARIANT StitchValueBlind
INVARIANT StitchDupLaw
INVARIANT StitchDupStrict
