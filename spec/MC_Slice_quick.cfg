CONSTANTS NPts = 6
          NDays = 2
          NSlots = 3
          StitchCfg <- StitchSmall
INIT Init
NEXT Next
PROPERTY ArgsFrame
INVARIANT SliceSub
INVARIANT Unbounded
INVARIANT OneSided
INVARIANT TwoSided
INVARIANT Brackets
INVARIANT Partition
INVARIANT WrapComplement
INVARIANT WrapMechDefault
INVARIANT StitchOnce
INVARIANT StitchN1
INVARIANT StitchColumn
INVARIANT StitchRows
INVARIANT StitchReverse
INVARIANT RoundTrip
INVARIANT Recovers
