CONSTANTS Kinds = {"pt", "forms", "frame"}
          Wide = TRUE
INIT Init
NEXT Eval
INVARIANT MechanismIsLaw
INVARIANT NoCurve
INVARIANT HitsKnots
INVARIANT OnSegment
INVARIANT FillOnlyOutside
INVARIANT OutsidePolicy
INVARIANT IgnoresNaNKnots
INVARIANT OrderFree
INVARIANT WellFormedResult
INVARIANT FormsRowWise
INVARIANT SharedKnots
INVARIANT FrameIsMatrix
INVARIANT FrameDated
