CONSTANTS MaxLen = 4
          MaxLenX = 3
INIT InitGenUlist
NEXT GenUlist
