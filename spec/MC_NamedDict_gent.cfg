CONSTANTS Big = TRUE
          Strata = {"calls", "types", "casts", "both", "decl"}
          MaxOps = 0
INIT Init
NEXT EvalGen
