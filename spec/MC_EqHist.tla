----------------------------- MODULE MC_EqHist -----------------------------
(* Property C14 on objects that change in place.  eq(x, y) speaks of the values x and y have   *)
(* at the moment of the call - whatever was asked and answered about the same two objects       *)
(* before.  State: a few live mutable objects (list, dict, dict subclass, ndarray, a view and   *)
(* the array it looks into, Series, DataFrame); actions: Call(i, j) = eq(obj_i, obj_j) and      *)
(* the in-place writes x[k] = v, x.index / x.columns = ..., d[key] = d.pop(key), x.append(v),   *)
(* x.pop().  A history alternates calls and writes: call - write - call (- write - call).       *)
(*   * law: the answer expected from a call is what the statement pins for the CURRENT          *)
(*     descriptors (Eq!PinC) - a function of the state alone;                                   *)
(*   * mechanism model (inside TLC only): an identity-keyed memo of earlier answers,            *)
(*     memo[<<i, j>>], as a cache in front of the pandas branch would keep it; TLC must REFUTE  *)
(*     MemoAdmitted (cfg MC_EqHist_memo.cfg, must_fail);                                        *)
(*   * S2C: with Record = TRUE every history is carried in hist and printed when complete;      *)
(*     the driver replays it on real objects (writes applied in place, the object read back     *)
(*     after each write must project to the descriptor TLC computed) and compares each call.    *)
EXTENDS Eq, TLC, Json, SequencesExt
CONSTANTS Depth, Record, Wide

VARIABLES objs, hist, n, memo, first
vars == <<objs, hist, n, memo, first>>

I(k) == VInt(k)
F(p, q) == VFlt(p, q)
RI2 == <<I(0), I(1)>>
AB  == <<VStr("a"), VStr("b")>>
Buf == <<I(1), I(2), I(1), I(2)>>

\* initial configurations: two or three objects that are equal / almost equal to start with
Configs ==
    {<<VLst(<<I(1), I(2)>>), VLst(<<I(1), I(2)>>)>>,
     <<VDict(<<<<"a", I(1)>>, <<"b", I(2)>>>>), VDict(<<<<"a", I(1)>>, <<"b", I(2)>>>>)>>,
     <<VArr("float64", <<2>>, <<F(1, 1), VNaN(0)>>), VArr("float64", <<2>>, <<F(1, 1), VNaN(0)>>)>>,
     <<VSer("float64", RI2, <<F(1, 1), F(2, 1)>>), VSer("float64", RI2, <<F(1, 1), F(2, 1)>>)>>,
     <<VFrm("float64", RI2, AB, <<F(1, 1), F(2, 1), F(1, 1), VNaN(0)>>), VFrm("float64", RI2, AB, <<F(1, 1), F(2, 1), F(1, 1), VNaN(0)>>)>>,
     <<VView("int64", 1, Buf, 0, <<2>>, <<1>>), VView("int64", 1, Buf, 2, <<2>>, <<1>>), VArr("int64", <<2>>, <<I(1), I(2)>>)>>}
    \cup (IF Wide THEN
    {<<VSub("Dict", <<<<"a", I(1)>>, <<"b", VNaN(1)>>>>), VSub("Dict", <<<<"a", I(1)>>, <<"b", VNaN(2)>>>>)>>,
     <<VArr("object", <<2>>, <<I(1), VLst(<<I(2)>>)>>), VArr("object", <<2>>, <<I(1), VLst(<<I(2)>>)>>)>>,
     <<VSer("object", RI2, <<None, VStr("a")>>), VSer("object", RI2, <<None, VStr("a")>>), VSer("object", RI2, <<VNaN(3), VStr("a")>>)>>,
     <<VLst(<<VSer("float64", RI2, <<F(1, 1), F(2, 1)>>)>>), VLst(<<VSer("float64", RI2, <<F(1, 1), F(2, 1)>>)>>)>>,
     <<VSer("int64", <<VStr("a"), VStr("b")>>, <<I(1), I(2)>>), VSer("int64", <<VStr("a"), VStr("b")>>, <<I(1), I(2)>>)>>,
     <<VView("float64", 2, <<F(1, 1), VNaN(0), F(1, 1), VNaN(0), F(2, 1)>>, 0, <<3>>, <<1>>), VView("float64", 2, <<F(1, 1), VNaN(0), F(1, 1), VNaN(0), F(2, 1)>>, 2, <<3>>, <<1>>)>>} ELSE {})

\* what may be written into an item of c: something else of the type the carrier holds
Writes(c) ==
    LET dt == CASE Tag(c) \in {"a", "S", "F"} -> Pay(c)[1] [] Tag(c) = "v" -> VDt_(c) [] OTHER -> "object" IN
    CASE dt = "int64"   -> {I(1), I(7)}
      [] dt = "float64" -> {F(1, 1), F(7, 1), VNaN(0)}
      [] OTHER -> {I(1), I(7), VNaN(9), None}
IsMapC(c) == Tag(c) \in {"m", "mo", "M", "Mo"}
NObj == Len(objs)
\* histories over three objects stop after call - write - call (there are too many of them beyond)
Bound == IF NObj > 2 THEN 3 ELSE Depth

Init == /\ objs \in Configs /\ hist = <<>> /\ n = 0 /\ memo = <<>> /\ first = <<>>
        /\ \A k \in 1..Len(objs) : ConcreteOK(objs[k])

Rec(e) == hist' = IF Record THEN Append(hist, e) ELSE hist

\* eq(obj_i, obj_j): the state does not change; the memo keeps the first answer given for the pair of objects
Answer(i, j) == PinC(objs[i], objs[j])                    \* "T" / "F" / "free"
Call(i, j) ==
    /\ n < Bound /\ n % 2 = 0 /\ i # j
    /\ Rec([op |-> "eq", i |-> i, j |-> j, ifT |-> ClauseIfTC(objs[i], objs[j]), ifF |-> ClauseIfFC(objs[i], objs[j]), at |-> AtC(objs[i], objs[j])])
    /\ memo' = IF \E m \in 1..Len(memo) : memo[m][1] = <<i, j>> THEN memo ELSE Append(memo, <<<<i, j>>, Answer(i, j)>>)
    /\ n' = n + 1 /\ UNCHANGED <<objs, first>>

Write(i, e, new) ==
    /\ n < Bound /\ n % 2 = 1
    /\ new # objs[i]
    /\ objs' = [k \in 1..NObj |-> IF k = i THEN new ELSE IF e.op = "set" THEN SeesWrite(objs[k], objs[i], e.k, e.v) ELSE objs[k]]
    /\ Rec(e @@ [i |-> i, now |-> new])
    /\ n' = n + 1 /\ UNCHANGED <<memo, first>>

SetOp(i)   == \E k \in 1..NItems(objs[i]) : \E v \in Writes(objs[i]) :
                 Tag(objs[i]) # "t" /\ Write(i, [op |-> "set", k |-> k, v |-> v], SetItem(objs[i], k, v))
LabelOp(i) == \E axis \in {0, 1} : \E k \in {1} : \E v \in {I(5)} :
                 /\ (Tag(objs[i]) = "S" /\ axis = 0) \/ (Tag(objs[i]) = "F" /\ (axis = 0 \/ Pay(objs[i])[3] # <<>>))
                 /\ Write(i, [op |-> "label", axis |-> axis, k |-> k, v |-> v], SetLabel(objs[i], axis, k, v))
ReinsOp(i) == \E k \in 1..NItems(objs[i]) : IsMapC(objs[i]) /\ Write(i, [op |-> "reinsert", k |-> k], Reinsert(objs[i], k))
GrowOp(i)  == Tag(objs[i]) = "l" /\ \/ Write(i, [op |-> "append", v |-> I(7)], Appended(objs[i], I(7)))
                                    \/ (Pay(objs[i]) # <<>> /\ Write(i, [op |-> "pop"], Popped(objs[i])))

Next == \E i \in 1..NObj : \/ \E j \in 1..NObj : Call(i, j)
                           \/ SetOp(i) \/ LabelOp(i) \/ ReinsOp(i) \/ GrowOp(i)
\* S2C generator: the complete histories
\* (the first entry of a recorded history carries the initial objects)
Emit == n = Bound /\ first = <<>> /\ first' = <<1>> /\ PrintT(ToJson([hist |-> hist])) /\ UNCHANGED <<objs, hist, n, memo>>
InitGen == /\ objs \in Configs /\ n = 0 /\ memo = <<>> /\ first = <<>>
           /\ hist = <<[op |-> "init", init |-> objs]>>
NextGen == Next \/ Emit

\* ---- invariants ------------------------------------------------------------------------------
\* the state stays inside the descriptor language, whatever is written
StateOK == \A k \in 1..NObj : ConcreteOK(objs[k])
\* the law is a function of the current values: an object always equals itself and a copy of what it is now
SelfNow == \A k \in 1..NObj : PinC(objs[k], objs[k]) = "T" /\ Pin(Norm(objs[k]), Fresh(Norm(objs[k]))) = "T"
\* mechanism: an identity-keyed memo of earlier answers is admitted by what the statement pins NOW - to be REFUTED
MemoAdmitted == \A m \in 1..Len(memo) : LET i == memo[m][1][1]  j == memo[m][1][2] IN
                    memo[m][2] = "free" \/ Answer(i, j) \in {"free", memo[m][2]}
=============================================================================
