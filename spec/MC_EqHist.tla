----------------------------- MODULE MC_EqHist -----------------------------
(* Property C14 on objects that change in place.  eq(x, y) speaks of the values x and y have   *)
(* at the moment of the call - whatever was asked and answered about the same two objects       *)
(* before.  State: a few live mutable objects (list, dict, dict subclass, ndarray, a view and   *)
(* the array it looks into, Series, DataFrame); actions: Call(i, j) = eq(obj_i, obj_j) and      *)
(* the in-place writes x[k] = v, x.index / x.columns = ..., d[key] = d.pop(key), x.append(v),   *)
(* x.pop().  A history alternates calls and writes: call - write - call (- write - call).       *)
(*   * law: the answer expected from a call is what the statement pins for the CURRENT          *)
(*     descriptors (Eq!PinC) - a function of the state alone;                                   *)
(*   * mechanism model (inside TLC only): an identity-keyed memo of earlier answers,            *)
(*     memo[<<i, j>>], as a cache in front of the pandas branch would keep it; TLC must REFUTE  *)
(*     MemoAdmitted (cfg MC_EqHist_memo.cfg, must_fail);                                        *)
(*   * S2C: with Record = TRUE every history is carried in hist and printed when complete;      *)
(*     the driver replays it on real objects (writes applied in place, the object read back     *)
(*     after each write must project to the descriptor TLC computed) and compares each call.    *)
(*                                                                                             *)
(* SESSIONS (sess = TRUE).  "A call has no memory": the answer of eq / in_ depends on the two   *)
(* values handed in and on nothing that was compared before - in this call sequence, with these *)
(* objects or with others.  A session configuration is a group of four live objects that         *)
(* COLLIDE on whatever a memo inside eq could be keyed on: one class (pair of types), one        *)
(* length, one text, ==-equal across types - a value, its structural copy, a shorter one (for    *)
(* pandas objects: the comparison of the indexes raises inside eq), one with another cell.       *)
(* Actions of a session: Call(i, j) for EVERY ordered pair (i = j: the very same object),        *)
(* CallIn(i) = in_(obj_i, [the others]); between two calls the caller does nothing (Skip) or      *)
(* DROPS an operand of the last call and builds a new object in its place (Rebuild: the new      *)
(* object may get the address of the dead one), then repeats the call; with Full = TRUE           *)
(* (simulated longer sessions) any rebuild, any in-place write and any next call.                *)
(*   * law: as above - what is pinned for the current descriptors, whatever was called before;   *)
(*   * mechanism models (inside TLC only): the identity-keyed memo above, and cmemo - a memo      *)
(*     keyed by the pair of CLASSES of the operands holding the first answer given for it (what   *)
(*     "these two types do not support ==" amounts to once the first such comparison failed on    *)
(*     values); TLC must REFUTE ClassMemoAdmitted (MC_EqHist_cmemo.cfg, must_fail).               *)
EXTENDS Eq, TLC, Json, SequencesExt
CONSTANTS Depth, Record, Wide,
          Full      \* sessions: any caller action between two calls, any next call, Depth entries (for simulation)

VARIABLES objs, hist, n, memo, first, sess, last, cmemo
vars == <<objs, hist, n, memo, first, sess, last, cmemo>>

I(k) == VInt(k)
F(p, q) == VFlt(p, q)
RI2 == <<I(0), I(1)>>
AB  == <<VStr("a"), VStr("b")>>
Buf == <<I(1), I(2), I(1), I(2)>>

\* initial configurations: two or three objects that are equal / almost equal to start with
Configs ==
    {<<VLst(<<I(1), I(2)>>), VLst(<<I(1), I(2)>>)>>,
     <<VDict(<<<<"a", I(1)>>, <<"b", I(2)>>>>), VDict(<<<<"a", I(1)>>, <<"b", I(2)>>>>)>>,
     <<VArr("float64", <<2>>, <<F(1, 1), VNaN(0)>>), VArr("float64", <<2>>, <<F(1, 1), VNaN(0)>>)>>,
     <<VSer("float64", RI2, <<F(1, 1), F(2, 1)>>), VSer("float64", RI2, <<F(1, 1), F(2, 1)>>)>>,
     <<VFrm("float64", RI2, AB, <<F(1, 1), F(2, 1), F(1, 1), VNaN(0)>>), VFrm("float64", RI2, AB, <<F(1, 1), F(2, 1), F(1, 1), VNaN(0)>>)>>,
     <<VView("int64", 1, Buf, 0, <<2>>, <<1>>), VView("int64", 1, Buf, 2, <<2>>, <<1>>), VArr("int64", <<2>>, <<I(1), I(2)>>)>>}
    \cup (IF Wide THEN
    {<<VSub("Dict", <<<<"a", I(1)>>, <<"b", VNaN(1)>>>>), VSub("Dict", <<<<"a", I(1)>>, <<"b", VNaN(2)>>>>)>>,
     <<VArr("object", <<2>>, <<I(1), VLst(<<I(2)>>)>>), VArr("object", <<2>>, <<I(1), VLst(<<I(2)>>)>>)>>,
     <<VSer("object", RI2, <<None, VStr("a")>>), VSer("object", RI2, <<None, VStr("a")>>), VSer("object", RI2, <<VNaN(3), VStr("a")>>)>>,
     <<VLst(<<VSer("float64", RI2, <<F(1, 1), F(2, 1)>>)>>), VLst(<<VSer("float64", RI2, <<F(1, 1), F(2, 1)>>)>>)>>,
     <<VSer("int64", <<VStr("a"), VStr("b")>>, <<I(1), I(2)>>), VSer("int64", <<VStr("a"), VStr("b")>>, <<I(1), I(2)>>)>>,
     <<VView("float64", 2, <<F(1, 1), VNaN(0), F(1, 1), VNaN(0), F(2, 1)>>, 0, <<3>>, <<1>>), VView("float64", 2, <<F(1, 1), VNaN(0), F(1, 1), VNaN(0), F(2, 1)>>, 2, <<3>>, <<1>>)>>} ELSE {})

\* session configurations: four objects that collide on class / length / text / ==
D1 == <<737425, 0, 0>>
D2 == <<737426, 3600, 0>>
RI3 == <<I(0), I(1), I(2)>>
TS2 == <<VTs(D1[1], D1[2], D1[3]), VTs(D2[1], D2[2], D2[3])>>
S3(a, b, c) == VSer("float64", RI3, <<a, b, c>>)
FAB(ix, cells) == VFrm("float64", ix, AB, cells)
RecOf(fr, k) == VLst(<<VDict(<<<<"data", fr>>, <<"n", I(k)>>>>)>>)
SessConfigs ==
    {\* Series on a RangeIndex: the value, a copy, one row less (comparing the indexes raises), another cell
     <<S3(F(1, 1), F(2, 1), F(3, 1)), S3(F(1, 1), F(2, 1), F(3, 1)), VSer("float64", RI2, <<F(1, 1), F(2, 1)>>), S3(F(1, 1), F(2, 1), F(7, 1))>>,
     \* frames, with a NaN
     <<FAB(RI2, <<F(1, 1), VNaN(0), F(3, 1), F(4, 1)>>), FAB(RI2, <<F(1, 1), VNaN(0), F(3, 1), F(4, 1)>>), FAB(<<I(0)>>, <<F(1, 1), VNaN(0)>>), FAB(RI2, <<F(1, 1), VNaN(0), F(3, 1), F(7, 1)>>)>>,
     \* Series on a DatetimeIndex / on labels
     <<VSer("int64", TS2, <<I(1), I(2)>>), VSer("int64", TS2, <<I(1), I(2)>>), VSer("int64", <<TS2[1]>>, <<I(1)>>), VSer("int64", <<TS2[2], TS2[1]>>, <<I(1), I(2)>>)>>,
     <<VSer("int64", AB, <<I(1), I(2)>>), VSer("int64", AB, <<I(1), I(2)>>), VSer("int64", <<VStr("a")>>, <<I(1)>>), VSer("int64", <<VStr("a"), VStr("c")>>, <<I(1), I(2)>>)>>,
     \* the frame inside a record inside a list
     <<RecOf(FAB(RI2, <<F(1, 1), F(2, 1), F(3, 1), F(4, 1)>>), 1), RecOf(FAB(RI2, <<F(1, 1), F(2, 1), F(3, 1), F(4, 1)>>), 1), RecOf(FAB(<<I(0)>>, <<F(1, 1), F(2, 1)>>), 1), RecOf(FAB(RI2, <<F(1, 1), F(2, 1), F(3, 1), F(4, 1)>>), 2)>>,
     \* arrays: one length, another shape, another cell
     <<VArr("int64", <<2>>, <<I(1), I(2)>>), VArr("int64", <<2>>, <<I(1), I(2)>>), VArr("int64", <<3>>, <<I(1), I(2), I(1)>>), VArr("int64", <<2>>, <<I(1), I(7)>>)>>,
     \* one text, ==-equal across types: 1, 1.0, "1", np.int64(1)
     <<I(1), F(1, 1), VStr("1"), NpS("int64", I(1))>>,
     \* lists and a tuple of one length and one text
     <<VLst(<<I(1), I(2)>>), VLst(<<I(1), I(2)>>), VTup(<<I(1), I(2)>>), VLst(<<I(1), I(7)>>)>>}
    \cup (IF Wide THEN
    {<<VDict(<<<<"a", I(1)>>, <<"b", I(2)>>>>), VDictO(<<2, 1>>, <<<<"a", I(1)>>, <<"b", I(2)>>>>), VSub("Dict", <<<<"a", I(1)>>, <<"b", I(2)>>>>), VDict(<<<<"a", I(1)>>, <<"b", I(7)>>>>)>>,
     <<VTs(D1[1], D1[2], D1[3]), VDt(D1[1], D1[2], D1[3]), VTs(D2[1], D2[2], D2[3]), VDate(D1[1])>>,
     <<VNaN(1), VNaN(2), NpS("float32", VNaN(3)), None>>,
     <<VSer("object", RI2, <<VLst(<<I(1)>>), None>>), VSer("object", RI2, <<VLst(<<I(1)>>), None>>), VSer("object", <<I(0)>>, <<VLst(<<I(1)>>)>>), VSer("object", RI2, <<VLst(<<I(7)>>), None>>)>>,
     <<FAB(TS2, <<F(1, 1), F(2, 1), F(3, 1), F(4, 1)>>), FAB(TS2, <<F(1, 1), F(2, 1), F(3, 1), F(4, 1)>>), FAB(<<TS2[1]>>, <<F(1, 1), F(2, 1)>>), VFrm("float64", TS2, <<VStr("a"), VStr("c")>>, <<F(1, 1), F(2, 1), F(3, 1), F(4, 1)>>)>>,
     <<VArr("object", <<2>>, <<I(1), VStr("a")>>), VArr("object", <<2>>, <<I(1), VStr("a")>>), VArr("object", <<1>>, <<I(1)>>), VArr("object", <<2, 1>>, <<I(1), VStr("a")>>)>>,
     <<VDict(<<<<"a", S3(F(1, 1), F(2, 1), F(3, 1))>>>>), VDict(<<<<"a", S3(F(1, 1), F(2, 1), F(3, 1))>>>>), VDict(<<<<"a", VSer("float64", RI2, <<F(1, 1), F(2, 1)>>)>>>>), VDict(<<<<"a", S3(F(1, 1), F(2, 1), VNaN(0))>>>>)>>} ELSE {})

\* what may be written into an item of c: something else of the type the carrier holds
Writes(c) ==
    LET dt == CASE Tag(c) \in {"a", "S", "F"} -> Pay(c)[1] [] Tag(c) = "v" -> VDt_(c) [] OTHER -> "object" IN
    CASE dt = "int64"   -> {I(1), I(7)}
      [] dt = "float64" -> {F(1, 1), F(7, 1), VNaN(0)}
      [] OTHER -> {I(1), I(7), VNaN(9), None}
IsMapC(c) == Tag(c) \in {"m", "mo", "M", "Mo"}
NObj == Len(objs)
\* histories over three or more objects stop after call - write - call (there are too many of them beyond)
Bound == IF Full THEN Depth ELSE IF NObj > 2 THEN 3 ELSE Depth

Init == /\ ((objs \in Configs /\ sess = FALSE) \/ (objs \in SessConfigs /\ sess = TRUE))
        /\ hist = <<>> /\ n = 0 /\ memo = <<>> /\ first = <<>> /\ last = <<>> /\ cmemo = <<>>
        /\ \A k \in 1..Len(objs) : ConcreteOK(objs[k])

Rec(e) == hist' = IF Record THEN Append(hist, e) ELSE hist

\* eq(obj_i, obj_j): the state does not change; the memo keeps the first answer given for the pair of objects, cmemo the
\* first answer given for the pair of their classes
Answer(i, j) == PinC(objs[i], objs[j])                    \* "T" / "F" / "free"
ClassOf(i)   == Class(Norm(objs[i]))
\* after a Rebuild (unless Full) the call that follows is the last call again
MayCall(c)   == IF last = <<>> THEN TRUE ELSE IF Head(last) # "again" THEN TRUE ELSE Tail(last) = c
Call(i, j) ==
    /\ n < Bound /\ n % 2 = 0 /\ (i # j \/ sess)
    /\ MayCall(<<i, j>>)
    /\ Rec([op |-> "eq", i |-> i, j |-> j, ifT |-> ClauseIfTC(objs[i], objs[j]), ifF |-> ClauseIfFC(objs[i], objs[j]), at |-> AtC(objs[i], objs[j])])
    /\ memo' = IF \E m \in 1..Len(memo) : memo[m][1] = <<i, j>> THEN memo ELSE Append(memo, <<<<i, j>>, Answer(i, j)>>)
    /\ cmemo' = IF \E m \in 1..Len(cmemo) : cmemo[m][1] = <<ClassOf(i), ClassOf(j)>> THEN cmemo
                ELSE Append(cmemo, <<<<ClassOf(i), ClassOf(j)>>, Answer(i, j)>>)
    /\ last' = <<"eq", i, j>>
    /\ n' = n + 1 /\ UNCHANGED <<objs, first, sess>>

\* in_(obj_i, [the other objects, in order]): True iff eq says so for one of them; pinned True as soon as one of them is
\* pinned equal and everything before it is pinned (eq is total: the walk gets there), pinned False when all are pinned unequal
Others(i) == SelectSeq([k \in 1..NObj |-> k], LAMBDA k : k # i)
InWant(i) == LET q == Others(i) IN
             IF \E a \in 1..Len(q) : Answer(i, q[a]) = "T" THEN <<"T">>
             ELSE IF \A a \in 1..Len(q) : Answer(i, q[a]) = "F" THEN <<"F">> ELSE <<"T", "F">>
CallIn(i) ==
    /\ sess /\ n < Bound /\ n % 2 = 0
    /\ MayCall(<<i>>)
    /\ Rec([op |-> "in", i |-> i, seq |-> Others(i), want |-> InWant(i)])
    /\ last' = <<"in", i>>
    /\ n' = n + 1 /\ UNCHANGED <<objs, memo, cmemo, first, sess>>

Write(i, e, new) ==
    /\ n < Bound /\ n % 2 = 1 /\ (~sess \/ Full)
    /\ new # objs[i]
    /\ objs' = [k \in 1..NObj |-> IF k = i THEN new ELSE IF e.op = "set" THEN SeesWrite(objs[k], objs[i], e.k, e.v) ELSE objs[k]]
    /\ Rec(e @@ [i |-> i, now |-> new])
    /\ n' = n + 1 /\ UNCHANGED <<memo, cmemo, first, sess, last>>

\* between two calls of a session the caller does nothing ...
Skip == /\ sess /\ n < Bound /\ n % 2 = 1
        /\ n' = n + 1 /\ UNCHANGED <<objs, hist, memo, cmemo, first, sess, last>>
\* ... or drops object i and builds a NEW object in its place, holding what object j holds now (another value at - possibly -
\* the address of the dead one); unless Full it is an operand of the last call that goes, and the call is repeated
Operands(c) == {c[k] : k \in 2..Len(c)}
Rebuild(i, j) ==
    /\ sess /\ n < Bound /\ n % 2 = 1 /\ i # j
    /\ objs[j] # objs[i]
    /\ (IF Full THEN TRUE ELSE i \in Operands(last))
    /\ objs' = [objs EXCEPT ![i] = objs[j]]
    /\ Rec([op |-> "rebuild", i |-> i, now |-> objs[j]])
    /\ last' = IF Full THEN last ELSE <<"again">> \o Tail(last)
    /\ n' = n + 1 /\ UNCHANGED <<memo, cmemo, first, sess>>

SetOp(i)   == \E k \in 1..NItems(objs[i]) : \E v \in Writes(objs[i]) :
                 Tag(objs[i]) # "t" /\ Write(i, [op |-> "set", k |-> k, v |-> v], SetItem(objs[i], k, v))
LabelOp(i) == \E axis \in {0, 1} : \E k \in {1} : \E v \in {I(5)} :
                 /\ (Tag(objs[i]) = "S" /\ axis = 0) \/ (Tag(objs[i]) = "F" /\ (axis = 0 \/ Pay(objs[i])[3] # <<>>))
                 /\ Write(i, [op |-> "label", axis |-> axis, k |-> k, v |-> v], SetLabel(objs[i], axis, k, v))
ReinsOp(i) == \E k \in 1..NItems(objs[i]) : IsMapC(objs[i]) /\ Write(i, [op |-> "reinsert", k |-> k], Reinsert(objs[i], k))
GrowOp(i)  == Tag(objs[i]) = "l" /\ \/ Write(i, [op |-> "append", v |-> I(7)], Appended(objs[i], I(7)))
                                    \/ (Pay(objs[i]) # <<>> /\ Write(i, [op |-> "pop"], Popped(objs[i])))

Next == \/ \E i \in 1..NObj : \/ \E j \in 1..NObj : Call(i, j) \/ Rebuild(i, j)
                              \/ CallIn(i)
                              \/ SetOp(i) \/ LabelOp(i) \/ ReinsOp(i) \/ GrowOp(i)
        \/ Skip
\* S2C generator: the complete histories
\* (the first entry of a recorded history carries the initial objects)
Emit == n = Bound /\ first = <<>> /\ first' = <<1>> /\ PrintT(ToJson([hist |-> hist])) /\ UNCHANGED <<objs, hist, n, memo, cmemo, sess, last>>
InitGen == /\ ((objs \in Configs /\ sess = FALSE) \/ (objs \in SessConfigs /\ sess = TRUE))
           /\ n = 0 /\ memo = <<>> /\ first = <<>> /\ last = <<>> /\ cmemo = <<>>
           /\ hist = <<[op |-> "init", init |-> objs, sess |-> sess]>>
NextGen == Next \/ Emit
\* the sessions alone (simulation of longer ones)
InitSess == InitGen /\ sess = TRUE

\* ---- invariants ------------------------------------------------------------------------------
\* the state stays inside the descriptor language, whatever is written
StateOK == \A k \in 1..NObj : ConcreteOK(objs[k])
\* the law is a function of the current values: an object always equals itself and a copy of what it is now
SelfNow == \A k \in 1..NObj : PinC(objs[k], objs[k]) = "T" /\ Pin(Norm(objs[k]), Fresh(Norm(objs[k]))) = "T"
\* mechanism: an identity-keyed memo of earlier answers is admitted by what the statement pins NOW - to be REFUTED
MemoAdmitted == \A m \in 1..Len(memo) : LET i == memo[m][1][1]  j == memo[m][1][2] IN
                    memo[m][2] = "free" \/ Answer(i, j) \in {"free", memo[m][2]}
\* mechanism: a memo keyed by the pair of classes of the operands is admitted for every pair of live objects of those classes - to be REFUTED
ClassMemoAdmitted == \A m \in 1..Len(cmemo) : \A i, j \in 1..NObj :
                        (<<ClassOf(i), ClassOf(j)>> = cmemo[m][1] /\ cmemo[m][2] # "free") => Answer(i, j) \in {"free", cmemo[m][2]}
\* sessions: the pinned answers tell the objects of a configuration apart (the collisions are collisions, not equalities):
\* some pair is pinned equal, some pair of the same classes pinned unequal
SessionsCollide == (sess /\ n = 0) => \E i, j, a, b \in 1..NObj :
                        /\ i # j /\ a # b /\ Answer(i, j) = "T" /\ Answer(a, b) = "F"
                        /\ (<<ClassOf(i), ClassOf(j)>> = <<ClassOf(a), ClassOf(b)>> \/ \A k \in 1..NObj : IsLeaf(objs[k]))
\* in_ is membership under the law: what is expected of in_ is what EqC says when nothing is left free
InLaw == sess => \A i \in 1..NObj : LET w == InWant(i) IN
                    Len(w) = 1 => (w[1] = "T") = (\E k \in 1..NObj : k # i /\ EqC(objs[i], objs[k]))
=============================================================================
