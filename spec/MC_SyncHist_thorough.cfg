CONSTANTS Depth = 4
 MaxObjs = 3
INIT Init
NEXT Next
INVARIANT PolicyKept
INVARIANT ObjectsAreHistory
INVARIANT InForceLaw
INVARIANT DeriveLaw
