CONSTANTS Depth = 4
 MaxObjs = 2
INIT Init
NEXT Next
INVARIANT PolicyKept
INVARIANT ObjectsAreHistory
INVARIANT InForceLaw
INVARIANT DeriveLaw
