\* S2C generator (thorough): every free history of 3 steps
CONSTANTS Variant = "code"
          MaxSteps = 3
          MaxLen = 4
          Shape = "free"
          Scope = "quick"
          Emitting = TRUE
INIT Init
NEXT Next
INVARIANT ArgumentsUntouched
INVARIANT ResultIsLaw
INVARIANT NoMemory
INVARIANT SpellingIrrelevant
INVARIANT RealisationIrrelevant
INVARIANT ListIsCompound
