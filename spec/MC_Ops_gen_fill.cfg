\* S2C: the pairs of series (and series x scalar) under every fill method
CONSTANTS NS = 2
 NT = 0
 NF = 0
 Fill = TRUE
INIT InitGen
NEXT EvalGen
