------------------------------- MODULE MC_Text -------------------------------
(* X08-a on the specification, and the source of its S2C replay.  One behaviour  c --Eval--> done  per   *)
(* case of the universe; the invariants are the laws of the statement (one per clause), each looking at  *)
(* the cases of its own operation; the generator configuration prints every case of the domain with the  *)
(* SET of outcomes the specification admits.                                                              *)
EXTENDS TextNum, TLC, Json, SequencesExt, FiniteSetsExt
CONSTANTS Strata,        \* which parts of the universe: subset of {"prefix", "sep", "replace", "split", "chars", "bbg", "num", "misc"}
          NumLen         \* as_float: every string of at most NumLen characters over the 13 character alphabet
VARIABLES c, done      \* one case of the universe; the laws are looked at in the successor state (done), where the workers share them
vars == <<c, done>>

SeqsUpTo(S, n) == UNION {[1..k -> S] : k \in 0..n}
AB1 == SeqsUpTo({97, 98}, 1)
AB2 == SeqsUpTo({97, 98}, 2)
AB3 == SeqsUpTo({97, 98}, 3)
AB4 == SeqsUpTo({97, 98}, 4)
ABU3 == SeqsUpTo({97, 98, 95}, 3)

PrefixTuples == {<<>>} \cup {<<a>> : a \in AB3} \cup {<<a, b>> : a \in AB3, b \in AB3} \cup {<<a, b, d>> : a \in AB2, b \in AB2, d \in AB2}
IntTuples    == {<<a, b>> : a \in SeqsUpTo({1, 2}, 2), b \in SeqsUpTo({1, 2}, 2)}
PrefixCases ==
    {[op |-> "common_prefix", vs |-> vs, form |-> f, elem |-> "s"] : vs \in PrefixTuples, f \in {"args", "list"}}
    \cup {[op |-> "common_prefix", vs |-> vs, form |-> "args", elem |-> "li"] : vs \in IntTuples}
    \cup {[op |-> "deprefix", vs |-> vs, form |-> f, sep |-> <<>>] : vs \in PrefixTuples, f \in {"args", "list"}}
SepTuples == {<<>>} \cup {<<a>> : a \in ABU3} \cup {<<a, b>> : a \in ABU3, b \in ABU3}
SepCases == {[op |-> "deprefix", vs |-> vs, form |-> "args", sep |-> x] : vs \in SepTuples, x \in {<<95>>, <<97>>}}
            \cup {[op |-> "deprefix", vs |-> <<a, b>>, form |-> "list", sep |-> <<95, 95>>] : a \in {<<97, 95, 95, 98>>, <<97, 95, 98>>, <<97, 95, 95>>}, b \in ABU3}

Olds1 == AB2
Olds2 == {<<a, b>> : a \in AB2 \ {<<>>}, b \in AB2 \ {<<>>}}
ReplaceCases ==
    {[op |-> "replace", x |-> TStr(s), olds |-> <<o>>, oldform |-> "str", new |-> n] : s \in AB4, o \in Olds1, n \in AB2}
    \cup {[op |-> "replace", x |-> TStr(s), olds |-> os, oldform |-> "list", new |-> n] : s \in AB4, os \in Olds2, n \in {<<>>, <<97>>, <<98>>, <<97, 98>>}}
    \cup {[op |-> "replace", x |-> x, olds |-> <<<<97>>>>, oldform |-> "str", new |-> <<>>] : x \in {TInt(5), TNone}}

SplitTexts == SeqsUpTo({97, 32, 46}, 4)
SepMenu == {<<"default", <<>>>>, <<"str", <<<<32>>>>>>, <<"list", <<<<32>>>>>>, <<"list", <<>>>>, <<"list", <<<<32>>, <<46>>>>>>, <<"list", <<<<46>>, <<32>>>>>>,
            <<"tuple", <<<<32>>, <<46>>>>>>, <<"str", <<<<46, 46>>>>>>, <<"str", <<<<97>>>>>>}
SplitCases == {[op |-> "split", x |-> TStr(s), sepform |-> m[1], seps |-> m[2], dedup |-> d] : s \in SplitTexts, m \in SepMenu, d \in BOOLEAN}
              \cup {[op |-> "split", x |-> x, sepform |-> "default", seps |-> <<>>, dedup |-> FALSE] : x \in {TInt(5), TNone}}

CharTexts == SeqsUpTo({97, 66, 32, 46, 47, 92, 201, 95, 9}, 3)
CharOps == {"as_ascii", "capitalize", "relabel_lower", "lower", "upper", "proper", "strip"}
CharCases == {[op |-> o, x |-> TStr(s)] : o \in CharOps, s \in CharTexts}
             \cup {[op |-> o, x |-> x] : o \in CharOps \cup {"bbgcase"}, x \in {TInt(5), TNone}}

Vocab == {<<115, 112, 120>>, <<99, 109, 111, 110>>, <<105, 110, 100, 101, 120>>, <<73, 110, 68, 101, 120>>, <<99, 111, 109, 100, 116, 121>>, <<49>>, <<60, 103, 111, 62>>, <<>>}
BbgTexts == {JoinWith(ws, <<32>>) : ws \in UNION {[1..k -> Vocab] : k \in 1..3}}
BbgCases == {[op |-> "bbgcase", x |-> TStr(s)] : s \in BbgTexts}

NumAlphabet == {48, 49, 57, 46, 44, 32, 45, 101, 37, 107, 109, 98, 112}
NumBodies == <<<<49>>, <<49, 50>>, <<49, 46, 53>>, <<48, 46, 50, 53>>, <<46, 53>>, <<53, 46>>, <<49, 101, 51>>, <<49, 69, 51>>, <<49, 101, 45, 55>>, <<49, 50, 101, 45, 57>>,
               <<49, 46, 53, 101, 43, 50>>, <<49, 44, 50, 51, 52>>, <<49, 32, 50, 51, 52, 46, 53>>, <<45, 49>>, <<43, 50>>, <<45, 49, 44, 50, 51, 52>>,
               <<49, 48, 44, 32, 51, 48, 52, 44, 32, 50, 48, 49, 32>>, <<49, 101>>, <<49, 46, 46, 53>>, <<40, 49, 41>>, <<40, 49, 44, 50, 51, 52, 41>>, <<49, 45>>, <<45, 45, 49>>, <<101, 53>>>>
Spell(w, how) == CASE how = "lower" -> w [] how = "upper" -> Upper(w) [] how = "cap" -> Capitalize(w)
NumBuilt == {NumBodies[i] \o gap \o Spell(Endings[k][1], how) : i \in DOMAIN NumBodies, k \in DOMAIN Endings, gap \in {<<>>, <<32>>}, how \in {"lower", "upper", "cap"}}
            \cup {NumBodies[i] : i \in DOMAIN NumBodies}
            \cup {Endings[k][1] : k \in DOMAIN Endings} \cup {Endings[k][1] \o Endings[j][1] : k, j \in {14, 15, 16, 17}}
NumCases == {[op |-> "as_float", x |-> TStr(s)] : s \in SeqsUpTo(NumAlphabet, NumLen) \cup NumBuilt}
            \cup {[op |-> "as_float", x |-> x] : x \in {TInt(5), TNone}}
F12Floats == {TFlt(n, d) : n \in -41..41, d \in {1, 8, 16}} \cup {TFlt(n, 64) : n \in {1, -1, 643, 6431, -6433, 99999, 63999}}
MiscCases == {[op |-> "alphabet"], [op |-> "ALPHABET"]}
             \cup {[op |-> "f12", x |-> x] : x \in F12Floats \cup {TInt(5), TNone, TStr(<<104, 105>>)}}

Want(x) == AllWant(x)
InDomain(x) == AllInDomain(x)

Universe == (IF "prefix" \in Strata THEN PrefixCases ELSE {}) \cup (IF "sep" \in Strata THEN SepCases ELSE {})
            \cup (IF "replace" \in Strata THEN ReplaceCases ELSE {}) \cup (IF "split" \in Strata THEN SplitCases ELSE {})
            \cup (IF "chars" \in Strata THEN CharCases ELSE {}) \cup (IF "bbg" \in Strata THEN BbgCases ELSE {})
            \cup (IF "num" \in Strata THEN NumCases ELSE {}) \cup (IF "misc" \in Strata THEN MiscCases ELSE {})

Init == c \in Universe /\ done = FALSE
Eval == done = FALSE /\ done' = TRUE /\ UNCHANGED c
EvalGen == /\ Eval
           /\ IF InDomain(c) THEN PrintT(ToJson([case |-> c, want |-> SetToSeq(Want(c)), tags |-> Tags(c)])) ELSE TRUE

\* ---------------------------------------------------------------------------------------------------------
\* the laws
Is(o) == done /\ c.op = o
TxPrefixes(s) == {TxTake(s, n) : n \in 0..Len(s)}
\* the common prefix is the greatest lower bound of the values in the prefix order; the loop of the code finds it
MeetIsGLB == (Is("common_prefix") /\ c.vs # <<>>) =>
                LET p == CommonPre(c.vs) IN
                /\ \A i \in DOMAIN c.vs : IsPre(p, c.vs[i])
                /\ \A q \in TxPrefixes(c.vs[1]) : (\A i \in DOMAIN c.vs : IsPre(q, c.vs[i])) => IsPre(q, p)
                /\ MechCommon(c.vs) = p
\* the meet is idempotent, commutative and associative
MeetAlgebra == (Is("common_prefix") /\ c.vs # <<>>) =>
                /\ CommonPre(<<c.vs[1], c.vs[1]>>) = c.vs[1]
                /\ CommonPre(Reverse(c.vs)) = CommonPre(c.vs)
                /\ Len(c.vs) >= 2 => CommonPre(<<CommonPre(TxTake(c.vs, Len(c.vs) - 1)), c.vs[Len(c.vs)]>>) = CommonPre(c.vs)
\* deprefix o common_prefix: prefix + remainder = value; the remainders have nothing in common any more
DeprefixLaws == (Is("deprefix") /\ c.sep = <<>> /\ c.vs # <<>>) =>
                LET r == Deprefix(c.vs) IN
                /\ Len(r) = Len(c.vs)
                /\ \A i \in DOMAIN c.vs : CommonPre(c.vs) \o r[i] = c.vs[i]
                /\ CommonPre(r) = <<>>
                /\ Deprefix(r) = r
\* with a separator only whole words go: every remainder is a suffix that starts at a word boundary, never shorter than
\* without the separator, one remainder per value, and the word lists that are left have no first word in common
DeprefixSepLaws == (Is("deprefix") /\ c.sep # <<>> /\ c.vs # <<>>) =>
                LET r == DeprefixSep(c.vs, c.sep)  r0 == Deprefix(c.vs) IN
                /\ Len(r) = Len(c.vs)
                /\ \A i \in DOMAIN c.vs : /\ IsSuf(r[i], c.vs[i])
                                         /\ Len(r[i]) + Len(c.sep) >= Len(r0[i])
                                         /\ LET cut == TxTake(c.vs[i], Len(c.vs[i]) - Len(r[i])) IN cut = <<>> \/ IsSuf(c.sep, cut) \/ r[i] = <<>>
                /\ LET ws == [i \in DOMAIN c.vs |-> SplitOn(c.vs[i], c.sep)]  n == CommonLen(ws)
                       rest == [i \in DOMAIN c.vs |-> TxDrop(ws[i], n)] IN
                   /\ \A i \in DOMAIN c.vs : ws[i] = TxTake(ws[1], n) \o rest[i] /\ r[i] = JoinWith(rest[i], c.sep)
                   /\ (\E i \in DOMAIN c.vs : rest[i] = <<>>) \/ CommonLen(rest) = 0
\* split and join are inverse; no word holds the separator
SplitJoin == (Is("split") /\ IsStrV(c.x) /\ Len(c.seps) = 1) =>
                LET ws == SplitOn(c.x[2], c.seps[1]) IN
                /\ JoinWith(ws, c.seps[1]) = c.x[2]
                /\ \A i \in DOMAIN ws : ~Occurs(ws[i], c.seps[1])
                /\ SplitOn(JoinWith(ws, c.seps[1]), c.seps[1]) = ws
\* the way the code goes about several separators gives the words of the law; dedup = the non-empty words
SplitMechIsLaw == (Is("split") /\ IsStrV(c.x) /\ c.seps # <<>> /\ InDomain(c)) => SplitMech(c.x[2], c.seps, c.dedup) = SplitLaw(c.x[2], c.seps, c.dedup)
DedupLaw == (Is("split") /\ IsStrV(c.x) /\ InDomain(c)) =>
                LET ws == SplitLaw(c.x[2], c.seps, TRUE) IN
                /\ ws = NonEmpty(SplitLaw(c.x[2], c.seps, FALSE))
                /\ TxFlat(ws) = TxFlat(SplitLaw(c.x[2], c.seps, FALSE))
\* replace goes on until nothing is left to replace: the result is a fixpoint, free of the old text
ReplaceFixpoint == (Is("replace") /\ IsStrV(c.x) /\ ~Refused(c.olds, c.new) /\ InDomain(c)) =>
                LET r == ReplaceList(c.x[2], c.olds, c.new)  last == c.olds[Len(c.olds)] IN
                /\ ~Occurs(r, last)
                /\ Len(c.olds) = 1 => (TxReplaceAll(r, last, c.new) = r /\ (~Occurs(c.x[2], last) => r = c.x[2]))
\* the refusal is exactly the case that could never end on a text holding the old one
RefusalJustified == (Is("replace") /\ IsStrV(c.x) /\ Len(c.olds) = 1 /\ c.olds[1] # <<>>) =>
                (Refused(c.olds, c.new) => Occurs(ReplaceOnce(c.olds[1], c.olds[1], c.new), c.olds[1]))
CharMapLaws == (done /\ c.op \in CharOps /\ IsStrV(c.x)) =>
                LET s == c.x[2] IN
                /\ Lower(Upper(Lower(s))) = Lower(s) /\ Upper(Lower(Upper(s))) = Upper(s)
                /\ Capitalize(Capitalize(s)) = Capitalize(s) /\ Lower(Capitalize(s)) = Lower(s)
                /\ AsAscii(AsAscii(s)) = AsAscii(s) /\ (\A i \in DOMAIN AsAscii(s) : AsAscii(s)[i] < 128)
                /\ Len(AsAscii(s)) = Cardinality({i \in DOMAIN s : s[i] < 128 /\ ~IsControl(s[i])})
                /\ (\A i \in DOMAIN s : s[i] \notin {9, 10, 11, 12, 13}) => RelabelLower(RelabelLower(s)) = RelabelLower(s)    \* (a tab laid bare by the dropped punctuation goes in the second round)
                /\ \A i \in DOMAIN RelabelLower(s) : LET k == RelabelLower(s)[i] IN k \notin Punct /\ k \notin ToUnder /\ ~IsUpperC(k)
\* proper and strip: idempotent; proper changes case only; strip cuts blanks at both ends and nothing else
WordLaws == (done /\ c.op \in {"proper", "strip"} /\ IsStrV(c.x)) =>
                LET s == c.x[2] IN
                /\ Proper(Proper(s)) = Proper(s) /\ Lower(Proper(s)) = Lower(s) /\ Len(Proper(s)) = Len(s)
                /\ Strip(Strip(s)) = Strip(s) /\ Occurs(s, Strip(s))
                /\ Strip(s) = <<>> \/ (~IsSpaceC(Strip(s)[1]) /\ ~IsSpaceC(Strip(s)[Len(Strip(s))]))
                /\ SelectSeq(s, LAMBDA k : ~IsSpaceC(k)) = SelectSeq(Strip(s), LAMBDA k : ~IsSpaceC(k))
\* f12: two decimals, within half a hundredth of the number
RECURSIVE TxNat(_)
TxNat(ds) == IF ds = <<>> THEN 0 ELSE 10 * TxNat(TxTake(ds, Len(ds) - 1)) + (ds[Len(ds)] - 48)
F12Nearest == (Is("f12") /\ c.x[1] = "f") =>
                LET n == c.x[2][1]  d == c.x[2][2]  t == F12(n, d)  u == IF t[1] = 45 THEN Tail(t) ELSE t
                    h == TxNat(SelectSeq(u, LAMBDA k : k # 46))  a == IF n < 0 THEN -n ELSE n
                    diff == IF h * d >= a * 100 THEN h * d - a * 100 ELSE a * 100 - h * d IN
                /\ u[Len(u) - 2] = 46 /\ (t[1] = 45) = (n < 0)
                /\ 2 * diff <= d
BbgLaws == (Is("bbgcase") /\ IsStrV(c.x) /\ InDomain(c)) =>
                LET s == c.x[2] IN BbgCase(BbgCase(s)) = BbgCase(s) /\ Upper(BbgCase(s)) = Upper(s) /\ BbgCase(Upper(s)) = BbgCase(s)
\* as_float: the table of endings is consistent (first fit = longest fit), blanks and commas never matter, a leading
\* minus negates, a percent sign divides by 100, exactly one outcome for a number
IsNumOut(w) == w.kind = "val" /\ w.v[1] = "num"
NumOf(s) == LET w == AsFloatWant(TStr(s)) IN IF Cardinality(w) = 1 /\ \A x \in w : IsNumOut(x) THEN (CHOOSE x \in w : TRUE).v[2] ELSE <<"none">>
Insert(s, i, ch) == TxTake(s, i) \o <<ch>> \o TxDrop(s, i)
EndingsConsistent == (Is("as_float") /\ IsStrV(c.x)) => EndingOf(Clean(c.x[2])) = FirstEndingOf(Clean(c.x[2]))
BlanksAndCommas == (Is("as_float") /\ IsStrV(c.x) /\ NumInDomain(c.x) /\ Len(c.x[2]) <= NumLen) =>
                \A i \in 0..Len(c.x[2]) : \A ch \in {32, 44} : NumOf(Insert(c.x[2], i, ch)) = NumOf(c.x[2])
SignAndPercent == (Is("as_float") /\ IsStrV(c.x) /\ NumInDomain(c.x) /\ NumOf(c.x[2]) # <<"none">>) =>
                LET s == c.x[2]  v == NumOf(s) IN
                /\ (IsDigit(Clean(s)[1]) \/ Clean(s)[1] = 46) => NumOf(<<45>> \o s) = Norm(-v[1], v[2])
                /\ IsDigit(Clean(s)[Len(Clean(s))]) => NumOf(s \o <<37>>) = Norm(v[1], v[2] - 2)
OneReading == (Is("as_float") /\ NumInDomain(c.x)) =>
                /\ Want(c) # {}
                /\ (\E w \in Want(c) : IsNumOut(w)) => Cardinality(Want(c)) = 1
=============================================================================
