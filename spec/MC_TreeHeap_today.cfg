CONSTANTS Deep = FALSE
          Size = "tiny"
INIT Init
NEXT Next
INVARIANT ResultIsMerge
INVARIANT OperandsIntact
