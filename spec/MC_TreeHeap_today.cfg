CONSTANTS Deep = FALSE
          Walk = "unfold"
          Size = "tiny"
INIT Init
NEXT Next
INVARIANT ResultIsMerge
INVARIANT OperandsIntactAtReturn
INVARIANT UnfoldedLaws
