CONSTANTS MaxLen = 4
          MaxLenX = 3
INIT Init
NEXT NextGen
