CONSTANTS MaxLen = 4
          MaxLenX = 3
          Kinds2 = {"req", "opt", "kwreq", "kwopt"}
          Kinds3 = {"req", "opt", "kwreq", "kwopt"}
          Kinds4 = {"req", "opt"}
          PathPolicy = "alongpath"
          MaxE4 = 4
INIT Init
NEXT NextGen
