\* S2C generator (thorough): scripts of family real
CONSTANTS Variant = "code"
          MaxCalls = 2
          Scope = "thorough"
          Family = "real"
INIT InitScript
NEXT NextScript
