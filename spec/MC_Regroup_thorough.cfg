CONSTANTS MaxRows = 2
          Wide = TRUE
INIT Init
NEXT Next
INVARIANT ListbyLaw
INVARIANT UnlistLaw
INVARIANT UnlistIsSort
INVARIANT SizesAddUp
