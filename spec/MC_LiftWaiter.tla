---------------------------- MODULE MC_LiftWaiter ----------------------------
(* Property C19, schedule part, on the specification: the waiter machine of LiftWaiter over a  *)
(* menu of structures with up to 6 awaitables (futures, coroutines, tasks; at the root, in     *)
(* lists, tuples and dicts to depth 4; one future placed twice) and over every enumerated      *)
(* shape of depth <= 2 with awaitable leaves.  The awaitables come in every realisation kind   *)
(* of Lift.tla (plain objects with __await__ of four makes, gather / shield futures, finished  *)
(* futures, never-suspending objects and coroutines), alone, mixed in one structure with each  *)
(* other and with the non-awaitable look-alikes, rotated over every position of every shape    *)
(* (menus "awx" / "awlook" of LiftShapes), placed twice, and inter-dependent.                   *)
(* All completion orders are explored (n = 6: 64                                               *)
(* sets of completed awaitables, 720 maximal behaviours); the generator configurations carry   *)
(* the order in `hist` and print, when waiter returns, the schedule and the value returned.    *)
EXTENDS LiftShapes, LiftWaiter, Json, SequencesExt, FiniteSetsExt
CONSTANTS Menu          \* "quick" / "thorough" / "deps"

\* results: lists, None, strings and equal values for different awaitables are among them
ValOf(i) == CASE i % 5 = 0 -> VLst(<<VInt(i)>>)
              [] i % 5 = 1 -> VInt(10 * i)
              [] i % 5 = 2 -> VStr("x")
              [] i % 5 = 3 -> None
              [] i % 5 = 4 -> VTup(<<VInt(10), VLst(<<>>)>>)
Vals == [i \in 0..400 |-> ValOf(i)]

F1 == Aw(1, "fut")   C2 == Aw(2, "coro")   T3 == Aw(3, "task")
F4 == Aw(4, "fut")   C5 == Aw(5, "coro")   T6 == Aw(6, "task")
M(pairs) == <<"m", pairs>>
Explicit ==
  { VLst(<<VInt(1), M(<< <<"a", VInt(2)>> >>)>>),                                         \* nothing to wait for
    F1, Aw(1, "coro"), Aw(1, "task"),                                                        \* a bare awaitable
    VTup(<<F1, C2, T3>>),
    M(<< <<"a", F1>>, <<"b", VTup(<<T3, VLst(<<C2, VInt(5)>>)>>)>>, <<"c", F4>> >>),
    VLst(<<F1, C2, T3, F4, C5, T6>>),                                                        \* 6 in a flat list
    VLst(<<F1, VTup(<<C2, M(<< <<"a", T3>>, <<"b", VLst(<<F4, VInt(5)>>)>> >>)>>), M(<< <<"k", C5>> >>), T6>>),
    VLst(<<VLst(<<VLst(<<VTup(<<F1, C2>>)>>), T3>>), M(<< <<"a", M(<< <<"b", VTup(<<F4, C5>>)>> >>)>> >>), T6>>),   \* depth 4
    VLst(<<F1, M(<< <<"a", F1>>, <<"b", T3>> >>), VTup(<<T3>>), F4>>) }                   \* one future / task placed twice
More ==
  { M(<< <<"a", F1>>, <<"b", C2>>, <<"c", T3>>, <<"d", F4>>, <<"e", C5>>, <<"f", T6>> >>),
    VTup(<<VTup(<<F1, C2, T3>>), VTup(<<F4, C5, T6>>)>>),
    VLst(<<M(<< <<"a", VLst(<<F1, VTup(<<C2>>)>>)>>, <<"b", T3>> >>), VInt(0), VTup(<<F4, VLst(<<VLst(<<C5, T6>>)>>)>>)>>),
    M(<< <<"p", M(<< <<"q", M(<< <<"r", M(<< <<"s", F1>>, <<"t", C2>> >>)>>, <<"u", T3>> >>)>>, <<"v", F4>> >>)>>, <<"w", VLst(<<C5, T6>>)>> >>) }
\* inter-dependent coroutines: every coroutine can only finish after the next (previous) coroutine -
\* in id order, i.e. a later (earlier) sibling or cousin - has been started
Next_(S, i) == IF \E j \in S : j > i THEN CHOOSE j \in S : j > i /\ \A k \in S : k > i => j <= k ELSE 0
Prev_(S, i) == IF \E j \in S : j < i THEN CHOOSE j \in S : j < i /\ \A k \in S : k < i => j >= k ELSE 0
DepNext(t) == SetDep(t, [i \in DepIds(t) |-> Next_(DepIds(t), i)])
DepPrev(t) == SetDep(t, [i \in DepIds(t) |-> Prev_(DepIds(t), i)])
WithDeps(S) == {DepNext(t) : t \in S} \cup {DepPrev(t) : t \in S}
Coros ==
  { M(<< <<"a", Aw(1, "coro")>>, <<"b", Aw(2, "coro")>>, <<"c", Aw(3, "coro")>> >>),
    VLst(<<Aw(1, "coro"), Aw(2, "coro"), Aw(3, "coro")>>),
    M(<< <<"a", Aw(1, "coro")>>, <<"b", VLst(<<Aw(2, "coro"), F4>>)>>, <<"c", M(<< <<"x", Aw(3, "coro")>>, <<"y", Aw(5, "coro")>> >>)>> >>),
    VLst(<<M(<< <<"a", Aw(1, "coro")>>, <<"b", VFlt(3, 2)>> >>), M(<< <<"a", Aw(2, "coro")>>, <<"b", Aw(3, "coro")>> >>)>>),
    M(<< <<"a", Aw(1, "coro")>>, <<"b", Aw(2, "coro")>>, <<"c", Aw(3, "coro")>>, <<"d", Aw(4, "coro")>>, <<"e", Aw(5, "coro")>>, <<"f", Aw(6, "coro")>> >>) }
\* --- every kind of awaitable ---------------------------------------------------------------------
ModernKinds == AllAwKinds \ LegacyKinds
KindsAlone ==                                                   \* one awaitable / look-alike: bare, in a list, a tuple, a dict
  UNION {{Aw(1, k), VLst(<<Aw(1, k)>>), VTup(<<VInt(0), Aw(1, k)>>), M(<< <<"a", Aw(1, k)>>, <<"b", VInt(2)>> >>)} : k \in ModernKinds}
  \cup UNION {{Look(1, k), VLst(<<Look(1, k), VInt(3)>>), M(<< <<"a", VTup(<<Look(1, k)>>)>> >>)} : k \in LookKinds}
KindsMixed ==
  { VLst(<<Aw(1, "obj"), Aw(2, "coro"), Aw(3, "fut"), Aw(4, "objnow"), Look(7, "gen"), Aw(5, "objfut"), Aw(6, "task")>>),
    \* plain awaitable objects next to a coroutine and a task, dict / list / tuple / dict
    M(<< <<"a", VLst(<<Aw(1, "obj"), VInt(1)>>)>>, <<"b", VTup(<<Aw(2, "coro"), M(<< <<"c", Aw(3, "obj")>> >>)>>)>>, <<"d", Aw(4, "task")>> >>),
    M(<< <<"a", Aw(1, "objcoro")>>, <<"b", VTup(<<Aw(2, "objobj"), M(<< <<"c", Aw(3, "gather")>>, <<"d", Look(8, "cls")>> >>)>>)>>,
         <<"e", VLst(<<Aw(4, "shield"), Aw(5, "done"), Look(9, "afn")>>)>>, <<"f", Aw(6, "coronow")>> >>),
    \* one awaitable object / one finished future placed twice
    VLst(<<Aw(1, "obj"), VTup(<<Aw(1, "obj"), Aw(2, "objfut")>>), M(<< <<"k", Aw(2, "objfut")>> >>), Aw(3, "done"), VTup(<<Aw(3, "done")>>)>>),
    \* nothing to wait for: look-alikes only / everything complete beforehand
    VLst(<<Look(1, "gen"), Look(2, "agen"), M(<< <<"a", Look(3, "afn")>>, <<"b", Look(4, "cls")>> >>), VTup(<<Look(5, "inst"), Look(6, "attr")>>)>>),
    VTup(<<Aw(1, "objnow"), Aw(2, "done"), Aw(3, "coronow"), Look(4, "inst")>>),
    \* depth 4
    VLst(<<VLst(<<VLst(<<VTup(<<Aw(1, "obj"), Aw(2, "objnow")>>)>>), Aw(3, "gather")>>),
           M(<< <<"a", M(<< <<"b", VTup(<<Aw(4, "objcoro"), Look(7, "attr")>>)>> >>)>> >>), Aw(5, "shield")>>) }
KindsMore ==
  { VLst(<<Aw(1, "obj"), Aw(2, "objfut"), Aw(3, "objcoro"), Aw(4, "objobj"), Aw(5, "gather"), Aw(6, "shield")>>),
    M(<< <<"a", Aw(1, "objobj")>>, <<"b", Aw(2, "obj")>>, <<"c", Aw(3, "fut")>>, <<"d", Aw(4, "objfut")>>, <<"e", Aw(5, "coro")>>, <<"f", Aw(6, "obj")>>,
         <<"g", Aw(7, "objnow")>>, <<"h", Look(8, "gen")>> >>),
    VTup(<<VTup(<<Aw(1, "obj"), Aw(2, "task"), Aw(3, "objcoro")>>), M(<< <<"x", Aw(4, "done")>>, <<"y", VLst(<<Aw(5, "objfut"), Aw(6, "coro"), Aw(7, "obj")>>)>> >>)>>) }
\* inter-dependent awaitables of the kinds that can wait: objects, coroutines, objects around coroutines / objects
CorosX ==
  { M(<< <<"a", Aw(1, "obj")>>, <<"b", Aw(2, "coro")>>, <<"c", Aw(3, "objcoro")>> >>),
    VLst(<<Aw(1, "objobj"), Aw(2, "obj"), Aw(3, "obj")>>),
    M(<< <<"a", Aw(1, "obj")>>, <<"b", VLst(<<Aw(2, "objcoro"), Aw(4, "objfut")>>)>>, <<"c", M(<< <<"x", Aw(3, "coro")>>, <<"y", Aw(5, "objobj")>> >>)>> >>),
    VTup(<<M(<< <<"a", Aw(1, "obj")>>, <<"b", Look(9, "gen")>> >>), M(<< <<"a", Aw(2, "obj")>>, <<"b", Aw(3, "objobj")>> >>)>>) }
\* the legacy kind (generator-based coroutines): see LegacyKinds in Lift.tla; the driver keeps the
\* schedules of these structures apart (family "gencoro")
LegacyTrees ==
  { Aw(1, "gencoro"), VLst(<<Aw(1, "gencoro"), Aw(2, "fut")>>),
    M(<< <<"a", Aw(1, "gencoro")>>, <<"b", VTup(<<Aw(2, "gencoro"), Aw(3, "coro")>>)>> >>) }
GeneratedB(d, w, menu, base) == {Build(s, menu, base, 0) : s \in Shapes(d, w)}
KindsQuick == KindsAlone \cup KindsMixed \cup {Ord(t) : t \in KindsMixed} \cup WithDeps(CorosX)
              \cup GeneratedB(2, 2, "awx", 1) \cup GeneratedB(2, 2, "awx", 7) \cup GeneratedB(2, 2, "awlook", 4)
              \cup UNION {GeneratedB(1, 3, "awx", b) : b \in {0, 3, 6, 9}}
KindsThorough == KindsAlone \cup KindsMixed \cup KindsMore \cup {Ord(t) : t \in KindsMixed \cup KindsMore} \cup WithDeps(CorosX \cup KindsMixed \cup KindsMore)
              \cup UNION {GeneratedB(2, 2, "awx", b) : b \in 0..11} \cup UNION {GeneratedB(2, 2, "awlook", b) : b \in 0..5}
              \cup UNION {GeneratedB(1, 3, "awx", b) : b \in 0..11}
              \cup UNION {{Build(s, "awx", b, 0) : s \in Spine(3) \cup Chain(3)} : b \in {0, 4, 8}}

Generated(d, w, menu) == {Build(s, menu, 1, 0) : s \in Shapes(d, w)}
SpineTrees(d) == {Build(s, "aw", 1, 0) : s \in Spine(d) \cup Chain(d)}

TreeMenu == IF Menu = "quick" THEN KindsQuick \cup LegacyTrees \cup {Ord(t) : t \in Coros} \cup Explicit \cup Generated(2, 2, "aw") \cup Generated(1, 3, "awmix")
                                   \cup WithDeps(Coros \cup Generated(2, 2, "co")) \cup {DepNext(t) : t \in Explicit}
            ELSE IF Menu = "deps" THEN WithDeps(Coros)
            ELSE KindsThorough \cup LegacyTrees \cup WithDeps(LegacyTrees) \cup WithDeps(Explicit \cup More \cup Coros \cup Generated(2, 2, "co") \cup Generated(2, 2, "aw") \cup Generated(1, 3, "co")) \cup {Ord(t) : t \in Coros \cup Explicit \cup More} \cup Explicit \cup More \cup Generated(2, 2, "aw") \cup Generated(2, 2, "awmix") \cup Generated(1, 3, "aw") \cup SpineTrees(3)
                 \cup {Build(s, "awmix", 1, 0) : s \in Spine(4) \cup Uniform(3)}                \* depth 4 / 8 leaves, 2-4 awaitables

\* generator: the step by which waiter returns prints the schedule and the value returned
ReturnGen == Return /\ PrintT(ToJson([tree |-> tree, order |-> hist, out |-> cur,
                                      \* is the call back? before each completion no, after the last one yes
                                      done |-> [k \in 1..(Len(hist) + 1) |-> k = Len(hist) + 1],
                                      \* the awaitables that only run once awaited and are running once waiter has been called: all of them
                                      started |-> SetToSortSeq(LazyIds(tree), LAMBDA a, b : a < b),
                                      vals |-> [i \in 1..Cardinality(AwIds(tree)) |->
                                                  LET id == SetToSeq(AwIds(tree))[i] IN <<id, V[id]>>]]))
NextGen == Start \/ (\E i \in AwIds(tree) : CompleteH(i)) \/ ReturnGen
=============================================================================
