---------------------------- MODULE MC_LiftWaiter ----------------------------
(* Property C19, schedule part, on the specification: the waiter machine of LiftWaiter over a  *)
(* menu of structures with up to 6 awaitables (futures, coroutines, tasks; at the root, in     *)
(* lists, tuples and dicts to depth 4; one future placed twice) and over every enumerated      *)
(* shape of depth <= 2 with awaitable leaves.  All completion orders are explored (n = 6: 64   *)
(* sets of completed awaitables, 720 maximal behaviours); the generator configurations carry   *)
(* the order in `hist` and print, when waiter returns, the schedule and the value returned.    *)
EXTENDS LiftShapes, LiftWaiter, Json, SequencesExt, FiniteSetsExt
CONSTANTS Menu          \* "quick" / "thorough" / "deps"

\* results: lists, None, strings and equal values for different awaitables are among them
ValOf(i) == CASE i % 5 = 0 -> VLst(<<VInt(i)>>)
              [] i % 5 = 1 -> VInt(10 * i)
              [] i % 5 = 2 -> VStr("x")
              [] i % 5 = 3 -> None
              [] i % 5 = 4 -> VTup(<<VInt(10), VLst(<<>>)>>)
Vals == [i \in 0..400 |-> ValOf(i)]

F1 == Aw(1, "fut")   C2 == Aw(2, "coro")   T3 == Aw(3, "task")
F4 == Aw(4, "fut")   C5 == Aw(5, "coro")   T6 == Aw(6, "task")
M(pairs) == <<"m", pairs>>
Explicit ==
  { VLst(<<VInt(1), M(<< <<"a", VInt(2)>> >>)>>),                                         \* nothing to wait for
    F1, Aw(1, "coro"), Aw(1, "task"),                                                        \* a bare awaitable
    VTup(<<F1, C2, T3>>),
    M(<< <<"a", F1>>, <<"b", VTup(<<T3, VLst(<<C2, VInt(5)>>)>>)>>, <<"c", F4>> >>),
    VLst(<<F1, C2, T3, F4, C5, T6>>),                                                        \* 6 in a flat list
    VLst(<<F1, VTup(<<C2, M(<< <<"a", T3>>, <<"b", VLst(<<F4, VInt(5)>>)>> >>)>>), M(<< <<"k", C5>> >>), T6>>),
    VLst(<<VLst(<<VLst(<<VTup(<<F1, C2>>)>>), T3>>), M(<< <<"a", M(<< <<"b", VTup(<<F4, C5>>)>> >>)>> >>), T6>>),   \* depth 4
    VLst(<<F1, M(<< <<"a", F1>>, <<"b", T3>> >>), VTup(<<T3>>), F4>>) }                   \* one future / task placed twice
More ==
  { M(<< <<"a", F1>>, <<"b", C2>>, <<"c", T3>>, <<"d", F4>>, <<"e", C5>>, <<"f", T6>> >>),
    VTup(<<VTup(<<F1, C2, T3>>), VTup(<<F4, C5, T6>>)>>),
    VLst(<<M(<< <<"a", VLst(<<F1, VTup(<<C2>>)>>)>>, <<"b", T3>> >>), VInt(0), VTup(<<F4, VLst(<<VLst(<<C5, T6>>)>>)>>)>>),
    M(<< <<"p", M(<< <<"q", M(<< <<"r", M(<< <<"s", F1>>, <<"t", C2>> >>)>>, <<"u", T3>> >>)>>, <<"v", F4>> >>)>>, <<"w", VLst(<<C5, T6>>)>> >>) }
\* inter-dependent coroutines: every coroutine can only finish after the next (previous) coroutine -
\* in id order, i.e. a later (earlier) sibling or cousin - has been started
Next_(S, i) == IF \E j \in S : j > i THEN CHOOSE j \in S : j > i /\ \A k \in S : k > i => j <= k ELSE 0
Prev_(S, i) == IF \E j \in S : j < i THEN CHOOSE j \in S : j < i /\ \A k \in S : k < i => j >= k ELSE 0
DepNext(t) == SetDep(t, [i \in CoroIds(t) |-> Next_(CoroIds(t), i)])
DepPrev(t) == SetDep(t, [i \in CoroIds(t) |-> Prev_(CoroIds(t), i)])
WithDeps(S) == {DepNext(t) : t \in S} \cup {DepPrev(t) : t \in S}
Coros ==
  { M(<< <<"a", Aw(1, "coro")>>, <<"b", Aw(2, "coro")>>, <<"c", Aw(3, "coro")>> >>),
    VLst(<<Aw(1, "coro"), Aw(2, "coro"), Aw(3, "coro")>>),
    M(<< <<"a", Aw(1, "coro")>>, <<"b", VLst(<<Aw(2, "coro"), F4>>)>>, <<"c", M(<< <<"x", Aw(3, "coro")>>, <<"y", Aw(5, "coro")>> >>)>> >>),
    VLst(<<M(<< <<"a", Aw(1, "coro")>>, <<"b", VFlt(3, 2)>> >>), M(<< <<"a", Aw(2, "coro")>>, <<"b", Aw(3, "coro")>> >>)>>),
    M(<< <<"a", Aw(1, "coro")>>, <<"b", Aw(2, "coro")>>, <<"c", Aw(3, "coro")>>, <<"d", Aw(4, "coro")>>, <<"e", Aw(5, "coro")>>, <<"f", Aw(6, "coro")>> >>) }
Generated(d, w, menu) == {Build(s, menu, 1, 0) : s \in Shapes(d, w)}
SpineTrees(d) == {Build(s, "aw", 1, 0) : s \in Spine(d) \cup Chain(d)}

TreeMenu == IF Menu = "quick" THEN {Ord(t) : t \in Coros} \cup Explicit \cup Generated(2, 2, "aw") \cup Generated(1, 3, "awmix")
                                   \cup WithDeps(Coros \cup Generated(2, 2, "co")) \cup {DepNext(t) : t \in Explicit}
            ELSE IF Menu = "deps" THEN WithDeps(Coros)
            ELSE WithDeps(Explicit \cup More \cup Coros \cup Generated(2, 2, "co") \cup Generated(2, 2, "aw") \cup Generated(1, 3, "co")) \cup {Ord(t) : t \in Coros \cup Explicit \cup More} \cup Explicit \cup More \cup Generated(2, 2, "aw") \cup Generated(2, 2, "awmix") \cup Generated(1, 3, "aw") \cup SpineTrees(3)
                 \cup {Build(s, "awmix", 1, 0) : s \in Spine(4) \cup Uniform(3)}                \* depth 4 / 8 leaves, 2-4 awaitables

\* generator: the step by which waiter returns prints the schedule and the value returned
ReturnGen == Return /\ PrintT(ToJson([tree |-> tree, order |-> hist, out |-> cur,
                                      \* is the call back? before each completion no, after the last one yes
                                      done |-> [k \in 1..(Len(hist) + 1) |-> k = Len(hist) + 1],
                                      \* the coroutines that are running once waiter has been called: all of them
                                      started |-> SetToSortSeq(CoroIds(tree), LAMBDA a, b : a < b),
                                      vals |-> [i \in 1..Cardinality(AwIds(tree)) |->
                                                  LET id == SetToSeq(AwIds(tree))[i] IN <<id, V[id]>>]]))
NextGen == Start \/ (\E i \in AwIds(tree) : CompleteH(i)) \/ ReturnGen
=============================================================================
