CONSTANTS MaxRows = 2
          MaxRowsY = 2
          MaxSteps = 1
          NKeys = 6
          Stride = 128
          Gen = TRUE
          Emit = "each"
          Variant = "plain"
INIT Init
NEXT Next
