CONSTANTS PathLen = 4
          Strata = {"path", "csv"}
INIT Init
NEXT EvalGen
