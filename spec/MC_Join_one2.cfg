CONSTANTS MaxRows = 2
          Shape = "one"
INIT Init
NEXT Next
INVARIANT LeftJoinDecomposition
INVARIANT Symmetric
INVARIANT ClassesOK
INVARIANT RowsOK
