CONSTANTS
 MaxLen = 5
 NStamps = 2
 Leaky = FALSE
 Depth = 4
INIT InitFold
NEXT EvalGen
INVARIANT FoldEnds
INVARIANT FoldCalls
INVARIANT DefaultOnlyIfEmpty
INVARIANT LeftNested
INVARIANT TsFoldIsReduce
INVARIANT IndexFoldIsJoint
