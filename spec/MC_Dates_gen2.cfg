CONSTANTS DayYears <- QuickYears
          OvfYears <- QuickOvfYears
          OvfD = 400
          GenYears = {1900, 1999, 2001, 2100, 2261, 2262, 2299}
          GenOvfYears = {2000}
INIT GenCasesInit
NEXT GenCasesNext
