--------------------------- MODULE PerdictableSess ---------------------------
(* Property C20 for a caller who KEEPS his objects: optional parameters, and sessions of calls.   *)
(*                                                                                               *)
(* The statement speaks of a CALL: what perdictable(f, on)(inputs, data, expiry) and              *)
(* join(inputs, on, defaults) return is a function of what the inputs hold at the moment of the   *)
(* call, and of nothing else.  A call therefore                                                   *)
(*   - has no memory: which calls were made before, on which tables, under which parameter names, *)
(*     does not matter;                                                                           *)
(*   - owns nothing of the caller: the tables (and the other argument objects) are the caller's;  *)
(*     he may update a column in place, derive a new table from an old one, hand one table in      *)
(*     under two parameter names, edit the table a call returned - and the next call sees the      *)
(*     values the tables hold THEN;                                                                *)
(*   - reads none of the optional parameters of perdictable as an input: output_is_input and       *)
(*     if_none decide what f is SHOWN / what happens to cached values that are None (there are     *)
(*     none in the quantifier's domain), include_inputs adds the inputs' columns to the rows;      *)
(*     which rows exist, their order, their values and which rows f is called for stay the law's.  *)
(* This module holds (1) the JSON shapes the driver and the generators exchange and their reading  *)
(* as configurations, (2) the optional parameters, (3) the verdict on one recorded call, (4) the    *)
(* session: a pool of caller-owned tables, the steps on it and the verdict on one recorded step.   *)
(* MC_PerdictableSess.tla enumerates sessions, Trace_Perdictable.tla judges recorded calls/steps.  *)
EXTENDS Perdictable

\* ---------------------------------------------------------------------------------------------
\* (1) JSON shapes: a table's rows are a sequence of [key, sp, v]
\* ---------------------------------------------------------------------------------------------
RowKeys(rows)   == {rows[n].key : n \in 1..Len(rows)}
UniqueKeys(rows)== Cardinality(RowKeys(rows)) = Len(rows)
MapOfRows(rows) == [k \in RowKeys(rows) |-> rows[CHOOSE n \in 1..Len(rows) : rows[n].key = k].v]
OptOf(x)        == IF x.kind = "absent" THEN <<>> ELSE IF x.kind = "scalar" THEN <<"scalar", x.v>> ELSE <<MapOfRows(x.rows)>>
SpellOfRows(rows) == [k \in RowKeys(rows) |-> rows[CHOOSE n \in 1..Len(rows) : rows[n].key = k].sp]
CfgOfJ(cj, today) ==
            [ins    |-> [i \in 1..Len(cj.ins) |-> [kind |-> cj.ins[i].kind, v |-> cj.ins[i].v, map |-> MapOfRows(cj.ins[i].rows)]],
             defs   |-> cj.defs,
             data   |-> OptOf(cj.data),
             expiry |-> OptOf(cj.expiry),
             today  |-> today,
             spell  |-> [t \in 1..(Len(cj.ins) + 2) |->
                            IF t <= Len(cj.ins) THEN SpellOfRows(cj.ins[t].rows)
                            ELSE IF t = Len(cj.ins) + 1 THEN SpellOfRows(cj.data.rows) ELSE SpellOfRows(cj.expiry.rows)]]
WellFormedJ(cj) == /\ \A i \in 1..Len(cj.ins) : UniqueKeys(cj.ins[i].rows)
                   /\ UniqueKeys(cj.data.rows) /\ UniqueKeys(cj.expiry.rows)
                   /\ Len(cj.defs) = Len(cj.ins)
AbsentJ == [kind |-> "absent", rows |-> <<>>, v |-> None]

\* ---------------------------------------------------------------------------------------------
\* (2) The optional parameters of perdictable: [oii, inc, ifnone]
\*   oii    output_is_input: "true" (the default) | "false" | "name" (a column name that is not the value column)
\*          | "names" (a list of such names) | "col" (a list holding the value column)
\*   inc    include_inputs: FALSE (the default) | TRUE
\*   ifnone if_none: "false" (the default) | "true" | "col" (a list holding the value column)
\* The law reads `inc` only (OptionsAreNotInputs): with include_inputs a row additionally carries the values of the
\* inputs at its key (columns "@1".."@n" between the key columns and the value column).
\* Named deviation IncludedExpiry: with include_inputs the joined `expiry` column comes along as well (role "expiry",
\* after the value column); its cells are not looked at.
\* ---------------------------------------------------------------------------------------------
OiiMenu    == {"true", "false", "name", "names", "col"}
IfNoneMenu == {"false", "true", "col"}
DefaultOpts == [oii |-> "true", inc |-> FALSE, ifnone |-> "false"]
InOptDomain(op) == op.oii \in OiiMenu /\ op.inc \in BOOLEAN /\ op.ifnone \in IfNoneMenu
InCols(c)  == [i \in 1..NIn(c) |-> "@" \o ToString(i)]
RunColsOpt(c, nk, op) == IF op.inc THEN KeyCols(nk) \o InCols(c) \o <<"#v", "expiry">> ELSE RunCols(nk)
RunRowsOpt(c, ks, op) == IF op.inc THEN [n \in 1..Len(ks) |-> [key |-> ks[n], vals |-> Args(c, ks[n]), v |-> RowValue(c, ks[n])]]
                         ELSE RunRowsIn(c, ks)
RunOutcomesOpt(c, nk, alpha, op) ==
    IF AllScalar(c) \/ JoinKeys(c) = {} THEN RunOutcomes(c, nk, alpha)
    ELSE {[kind |-> "table", cols |-> RunColsOpt(c, nk, op), rows |-> RunRowsOpt(c, ks, op)] : ks \in KeyOrders(JoinKeys(c), nk, alpha)}
\* a small covering menu for the generators: every value of every option, the non-default ones in combination
OptSeq == << [oii |-> "false", inc |-> FALSE, ifnone |-> "false"], [oii |-> "name",  inc |-> FALSE, ifnone |-> "true"],
             [oii |-> "names", inc |-> TRUE,  ifnone |-> "false"], [oii |-> "col",   inc |-> FALSE, ifnone |-> "col"],
             [oii |-> "true",  inc |-> TRUE,  ifnone |-> "true"],  [oii |-> "false", inc |-> TRUE,  ifnone |-> "col"],
             [oii |-> "true",  inc |-> FALSE, ifnone |-> "false"] >>

\* ---------------------------------------------------------------------------------------------
\* (3) The verdict on one recorded call: cj the configuration (JSON shape), out the projected result, calls the argument
\*     tuples the recording function received, same: the object returned is the very object passed as `data`
\* ---------------------------------------------------------------------------------------------
TableVerdict(cf, nk, alpha, out, cols, pre) ==
    IF out.kind = "empty" THEN pre \o "key_set"                 \* rows are expected, none came back
    ELSE IF out.kind # "table" THEN pre \o "not_a_table"
    ELSE IF out.cols # cols THEN pre \o "columns"
    ELSE IF RowKeys(out.rows) # JoinKeys(cf) THEN pre \o "key_set"
    ELSE IF ~UniqueKeys(out.rows) THEN pre \o "one_row_per_key"          \* the right keys, one of them more than once
    ELSE IF [n \in 1..Len(out.rows) |-> out.rows[n].key] \notin KeyOrders(JoinKeys(cf), nk, alpha) THEN pre \o "not_sorted_by_key"
    ELSE ""

RunVerdictJ(cj, today, alpha, op, out, calls, same) ==
    LET cf == CfgOfJ(cj, today)  nk == cj.nk  want == RunCalls(cf, nk)
        view == IF same THEN [kind |-> "data"] ELSE out IN     \* EmptyJoin: the supplied object itself, whatever it holds
    IF out.kind = "exc" THEN "raised"
    ELSE IF AllScalar(cf) THEN
         IF out \notin RunOutcomesOpt(cf, nk, alpha, op) THEN "scalar_result"
         ELSE IF calls # want THEN "scalar_calls" ELSE ""
    ELSE IF JoinKeys(cf) = {} THEN
         IF view \notin RunOutcomesOpt(cf, nk, alpha, op) THEN "empty_join"
         ELSE IF calls # <<>> THEN "extra_call" ELSE ""
    ELSE LET tv == TableVerdict(cf, nk, alpha, out, RunColsOpt(cf, nk, op), "") IN
         IF tv # "" THEN tv
         ELSE IF \E n \in 1..Len(out.rows) : CachedPast(cf, out.rows[n].key) /\ out.rows[n].v # cf.data[1][out.rows[n].key] THEN "kept_value"
         ELSE IF \E n \in 1..Len(out.rows) : ~CachedPast(cf, out.rows[n].key) /\ out.rows[n].v # F(Args(cf, out.rows[n].key)) THEN "computed_value"
         ELSE IF op.inc /\ \E n \in 1..Len(out.rows) : out.rows[n].vals # Args(cf, out.rows[n].key) THEN "included_inputs"
         ELSE IF out \notin RunOutcomesOpt(cf, nk, alpha, op) THEN "not_accepted"
         ELSE IF \E x \in Range(calls) : Count(calls, x) > Count(want, x) THEN "extra_call"
         ELSE IF \E x \in Range(want) : Count(calls, x) < Count(want, x) THEN "missing_call"
         ELSE IF ~SameBag(calls, want) THEN "calls" ELSE ""

JoinVerdictJ(cj, today, alpha, out) ==
    LET cf == CfgOfJ(cj, today)  nk == cj.nk IN
    IF out.kind = "exc" THEN "join_raised"
    ELSE IF JoinKeys(cf) = {} THEN (IF out \in JoinOutcomes(cf, nk, alpha) THEN "" ELSE "join_empty")
    ELSE LET tv == TableVerdict(cf, nk, alpha, out, JoinCols(cf, nk), "join_") IN
         IF tv # "" THEN tv
         ELSE IF \E n \in 1..Len(out.rows) : out.rows[n].vals # Args(cf, out.rows[n].key) THEN "join_values"
         ELSE IF out \notin JoinOutcomes(cf, nk, alpha) THEN "join_not_accepted" ELSE ""

\* ---------------------------------------------------------------------------------------------
\* (4) Sessions.
\* The POOL: a sequence of caller-owned tables, each as it is read through the public API
\*     [rows   |-> the key (spelling 0) and the PAYLOAD cell of every row, ascending by key,
\*      others |-> column name -> cells (in the order of rows) for every further column,
\*      form   |-> how the table names its payload column: "own" (after its home parameter = its pool index), "data",
\*                 "single" (any name; the only column that is not a key), "extra" (own + a further column),
\*                 "renamed" (any name, a further column; every call passes renames = {parameter: that name}),
\*      ord    |-> in which order the table lists its key columns: "same" as `on` | "reverse"]
\* form and ord are what the statement does not speak of: no operator of the law reads them.
\* `last`: the table the last perdictable call returned, as it reads now - [kind |-> "none"] or
\*     [kind |-> "table", rows |-> <<[key, v]..>>]; the caller may hand it back as `data`.
\* STEPS
\*   [kind "call", api "run"|"join", params <<[kind "scalar", v] | [kind "table", obj j]>>, defs, opts,
\*    cache "none"|"last", expiry (JSON shape of an optional table, plus cols: its non-key column names)]
\*   [kind "setcol", obj, rows]   t[payload] = [...]          the payload column replaced in place
\*   [kind "derive", obj, rows]   t = t(payload = [...])      slot j now holds a new table made from the old one
\*   [kind "subset", obj, keep]   t = t.inc(key = keep)       slot j now holds the rows of the old table with these keys
\*   [kind "editresult", rows]    r[value column] = [...]     the table the last call returned, edited in place
\* ---------------------------------------------------------------------------------------------
Forms == {"own", "data", "single", "extra", "renamed"}
Payload(t) == [n \in 1..Len(t.rows) |-> t.rows[n].v]
NoLast == [kind |-> "none"]

\* a table with further columns names its payload after ONE parameter; it cannot be handed in under another name
CanPass(t, i, j) == t.form # "extra" \/ i = j
CallInDomain(pool, st) ==
    /\ \A i \in 1..Len(st.params) : st.params[i].kind = "table" =>
          (st.params[i].obj \in 1..Len(pool) /\ CanPass(pool[st.params[i].obj], i, st.params[i].obj))
    /\ Len(st.defs) = Len(st.params)
    /\ InOptDomain(st.opts)
    /\ st.api = "join" => (st.cache = "none" /\ st.expiry.kind = "absent")

\* the configuration a call receives: what the pool holds NOW
StepCfgJ(nk, pool, last, st) ==
    [nk   |-> nk,
     ins  |-> [i \in 1..Len(st.params) |->
                 IF st.params[i].kind = "scalar" THEN [kind |-> "scalar", v |-> st.params[i].v, rows |-> <<>>]
                 ELSE [kind |-> "keyed", v |-> None, rows |-> pool[st.params[i].obj].rows]],
     defs |-> st.defs,
     data |-> IF st.cache = "last" /\ last.kind = "table"
              THEN [kind |-> "keyed", v |-> None, rows |-> [n \in 1..Len(last.rows) |-> [key |-> last.rows[n].key, sp |-> 0, v |-> last.rows[n].v]]]
              ELSE AbsentJ,
     expiry |-> [kind |-> st.expiry.kind, rows |-> st.expiry.rows, v |-> st.expiry.v]]

\* the caller's own actions
NewRows(t, rows) == [n \in 1..Len(t.rows) |-> [t.rows[n] EXCEPT !.v = rows[n].v]]
KeptIdx(t, keep) == SelectSeq([n \in 1..Len(t.rows) |-> n], LAMBDA n : t.rows[n].key \in keep)
ApplyEdit(pool, st) ==
    CASE st.kind \in {"setcol", "derive"} -> [pool EXCEPT ![st.obj].rows = NewRows(pool[st.obj], st.rows)]
      [] st.kind = "subset" -> LET t == pool[st.obj]  ix == KeptIdx(t, {st.keep[n] : n \in 1..Len(st.keep)}) IN
                               [pool EXCEPT ![st.obj] = [t EXCEPT !.rows = [n \in 1..Len(ix) |-> t.rows[ix[n]]],
                                                                  !.others = [nm \in DOMAIN t.others |-> [n \in 1..Len(ix) |-> t.others[nm][ix[n]]]]]]
      [] OTHER -> pool
EditLast(last, st) == IF st.kind = "editresult" /\ last.kind = "table"
                      THEN [last EXCEPT !.rows = [n \in 1..Len(last.rows) |-> [last.rows[n] EXCEPT !.v = st.rows[n].v]]] ELSE last
EditWellFormed(pool, last, st) ==
    CASE st.kind \in {"setcol", "derive"} -> st.obj \in 1..Len(pool) /\ [n \in 1..Len(st.rows) |-> st.rows[n].key] = [n \in 1..Len(pool[st.obj].rows) |-> pool[st.obj].rows[n].key]
      [] st.kind = "subset" -> st.obj \in 1..Len(pool)
      [] st.kind = "editresult" -> last.kind = "table" /\ [n \in 1..Len(st.rows) |-> st.rows[n].key] = [n \in 1..Len(last.rows) |-> last.rows[n].key]
      [] OTHER -> FALSE

\* Named deviation RenameLeavesCopy: a call that is told renames = {parameter: column} leaves a copy of that column, under
\* the parameter's name (role "@i"), in the caller's table (_item: d[key] = d[renames[key]]); every such call writes the
\* copy anew from the column as it is then, so no later call can read an old one.  Nothing else may be left behind.
CopyNames(pool, st, j) == {"@" \o ToString(i) : i \in {i \in 1..Len(st.params) : st.params[i].kind = "table" /\ st.params[i].obj = j /\ pool[j].form = "renamed"}}
WithCopies(t, names)   == [t EXCEPT !.others = [nm \in names |-> Payload(t)] @@ t.others]
\* (the deviation is no longer admitted: repaired in /repo 2b8c4b2 - _item reads the renamed column into a copy; WithCopies is kept to name what used to be left behind)
TableKept(pool, st, j, after) == after = pool[j]
\* Named deviation DefaultsGainCacheKeys: the caller's `defaults` dict comes back with the value column and "expiry" added
\* (both None: what a row without cached value / expiry is given anyway)
StaticsKept(s, after) == /\ after.on = s.on /\ after.renames = s.renames
                         /\ \/ after.defaults = s.defaults
                            \/ after.defaults = [data |-> None, expiry |-> None] @@ s.defaults

\* the verdict on one recorded step
\* o: [nk, today, alpha, step, pool / pool_after, last / last_after (the table `last` read before / after the step),
\*     statics / statics_after (the caller's on / renames / defaults objects, reused by every call of the session that needs equal
\*     ones), params_after, expiry_after, out, calls, same]
StepVerdict(o) ==
    LET st == o.step  pool == o.pool IN
    IF Len(o.pool_after) # Len(pool) THEN "harness_malformed"
    ELSE IF st.kind = "call" THEN
        IF ~CallInDomain(pool, st) \/ (st.cache = "last" /\ o.last.kind # "table") THEN "harness_outside_domain"
        ELSE LET cj == StepCfgJ(o.nk, pool, o.last, st) IN
        IF ~WellFormedJ(cj) THEN "harness_malformed"
        ELSE IF st.api = "run" /\ ~InDomain(CfgOfJ(cj, o.today)) THEN "harness_outside_domain"
        ELSE LET v == IF st.api = "run" THEN RunVerdictJ(cj, o.today, o.alpha, st.opts, o.out, o.calls, o.same)
                      ELSE JoinVerdictJ(cj, o.today, o.alpha, o.out) IN
        IF v # "" THEN v
        ELSE IF \E j \in 1..Len(pool) : ~TableKept(pool, st, j, o.pool_after[j]) THEN "argument_changed"
        ELSE IF o.params_after # st.params \/ o.expiry_after # st.expiry THEN "argument_changed"
        ELSE IF ~StaticsKept(o.statics, o.statics_after) THEN "argument_changed"
        ELSE IF o.last_after # o.last THEN (IF st.cache = "last" THEN "argument_changed" ELSE "earlier_result_changed")
        ELSE ""
    ELSE IF ~EditWellFormed(pool, o.last, st) THEN "harness_malformed"
    ELSE IF st.kind = "editresult" THEN
        IF o.pool_after # pool THEN "result_aliases_argument"
        ELSE IF o.last_after # EditLast(o.last, st) THEN "harness_edit_failed" ELSE ""
    ELSE IF o.pool_after # ApplyEdit(pool, st) THEN "harness_edit_failed"
    ELSE IF o.last_after # o.last THEN "result_aliases_argument"
    ELSE ""
=============================================================================
