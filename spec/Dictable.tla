------------------------------ MODULE Dictable ------------------------------
(* Property C01: a session of dictable objects as a state machine.                                *)
(*                                                                                                *)
(* State: a heap of table objects (the plain list-of-records model of Table.tla), registers that  *)
(* name objects (two registers may name the same object: d + None and dictable.concat(d) return   *)
(* their operand), and the outcome of the last call.  Every action is one public call:            *)
(* constructors allocate, d[c] = v / del d[c] / d.update mutate their target in place, everything *)
(* else allocates its result and leaves every existing object alone.  hist records the calls;     *)
(* model-checking configurations hide it with a VIEW, generator configurations print it.          *)
EXTENDS DictableOps, Json
CONSTANTS MaxDepth, MaxRowsC

VARIABLES heap, reg, out, hist
vars == <<heap, reg, out, hist>>

\* ---- the machine ------------------------------------------------------------------------------
Live == {r \in Regs : reg[r] # 0}
T(r) == heap[reg[r]]
Alloc(rd, res, h) ==
    /\ hist' = Append(hist, h)
    /\ out' = res.err
    /\ IF res.ok THEN heap' = Append(heap, res.t) /\ reg' = [reg EXCEPT ![rd] = Len(heap) + 1]
       ELSE UNCHANGED <<heap, reg>>
InPlace(r, res, h) ==
    /\ hist' = Append(hist, h)
    /\ out' = res.err
    /\ heap' = [heap EXCEPT ![reg[r]] = res.t]        \* UpdateT returns the partially updated table on error, the others return ok
    /\ UNCHANGED reg
Alias(rd, r, h) == hist' = Append(hist, h) /\ out' = "ok" /\ reg' = [reg EXCEPT ![rd] = reg[r]] /\ UNCHANGED heap

SetArgs(t) == {<<"s", V2>>, <<"s", None>>, <<"l", <<VX>>>>, <<"l", <<V1, V2>>>>, <<"l", <<>>>>,
               <<"l", [i \in 1..NR(t) |-> IF i % 2 = 1 THEN V2 ELSE VX]>>}
New      == \E rd \in {"r1", "r2"}, s \in Seeds : Alloc(rd, Construct(s), [op |-> "New", rd |-> rd, seed |-> s])
SetCol   == \E r \in Live, c \in {"a", "c"} : \E a \in SetArgs(T(r)) :
               LET res == SetColT(T(r), c, a) IN
               InPlace(r, IF res.ok THEN res ELSE [ok |-> FALSE, t |-> T(r), err |-> res.err], [op |-> "SetCol", r |-> r, c |-> c, arg |-> a])
DelCol   == \E r \in Live, c \in {"a", "c"} :
               LET res == DelColT(T(r), c) IN
               InPlace(r, IF res.ok THEN res ELSE [ok |-> FALSE, t |-> T(r), err |-> res.err], [op |-> "DelCol", r |-> r, c |-> c])
Update   == \E r \in Live : \E items \in {<<<<"c", <<"s", V1>>>>, <<"a", <<"l", <<V1, V2>>>>>>>>, <<<<"b", <<"s", None>>>>>>} :
               InPlace(r, UpdateT(T(r), items, 1), [op |-> "Update", r |-> r, items |-> items])
Slice    == \E r \in Live, sl \in {"first", "tail", "even", "last", "none", "rev"} : Alloc(NextReg(r), SliceT(T(r), sl), [op |-> "Slice", r |-> r, rd |-> NextReg(r), sl |-> sl])
Mask     == \E r \in Live, m \in {"all", "nothing", "odd"} : Alloc(NextReg(r), MaskT(T(r), m), [op |-> "Mask", r |-> r, rd |-> NextReg(r), m |-> m, mask |-> MaskOf(NR(T(r)), m)])
Take     == \E r \in Live, pos \in {<<0>>, <<-1, 0>>, <<1, 1>>} : Alloc(NextReg(r), TakeT(T(r), pos), [op |-> "Take", r |-> r, rd |-> NextReg(r), pos |-> pos])
Project  == \E r \in Live, cs \in {<<"a">>, <<"b", "a">>} : Alloc(NextReg(r), ProjectT(T(r), cs), [op |-> "Project", r |-> r, rd |-> NextReg(r), cs |-> cs])
Derive   == \E r \in Live, cf \in {<<"c", "copy_a">>, <<"a", "a_or_2">>, <<"b", "const_x">>, <<"c", "copy_key">>} :
               (cf[2] = "copy_key" => HasCol(T(r), "key")) /\      \* without such a column the library hands f its hidden key = <new column name>
               Alloc(NextReg(r), DeriveT(T(r), cf[1], cf[2]), [op |-> "Derive", r |-> r, rd |-> NextReg(r), c |-> cf[1], f |-> cf[2]])
Do       == \E r \in Live, cs \in {<<>>, <<"a">>} : Range(cs) \subseteq ColSet(T(r)) /\ Alloc(NextReg(r), DoT(T(r), cs), [op |-> "Do", r |-> r, rd |-> NextReg(r), cs |-> cs])
Rename   == \E r \in Live : ~HasCol(T(r), "d") /\ Alloc(NextReg(r), RenameT(T(r), "a", "d"), [op |-> "Rename", r |-> r, rd |-> NextReg(r), c |-> "a", c2 |-> "d"])
Swap     == \E r \in Live : (HasCol(T(r), "a") /\ HasCol(T(r), "b")) /\ Alloc(NextReg(r), SwapT(T(r), "a", "b"), [op |-> "Swap", r |-> r, rd |-> NextReg(r), c |-> "a", c2 |-> "b"])
Concat   == \E ra \in Live, rb \in Live : Alloc("r3", ConcatT(T(ra), T(rb)), [op |-> "Concat", ra |-> ra, rb |-> rb, rd |-> "r3"])
AddRec   == \E r \in Live, rec \in {<<<<"a", V2>>>>, <<<<"c", VX>>, <<"a", None>>>>} :
               Alloc(NextReg(r), ConcatT(T(r), RecordT(rec)), [op |-> "AddRecord", r |-> r, rd |-> NextReg(r), rec |-> rec])
Copy     == \E r \in Live : Alloc(NextReg(r), Ok(T(r)), [op |-> "Copy", r |-> r, rd |-> NextReg(r)])
\* filters without any condition return the whole table - as a new object (inc() / exc(), see C06)
NoFilter == \E r \in Live, f \in {"inc", "exc"} : Alloc(NextReg(r), Ok(T(r)), [op |-> "NoFilter", r |-> r, rd |-> NextReg(r), f |-> f])
\* named deviations: these two calls return their operand itself, not a new table
AddNone  == \E r \in Live : Alias(NextReg(r), r, [op |-> "AddNone", r |-> r, rd |-> NextReg(r)])
ConcatOne == \E r \in Live : Alias(NextReg(r), r, [op |-> "ConcatOne", r |-> r, rd |-> NextReg(r)])

Init == heap = <<>> /\ reg = [r \in Regs |-> 0] /\ out = "ok" /\ hist = <<>>
Next == New \/ SetCol \/ DelCol \/ Update \/ Slice \/ Mask \/ Take \/ Project \/ Derive \/ Do \/ Rename \/ Swap \/ Concat \/ AddRec \/ Copy \/ NoFilter \/ AddNone \/ ConcatOne
Bound == Len(hist) <= MaxDepth /\ \A o \in 1..Len(heap) : Len(heap[o].rows) <= MaxRowsC
View == <<heap, reg, out>>

\* ---- properties -------------------------------------------------------------------------------
TypeOK == /\ \A r \in Regs : reg[r] \in 0..Len(heap)
          /\ out \in {"ok", "ValueError", "KeyError", "IndexError", "TypeError"}
AllRectangular == \A o \in 1..Len(heap) : Rectangular(heap[o]) /\ (heap[o].cols = <<>> => heap[o].rows = <<>>)
                                          /\ Cardinality(Range(heap[o].cols)) = Len(heap[o].cols)
\* a call changes at most one existing object - the target of an in-place call - and never on rejection
OnlyTargetChanges == [][\A o \in 1..Len(heap) : heap'[o] # heap[o] =>
                           /\ Last(hist').op \in {"SetCol", "DelCol", "Update"}
                           /\ o = reg[Last(hist').r]]_vars
RejectedLeavesState == [][(out' \in {"ValueError", "KeyError", "IndexError", "TypeError"} /\ Last(hist').op # "Update") => (heap' = heap /\ reg' = reg)]_vars
\* concatenation appends rows in order and fills absent columns with None
ConcatLaw == \A ra \in Live, rb \in Live :
                LET c == ConcatT(T(ra), T(rb)).t IN
                /\ ColSet(c) = ColSet(T(ra)) \cup ColSet(T(rb))
                /\ NR(c) = NR(T(ra)) + NR(T(rb))
                /\ \A i \in 1..NR(T(ra)) : \A cc \in ColSet(c) : c.rows[i][cc] = (IF cc \in ColSet(T(ra)) THEN T(ra).rows[i][cc] ELSE None)
                /\ \A i \in 1..NR(T(rb)) : \A cc \in ColSet(c) : c.rows[NR(T(ra)) + i][cc] = (IF cc \in ColSet(T(rb)) THEN T(rb).rows[i][cc] ELSE None)

\* ---- what a state looks like from outside (the S2C expectation) ---------------------------------
Observe(t) == [cols |-> t.cols, rows |-> t.rows, len |-> NR(t), shape |-> <<NR(t), Len(t.cols)>>]
Snapshot == [hist |-> hist, out |-> out,
             regs |-> [r \in Regs |-> IF reg[r] = 0 THEN [live |-> FALSE] ELSE [live |-> TRUE, obj |-> reg[r], table |-> Observe(T(r))]]]
Emit == PrintT(ToJson(Snapshot))
GenBound == Bound /\ (hist # <<>> => Emit)
SimBound == Bound /\ (Len(hist) = MaxDepth => Emit)
=============================================================================
