------------------------------ MODULE Dictable ------------------------------
(* Property C01: a session of dictable objects as a state machine.                                *)
(*                                                                                                *)
(* State: a heap of table objects (the plain list-of-records model of Table.tla), registers that  *)
(* name objects (two registers may name the same object: d + None and dictable.concat(d) return   *)
(* their operand), and the outcome of the last call.  Every action is one public call:            *)
(* constructors allocate, d[c] = v / del d[c] / d.update mutate their target in place, everything *)
(* else allocates its result and leaves every existing object alone.  hist records the calls;     *)
(* model-checking configurations hide it with a VIEW, generator configurations print it.          *)
(* Augmented assignment (e += record, e += table, e += None) is a call too: on records it gives   *)
(* the NAME e the table e + x and says nothing about any other table - in particular not about    *)
(* the tables e was made from (copy, d - c, projection, d(c = f), rename, do ...).  NextDerived    *)
(* is the directed history form for exactly that: a table, a table made from it, then one of the  *)
(* two changed in place or grown, all registers observed.                                          *)
(* The session also holds the CALLER'S OWN argument objects (av: a dict of columns, a dict of     *)
(* renames, a list of records, a list of values, a list of names, a list of positions).  Calls    *)
(* that take them name the object, so the same object reaches several calls; the caller edits     *)
(* them in place between calls (CallerEdits) or takes new ones (Bind).  Law: no call changes av   *)
(* (CallsOwnNothing; observed as Snapshot.args, clause argument_changed) and every call sees the  *)
(* objects as they are at that moment.  NextShared* are the directed forms "objects ; table ;     *)
(* call ; [edit ;] call" = every ordered pair of calls that share argument objects.               *)
EXTENDS DictableOps, Json
CONSTANTS MaxDepth, MaxRowsC

VARIABLES heap, reg, out, hist, av
vars == <<heap, reg, out, hist, av>>

\* ---- the machine ------------------------------------------------------------------------------
Live == {r \in Regs : reg[r] # 0}
T(r) == heap[reg[r]]
AllocA(rd, res, h) ==
    /\ hist' = Append(hist, h)
    /\ out' = res.err
    /\ IF res.ok THEN heap' = Append(heap, res.t) /\ reg' = [reg EXCEPT ![rd] = Len(heap) + 1]
       ELSE UNCHANGED <<heap, reg>>
InPlaceA(r, res, h) ==
    /\ hist' = Append(hist, h)
    /\ out' = res.err
    /\ heap' = [heap EXCEPT ![reg[r]] = res.t]        \* UpdateT returns the partially updated table on error, the others return ok
    /\ UNCHANGED reg
Alias(rd, r, h) == hist' = Append(hist, h) /\ out' = "ok" /\ reg' = [reg EXCEPT ![rd] = reg[r]] /\ UNCHANGED <<heap, av>>
\* no call ever changes an argument object of the caller (av); the calls that take the list L as a column only note that it was handed over
Alloc(rd, res, h) == AllocA(rd, res, h) /\ UNCHANGED av
InPlace(r, res, h) == InPlaceA(r, res, h) /\ UNCHANGED av
GiveL == av' = [av EXCEPT !.lg = TRUE]

SetArgs(t) == {<<"s", V2>>, <<"s", None>>, <<"l", <<VX>>>>, <<"l", <<V1, V2>>>>, <<"l", <<>>>>,
               <<"l", [i \in 1..NR(t) |-> IF i % 2 = 1 THEN V2 ELSE VX]>>}
New      == \E rd \in {"r1", "r2"}, s \in Seeds : Alloc(rd, Construct(s), [op |-> "New", rd |-> rd, seed |-> s])
SetCol   == \E r \in Live, c \in {"a", "c"} : \E a \in SetArgs(T(r)) :
               LET res == SetColT(T(r), c, a) IN
               InPlace(r, IF res.ok THEN res ELSE [ok |-> FALSE, t |-> T(r), err |-> res.err], [op |-> "SetCol", r |-> r, c |-> c, arg |-> a])
DelCol   == \E r \in Live, c \in {"a", "c"} :
               LET res == DelColT(T(r), c) IN
               InPlace(r, IF res.ok THEN res ELSE [ok |-> FALSE, t |-> T(r), err |-> res.err], [op |-> "DelCol", r |-> r, c |-> c])
Update   == \E r \in Live : \E items \in {<<<<"c", <<"s", V1>>>>, <<"a", <<"l", <<V1, V2>>>>>>>>, <<<<"b", <<"s", None>>>>>>} :
               InPlace(r, UpdateT(T(r), items, 1), [op |-> "Update", r |-> r, items |-> items])
\* d[c] = e[c2]: a column taken from another (or the same) table - the two tables stay separate lists of records
SetFrom  == \E r \in Live, r2 \in Live, c \in {"a", "c"}, c2 \in {"a", "b"} : HasCol(T(r2), c2) /\
               LET a == <<"l", ColVals(T(r2), c2)>>  res == SetColT(T(r), c, a) IN
               InPlace(r, IF res.ok THEN res ELSE [ok |-> FALSE, t |-> T(r), err |-> res.err], [op |-> "SetFrom", r |-> r, c |-> c, r2 |-> r2, c2 |-> c2])
Slice    == \E r \in Live, sl \in {"first", "tail", "even", "last", "none", "rev"} : Alloc(NextReg(r), SliceT(T(r), sl), [op |-> "Slice", r |-> r, rd |-> NextReg(r), sl |-> sl])
Mask     == \E r \in Live, m \in {"all", "nothing", "odd"} : Alloc(NextReg(r), MaskT(T(r), m), [op |-> "Mask", r |-> r, rd |-> NextReg(r), m |-> m, mask |-> MaskOf(NR(T(r)), m)])
Take     == \E r \in Live, pos \in {<<0>>, <<-1, 0>>, <<1, 1>>} : Alloc(NextReg(r), TakeT(T(r), pos), [op |-> "Take", r |-> r, rd |-> NextReg(r), pos |-> pos])
Project  == \E r \in Live, cs \in {<<"a">>, <<"b", "a">>} : Alloc(NextReg(r), ProjectT(T(r), cs), [op |-> "Project", r |-> r, rd |-> NextReg(r), cs |-> cs])
Derive   == \E r \in Live, cf \in {<<"c", "copy_a">>, <<"a", "a_or_2">>, <<"b", "const_x">>, <<"c", "copy_key">>, <<"c", "a_plus_b">>, <<"a", "a_plus_b">>} :
               (cf[2] = "copy_key" => HasCol(T(r), "key")) /\      \* without such a column the library hands f its hidden key = <new column name>
               Alloc(NextReg(r), DeriveT(T(r), cf[1], cf[2]), [op |-> "Derive", r |-> r, rd |-> NextReg(r), c |-> cf[1], f |-> cf[2]])
\* d(c = value) with a value that is not a function: column assignment on a new table (broadcast, ValueError on a length that does not fit)
DeriveConst == \E r \in Live, c \in {"a", "c"} : \E a \in {<<"s", None>>, <<"s", V2>>, <<"l", <<V1, V2>>>>, <<"l", <<>>>>} :
               Alloc(NextReg(r), SetColT(T(r), c, a), [op |-> "DeriveConst", r |-> r, rd |-> NextReg(r), c |-> c, arg |-> a])
\* d(c = f, c2 = g) with g reading the fresh column c (both keyword orders are rendered)
DerivePair == \E r \in Live, f \in {"copy_a", "const_x"}, c2 \in {"b", "d"} : ~HasCol(T(r), "c") /\
               Alloc(NextReg(r), DerivePairT(T(r), "c", f, c2, "copy_c"), [op |-> "DerivePair", r |-> r, rd |-> NextReg(r), c |-> "c", f |-> f, c2 |-> c2, g |-> "copy_c"])
\* per-column transforms: one function or a list of functions, of the cell alone or with further parameters naming columns
DoMenu == {<<<<"none0">>, <<>>>>, <<<<"none0">>, <<"a">>>>, <<<<>>, <<"a">>>>,
           <<<<"add_a">>, <<"a", "b">>>>, <<<<"add_a">>, <<"b", "a">>>>, <<<<"add_a", "add_a">>, <<"a">>>>, <<<<"add_a", "add_a">>, <<"a", "b">>>>, <<<<"none0", "add_a">>, <<"b", "a", "b">>>>,
           <<<<"or_b">>, <<"b", "a">>>>, <<<<"or_b", "none0">>, <<"a", "b">>>>, <<<<"add_a", "or_b">>, <<"c", "a">>>>}
Do       == \E r \in Live, m \in DoMenu : Range(m[2]) \subseteq ColSet(T(r)) /\ (m[2] = <<>> => DoCellOnly(m[1])) /\
               Alloc(NextReg(r), DoT(T(r), m[1], m[2]), [op |-> "Do", r |-> r, rd |-> NextReg(r), fs |-> m[1], cs |-> m[2]])
Rename   == \E r \in Live : ~HasCol(T(r), "d") /\ Alloc(NextReg(r), RenameT(T(r), "a", "d"), [op |-> "Rename", r |-> r, rd |-> NextReg(r), c |-> "a", c2 |-> "d"])
Swap     == \E r \in Live : (HasCol(T(r), "a") /\ HasCol(T(r), "b")) /\ Alloc(NextReg(r), SwapT(T(r), "a", "b"), [op |-> "Swap", r |-> r, rd |-> NextReg(r), c |-> "a", c2 |-> "b"])
Concat   == \E ra \in Live, rb \in Live : Alloc("r3", ConcatT(T(ra), T(rb)), [op |-> "Concat", ra |-> ra, rb |-> rb, rd |-> "r3"])
AddRec   == \E r \in Live, rec \in {<<<<"a", V2>>>>, <<<<"c", VX>>, <<"a", None>>>>} :
               Alloc(NextReg(r), ConcatT(T(r), RecordT(rec)), [op |-> "AddRecord", r |-> r, rd |-> NextReg(r), rec |-> rec])
Copy     == \E r \in Live : Alloc(NextReg(r), Ok(T(r)), [op |-> "Copy", r |-> r, rd |-> NextReg(r)])
\* d - c / d - [c, ...]: column deletion that returns a new table (absent names ignored)
Minus    == \E r \in Live, cs \in {<<"b">>, <<"a", "b">>, <<"d">>} : Alloc(NextReg(r), MinusColsT(T(r), cs), [op |-> "Minus", r |-> r, rd |-> NextReg(r), cs |-> cs])
\* filters without any condition return the whole table - as a new object (inc() / exc(), see C06)
NoFilter == \E r \in Live, f \in {"inc", "exc"} : Alloc(NextReg(r), Ok(T(r)), [op |-> "NoFilter", r |-> r, rd |-> NextReg(r), f |-> f])
\* named deviations: these two calls return their operand itself, not a new table
AddNone  == \E r \in Live : Alias(NextReg(r), r, [op |-> "AddNone", r |-> r, rd |-> NextReg(r)])
ConcatOne == \E r \in Live : Alias(NextReg(r), r, [op |-> "ConcatOne", r |-> r, rd |-> NextReg(r)])
\* augmented assignment e += x.  The name e afterwards holds e + x; every OTHER table is what it was.  Whether e is a new object
\* or the old one grown in place cannot be told apart unless a second name holds the very same object (only d + None and
\* concat(d) make such names); the statement does not say which (a Python list of records would grow in place), so the
\* calls are taken for names that are the only one for their object.
SoleName(r) == \A s \in Regs \ {r} : reg[s] # reg[r]
IAddRec  == \E r \in Live, rec \in {<<<<"a", V2>>>>, <<<<"c", VX>>, <<"a", None>>>>} : SoleName(r) /\
               Alloc(r, ConcatT(T(r), RecordT(rec)), [op |-> "IAddRecord", r |-> r, rd |-> r, rec |-> rec])
IAddTab  == \E r \in Live, rb \in Live : SoleName(r) /\
               Alloc(r, ConcatT(T(r), T(rb)), [op |-> "IAdd", r |-> r, rb |-> rb, rd |-> r])       \* rb = r: e += e
IAddNone == \E r \in Live : Alias(r, r, [op |-> "IAddNone", r |-> r, rd |-> r])                      \* e += None, e += 0: nothing happens
ISub     == \E r \in Live, cs \in {<<"b">>, <<"a", "d">>} : SoleName(r) /\                                 \* e -= c, e -= [c, ...]
               Alloc(r, MinusColsT(T(r), cs), [op |-> "ISub", r |-> r, rd |-> r, cs |-> cs])

\* ---- three or more operands in ONE call (round 5) -------------------------------------------------------------------
\* dictable.concat(x1, ..., xn) / concat([x1, ..., xn]) / sum([x1, ..., xn]) / x1 + x2 + ... + xn: tables of the session (the same one
\* may stand at several places) and single records mixed.  The result is a new table in r3; every operand is what it was.
OpT(o) == IF o[1] = "r" THEN T(o[2]) ELSE RecordT(o[3])
OpTables(ops) == [k \in 1..Len(ops) |-> OpT(ops[k])]
ConcatNOf(ops) == Alloc("r3", ConcatManyT(OpTables(ops)), [op |-> "ConcatN", ops |-> ops, rd |-> "r3"])
\* the shapes used inside the general machine (1, 2 = two tables, 3, 4 = the records of RecMenu); the directed form NextNary takes every list
NaryShapes == {<<1, 2, 1>>, <<1, 3, 2>>, <<4, 1, 2>>, <<1, 2, 4, 1>>, <<2, 1, 2, 1, 2>>}
ShapeOps(sh, ra, rb) == [k \in 1..Len(sh) |-> CASE sh[k] = 1 -> <<"r", ra, <<>>>> [] sh[k] = 2 -> <<"r", rb, <<>>>>
                                                [] sh[k] = 3 -> <<"rec", "", RecMenu[1]>> [] sh[k] = 4 -> <<"rec", "", RecMenu[2]>>]
ConcatN  == \E ra \in Live, rb \in Live, sh \in NaryShapes : ConcatNOf(ShapeOps(sh, ra, rb))
\* ---- a small pattern scaled up (round 5; the recorded histories do this with 17 .. 1025 rows, see DictableOps) -------
BigSeeds == {[kind |-> "rows", hdrs |-> <<"a", "b">>, rows |-> <<<<V1, VX>>, <<None, V2>>>>],
             [kind |-> "recs", recs |-> <<<<<<"a", V2>>, <<"b", None>>>>, <<<<"a", VX>>>>, <<<<"b", V1>>, <<"c", VX>>>>>>]}
NewBig   == \E rd \in {"r1", "r2"}, s \in BigSeeds, nb \in {<<4, 1>>, <<4, 2>>, <<5, 1>>} :
               Alloc(rd, NewBigT(s, nb[1], nb[2]), [op |-> "NewBig", rd |-> rd, seed |-> s, n |-> nb[1], b |-> nb[2]])
MaskCyc  == \E r \in Live, pat \in {<<TRUE, FALSE>>, <<FALSE, TRUE, TRUE>>} :                \* d[pattern cycled to len(d)]
               Alloc(NextReg(r), MaskSeqT(T(r), CycleTo(pat, NR(T(r)))), [op |-> "MaskCyc", r |-> r, rd |-> NextReg(r), pat |-> pat])
SetColCyc == \E r \in Live, pat \in {<<V2, VX>>, <<None, V1, VX>>} : NR(T(r)) > 1 /\         \* d[c] = pattern cycled to len(d)
               InPlace(r, SetColT(T(r), "a", CycArg(pat, NR(T(r)))), [op |-> "SetColCyc", r |-> r, c |-> "a", pat |-> pat])

\* ---- calls that take the caller's argument objects (av), and the caller's own actions on them ----------------------
\* The history names the object, not its value: the driver keeps ONE Python object per name for the whole session and hands
\* that very object to every call that names it; all of them are observed afterwards (Snapshot.args).
KwMenu == {<<<<"c", <<"s", V2>>>>>>, <<<<"e", <<"l", <<V1>>>>>>, <<"c", <<"s", None>>>>>>, <<<<"c", <<"l", <<V1, V2, VX>>>>>>>>}
RnKwMenu == {<<<<"b", "y">>>>, <<<<"c", "z">>, <<"key", "a2">>>>}
NewMap    == Alloc("r2", FromCols(MapCols(av.m), MapArgs(av.m)), [op |-> "NewMap", rd |-> "r2"])                      \* dictable(m)
NewMapKw  == \E kw \in KwMenu : MapKeys(av.m) \cap MapKeys(kw) = {} /\                                                  \* dictable(m, c = ...)
               Alloc("r2", FromMapKw(av.m, kw), [op |-> "NewMapKw", rd |-> "r2", kw |-> kw])
NewTabKw  == \E r \in Live, kw \in KwMenu : MapKeys(kw) \cap ColSet(T(r)) = {} /\                                       \* dictable(d, c = ...)
               Alloc(NextReg(r), FromTableKw(T(r), kw), [op |-> "NewTabKw", r |-> r, rd |-> NextReg(r), kw |-> kw])
NewRecs   == Alloc("r2", FromRecords(av.recs), [op |-> "NewRecs", rd |-> "r2"])                                          \* dictable(recs)
NewColsL  == \E b \in {"L", "x"} :                                                                                      \* dictable(a = L, b = L): one list, two parameters
               AllocA("r2", FromCols(<<"a", "b">>, <<<<"l", av.L>>, IF b = "L" THEN <<"l", av.L>> ELSE <<"s", VX>>>>), [op |-> "NewColsL", rd |-> "r2", b |-> b]) /\ GiveL
NewRowsCs == av.cs # <<>> /\ NoDup(av.cs) /\ Alloc("r2", FromRows(RowsFor(av.cs), av.cs), [op |-> "NewRowsCs", rd |-> "r2", rows |-> RowsFor(av.cs)])   \* dictable(rows, cs)
SetColL   == \E r \in Live, c \in {"a", "c"} : LET res == SetColT(T(r), c, <<"l", av.L>>) IN                            \* d[c] = L
               InPlaceA(r, IF res.ok THEN res ELSE [ok |-> FALSE, t |-> T(r), err |-> res.err], [op |-> "SetColL", r |-> r, c |-> c]) /\ GiveL
UpdateMap == \E r \in Live : InPlace(r, UpdateT(T(r), av.m, 1), [op |-> "UpdateMap", r |-> r])                           \* d.update(m)
DeriveConstL == \E r \in Live, c \in {"a", "c"} :                                                                       \* d(c = L)
               AllocA(NextReg(r), SetColT(T(r), c, <<"l", av.L>>), [op |-> "DeriveConstL", r |-> r, rd |-> NextReg(r), c |-> c]) /\ GiveL
DeriveMap == \E r \in Live : Alloc(NextReg(r), AssignAllT(T(r), av.m), [op |-> "DeriveMap", r |-> r, rd |-> NextReg(r)])  \* d(**m)
RenameMap == \E r \in Live : RenameFits(T(r), av.rn) /\                                                                  \* d.relabel(rn) / d.rename(rn)
               Alloc(NextReg(r), RenameManyT(T(r), av.rn), [op |-> "RenameMap", r |-> r, rd |-> NextReg(r)])
RenameMapKw == \E r \in Live, kw \in RnKwMenu : MapKeys(av.rn) \cap MapKeys(kw) = {} /\ RenameFits(T(r), av.rn \o kw) /\  \* d.relabel(rn, b = 'y')
               Alloc(NextReg(r), RenameManyT(T(r), av.rn \o kw), [op |-> "RenameMapKw", r |-> r, rd |-> NextReg(r), kw |-> kw])
ProjectCs == \E r \in Live : av.cs # <<>> /\ NoDup(av.cs) /\ Alloc(NextReg(r), ProjectT(T(r), av.cs), [op |-> "ProjectCs", r |-> r, rd |-> NextReg(r)])     \* d[cs]
MinusCs   == \E r \in Live : Alloc(NextReg(r), MinusColsT(T(r), av.cs), [op |-> "MinusCs", r |-> r, rd |-> NextReg(r)])  \* d - cs
ISubCs    == \E r \in Live : SoleName(r) /\ Alloc(r, MinusColsT(T(r), av.cs), [op |-> "ISubCs", r |-> r, rd |-> r])      \* d -= cs
DoCs      == \E r \in Live : av.cs # <<>> /\ Range(av.cs) \subseteq ColSet(T(r)) /\                                      \* d.do(f, cs)
               Alloc(NextReg(r), DoT(T(r), <<"none0">>, av.cs), [op |-> "DoCs", r |-> r, rd |-> NextReg(r), fs |-> <<"none0">>])
TakeIx    == \E r \in Live : av.ix # <<>> /\ Alloc(NextReg(r), TakeT(T(r), av.ix), [op |-> "TakeIx", r |-> r, rd |-> NextReg(r)])   \* d[ix]
AddRecs   == \E r \in Live : Alloc(NextReg(r), ConcatT(T(r), FromRecords(av.recs).t), [op |-> "AddRecs", r |-> r, rd |-> NextReg(r)])   \* d + recs
IAddRecs  == \E r \in Live : SoleName(r) /\ Alloc(r, ConcatT(T(r), FromRecords(av.recs).t), [op |-> "IAddRecs", r |-> r, rd |-> r])    \* d += recs
AddRec1   == \E r \in Live : av.recs # <<>> /\ Alloc(NextReg(r), ConcatT(T(r), RecordT(av.recs[1])), [op |-> "AddRec1", r |-> r, rd |-> NextReg(r)])   \* d + recs[0]
IAddRec1  == \E r \in Live : av.recs # <<>> /\ SoleName(r) /\ Alloc(r, ConcatT(T(r), RecordT(av.recs[1])), [op |-> "IAddRec1", r |-> r, rd |-> r])  \* d += recs[0]
\* the caller: new objects for all names (Bind), or an edit IN PLACE of one of them (same object, other contents)
Caller(h, w) == hist' = Append(hist, h) /\ out' = "ok" /\ av' = w /\ UNCHANGED <<heap, reg>>
Bind      == \E w \in Worlds : Caller([op |-> "Bind", av |-> ObserveArgs(w)], w)
MapSet    == \E c \in {"a", "c"} : \E a \in {<<"s", V2>>, <<"l", <<VX, V1>>>>} : Caller([op |-> "MapSet", c |-> c, arg |-> a], [av EXCEPT !.m = MapPut(@, c, a)])      \* m[c] = value
MapDel    == \E c \in MapKeys(av.m) : Caller([op |-> "MapDel", c |-> c], [av EXCEPT !.m = MapDrop(@, c)])                \* del m[c]
RnSet     == \E p \in {<<"b", "y">>, <<"a", "z">>} : Caller([op |-> "RnSet", c |-> p[1], c2 |-> p[2]], [av EXCEPT !.rn = MapPut(@, p[1], p[2])])                       \* rn[c] = c2
RnDel     == \E c \in MapKeys(av.rn) : Caller([op |-> "RnDel", c |-> c], [av EXCEPT !.rn = MapDrop(@, c)])
RecsAppend == \E rec \in {<<<<"b", V1>>>>} : Len(av.recs) < 3 /\ Caller([op |-> "RecsAppend", rec |-> rec], [av EXCEPT !.recs = Append(@, rec)])                       \* recs.append(record)
RecSet    == av.recs # <<>> /\ Caller([op |-> "RecSet", c |-> "c", v |-> V1], [av EXCEPT !.recs[1] = MapPut(@, "c", V1)])   \* recs[0][c] = v
LAppend   == ~av.lg /\ Len(av.L) < 4 /\ Caller([op |-> "LAppend", v |-> None], [av EXCEPT !.L = Append(@, None)])          \* L.append(v)
CsAppend  == \E c \in {"a", "c"} : Len(av.cs) < 3 /\ Caller([op |-> "CsAppend", c |-> c], [av EXCEPT !.cs = Append(@, c)])  \* cs.append(c)
CsPop     == av.cs # <<>> /\ Caller([op |-> "CsPop"], [av EXCEPT !.cs = Tail(@)])                                        \* del cs[0]
IxAppend  == Len(av.ix) < 4 /\ Caller([op |-> "IxAppend", i |-> 1], [av EXCEPT !.ix = Append(@, 1)])                     \* ix.append(1)
ArgMakers   == NewMap \/ NewMapKw \/ NewTabKw \/ NewRecs \/ NewColsL \/ NewRowsCs \/ DeriveConstL \/ DeriveMap \/ RenameMap \/ RenameMapKw
               \/ ProjectCs \/ MinusCs \/ DoCs \/ TakeIx \/ AddRecs \/ AddRec1
ArgChangers == SetColL \/ UpdateMap \/ ISubCs \/ IAddRecs \/ IAddRec1
ArgCalls    == ArgMakers \/ ArgChangers
CallerEdits == MapSet \/ MapDel \/ RnSet \/ RnDel \/ RecsAppend \/ RecSet \/ LAppend \/ CsAppend \/ CsPop \/ IxAppend

Init == heap = <<>> /\ reg = [r \in Regs |-> 0] /\ out = "ok" /\ hist = <<>> /\ av = W0
Makers   == ConcatN \/ MaskCyc \/ Slice \/ Mask \/ Take \/ Project \/ Derive \/ DeriveConst \/ DerivePair \/ Do \/ Rename \/ Swap \/ Concat \/ AddRec \/ Copy \/ Minus \/ NoFilter \/ AddNone \/ ConcatOne
Changers == SetColCyc \/ SetCol \/ SetFrom \/ DelCol \/ Update \/ IAddRec \/ IAddTab \/ IAddNone \/ ISub
Next == Len(hist) < MaxDepth /\ (New \/ NewBig \/ Makers \/ Changers \/ ArgCalls \/ CallerEdits \/ (hist = <<>> /\ Bind))       \* exhaustive runs: no successors are built beyond the bound
NextSim == New \/ NewBig \/ Makers \/ Changers \/ ArgCalls \/ CallerEdits \/ Bind                              \* simulation: the depth of the run is the bound
Bound == Len(hist) <= MaxDepth /\ \A o \in 1..Len(heap) : Len(heap[o].rows) <= MaxRowsC
\* the directed history form: one table in r1, a table made from it, then any of the live tables changed in place or grown
DerivedSeeds == {[kind |-> "cols", cols |-> <<"a", "b">>, args |-> <<<<"l", <<V1, V2>>>>, <<"l", <<VX, None>>>>>>],
                 [kind |-> "cols", cols |-> <<"key", "a">>, args |-> <<<<"l", <<VX, V2>>>>, <<"l", <<V1, None>>>>>>],
                 [kind |-> "cols", cols |-> <<"a", "b">>, args |-> <<<<"s", V1>>, <<"l", <<V1, V2, None>>>>>>],
                 [kind |-> "rows", hdrs |-> <<"a", "c">>, rows |-> <<<<V1, V2>>, <<None, VX>>>>]}
DerivedFrom(S) == \/ hist = <<>> /\ \E s \in S : Alloc("r1", Construct(s), [op |-> "New", rd |-> "r1", seed |-> s])
                  \/ Len(hist) = 1 /\ Makers
                  \/ Len(hist) = 2 /\ Changers
NextDerived == DerivedFrom(DerivedSeeds)
NextDerivedAll == DerivedFrom(Seeds)          \* thorough tier: from every seed table
\* the directed history form for shared argument objects: the caller's objects, a table, a call that is handed some of them, then
\* (possibly after the caller edited one of them in place) a second call that is handed the same objects - every ordered pair
SharedSeeds == {[kind |-> "cols", cols |-> <<"a", "b">>, args |-> <<<<"l", <<V1, V2>>>>, <<"l", <<VX, None>>>>>>],
                [kind |-> "cols", cols |-> <<"key", "a">>, args |-> <<<<"s", VX>>, <<"l", <<None>>>>>>],
                [kind |-> "rows", hdrs |-> <<"a", "c", "b">>, rows |-> <<<<V1, V2, None>>, <<None, VX, V1>>, <<V2, V2, V2>>>>],
                [kind |-> "rows", hdrs |-> <<"a", "b">>, rows |-> <<>>]}
\* which object of the caller a call is handed / an edit touches
ObjOf(op) == CASE op \in {"NewMap", "NewMapKw", "UpdateMap", "DeriveMap", "MapSet", "MapDel"} -> "m"
               [] op \in {"RenameMap", "RenameMapKw", "RnSet", "RnDel"} -> "rn"
               [] op \in {"NewRecs", "AddRecs", "IAddRecs", "AddRec1", "IAddRec1", "RecsAppend", "RecSet"} -> "recs"
               [] op \in {"NewColsL", "SetColL", "DeriveConstL", "LAppend"} -> "L"
               [] op \in {"NewRowsCs", "ProjectCs", "MinusCs", "ISubCs", "DoCs", "CsAppend", "CsPop"} -> "cs"
               [] op \in {"TakeIx", "IxAppend"} -> "ix"
               [] OTHER -> "none"
\* edits = "no": call ; call.  "same": also call on X ; the caller edits X in place ; call on X (what a memo keyed on the object would get
\* wrong).  "all": also call ; any edit ; any call.
SharedFrom(Ws, S, edits) ==
    \/ hist = <<>> /\ \E w \in Ws : Caller([op |-> "Bind", av |-> ObserveArgs(w)], w)
    \/ Len(hist) = 1 /\ \E s \in S : Alloc("r1", Construct(s), [op |-> "New", rd |-> "r1", seed |-> s])
    \/ Len(hist) = 2 /\ ArgCalls
    \/ Len(hist) = 3 /\ ArgCalls
    \/ Len(hist) = 3 /\ edits # "no" /\ CallerEdits /\ (edits = "same" => ObjOf(Last(hist').op) = ObjOf(Last(hist).op))
    \/ Len(hist) = 4 /\ Last(hist).op \in CallerOps /\ ArgCalls /\ (edits = "same" => ObjOf(Last(hist').op) = ObjOf(Last(hist).op))
NextShared == SharedFrom({W0}, {s \in SharedSeeds : s.kind = "cols"}, "same")
NextSharedAll == SharedFrom(Worlds, SharedSeeds, "same")                       \* thorough tier: every world of objects, every seed table
NextSharedEdit == SharedFrom({W0}, {s \in SharedSeeds : s.kind = "cols" /\ s.cols[1] = "a"}, "all")      \* thorough tier: call ; any edit ; any call
\* the directed history form for n-ary calls: two tables, then ONE concat call over every list of 3 .. MaxN operands drawn from the two
\* tables and the two records (a column present / absent / present again along the list; the same table twice; a record first);
\* lists longer than FullN hold tables only
NarySeeds == {[kind |-> "cols", cols |-> <<"a", "b">>, args |-> <<<<"l", <<V1, V2>>>>, <<"l", <<VX, None>>>>>>],           \* a, b
              [kind |-> "cols", cols |-> <<"a">>, args |-> <<<<"l", <<V2, VX, None>>>>>>],                                \* a only
              [kind |-> "rows", hdrs |-> <<"c", "b", "a">>, rows |-> <<<<V1, V2, VX>>>>],                                 \* a, b and a third column
              [kind |-> "rows", hdrs |-> <<"a", "b">>, rows |-> <<>>],                                                    \* columns, no rows
              [kind |-> "cols", cols |-> <<>>, args |-> <<>>]}                                                            \* no columns
NaryFrom(S, FullN, MaxN) ==
    \/ hist = <<>> /\ \E s \in S : Alloc("r1", Construct(s), [op |-> "New", rd |-> "r1", seed |-> s])
    \/ Len(hist) = 1 /\ \E s \in S : Alloc("r2", Construct(s), [op |-> "New", rd |-> "r2", seed |-> s])
    \/ Len(hist) = 2 /\ \E n \in 3..MaxN : \E ops \in SeqsOf(IF n <= FullN THEN OperandSet({"r1", "r2"}) ELSE {<<"r", "r1", <<>>>>, <<"r", "r2", <<>>>>}, n) : ConcatNOf(ops)
NextNary == NaryFrom(NarySeeds, 3, 5)
NextNaryAll == NaryFrom(NarySeeds, 4, 6)          \* thorough tier
View == <<heap, reg, out, av>>

\* ---- properties -------------------------------------------------------------------------------
TypeOK == /\ \A r \in Regs : reg[r] \in 0..Len(heap)
          /\ DOMAIN av = ArgNames \cup {"lg"}
          /\ out \in {"ok", "ValueError", "KeyError", "IndexError", "TypeError"}
AllRectangular == \A o \in 1..Len(heap) : Rectangular(heap[o]) /\ (heap[o].cols = <<>> => heap[o].rows = <<>>)
                                          /\ Cardinality(Range(heap[o].cols)) = Len(heap[o].cols)
\* a call changes at most one existing object - the target of an in-place call - and never on rejection
OnlyTargetChanges == [][\A o \in 1..Len(heap) : heap'[o] # heap[o] =>
                           /\ Last(hist').op \in {"SetCol", "SetColCyc", "SetFrom", "DelCol", "Update", "SetColL", "UpdateMap"}
                           /\ o = reg[Last(hist').r]]_vars
RejectedLeavesState == [][(out' \in {"ValueError", "KeyError", "IndexError", "TypeError"} /\ Last(hist').op \notin {"Update", "UpdateMap"}) => (heap' = heap /\ reg' = reg)]_vars
\* a call owns nothing of the caller: only the caller's own actions change the caller's objects, and those change no table
CallsOwnNothing == [][IF Last(hist').op \in CallerOps THEN heap' = heap /\ reg' = reg ELSE ObserveArgs(av') = ObserveArgs(av)]_vars
\* concatenation appends rows in order and fills absent columns with None
ConcatLaw == \A ra \in Live, rb \in Live :
                LET c == ConcatT(T(ra), T(rb)).t IN
                /\ ColSet(c) = ColSet(T(ra)) \cup ColSet(T(rb))
                /\ NR(c) = NR(T(ra)) + NR(T(rb))
                /\ \A i \in 1..NR(T(ra)) : \A cc \in ColSet(c) : c.rows[i][cc] = (IF cc \in ColSet(T(ra)) THEN T(ra).rows[i][cc] ELSE None)
                /\ \A i \in 1..NR(T(rb)) : \A cc \in ColSet(c) : c.rows[NR(T(ra)) + i][cc] = (IF cc \in ColSet(T(rb)) THEN T(rb).rows[i][cc] ELSE None)
\* ONE call over n operands is the chained binary form, and says what the statement says: the rows of the operands in order, the union
\* of the columns, None wherever the operand a row comes from lacks the column
RECURSIVE RowsBefore(_, _)
RowsBefore(ts, k) == IF k = 1 THEN 0 ELSE RowsBefore(ts, k - 1) + NR(ts[k - 1])
ConcatNLaw == \A ra \in Live, rb \in Live, sh \in NaryShapes :
                LET ts == OpTables(ShapeOps(sh, ra, rb))  c == ConcatManyT(ts).t IN
                /\ c = ConcatChainT(ts).t
                /\ ColSet(c) = UNION {ColSet(ts[k]) : k \in 1..Len(ts)}
                /\ NR(c) = RowsBefore(ts, Len(ts) + 1)
                /\ \A k \in 1..Len(ts) : \A i \in 1..NR(ts[k]) : \A cc \in ColSet(c) :
                      c.rows[RowsBefore(ts, k) + i][cc] = (IF cc \in ColSet(ts[k]) THEN ts[k].rows[i][cc] ELSE None)
\* the scaling laws: a row-selecting or row-wise call on k copies of the rows yields k copies of what it yields on the rows, in order
\* (this is how the recorded histories on tables of 17 .. 1025 rows relate to the small tables TLC enumerates)
\* construction from k copies of the rows / records of a pattern is k copies of the table (state-independent: checked once, at start-up)
ASSUME BigSeedLaw == \A s \in BigSeeds : \A kk \in {2, 3} : LET p == NR(Construct(s).t) IN NewBigT(s, kk * p, 1).t = CopiesT(Construct(s).t, kk)
ScaleLaws == \A r \in Live : NR(T(r)) > 0 =>
                LET t == T(r)  n == NR(t)  c1 == t.cols[1] IN \A k \in (IF n <= 2 THEN {2, 3} ELSE {2}) :
                LET big == CopiesT(t, k) IN
                /\ \A m \in {"odd", "all", "nothing"} : MaskSeqT(big, CycleTo(MaskOf(n, m), k * n)).t = CopiesT(MaskT(t, m).t, k)
                /\ ConcatT(big, t).t = CopiesT(t, k + 1)
                /\ ConcatManyT([j \in 1..k |-> t]).t = big
                /\ SliceGenT(big, <<0, 0>>, <<1, n>>, 1).t = t                          \* d[:n]: the first copy
                /\ SliceGenT(big, <<1, -n>>, <<0, 0>>, 1).t = t                         \* d[-n:]: the last copy
                /\ SliceGenT(BigT(t, k * n, k), <<0, 0>>, <<0, 0>>, k).t = t            \* every row k times in a row, then d[::k]
                /\ SliceT(big, "rev").t = CopiesT(SliceT(t, "rev").t, k)
                /\ \A p \in 0..(n - 1) : TakeT(big, <<p + n, p - n>>).t = TakeT(t, <<p, p>>).t
                /\ ProjectT(big, <<c1>>).t = CopiesT(ProjectT(t, <<c1>>).t, k)
                /\ MinusColsT(big, <<c1>>).t = CopiesT(MinusColsT(t, <<c1>>).t, k)
                /\ HasCol(t, "a") => DeriveT(big, "c", "a_or_2").t = CopiesT(DeriveT(t, "c", "a_or_2").t, k)
                /\ DoT(big, <<"none0">>, <<>>).t = CopiesT(DoT(t, <<"none0">>, <<>>).t, k)
                /\ SetColT(big, "a", CycArg(ColVals(t, c1), k * n)).t = CopiesT(SetColT(t, "a", <<"l", ColVals(t, c1)>>).t, k)

\* a per-column transform with several columns / several functions is the same as its single steps one call after the other,
\* each on the table the previous one returned (columns in the order given, for each column the functions in the order given)
RECURSIVE DoOneByOne(_, _, _)
DoOneByOne(t, plan, k) == IF k > Len(plan) THEN t ELSE DoOneByOne(DoT(t, <<plan[k][2]>>, <<plan[k][1]>>).t, plan, k + 1)
DoLaw == \A r \in Live, m \in DoMenu :
            (m[2] # <<>> /\ Range(m[2]) \subseteq ColSet(T(r)) /\ DoT(T(r), m[1], m[2]).ok) => DoT(T(r), m[1], m[2]).t = DoOneByOne(T(r), DoPlan(m[2], m[1]), 1)

\* ---- what a state looks like from outside (the S2C expectation) ---------------------------------
Observe(t) == [cols |-> t.cols, rows |-> t.rows, len |-> NR(t), shape |-> <<NR(t), Len(t.cols)>>]
Snapshot == [hist |-> hist, out |-> out, args0 |-> ObserveArgs(W0), args |-> ObserveArgs(av),
             regs |-> [r \in Regs |-> IF reg[r] = 0 THEN [live |-> FALSE] ELSE [live |-> TRUE, obj |-> reg[r], table |-> Observe(T(r))]]]
Emit == PrintT(ToJson(Snapshot))
GenBound == Bound /\ (hist # <<>> => Emit)
SimBound == Bound /\ (Len(hist) = MaxDepth => Emit)
SharedBound == Bound /\ (Len(hist) >= 3 => Emit)
NaryBound == Bound /\ (Len(hist) = 3 => Emit)
=============================================================================
