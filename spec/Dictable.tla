------------------------------ MODULE Dictable ------------------------------
(* Property C01: a session of dictable objects as a state machine.                                *)
(*                                                                                                *)
(* State: a heap of table objects (the plain list-of-records model of Table.tla), registers that  *)
(* name objects (two registers may name the same object: d + None and dictable.concat(d) return   *)
(* their operand), and the outcome of the last call.  Every action is one public call:            *)
(* constructors allocate, d[c] = v / del d[c] / d.update mutate their target in place, everything *)
(* else allocates its result and leaves every existing object alone.  hist records the calls;     *)
(* model-checking configurations hide it with a VIEW, generator configurations print it.          *)
(* Augmented assignment (e += record, e += table, e += None) is a call too: on records it gives   *)
(* the NAME e the table e + x and says nothing about any other table - in particular not about    *)
(* the tables e was made from (copy, d - c, projection, d(c = f), rename, do ...).  NextDerived    *)
(* is the directed history form for exactly that: a table, a table made from it, then one of the  *)
(* two changed in place or grown, all registers observed.                                          *)
EXTENDS DictableOps, Json
CONSTANTS MaxDepth, MaxRowsC

VARIABLES heap, reg, out, hist
vars == <<heap, reg, out, hist>>

\* ---- the machine ------------------------------------------------------------------------------
Live == {r \in Regs : reg[r] # 0}
T(r) == heap[reg[r]]
Alloc(rd, res, h) ==
    /\ hist' = Append(hist, h)
    /\ out' = res.err
    /\ IF res.ok THEN heap' = Append(heap, res.t) /\ reg' = [reg EXCEPT ![rd] = Len(heap) + 1]
       ELSE UNCHANGED <<heap, reg>>
InPlace(r, res, h) ==
    /\ hist' = Append(hist, h)
    /\ out' = res.err
    /\ heap' = [heap EXCEPT ![reg[r]] = res.t]        \* UpdateT returns the partially updated table on error, the others return ok
    /\ UNCHANGED reg
Alias(rd, r, h) == hist' = Append(hist, h) /\ out' = "ok" /\ reg' = [reg EXCEPT ![rd] = reg[r]] /\ UNCHANGED heap

SetArgs(t) == {<<"s", V2>>, <<"s", None>>, <<"l", <<VX>>>>, <<"l", <<V1, V2>>>>, <<"l", <<>>>>,
               <<"l", [i \in 1..NR(t) |-> IF i % 2 = 1 THEN V2 ELSE VX]>>}
New      == \E rd \in {"r1", "r2"}, s \in Seeds : Alloc(rd, Construct(s), [op |-> "New", rd |-> rd, seed |-> s])
SetCol   == \E r \in Live, c \in {"a", "c"} : \E a \in SetArgs(T(r)) :
               LET res == SetColT(T(r), c, a) IN
               InPlace(r, IF res.ok THEN res ELSE [ok |-> FALSE, t |-> T(r), err |-> res.err], [op |-> "SetCol", r |-> r, c |-> c, arg |-> a])
DelCol   == \E r \in Live, c \in {"a", "c"} :
               LET res == DelColT(T(r), c) IN
               InPlace(r, IF res.ok THEN res ELSE [ok |-> FALSE, t |-> T(r), err |-> res.err], [op |-> "DelCol", r |-> r, c |-> c])
Update   == \E r \in Live : \E items \in {<<<<"c", <<"s", V1>>>>, <<"a", <<"l", <<V1, V2>>>>>>>>, <<<<"b", <<"s", None>>>>>>} :
               InPlace(r, UpdateT(T(r), items, 1), [op |-> "Update", r |-> r, items |-> items])
\* d[c] = e[c2]: a column taken from another (or the same) table - the two tables stay separate lists of records
SetFrom  == \E r \in Live, r2 \in Live, c \in {"a", "c"}, c2 \in {"a", "b"} : HasCol(T(r2), c2) /\
               LET a == <<"l", ColVals(T(r2), c2)>>  res == SetColT(T(r), c, a) IN
               InPlace(r, IF res.ok THEN res ELSE [ok |-> FALSE, t |-> T(r), err |-> res.err], [op |-> "SetFrom", r |-> r, c |-> c, r2 |-> r2, c2 |-> c2])
Slice    == \E r \in Live, sl \in {"first", "tail", "even", "last", "none", "rev"} : Alloc(NextReg(r), SliceT(T(r), sl), [op |-> "Slice", r |-> r, rd |-> NextReg(r), sl |-> sl])
Mask     == \E r \in Live, m \in {"all", "nothing", "odd"} : Alloc(NextReg(r), MaskT(T(r), m), [op |-> "Mask", r |-> r, rd |-> NextReg(r), m |-> m, mask |-> MaskOf(NR(T(r)), m)])
Take     == \E r \in Live, pos \in {<<0>>, <<-1, 0>>, <<1, 1>>} : Alloc(NextReg(r), TakeT(T(r), pos), [op |-> "Take", r |-> r, rd |-> NextReg(r), pos |-> pos])
Project  == \E r \in Live, cs \in {<<"a">>, <<"b", "a">>} : Alloc(NextReg(r), ProjectT(T(r), cs), [op |-> "Project", r |-> r, rd |-> NextReg(r), cs |-> cs])
Derive   == \E r \in Live, cf \in {<<"c", "copy_a">>, <<"a", "a_or_2">>, <<"b", "const_x">>, <<"c", "copy_key">>, <<"c", "a_plus_b">>, <<"a", "a_plus_b">>} :
               (cf[2] = "copy_key" => HasCol(T(r), "key")) /\      \* without such a column the library hands f its hidden key = <new column name>
               Alloc(NextReg(r), DeriveT(T(r), cf[1], cf[2]), [op |-> "Derive", r |-> r, rd |-> NextReg(r), c |-> cf[1], f |-> cf[2]])
\* d(c = value) with a value that is not a function: column assignment on a new table (broadcast, ValueError on a length that does not fit)
DeriveConst == \E r \in Live, c \in {"a", "c"} : \E a \in {<<"s", None>>, <<"s", V2>>, <<"l", <<V1, V2>>>>, <<"l", <<>>>>} :
               Alloc(NextReg(r), SetColT(T(r), c, a), [op |-> "DeriveConst", r |-> r, rd |-> NextReg(r), c |-> c, arg |-> a])
\* d(c = f, c2 = g) with g reading the fresh column c (both keyword orders are rendered)
DerivePair == \E r \in Live, f \in {"copy_a", "const_x"}, c2 \in {"b", "d"} : ~HasCol(T(r), "c") /\
               Alloc(NextReg(r), DerivePairT(T(r), "c", f, c2, "copy_c"), [op |-> "DerivePair", r |-> r, rd |-> NextReg(r), c |-> "c", f |-> f, c2 |-> c2, g |-> "copy_c"])
\* per-column transforms: one function or a list of functions, of the cell alone or with further parameters naming columns
DoMenu == {<<<<"none0">>, <<>>>>, <<<<"none0">>, <<"a">>>>, <<<<>>, <<"a">>>>,
           <<<<"add_a">>, <<"a", "b">>>>, <<<<"add_a">>, <<"b", "a">>>>, <<<<"add_a", "add_a">>, <<"a">>>>, <<<<"add_a", "add_a">>, <<"a", "b">>>>, <<<<"none0", "add_a">>, <<"b", "a", "b">>>>,
           <<<<"or_b">>, <<"b", "a">>>>, <<<<"or_b", "none0">>, <<"a", "b">>>>, <<<<"add_a", "or_b">>, <<"c", "a">>>>}
Do       == \E r \in Live, m \in DoMenu : Range(m[2]) \subseteq ColSet(T(r)) /\ (m[2] = <<>> => DoCellOnly(m[1])) /\
               Alloc(NextReg(r), DoT(T(r), m[1], m[2]), [op |-> "Do", r |-> r, rd |-> NextReg(r), fs |-> m[1], cs |-> m[2]])
Rename   == \E r \in Live : ~HasCol(T(r), "d") /\ Alloc(NextReg(r), RenameT(T(r), "a", "d"), [op |-> "Rename", r |-> r, rd |-> NextReg(r), c |-> "a", c2 |-> "d"])
Swap     == \E r \in Live : (HasCol(T(r), "a") /\ HasCol(T(r), "b")) /\ Alloc(NextReg(r), SwapT(T(r), "a", "b"), [op |-> "Swap", r |-> r, rd |-> NextReg(r), c |-> "a", c2 |-> "b"])
Concat   == \E ra \in Live, rb \in Live : Alloc("r3", ConcatT(T(ra), T(rb)), [op |-> "Concat", ra |-> ra, rb |-> rb, rd |-> "r3"])
AddRec   == \E r \in Live, rec \in {<<<<"a", V2>>>>, <<<<"c", VX>>, <<"a", None>>>>} :
               Alloc(NextReg(r), ConcatT(T(r), RecordT(rec)), [op |-> "AddRecord", r |-> r, rd |-> NextReg(r), rec |-> rec])
Copy     == \E r \in Live : Alloc(NextReg(r), Ok(T(r)), [op |-> "Copy", r |-> r, rd |-> NextReg(r)])
\* d - c / d - [c, ...]: column deletion that returns a new table (absent names ignored)
Minus    == \E r \in Live, cs \in {<<"b">>, <<"a", "b">>, <<"d">>} : Alloc(NextReg(r), MinusColsT(T(r), cs), [op |-> "Minus", r |-> r, rd |-> NextReg(r), cs |-> cs])
\* filters without any condition return the whole table - as a new object (inc() / exc(), see C06)
NoFilter == \E r \in Live, f \in {"inc", "exc"} : Alloc(NextReg(r), Ok(T(r)), [op |-> "NoFilter", r |-> r, rd |-> NextReg(r), f |-> f])
\* named deviations: these two calls return their operand itself, not a new table
AddNone  == \E r \in Live : Alias(NextReg(r), r, [op |-> "AddNone", r |-> r, rd |-> NextReg(r)])
ConcatOne == \E r \in Live : Alias(NextReg(r), r, [op |-> "ConcatOne", r |-> r, rd |-> NextReg(r)])
\* augmented assignment e += x.  The name e afterwards holds e + x; every OTHER table is what it was.  Whether e is a new object
\* or the old one grown in place cannot be told apart unless a second name holds the very same object (only d + None and
\* concat(d) make such names); the statement does not say which (a Python list of records would grow in place), so the
\* calls are taken for names that are the only one for their object.
SoleName(r) == \A s \in Regs \ {r} : reg[s] # reg[r]
IAddRec  == \E r \in Live, rec \in {<<<<"a", V2>>>>, <<<<"c", VX>>, <<"a", None>>>>} : SoleName(r) /\
               Alloc(r, ConcatT(T(r), RecordT(rec)), [op |-> "IAddRecord", r |-> r, rd |-> r, rec |-> rec])
IAddTab  == \E r \in Live, rb \in Live : SoleName(r) /\
               Alloc(r, ConcatT(T(r), T(rb)), [op |-> "IAdd", r |-> r, rb |-> rb, rd |-> r])       \* rb = r: e += e
IAddNone == \E r \in Live : Alias(r, r, [op |-> "IAddNone", r |-> r, rd |-> r])                      \* e += None, e += 0: nothing happens
ISub     == \E r \in Live, cs \in {<<"b">>, <<"a", "d">>} : SoleName(r) /\                                 \* e -= c, e -= [c, ...]
               Alloc(r, MinusColsT(T(r), cs), [op |-> "ISub", r |-> r, rd |-> r, cs |-> cs])

Init == heap = <<>> /\ reg = [r \in Regs |-> 0] /\ out = "ok" /\ hist = <<>>
Makers   == Slice \/ Mask \/ Take \/ Project \/ Derive \/ DeriveConst \/ DerivePair \/ Do \/ Rename \/ Swap \/ Concat \/ AddRec \/ Copy \/ Minus \/ NoFilter \/ AddNone \/ ConcatOne
Changers == SetCol \/ SetFrom \/ DelCol \/ Update \/ IAddRec \/ IAddTab \/ IAddNone \/ ISub
Next == Len(hist) < MaxDepth /\ (New \/ Makers \/ Changers)       \* exhaustive runs: no successors are built beyond the bound
NextSim == New \/ Makers \/ Changers                               \* simulation: the depth of the run is the bound
Bound == Len(hist) <= MaxDepth /\ \A o \in 1..Len(heap) : Len(heap[o].rows) <= MaxRowsC
\* the directed history form: one table in r1, a table made from it, then any of the live tables changed in place or grown
DerivedSeeds == {[kind |-> "cols", cols |-> <<"a", "b">>, args |-> <<<<"l", <<V1, V2>>>>, <<"l", <<VX, None>>>>>>],
                 [kind |-> "cols", cols |-> <<"key", "a">>, args |-> <<<<"l", <<VX, V2>>>>, <<"l", <<V1, None>>>>>>],
                 [kind |-> "cols", cols |-> <<"a", "b">>, args |-> <<<<"s", V1>>, <<"l", <<V1, V2, None>>>>>>],
                 [kind |-> "rows", hdrs |-> <<"a", "c">>, rows |-> <<<<V1, V2>>, <<None, VX>>>>]}
DerivedFrom(S) == \/ hist = <<>> /\ \E s \in S : Alloc("r1", Construct(s), [op |-> "New", rd |-> "r1", seed |-> s])
                  \/ Len(hist) = 1 /\ Makers
                  \/ Len(hist) = 2 /\ Changers
NextDerived == DerivedFrom(DerivedSeeds)
NextDerivedAll == DerivedFrom(Seeds)          \* thorough tier: from every seed table
View == <<heap, reg, out>>

\* ---- properties -------------------------------------------------------------------------------
TypeOK == /\ \A r \in Regs : reg[r] \in 0..Len(heap)
          /\ out \in {"ok", "ValueError", "KeyError", "IndexError", "TypeError"}
AllRectangular == \A o \in 1..Len(heap) : Rectangular(heap[o]) /\ (heap[o].cols = <<>> => heap[o].rows = <<>>)
                                          /\ Cardinality(Range(heap[o].cols)) = Len(heap[o].cols)
\* a call changes at most one existing object - the target of an in-place call - and never on rejection
OnlyTargetChanges == [][\A o \in 1..Len(heap) : heap'[o] # heap[o] =>
                           /\ Last(hist').op \in {"SetCol", "SetFrom", "DelCol", "Update"}
                           /\ o = reg[Last(hist').r]]_vars
RejectedLeavesState == [][(out' \in {"ValueError", "KeyError", "IndexError", "TypeError"} /\ Last(hist').op # "Update") => (heap' = heap /\ reg' = reg)]_vars
\* concatenation appends rows in order and fills absent columns with None
ConcatLaw == \A ra \in Live, rb \in Live :
                LET c == ConcatT(T(ra), T(rb)).t IN
                /\ ColSet(c) = ColSet(T(ra)) \cup ColSet(T(rb))
                /\ NR(c) = NR(T(ra)) + NR(T(rb))
                /\ \A i \in 1..NR(T(ra)) : \A cc \in ColSet(c) : c.rows[i][cc] = (IF cc \in ColSet(T(ra)) THEN T(ra).rows[i][cc] ELSE None)
                /\ \A i \in 1..NR(T(rb)) : \A cc \in ColSet(c) : c.rows[NR(T(ra)) + i][cc] = (IF cc \in ColSet(T(rb)) THEN T(rb).rows[i][cc] ELSE None)

\* a per-column transform with several columns / several functions is the same as its single steps one call after the other,
\* each on the table the previous one returned (columns in the order given, for each column the functions in the order given)
RECURSIVE DoOneByOne(_, _, _)
DoOneByOne(t, plan, k) == IF k > Len(plan) THEN t ELSE DoOneByOne(DoT(t, <<plan[k][2]>>, <<plan[k][1]>>).t, plan, k + 1)
DoLaw == \A r \in Live, m \in DoMenu :
            (m[2] # <<>> /\ Range(m[2]) \subseteq ColSet(T(r)) /\ DoT(T(r), m[1], m[2]).ok) => DoT(T(r), m[1], m[2]).t = DoOneByOne(T(r), DoPlan(m[2], m[1]), 1)

\* ---- what a state looks like from outside (the S2C expectation) ---------------------------------
Observe(t) == [cols |-> t.cols, rows |-> t.rows, len |-> NR(t), shape |-> <<NR(t), Len(t.cols)>>]
Snapshot == [hist |-> hist, out |-> out,
             regs |-> [r \in Regs |-> IF reg[r] = 0 THEN [live |-> FALSE] ELSE [live |-> TRUE, obj |-> reg[r], table |-> Observe(T(r))]]]
Emit == PrintT(ToJson(Snapshot))
GenBound == Bound /\ (hist # <<>> => Emit)
SimBound == Bound /\ (Len(hist) = MaxDepth => Emit)
=============================================================================
