CONSTANT Sizes <- SZ_identity
INIT Init
NEXT Next
INVARIANT CellsJoinIsLaw
INVARIANT ObjectLookupIsLaw
