INIT Init
NEXT Next
INVARIANT RoundTrip
INVARIANT Successor
INVARIANT WeekdayStep
INVARIANT Period400
INVARIANT Anchor
