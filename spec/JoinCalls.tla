------------------------------ MODULE JoinCalls ------------------------------
(* Property C02 at the level of CALLS on operand OBJECTS.                                        *)
(*                                                                                               *)
(* The statement quantifies over "any two tables": nothing says that the two operands are        *)
(* different objects.  This module describes                                                     *)
(*   - the ways in which the right operand object can be related to the left one (the very same  *)
(*     object, a copy / projection / derived table / plain dict that shares the column LIST      *)
(*     objects, an equal table built independently, an unrelated table),                         *)
(*   - the menu of call plans (key plans with equal and different key expressions on the two     *)
(*     sides, named and computed; modes; spellings; method and operator forms; both directions;  *)
(*     the composite x*y + x/y),                                                                 *)
(*   - the verdict on one call.  At the law level an aliased call is nothing special:            *)
(*     x.join(x, lk, rk, mode) is Join(x, x, lk, rk, mode).                                      *)
(* MC_JoinObj.tla turns this into a state machine (calls and in-place edits on one pair of       *)
(* objects) which TLC enumerates; Trace_Join.tla judges every recorded call with CallVerdict.    *)
EXTENDS Join

\* ---- the left join of the statement: x*y + x/y ---------------------------------------------------
\* rows of x without partner come with None in the columns x does not have
\* (named deviation XorNoKey: with no key column xor returns x whole)
XorPart(x, y, lk, rk) == IF Len(lk) = 0 THEN x.rows ELSE XorRows(x, y, lk, rk)
LeftJoinRows(x, y, lk, rk, mode) ==
    LET xr == XorPart(x, y, lk, rk)
        jc == JoinCols(x, y, lk, rk)
    IN  JoinRows(x, y, lk, rk, mode) \o [i \in 1..Len(xr) |-> [c \in jc |-> IF c \in ColSet(x) THEN xr[i][c] ELSE None]]

\* ---- the verdict on one call ---------------------------------------------------------------------
\* out: [kind |-> "table", cols, rows] | [kind |-> "exc", cls] ; x, y: the operands as they were before the call
\* named deviation KeyShadows: the result has ONE column per name - a column of the other side that bears the
\* name of a key column of the result (x.join(x, 'a', 'b'): the right table's own column a) is not carried
JoinVerdict(x, y, lk, rk, mode, out) ==
    IF ~KeyNameOK(lk, rk) THEN (IF out.kind = "exc" /\ out.cls = "ValueError" THEN "" ELSE "two_computed_keys_not_rejected")
    ELSE IF out.kind # "table" THEN "join_raised"
    ELSE IF Range(out.cols) # JoinCols(x, y, lk, rk) THEN "join_columns"
    ELSE IF ~BagEq(out.rows, JoinRows(x, y, lk, rk, mode), KeyNames(lk, rk)) THEN "join_rows"
    ELSE ""
XorVerdict(x, y, lk, rk, mode, out) ==
    LET keep == IF mode = "r" THEN y ELSE x
        other == IF mode = "r" THEN x ELSE y
        kk == IF mode = "r" THEN rk ELSE lk
        ko == IF mode = "r" THEN lk ELSE rk IN
    IF out.kind # "table" THEN "xor_raised"
    \* named deviation XorNoKey: with no key column there is nothing to exclude on - x comes back whole
    ELSE IF Len(lk) = 0 THEN (IF Range(out.cols) = ColSet(x) /\ out.rows = x.rows THEN "" ELSE "xor_no_key")
    ELSE IF Range(out.cols) # ColSet(keep) THEN "xor_columns"
    ELSE IF ~BagEq(out.rows, XorRows(keep, other, kk, ko), {}) THEN "xor_rows"
    ELSE ""
LeftJoinVerdict(x, y, lk, rk, mode, out) ==
    IF ~KeyNameOK(lk, rk) THEN (IF out.kind = "exc" /\ out.cls = "ValueError" THEN "" ELSE "two_computed_keys_not_rejected")
    ELSE IF out.kind # "table" THEN "left_join_raised"
    ELSE IF Range(out.cols) # JoinCols(x, y, lk, rk) THEN "left_join_columns"
    ELSE IF ~BagEq(out.rows, LeftJoinRows(x, y, lk, rk, mode), KeyNames(lk, rk)) THEN "left_join_rows"
    ELSE ""
CallVerdict(op, x, y, lk, rk, mode, out) ==
    CASE op = "join" -> JoinVerdict(x, y, lk, rk, mode, out)
      [] op = "xor" -> XorVerdict(x, y, lk, rk, mode, out)
      [] op = "leftjoin" -> LeftJoinVerdict(x, y, lk, rk, mode, out)
      [] OTHER -> "unknown_op"

\* ---- operand shapes ------------------------------------------------------------------------------
\* The base object X has the columns a, b (key material) and p (row id).  The other operand object is
\*   same      X itself                               x.join(x, ...)
\*   copy      X.copy()              (new table object, the column lists are X's)
\*   lcopy     as copy, but the COPY is the left operand and X the right one
\*   project   X[['a', 'b']]         (shares the lists of a and b)
\*   derive    X(q = lambda p: p + 100)  (shares the lists of a, b, p; one column of its own)
\*   dictof    the plain dict {column: X's list}      join / xor convert it with dictable(..)
\*   equal     a table with equal cells built independently (no sharing: the control)
\*   distinct  an unrelated table with the columns a, b, q
Shapes == <<"same", "copy", "lcopy", "project", "derive", "dictof", "equal", "distinct">>
ShapeIx(s) == CHOOSE i \in 1..Len(Shapes) : Shapes[i] = s
XCols == <<"a", "b", "p">>
YCols == <<"a", "b", "q">>
ProjectTo(t, cs) == [cols |-> cs, rows |-> [i \in 1..NRows(t) |-> [c \in Range(cs) |-> t.rows[i][c]]]]
DeriveQ(t) == [cols |-> t.cols \o <<"q">>,
               rows |-> [i \in 1..NRows(t) |-> [c \in ColSet(t) \cup {"q"} |-> IF c = "q" THEN VInt(Pay(t.rows[i].p) + 100) ELSE t.rows[i][c]]]]
\* values of the two operand objects; x = value of X now, yd = value of the independently built table
\* (the shapes that share X's column lists see an in-place edit of a cell of X, "equal" does not)
SharesLists(shape) == shape \in {"same", "copy", "lcopy", "project", "derive", "dictof"}
LeftVal(x, yd, shape) == x
RightVal(x, yd, shape) == CASE shape \in {"same", "copy", "lcopy", "dictof"} -> x
                            [] shape = "project" -> ProjectTo(x, <<"a", "b">>)
                            [] shape = "derive" -> DeriveQ(x)
                            [] shape \in {"equal", "distinct"} -> yd

\* ---- call plans ----------------------------------------------------------------------------------
KC(c) == <<"col", c>>
KF(f) == <<"fn", f>>
KeyPlans == <<
    [lk |-> <<KC("a")>>, rk |-> <<KC("a")>>],                          \* the same column on both sides
    [lk |-> <<KC("a")>>, rk |-> <<KC("b")>>],                          \* parent / child: different columns
    [lk |-> <<KC("b")>>, rk |-> <<KC("a")>>],
    [lk |-> <<KC("b")>>, rk |-> <<KC("b")>>],
    [lk |-> <<KC("a"), KC("b")>>, rk |-> <<KC("a"), KC("b")>>],
    [lk |-> <<KC("a"), KC("b")>>, rk |-> <<KC("b"), KC("a")>>],        \* two key columns, crossed
    [lk |-> <<KF("ident_a")>>, rk |-> <<KC("b")>>],                    \* a computed key on the left ...
    [lk |-> <<KC("b")>>, rk |-> <<KF("ident_a")>>],                    \* ... on the right
    [lk |-> <<KF("ident_a")>>, rk |-> <<KC("a")>>],                    \* computed key with the value of the other side's column
    [lk |-> <<KC("a")>>, rk |-> <<KF("ident_b")>>],
    [lk |-> <<KF("ident_b")>>, rk |-> <<KC("b")>>],                    \* the same key, spelled differently on the two sides
    [lk |-> <<KF("ident_a")>>, rk |-> <<KF("ident_a")>>],              \* two computed keys: join refuses
    [lk |-> <<>>, rk |-> <<>>] >>                                      \* explicitly no key: cross product
OpModes == << <<"join", "none">>, <<"join", "l">>, <<"join", "r">>, <<"join", "0">>, <<"join", "1">>, <<"join", "fn">>,
              <<"xor", "l">>, <<"xor", "r">>, <<"leftjoin", "none">>, <<"leftjoin", "r">> >>
\* how the key arguments are written: a bare name / function, a list, a tuple, "same" = rcols omitted
Spellings(kp) == (IF Len(kp.lk) = 1 THEN <<"str">> ELSE <<>>) \o <<"list", "tuple">> \o (IF kp.lk = kp.rk THEN <<"same">> ELSE <<>>)
SpellOf(kp, n) == Spellings(kp)[(n % Len(Spellings(kp))) + 1]
MkPlan(op, mode, lk, rk, spelling, how, dir) ==
    [kind |-> "call", op |-> op, mode |-> mode, lk |-> lk, rk |-> rk, spelling |-> spelling, how |-> how, dir |-> dir,
     implicit |-> spelling = "none"]
\* explicit keys: every key plan x every op/mode, the spelling rotating
NExplicit == Len(KeyPlans) * Len(OpModes)
ExplicitPlan(j, dir) ==
    LET k == ((j - 1) \div Len(OpModes)) + 1
        m == ((j - 1) % Len(OpModes)) + 1
    IN  MkPlan(OpModes[m][1], OpModes[m][2], KeyPlans[k].lk, KeyPlans[k].rk, SpellOf(KeyPlans[k], k + m), "method", dir)
\* implicit keys (lcols = None): the common columns; as a method call with every op/mode, and as x * y, x / y, x*y + x/y
NImplicit == Len(OpModes) + 3
ImplicitKeys(l, r) == [k \in 1..Len(Common(l, r)) |-> KC(Common(l, r)[k])]
ImplicitPlan(j, l, r, dir) ==
    LET ks == ImplicitKeys(l, r) IN
    IF j <= Len(OpModes) THEN MkPlan(OpModes[j][1], OpModes[j][2], ks, ks, "none", "method", dir)
    ELSE IF j = Len(OpModes) + 1 THEN MkPlan("join", "none", ks, ks, "none", "operator", dir)
    ELSE IF j = Len(OpModes) + 2 THEN MkPlan("xor", "l", ks, ks, "none", "operator", dir)
    ELSE MkPlan("leftjoin", "none", ks, ks, "none", "operator", dir)
\* the composite needs a key (without one xor is the named deviation); the mirrored direction (the OTHER object
\* is the one whose method is called) needs another table object
PlanOK(p, shape) == /\ (p.op = "leftjoin" => Len(p.lk) > 0)
                    /\ (p.dir = "yx" => shape \notin {"same", "dictof"})
\* plan number i (1..NPlans) for the operand values l (base object side) and r (the other object):
\* first all plans called on the base object, then the mirrored ones
NPerDir == NExplicit + NImplicit
NPlans == 2 * NPerDir
PlanAt(i, l, r) ==
    LET dir == IF i <= NPerDir THEN "xy" ELSE "yx"
        j == ((i - 1) % NPerDir) + 1
    IN  IF j <= NExplicit THEN ExplicitPlan(j, dir)
        ELSE IF dir = "xy" THEN ImplicitPlan(j - NExplicit, l, r, dir) ELSE ImplicitPlan(j - NExplicit, r, l, dir)
\* the operands of a plan in call order
CallLeft(p, l, r) == IF p.dir = "xy" THEN l ELSE r
CallRight(p, l, r) == IF p.dir = "xy" THEN r ELSE l
=============================================================================
