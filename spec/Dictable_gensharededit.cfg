CONSTANTS MaxDepth = 5
          MaxRowsC = 12
INIT Init
NEXT NextSharedEdit
CONSTRAINT SharedBound
