CONSTANTS Wide = TRUE
          Nest = TRUE
INIT Init
NEXT EvalGen
