CONSTANT SSizes <- SS_quick
INIT Init
NEXT Gen
