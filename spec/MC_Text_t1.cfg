CONSTANTS Strata = {"sep"}
          NumLen = 3
INIT Init
NEXT Eval
INVARIANT DeprefixSepLaws
