CONSTANTS PathLen = 6
          Strata = {"path", "csv"}
INIT Init
NEXT Eval
INVARIANT CanonLaws
INVARIANT DirLaws
INVARIANT JoinLaws
INVARIANT CsvShape
