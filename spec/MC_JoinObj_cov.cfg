CONSTANTS MaxRows = 1
          MaxRowsY = 1
          MaxSteps = 2
          NKeys = 6
          Stride = 16
          Gen = FALSE
          Emit = "none"
          Variant = "plain"
SPECIFICATION Spec
INVARIANT TypeOK
INVARIANT MechRefinesLaw
INVARIANT Decomposition
INVARIANT SelfJoinReflexive
INVARIANT SelfJoinTranspose
INVARIANT SharingInvisible
PROPERTY CallsLeaveOperands
