----------------------------- MODULE OrderSess -----------------------------
(* Property C07, sort SESSIONS: several calls in one process on objects the caller owns.        *)
(*                                                                                             *)
(* The statement speaks of single calls: sort(xs) is a sorted permutation of xs, d.sort(keys)  *)
(* a stable permutation of the rows of d ordered by the key columns / key function / explicit  *)
(* value orders.  It holds for EVERY call, whatever happened before in the process: a call has *)
(* no memory and owns nothing of the caller.  A session is a little heap of caller-owned        *)
(* objects - tables and lists - and a history of steps:                                        *)
(*    sort      r = T.sort(by, ...)          (a new table object)                              *)
(*    sortfn    r = T.sort(f)                (f one of the key functions, one object each)     *)
(*    sortval   r = T.sort(col = L, ...)     (L caller-owned list OBJECTS, reused and edited)  *)
(*    listsort  r = sort(L) | sorted(L, key = Cmp)     (a new list object)                     *)
(*    setcol    the caller replaces / edits a column of a table - an original or a RESULT -    *)
(*              in place: T[col] = vals | T.col = vals | T.update({col: vals}) | T.col[pos] = v *)
(*    setlst    the caller edits a list object in place (L[:] = vals)                          *)
(*    raise     a call that legitimately RAISES - operands outside the statement's universe    *)
(*              (complex numbers, bare objects: cmp, Cmp.__lt__, sorted(key = Cmp), sort,      *)
(*              dictable.sort on throw-away operands), or a request the table cannot serve     *)
(*              (a missing column, a key function that raises / has an unknown parameter /      *)
(*              returns incomparable values, an unhashable listed value, a value order that is *)
(*              no sequence).  Outcome = the exception class; the heap is unchanged.           *)
(*    cmps      the caller evaluates cmp over a sample of the cmp universe (a matrix)          *)
(* Law: the outcome of every call is the single-call law applied to the operands AS THEY ARE   *)
(* AT THAT MOMENT; no call changes an object that exists already; the caller's edit of one      *)
(* object changes that object only (a result shares nothing with its operand).                 *)
(* Apply(C, S, st) is the constructive version under a comparison C (CmpModel for the S2C       *)
(* generator); the trace specification (Trace_Order, kind "session") tracks the heap itself and *)
(* judges every call against the cmp it observed, as it does for single calls.                 *)
EXTENDS OrderBig, SequencesExt

\* ---- explicit value orders (dictable.sort(col = [values in order], ...)) -----------------------
\* listed values by position, unlisted ones last.  A value listed TWICE (as a dict sees values: 1, 1.0
\* and True are one value) has no single position "in the given order"; the statement does not say which
\* occurrence counts - named deviation DupReading: the first or the last occurrence, for the whole call.
\* In every reading each listed value ranks strictly before every unlisted one.
Occs(v, vs)    == {i \in 1..Len(vs) : SameForSetX(v, vs[i])}
MinOf(S)       == CHOOSE i \in S : \A j \in S : i <= j
MaxOf(S)       == CHOOSE i \in S : \A j \in S : i >= j
RankR(reading, v, vs) == IF Occs(v, vs) = {} THEN Len(vs) + 1
                         ELSE IF reading = "first" THEN MinOf(Occs(v, vs)) ELSE MaxOf(Occs(v, vs))
Rank(v, vs)    == RankR("first", v, vs)
HasDup(vs)     == \E i, j \in 1..Len(vs) : i < j /\ SameForSetX(vs[i], vs[j])
RECURSIVE LexS(_, _)
LexS(cs, k) == IF k > Len(cs) THEN 0 ELSE IF cs[k] # 0 THEN cs[k] ELSE LexS(cs, k + 1)
\* orders: sequence of <<column, listed values>>, the first column has the highest priority
RankCmpR(reading, orders, r, s) ==
    LexS([k \in 1..Len(orders) |-> Sign(RankR(reading, r[orders[k][1]], orders[k][2]) - RankR(reading, s[orders[k][1]], orders[k][2]))], 1)
RankCmp(orders, r, s) == RankCmpR("first", orders, r, s)
ByValueOrder(reading, orders, rows) == LET RC(r, s) == RankCmpR(reading, orders, r, s) IN StableSort(RC, rows)
IsByValueOrder(orders, rows, out) == out = ByValueOrder("first", orders, rows) \/ out = ByValueOrder("last", orders, rows)
OrdersHaveDup(orders) == \E k \in 1..Len(orders) : HasDup(orders[k][2])

\* ---- steps ----------------------------------------------------------------------------------------
\* one record shape for every step (unused fields keep their defaults)
NoStep == [op |-> "", src |-> 0, by |-> <<>>, fn |-> "", ords |-> <<>>, lst |-> 0, how |-> "", col |-> "", vals |-> <<>>, pos |-> 0]
SortStep(t, by)          == [NoStep EXCEPT !.op = "sort", !.src = t, !.by = by]
SortFnStep(t, fn)        == [NoStep EXCEPT !.op = "sortfn", !.src = t, !.fn = fn]
SortValStep(t, ords)     == [NoStep EXCEPT !.op = "sortval", !.src = t, !.ords = ords]        \* ords: <<column, list object>> ...
ListSortStep(l, how)     == [NoStep EXCEPT !.op = "listsort", !.lst = l, !.how = how]         \* how: "sort" | "Cmp"
SetColStep(t, c, how, vals, pos) == [NoStep EXCEPT !.op = "setcol", !.src = t, !.col = c, !.how = how, !.vals = vals, !.pos = pos]
SetLstStep(l, vals)      == [NoStep EXCEPT !.op = "setlst", !.lst = l, !.vals = vals]
\* how: the way the call raises; t: the heap table it is made on (0: throw-away operands the driver builds for the call)
RaiseStep(how, t)        == [NoStep EXCEPT !.op = "raise", !.how = how, !.src = t]
CmpsStep                 == [NoStep EXCEPT !.op = "cmps"]
FreeRaiseHows  == {"cmp_complex", "cmp_object", "cmp_nested", "cmp_dictval", "Cmp_lt", "Cmp_sorted", "sort_complex", "sort_object",
                   "sort_notiter", "dsort_complex", "dsort_object"}
TableRaiseHows == {"nocol", "nocol2", "valnocol", "fnraise", "fnnoarg", "fncomplex", "unhashable", "valnotiter"}
\* the exception class the code documents / Python gives today (mechanism level, informational: the statement does not speak
\* about calls outside its universe - named deviation OutsideDomain: the OUTCOME of such a call is not judged, what it leaves
\* behind is)
ExcOf(how) == IF how \in {"nocol", "nocol2", "valnocol"} THEN "KeyError" ELSE IF how = "fnraise" THEN "ZeroDivisionError" ELSE "TypeError"
IsRaise(st) == st.op = "raise"
IsCall(st) == st.op \in {"sort", "sortfn", "sortval", "listsort"}
IsEdit(st) == st.op \in {"setcol", "setlst"}

\* the key functions of the drivers: swap = lambda a, b: b; pair = lambda a, b: (b, a); const = lambda: 0
FnKeyCols(fn) == CASE fn = "swap" -> <<"b">> [] fn = "pair" -> <<"b", "a">> [] OTHER -> <<>>
FnArgs(fn)    == {"a", "b"}                                  \* the columns the function's parameters name
KeyCols(st)   == IF st.op = "sort" THEN st.by ELSE IF st.op = "sortfn" THEN FnKeyCols(st.fn) ELSE <<>>

\* ---- the heap: S = [tabs |-> sequence of tables (a table = non-empty sequence of rows, a row = record
\*      column -> value with a unique id), lsts |-> sequence of lists of values, role |-> "o" (a list of
\*      listed values) | "v" (a list to be sorted) per list]
ColsOf(S, t)  == DOMAIN S.tabs[t][1]
ColVals(S, t, c) == [i \in 1..Len(S.tabs[t]) |-> S.tabs[t][i][c]]
KeyTup(row, by) == VTup([k \in 1..Len(by) |-> row[by[k]]])
SortRows(C(_, _), rows, by) == LET RC(r, s) == C(KeyTup(r, by), KeyTup(s, by)) IN StableSort(RC, rows)
OrdersAt(S, st) == [k \in 1..Len(st.ords) |-> <<st.ords[k][1], S.lsts[st.ords[k][2]]>>]     \* the lists as they are NOW
SeqRange(s) == {s[i] : i \in 1..Len(s)}
Enabled(S, st) ==
    CASE st.op = "sort"   -> st.src \in 1..Len(S.tabs) /\ SeqRange(st.by) \subseteq ColsOf(S, st.src)
      [] st.op = "sortfn" -> st.src \in 1..Len(S.tabs) /\ FnArgs(st.fn) \subseteq ColsOf(S, st.src)
      [] st.op = "sortval" -> /\ st.src \in 1..Len(S.tabs)
                              /\ \A k \in 1..Len(st.ords) : st.ords[k][1] \in ColsOf(S, st.src) /\ st.ords[k][2] \in 1..Len(S.lsts)
                                                            /\ S.role[st.ords[k][2]] = "o"
      [] st.op = "listsort" -> st.lst \in 1..Len(S.lsts) /\ S.role[st.lst] = "v"
      [] st.op = "setcol" -> st.src \in 1..Len(S.tabs) /\ st.col \in ColsOf(S, st.src) /\ Len(st.vals) = Len(S.tabs[st.src])
      [] st.op = "setlst" -> st.lst \in 1..Len(S.lsts)
      [] st.op = "raise"  -> IF st.src = 0 THEN st.how \in FreeRaiseHows
                             ELSE st.how \in TableRaiseHows /\ st.src \in 1..Len(S.tabs) /\ "a" \in ColsOf(S, st.src)
      [] st.op = "cmps"   -> TRUE
      [] OTHER -> FALSE
\* the caller's own actions
EditTable(S, st) == [S EXCEPT !.tabs[st.src] = [i \in 1..Len(@) |-> [@[i] EXCEPT ![st.col] = st.vals[i]]]]
EditList(S, st)  == [S EXCEPT !.lsts[st.lst] = st.vals]
\* a call allocates its result and changes nothing else
NewTable(S, rows) == [S EXCEPT !.tabs = Append(@, rows)]
NewList(S, xs)    == [S EXCEPT !.lsts = Append(@, xs), !.role = Append(@, "v")]
Apply(C(_, _), S, st) ==
    CASE st.op \in {"sort", "sortfn"} -> NewTable(S, SortRows(C, S.tabs[st.src], KeyCols(st)))
      [] st.op = "sortval"  -> NewTable(S, ByValueOrder("first", OrdersAt(S, st), S.tabs[st.src]))
      [] st.op = "listsort" -> NewList(S, StableSort(C, S.lsts[st.lst]))
      [] st.op = "setcol"   -> EditTable(S, st)
      [] st.op = "setlst"   -> EditList(S, st)
      [] st.op \in {"raise", "cmps"} -> S                   \* a call that raises leaves nothing behind; cmp allocates nothing

\* ---- the steps a session offers in state S ----------------------------------------------------------
Bys  == {<<"a">>, <<"b">>, <<"a", "b">>, <<"b", "a">>}
Fns  == {"swap", "pair"}
OrderLists(S) == {l \in 1..Len(S.lsts) : S.role[l] = "o"}
ValueLists(S) == {l \in 1..Len(S.lsts) : S.role[l] = "v"}
OrdChoices(S) == {<<<<c, l>>>> : c \in {"a", "b"}, l \in OrderLists(S)}
                 \cup {<<<<c, l>>, <<d, m>>>> : c \in {"a", "b"}, d \in {"a", "b"}, l \in OrderLists(S), m \in OrderLists(S)}
OrdOK(o) == Len(o) = 1 \/ o[1][1] # o[2][1]                                  \* a keyword is given once
Calls(S) == {st \in {SortStep(t, b) : t \in 1..Len(S.tabs), b \in Bys}
                    \cup {SortFnStep(t, f) : t \in 1..Len(S.tabs), f \in Fns}
                    \cup {SortValStep(t, o) : t \in 1..Len(S.tabs), o \in {o \in OrdChoices(S) : OrdOK(o)}}
                    \cup {ListSortStep(l, h) : l \in ValueLists(S), h \in {"sort", "Cmp"}} : Enabled(S, st)}
RaiseCalls(S) == {st \in {RaiseStep(h, 0) : h \in FreeRaiseHows} \cup {RaiseStep(h, t) : h \in TableRaiseHows, t \in 1..Len(S.tabs)} : Enabled(S, st)}
\* the caller's edits: a column reversed (item assignment), rotated (attribute assignment), re-typed (every int replaced by the
\* equal float and the other way round, through update: the table is equal by == and differs by type), its first element raised
\* above and its last element lowered below everything (element assignment into the column the table holds); a list reversed,
\* shortened, or grown by a value
EditHi == VInt(9)
EditLo == VInt(-9)
Retype(v) == IF Tag(v) = "i" THEN VFlt(Pay(v), 1) ELSE IF Tag(v) = "f" /\ Pay(v)[2] = 1 THEN VInt(Pay(v)[1]) ELSE v
Rotate(s) == IF s = <<>> THEN s ELSE Append(Tail(s), Head(s))
ColEdits(S, t, c) ==
    LET cur == ColVals(S, t, c)  n == Len(cur)  re == [i \in 1..n |-> Retype(cur[i])] IN
    {SetColStep(t, c, "item", Reverse(cur), 0), SetColStep(t, c, "attr", Rotate(cur), 0),
     SetColStep(t, c, "update", IF re # cur THEN re ELSE Reverse(cur), 0),
     SetColStep(t, c, "elem", [cur EXCEPT ![1] = EditHi], 1), SetColStep(t, c, "elem", [cur EXCEPT ![n] = EditLo], n)}
ListEdits(S, l) == LET cur == S.lsts[l] IN
    {SetLstStep(l, v) : v \in {Reverse(cur), IF cur = <<>> THEN <<>> ELSE Tail(cur), Append(cur, EditLo)}}
Edits(S) == {st \in UNION {UNION {ColEdits(S, t, c) : c \in {"a", "b"} \cap ColsOf(S, t)} : t \in 1..Len(S.tabs)}
                    \cup UNION {ListEdits(S, l) : l \in 1..Len(S.lsts)} : Enabled(S, st) /\ Apply(CmpModel, S, st) # S}
\* the objects a call touches: its operand, the lists it is given, the object it returns (Dst: index after the call)
TabsOf(S, st) == IF st.op = "listsort" THEN {} ELSE {st.src, Len(S.tabs) + 1}
LstsOf(S, st) == IF st.op = "listsort" THEN {st.lst, Len(S.lsts) + 1} ELSE {st.ords[k][2] : k \in 1..Len(st.ords)}
\* an edit that touches what call st (made in state S0) touched; the same call again, on the operand or on the result
EditTouches(S0, st, e) == IF e.op = "setcol" THEN e.src \in TabsOf(S0, st) ELSE e.lst \in LstsOf(S0, st)
Repeats(S0, st) == IF st.op = "listsort" THEN {st, [st EXCEPT !.lst = Len(S0.lsts) + 1]}
                   ELSE {st, [st EXCEPT !.src = Len(S0.tabs) + 1]}
=============================================================================
