-------------------------- MODULE Trace_Perdictable --------------------------
(* Trace validation for property C20: each line of the log is one public call                  *)
(*     perdictable(F, on = ..., defaults = ...)(inputs.., data = .., expiry = ..)     api "run"  *)
(*     join(inputs, on, renames, defaults)                                           api "join" *)
(* on real dictables, with the abstract configuration the driver rendered (o.c, same JSON shape *)
(* as the generator of MC_Perdictable prints), the day of the call (o.today), the projected     *)
(* result (o.out), whether `on` named the key columns in alphabetical order (o.alpha) and,  *)
(* for "run", every argument tuple the counting function F received          *)
(* (o.calls, in call order - read as a bag).                                                     *)
(* Every row of a table of the configuration says how the table spells its key (sp, see           *)
(* "Spelling of keys" in Perdictable.tla: the driver rendered equal numbers by one object and     *)
(* different numbers by different objects denoting the key); the rows that came back are read as  *)
(* denotations.  o.same tells that the object returned is the very object passed as `data`: what  *)
(* it holds is judged like any other table (o.out is always the content), only for an empty join  *)
(* it is the named deviation EmptyJoin.                                                            *)
(* o.opts (when present) are the optional parameters the perdictable was made with.                *)
(* A line with api "step" is one step of a SESSION on caller-owned tables (a call, or an edit of   *)
(* the caller between calls) with the pool read before and after it: see PerdictableSess.tla, which *)
(* also holds the verdict operators.                                                                *)
EXTENDS PerdictableSess, Batch

OptsOf(o) == IF "opts" \in DOMAIN o THEN o.opts ELSE DefaultOpts
WellFormed(o) == WellFormedJ(o.c) /\ o.same \in BOOLEAN /\ InOptDomain(OptsOf(o))

\* clause names starting with "harness_" are errors of the driver, not of the library
Verdict(o) ==
    IF o.api = "step" THEN StepVerdict(o)
    ELSE IF ~WellFormed(o) THEN "harness_malformed"
    ELSE IF o.api = "run" THEN (IF ~InDomain(CfgOfJ(o.c, o.today)) THEN "harness_outside_domain"
                                ELSE RunVerdictJ(o.c, o.today, o.alpha, OptsOf(o), o.out, o.calls, o.same))
    ELSE IF o.api = "join" THEN (IF o.c.data.kind # "absent" \/ o.c.expiry.kind # "absent" THEN "harness_outside_domain"
                                 ELSE JoinVerdictJ(o.c, o.today, o.alpha, o.out))
    ELSE "harness_unknown_api"

Init == BatchInit
Next == BatchNext(Verdict)
=============================================================================
