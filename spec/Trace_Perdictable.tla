-------------------------- MODULE Trace_Perdictable --------------------------
(* Trace validation for property C20: each line of the log is one public call                  *)
(*     perdictable(F, on = ..., defaults = ...)(inputs.., data = .., expiry = ..)     api "run"  *)
(*     join(inputs, on, renames, defaults)                                           api "join" *)
(* on real dictables, with the abstract configuration the driver rendered (o.c, same JSON shape *)
(* as the generator of MC_Perdictable prints), the day of the call (o.today), the projected     *)
(* result (o.out), whether `on` named the key columns in alphabetical order (o.alpha) and,  *)
(* for "run", every argument tuple the counting function F received          *)
(* (o.calls, in call order - read as a bag).                                                     *)
(* Every row of a table of the configuration says how the table spells its key (sp, see           *)
(* "Spelling of keys" in Perdictable.tla: the driver rendered equal numbers by one object and     *)
(* different numbers by different objects denoting the key); the rows that came back are read as  *)
(* denotations.  o.same tells that the object returned is the very object passed as `data`: what  *)
(* it holds is judged like any other table (o.out is always the content), only for an empty join  *)
(* it is the named deviation EmptyJoin.                                                            *)
EXTENDS Perdictable, Batch

RowKeys(rows)   == {rows[n].key : n \in 1..Len(rows)}
UniqueKeys(rows)== Cardinality(RowKeys(rows)) = Len(rows)
MapOfRows(rows) == [k \in RowKeys(rows) |-> rows[CHOOSE n \in 1..Len(rows) : rows[n].key = k].v]
OptOf(x)        == IF x.kind = "absent" THEN <<>> ELSE IF x.kind = "scalar" THEN <<"scalar", x.v>> ELSE <<MapOfRows(x.rows)>>
SpellOfRows(rows) == [k \in RowKeys(rows) |-> rows[CHOOSE n \in 1..Len(rows) : rows[n].key = k].sp]
CfgOf(o) == [ins    |-> [i \in 1..Len(o.c.ins) |-> [kind |-> o.c.ins[i].kind, v |-> o.c.ins[i].v, map |-> MapOfRows(o.c.ins[i].rows)]],
             defs   |-> o.c.defs,
             data   |-> OptOf(o.c.data),
             expiry |-> OptOf(o.c.expiry),
             today  |-> o.today,
             spell  |-> [t \in 1..(Len(o.c.ins) + 2) |->
                            IF t <= Len(o.c.ins) THEN SpellOfRows(o.c.ins[t].rows)
                            ELSE IF t = Len(o.c.ins) + 1 THEN SpellOfRows(o.c.data.rows) ELSE SpellOfRows(o.c.expiry.rows)]]
WellFormed(o) == /\ \A i \in 1..Len(o.c.ins) : UniqueKeys(o.c.ins[i].rows)
                 /\ UniqueKeys(o.c.data.rows) /\ UniqueKeys(o.c.expiry.rows)
                 /\ Len(o.c.defs) = Len(o.c.ins)
                 /\ o.same \in BOOLEAN

\* the rows of a returned table, clause by clause
TableVerdict(cf, nk, alpha, out, cols, pre) ==
    IF out.kind = "empty" THEN pre \o "key_set"                 \* rows are expected, none came back
    ELSE IF out.kind # "table" THEN pre \o "not_a_table"
    ELSE IF out.cols # cols THEN pre \o "columns"
    ELSE IF RowKeys(out.rows) # JoinKeys(cf) THEN pre \o "key_set"
    ELSE IF ~UniqueKeys(out.rows) THEN pre \o "one_row_per_key"          \* the right keys, one of them more than once
    ELSE IF [n \in 1..Len(out.rows) |-> out.rows[n].key] \notin KeyOrders(JoinKeys(cf), nk, alpha) THEN pre \o "not_sorted_by_key"
    ELSE ""

RunVerdict(o) ==
    LET cf == CfgOf(o)  nk == o.c.nk  out == o.out  want == RunCalls(cf, nk)
        view == IF o.same THEN [kind |-> "data"] ELSE out IN     \* EmptyJoin: the supplied object itself, whatever it holds
    IF out.kind = "exc" THEN "raised"
    ELSE IF AllScalar(cf) THEN
         IF out \notin RunOutcomes(cf, nk, o.alpha) THEN "scalar_result"
         ELSE IF o.calls # want THEN "scalar_calls" ELSE ""
    ELSE IF JoinKeys(cf) = {} THEN
         IF view \notin RunOutcomes(cf, nk, o.alpha) THEN "empty_join"
         ELSE IF o.calls # <<>> THEN "extra_call" ELSE ""
    ELSE LET tv == TableVerdict(cf, nk, o.alpha, out, RunCols(nk), "") IN
         IF tv # "" THEN tv
         ELSE IF \E n \in 1..Len(out.rows) : CachedPast(cf, out.rows[n].key) /\ out.rows[n].v # cf.data[1][out.rows[n].key] THEN "kept_value"
         ELSE IF \E n \in 1..Len(out.rows) : ~CachedPast(cf, out.rows[n].key) /\ out.rows[n].v # F(Args(cf, out.rows[n].key)) THEN "computed_value"
         ELSE IF out \notin RunOutcomes(cf, nk, o.alpha) THEN "not_accepted"
         ELSE IF \E x \in Range(o.calls) : Count(o.calls, x) > Count(want, x) THEN "extra_call"
         ELSE IF \E x \in Range(want) : Count(o.calls, x) < Count(want, x) THEN "missing_call"
         ELSE IF ~SameBag(o.calls, want) THEN "calls" ELSE ""

JoinVerdict(o) ==
    LET cf == CfgOf(o)  nk == o.c.nk  out == o.out IN
    IF out.kind = "exc" THEN "join_raised"
    ELSE IF JoinKeys(cf) = {} THEN (IF out \in JoinOutcomes(cf, nk, o.alpha) THEN "" ELSE "join_empty")
    ELSE LET tv == TableVerdict(cf, nk, o.alpha, out, JoinCols(cf, nk), "join_") IN
         IF tv # "" THEN tv
         ELSE IF \E n \in 1..Len(out.rows) : out.rows[n].vals # Args(cf, out.rows[n].key) THEN "join_values"
         ELSE IF out \notin JoinOutcomes(cf, nk, o.alpha) THEN "join_not_accepted" ELSE ""

\* clause names starting with "harness_" are errors of the driver, not of the library
Verdict(o) ==
    IF ~WellFormed(o) THEN "harness_malformed"
    ELSE IF o.api = "run" THEN (IF ~InDomain(CfgOf(o)) THEN "harness_outside_domain" ELSE RunVerdict(o))
    ELSE IF o.api = "join" THEN (IF o.c.data.kind # "absent" \/ o.c.expiry.kind # "absent" THEN "harness_outside_domain" ELSE JoinVerdict(o))
    ELSE "harness_unknown_api"

Init == BatchInit
Next == BatchNext(Verdict)
=============================================================================
