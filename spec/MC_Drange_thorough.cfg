CONSTANTS DSpan = 40
          NDay = 14
          MJMax = 36
          MYears = {1999, 2000}
          WSpanAbs = {0, 1, 2, 3, 4, 5, 6, 7, 8, 9, 14, 15}
          WKAbs = {1, 2, 3, 5, 7, 14}
SPECIFICATION Spec
PROPERTY Termination
INVARIANT StrictlyMonotone
INVARIANT StartsAtT0
INVARIANT WithinBounds
INVARIANT IteratesBump
INVARIANT WeekdaysOnly
INVARIANT SinglePoint
INVARIANT RejectsAway
INVARIANT NothingOnReject
INVARIANT KeepsDirection
INVARIANT SingleDirIsSign
INVARIANT FinalIsDrange
INVARIANT FinalExplained
INVARIANT IntTdDaySame
INVARIANT EveryKthWeekday
INVARIANT MachineIsFunction
INVARIANT SpellingsSame
INVARIANT WholeDayClosed
INVARIANT ShortSpanIsT0
