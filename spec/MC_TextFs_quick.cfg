CONSTANTS MaxLen = 4
          Gen = FALSE
INIT Init
NEXT Next
PROPERTY OnlyGrows
INVARIANT WellFormed
INVARIANT MkdirIdempotent
INVARIANT DictShape
