CONSTANTS Menu = "quick"
          Trees <- TreeMenu
          V <- Vals
INIT Init
NEXT NextGen
