CONSTANTS Menu = "quick"
          Trees <- TreeMenu
          V <- Vals
          Concurrent = TRUE
INIT Init
NEXT NextGen
