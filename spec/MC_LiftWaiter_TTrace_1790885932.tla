---- MODULE MC_LiftWaiter_TTrace_1790885932 ----
EXTENDS Sequences, TLCExt, Toolbox, Naturals, TLC, MC_LiftWaiter

_expression ==
    LET MC_LiftWaiter_TEExpression == INSTANCE MC_LiftWaiter_TEExpression
    IN MC_LiftWaiter_TEExpression!expression
----

_trace ==
    LET MC_LiftWaiter_TETrace == INSTANCE MC_LiftWaiter_TETrace
    IN MC_LiftWaiter_TETrace!trace
----

_prop ==
    ~<>[](
        cur = (<<"m", <<<<"a", <<"aw", <<1, "coro", 2>>>>>>, <<"b", <<"l", <<<<"aw", <<2, "coro", 3>>>>, <<"t", <<<<"i", 10>>, <<"l", <<>>>>>>>>>>>>>>, <<"c", <<"m", <<<<"x", <<"aw", <<3, "coro", 5>>>>>>, <<"y", <<"aw", <<5, "coro", 0>>>>>>>>>>>>>>>>)
        /\
        hist = (<<>>)
        /\
        pending = ({1, 2, 3, 5})
        /\
        tree = (<<"m", <<<<"a", <<"aw", <<1, "coro", 2>>>>>>, <<"b", <<"l", <<<<"aw", <<2, "coro", 3>>>>, <<"aw", <<4, "fut", 0>>>>>>>>>>, <<"c", <<"m", <<<<"x", <<"aw", <<3, "coro", 5>>>>>>, <<"y", <<"aw", <<5, "coro", 0>>>>>>>>>>>>>>>>)
        /\
        started = ({1, 4})
        /\
        out = (<<"pending", 0>>)
    )
----

_init ==
    /\ pending = _TETrace[1].pending
    /\ started = _TETrace[1].started
    /\ tree = _TETrace[1].tree
    /\ hist = _TETrace[1].hist
    /\ cur = _TETrace[1].cur
    /\ out = _TETrace[1].out
----

_next ==
    /\ \E i,j \in DOMAIN _TETrace:
        /\ \/ /\ j = i + 1
              /\ i = TLCGet("level")
        /\ pending  = _TETrace[i].pending
        /\ pending' = _TETrace[j].pending
        /\ started  = _TETrace[i].started
        /\ started' = _TETrace[j].started
        /\ tree  = _TETrace[i].tree
        /\ tree' = _TETrace[j].tree
        /\ hist  = _TETrace[i].hist
        /\ hist' = _TETrace[j].hist
        /\ cur  = _TETrace[i].cur
        /\ cur' = _TETrace[j].cur
        /\ out  = _TETrace[i].out
        /\ out' = _TETrace[j].out

\* Uncomment the ASSUME below to write the states of the error trace
\* to the given file in Json format. Note that you can pass any tuple
\* to `JsonSerialize`. For example, a sub-sequence of _TETrace.
    \* ASSUME
    \*     LET J == INSTANCE Json
    \*         IN J!JsonSerialize("MC_LiftWaiter_TTrace_1790885932.json", _TETrace)

=============================================================================

 Note that you can extract this module `MC_LiftWaiter_TEExpression`
  to a dedicated file to reuse `expression` (the module in the 
  dedicated `MC_LiftWaiter_TEExpression.tla` file takes precedence 
  over the module `MC_LiftWaiter_TEExpression` below).

---- MODULE MC_LiftWaiter_TEExpression ----
EXTENDS Sequences, TLCExt, Toolbox, Naturals, TLC, MC_LiftWaiter

expression == 
    [
        \* To hide variables of the `MC_LiftWaiter` spec from the error trace,
        \* remove the variables below.  The trace will be written in the order
        \* of the fields of this record.
        pending |-> pending
        ,started |-> started
        ,tree |-> tree
        ,hist |-> hist
        ,cur |-> cur
        ,out |-> out
        
        \* Put additional constant-, state-, and action-level expressions here:
        \* ,_stateNumber |-> _TEPosition
        \* ,_pendingUnchanged |-> pending = pending'
        
        \* Format the `pending` variable as Json value.
        \* ,_pendingJson |->
        \*     LET J == INSTANCE Json
        \*     IN J!ToJson(pending)
        
        \* Lastly, you may build expressions over arbitrary sets of states by
        \* leveraging the _TETrace operator.  For example, this is how to
        \* count the number of times a spec variable changed up to the current
        \* state in the trace.
        \* ,_pendingModCount |->
        \*     LET F[s \in DOMAIN _TETrace] ==
        \*         IF s = 1 THEN 0
        \*         ELSE IF _TETrace[s].pending # _TETrace[s-1].pending
        \*             THEN 1 + F[s-1] ELSE F[s-1]
        \*     IN F[_TEPosition - 1]
    ]

=============================================================================



Parsing and semantic processing can take forever if the trace below is long.
 In this case, it is advised to uncomment the module below to deserialize the
 trace from a generated binary file.

\*
\*---- MODULE MC_LiftWaiter_TETrace ----
\*EXTENDS IOUtils, TLC, MC_LiftWaiter
\*
\*trace == IODeserialize("MC_LiftWaiter_TTrace_1790885932.bin", TRUE)
\*
\*=============================================================================
\*

---- MODULE MC_LiftWaiter_TETrace ----
EXTENDS TLC, MC_LiftWaiter

trace == 
    <<
    ([cur |-> <<"m", <<<<"a", <<"aw", <<1, "coro", 2>>>>>>, <<"b", <<"l", <<<<"aw", <<2, "coro", 3>>>>, <<"aw", <<4, "fut", 0>>>>>>>>>>, <<"c", <<"m", <<<<"x", <<"aw", <<3, "coro", 5>>>>>>, <<"y", <<"aw", <<5, "coro", 0>>>>>>>>>>>>>>>>,hist |-> <<>>,pending |-> {1, 2, 3, 4, 5},tree |-> <<"m", <<<<"a", <<"aw", <<1, "coro", 2>>>>>>, <<"b", <<"l", <<<<"aw", <<2, "coro", 3>>>>, <<"aw", <<4, "fut", 0>>>>>>>>>>, <<"c", <<"m", <<<<"x", <<"aw", <<3, "coro", 5>>>>>>, <<"y", <<"aw", <<5, "coro", 0>>>>>>>>>>>>>>>>,started |-> {4},out |-> <<"pending", 0>>]),
    ([cur |-> <<"m", <<<<"a", <<"aw", <<1, "coro", 2>>>>>>, <<"b", <<"l", <<<<"aw", <<2, "coro", 3>>>>, <<"aw", <<4, "fut", 0>>>>>>>>>>, <<"c", <<"m", <<<<"x", <<"aw", <<3, "coro", 5>>>>>>, <<"y", <<"aw", <<5, "coro", 0>>>>>>>>>>>>>>>>,hist |-> <<>>,pending |-> {1, 2, 3, 4, 5},tree |-> <<"m", <<<<"a", <<"aw", <<1, "coro", 2>>>>>>, <<"b", <<"l", <<<<"aw", <<2, "coro", 3>>>>, <<"aw", <<4, "fut", 0>>>>>>>>>>, <<"c", <<"m", <<<<"x", <<"aw", <<3, "coro", 5>>>>>>, <<"y", <<"aw", <<5, "coro", 0>>>>>>>>>>>>>>>>,started |-> {1, 4},out |-> <<"pending", 0>>]),
    ([cur |-> <<"m", <<<<"a", <<"aw", <<1, "coro", 2>>>>>>, <<"b", <<"l", <<<<"aw", <<2, "coro", 3>>>>, <<"t", <<<<"i", 10>>, <<"l", <<>>>>>>>>>>>>>>, <<"c", <<"m", <<<<"x", <<"aw", <<3, "coro", 5>>>>>>, <<"y", <<"aw", <<5, "coro", 0>>>>>>>>>>>>>>>>,hist |-> <<>>,pending |-> {1, 2, 3, 5},tree |-> <<"m", <<<<"a", <<"aw", <<1, "coro", 2>>>>>>, <<"b", <<"l", <<<<"aw", <<2, "coro", 3>>>>, <<"aw", <<4, "fut", 0>>>>>>>>>>, <<"c", <<"m", <<<<"x", <<"aw", <<3, "coro", 5>>>>>>, <<"y", <<"aw", <<5, "coro", 0>>>>>>>>>>>>>>>>,started |-> {1, 4},out |-> <<"pending", 0>>])
    >>
----


=============================================================================

---- CONFIG MC_LiftWaiter_TTrace_1790885932 ----
CONSTANTS
    Menu = "deps"
    Trees <- TreeMenu
    V <- Vals
    Concurrent = FALSE

PROPERTY
    _prop

CHECK_DEADLOCK
    \* CHECK_DEADLOCK off because of PROPERTY or INVARIANT above.
    FALSE

INIT
    _init

NEXT
    _next

CONSTANT
    _TETrace <- _trace

ALIAS
    _expression
=============================================================================
\* Generated on Thu Oct 01 20:18:54 UTC 2026