---------------------------- MODULE MC_IncSession ----------------------------
(* Property C06 as a session state machine: one table, a pool of caller-owned filter objects,   *)
(* one action per public call (inc / exc / find_<col> / one_or_none), every call taking one or   *)
(* several filters from the pool in every spelling (positional dicts, callables, ** keywords,    *)
(* exc =).  The calls are executed by the MECHANISM of IncSession.tla on the CURRENT pool; the    *)
(* invariants say what the statement says: the pool and the table are never changed and every    *)
(* result is what the LAW gives for the ORIGINAL contents of the filters, however the condition  *)
(* was spelled and whatever was called before.                                                   *)
(* A call may also be made on the table the previous call returned (on = "last"): idempotence     *)
(* and complementarity as histories,  r = t.inc(q1, q2); r.inc(q1, q2) = r; r.exc(q1, q2) empty.  *)
(* The same machine, with the history as a variable, is the source of the S2C replay: cfgs       *)
(* MC_IncSession_gen*.cfg print every history together with the outcomes the law allows and the  *)
(* pool the caller must still see after every call; MC_IncSession_sim.cfg draws longer ones.     *)
(* MC_IncSession_quick.cfg does both in one run (clauses checked on every history, no VIEW);      *)
(* MC_IncSession_thorough.cfg checks the VIEW quotient (hist hidden) with 3 filters per call.     *)
(* cfg MC_IncSession_adopt.cfg (Adopt = TRUE, `filters` is the caller's lone dict) must violate  *)
(* PoolUntouched: the model is able to express what it forbids.                                  *)
EXTENDS IncSession, TLC, Json

CONSTANTS MaxCalls,     \* length of the histories
          MaxArgs,      \* filters per call (positional + keywords)
          FreeCalls,    \* the first FreeCalls calls of a history are arbitrary, the later ones take <= 1 positional filter ("probes")
                        \* or repeat / complement the previous call on its own result ("echo")
          Scope,        \* "quick" | "thorough": which tables and pools
          Adopt         \* mechanism variant, see IncSession.tla

VARIABLES t, pool, pool0, last, opd, hist
\* opd = the table the last call was made on ACCORDING TO THE LAW (t itself, or what the law says the call before returned)
vars == <<t, pool, pool0, last, opd, hist>>
View == <<t, pool, pool0, last, opd>>

Cols2 == <<"a", "b">>
\* every combination of the a-values with the b-values, one row each: each row tells two filters apart
Grid(As, Bs) == [cols |-> Cols2,
                 rows |-> [k \in 1..(Len(As) * Len(Bs)) |-> [a |-> As[((k - 1) \div Len(Bs)) + 1], b |-> Bs[((k - 1) % Len(Bs)) + 1]]]]
Empty2 == [cols |-> Cols2, rows |-> <<>>]
Single == [cols |-> Cols2, rows |-> <<[a |-> VInt(1), b |-> VStr("b")]>>]
G6 == Grid(<<VInt(1), None, VNaN(1)>>, <<VStr("b"), VInt(1)>>)
G4 == Grid(<<VFlt(1, 1), VStr("ab")>>, <<VStr("ba"), None>>)
G8 == Grid(<<VStr("ab"), VNaN(1), VInt(1), VInf(1)>>, <<VStr("b"), VNaN(3)>>)
Dup == [cols |-> Cols2, rows |-> <<[a |-> VInt(1), b |-> VStr("b")], [a |-> None, b |-> VStr("b")], [a |-> VInt(1), b |-> VStr("b")]>>]

CVal(v)   == <<"val", v>>
CList(vs) == <<"list", vs>>
CRe(r)    == <<"re", r>>
A(cc) == FDict(<<<<"a", cc>>>>)
B(cc) == FDict(<<<<"b", cc>>>>)
AB(ca, cb) == FDict(<<<<"a", ca>>, <<"b", cb>>>>)
BA(cb, ca) == FDict(<<<<"b", cb>>, <<"a", ca>>>>)      \* the same conditions, inserted in the other order

PoolsQuick == {
    <<A(CVal(VInt(1))), B(CVal(VStr("b"))), FPred("a_eq_b")>>,
    <<A(CList(<<VInt(1), VStr("ab")>>)), B(CList(<<VStr("b"), None>>)), FDict(<<>>)>>,
    <<A(CVal(None)), B(CRe("starts_b")), FPred("b_is_str")>>,
    <<A(CVal(VNaN(2))), B(CVal(VInt(1))), BA(CVal(VInt(1)), CVal(VNaN(2)))>>,
    <<AB(CVal(VInt(1)), CVal(VStr("b"))), B(CVal(VStr("b"))), A(CList(<<None, VInt(1)>>))>> }
PoolsMore == {
    <<A(CRe("has_a")), B(CList(<<>>)), FPred("a_is_none")>>,
    <<A(CVal(VFlt(1, 1))), B(CList(<<VStr("ba"), VNaN(3)>>)), FPred("a_eq_b")>>,                 \* 1.0 selects the int 1 too
    <<A(CVal(VInf(1))), B(CVal(None)), AB(CVal(VInf(1)), CVal(None))>>,
    <<A(CList(<<VNaN(1), None>>)), B(CRe("any")), FDict(<<>>)>>,
    <<AB(CList(<<VStr("ab"), VInt(1)>>), CRe("starts_b")), A(CList(<<VStr("ab"), VInt(1)>>)), FPred("never")>>,
    <<FPred("always"), A(CVal(VStr("ab"))), B(CVal(VStr("ba")))>>,
    <<FDict(<<>>), FDict(<<>>), B(CVal(VInt(1)))>> }
PoolsThorough == PoolsQuick \cup PoolsMore

TableSet == IF Scope = "quick" THEN {G6, Empty2, Single} ELSE {G4, G8, Dup, Empty2, Single}
PoolSet  == IF Scope = "quick" THEN PoolsQuick ELSE PoolsThorough

Slots == 1..3
PosU  == UNION {[1..k -> Slots] : k \in 0..MaxArgs}
Forms == {f \in [pos : PosU, kw : 0..3] : NArgs(f) <= MaxArgs}
\* (the fields are written in the order in which TLC keeps them once normalised: records are sorted in place, and a record
\*  printed by one worker while being sorted has been seen to lose a field)
MkCall(op, col, f, x, on) == [pos |-> f.pos, kw |-> f.kw, op |-> op, col |-> col, x |-> x, on |-> on]
NoCall == [pos |-> <<>>, kw |-> 0, op |-> "", col |-> "", x |-> 0, on |-> "t"]
Probe(c) == Len(c.pos) <= 1 /\ c.kw = 0 /\ c.x = 0 /\ c.on = "t"     \* t.inc(q), t.exc(f), t.find_a(q), t.one_or_none(q), t.inc()
\* the previous call repeated (or complemented) on its own result with the very same arguments: r = t.inc(q1, q2); r.inc(q1, q2)
Echo(c) == c.on = "last" /\ c.op \in {"inc", "exc"} /\ c.pos = last.call.pos /\ c.kw = last.call.kw

Called == last.call.op # ""
\* a call can be made on the previous result when the law says that result is one definite table
LawLast == Outcomes(opd, pool0, last.call)
Chainable == Called /\ Cardinality(LawLast) = 1 /\ \A o \in LawLast : o.kind = "table"

Init == /\ t \in TableSet /\ pool0 \in PoolSet /\ pool = pool0
        /\ last = [call |-> NoCall, out |-> [kind |-> "none"], echo |-> ""] /\ opd = t /\ hist = <<>>

Do(c) == /\ Len(hist) < MaxCalls
         /\ Len(hist) >= FreeCalls => (Probe(c) \/ Echo(c))
         /\ c.on = "last" => Chainable
         /\ InDomain(t, pool0, c)
         /\ LET lawopd  == IF c.on = "t" THEN t ELSE TableOf(CHOOSE o \in LawLast : TRUE, t.cols)
                 mechopd == IF c.on = "t" THEN t ELSE TableOf(last.out, t.cols)         \* the object the code really returned
                 m == MechCall(mechopd, pool, c, Adopt)
            IN  pool' = m.pool /\ opd' = lawopd
                /\ last' = [call |-> c, out |-> m.out, echo |-> IF Echo(c) THEN last.call.op ELSE ""]
         /\ hist' = Append(hist, c)
         /\ UNCHANGED <<t, pool0>>

Ons == {"t", "last"}
CallInc  == \E f \in Forms, on \in Ons : Do(MkCall("inc", "", f, 0, on))
CallExc  == \E f \in Forms, on \in Ons : Do(MkCall("exc", "", f, 0, on))
CallFind == \E f \in Forms, on \in Ons, cl \in {"a", "b"} : Do(MkCall("find", cl, f, 0, on))
CallOne  == \E f \in Forms, on \in Ons, x \in 0..3 : (x # 0 => f.kw = 0 /\ NArgs(f) < MaxArgs) /\ Do(MkCall("one", "", f, x, on))
Next == CallInc \/ CallExc \/ CallFind \/ CallOne

\* ---- what the statement says, clause by clause -----------------------------------------------
LastCond == CondOf(pool0, last.call)
PoolUntouched    == pool = pool0
ResultByOriginal == Called => last.out \in Outcomes(opd, pool0, last.call)
ArgumentsLeftAlone == [][pool' = pool /\ t' = t]_vars
\* the result depends on the condition only, not on its spelling: every other in-domain spelling of the same
\* condition, run by the mechanism on the original pool, lands in the same set of allowed outcomes
SpellingIrrelevant ==
    Called => \A f \in Forms :
        LET c2 == MkCall(last.call.op, last.call.col, f, last.call.x, last.call.on) IN
        (InDomain(opd, pool0, c2) /\ CondOf(pool0, c2) = LastCond) => MechCall(opd, pool0, c2, FALSE).out \in Outcomes(opd, pool0, last.call)
RECURSIVE Weave(_, _, _, _)
Weave(rows, xs, ys, cd) ==
    IF rows = <<>> THEN xs = <<>> /\ ys = <<>>
    ELSE IF SatC(Head(rows), cd) THEN xs # <<>> /\ Head(xs) = Head(rows) /\ Weave(Tail(rows), Tail(xs), ys, cd)
         ELSE ys # <<>> /\ Head(ys) = Head(rows) /\ Weave(Tail(rows), xs, Tail(ys), cd)
SessPartition  == (Called /\ ~NoCondC(LastCond)) => Weave(opd.rows, IncC(opd, LastCond).rows, ExcC(opd, LastCond).rows, LastCond)
SessIdempotent == Called => /\ IncC(IncC(opd, LastCond), LastCond) = IncC(opd, LastCond)
                            /\ ~NoCondC(LastCond) => NRows(ExcC(IncC(opd, LastCond), LastCond)) = 0
SessKeepsCols  == (Called /\ last.out.kind = "table") => last.out.cols = t.cols /\ Rectangular(last.out)
NoCondIsIdentity == (Called /\ last.call.op = "inc" /\ NoCondC(LastCond)) => last.out = TabOut(opd)
\* idempotence as a history: the same call again on its own result returns that result, the complementary call nothing
\* (last.echo = the operation whose result this call was repeated on, with the very same arguments)
EchoLaw == (Called /\ last.echo # "" /\ ~MixedC(LastCond)) =>
               IF last.call.op = last.echo \/ NoCondC(LastCond) THEN last.out = TabOut(opd) ELSE last.out.rows = <<>>

\* ---- S2C: the histories, with what the law allows at every call and the pool the caller still owns ----
RECURSIVE LawOpd(_)
LawOpd(k) == IF hist[k].on = "t" THEN t ELSE TableOf(CHOOSE o \in Outcomes(LawOpd(k - 1), pool0, hist[k - 1]) : TRUE, t.cols)
Emit == PrintT(ToJson([t |-> t, pool |-> pool0, snap |-> Canon(pool, t.cols),
                       hist |-> [k \in 1..Len(hist) |-> [call |-> hist[k], opd |-> IF hist[k].on = "t" THEN [kind |-> "t"] ELSE TabOut(LawOpd(k)),
                                                         want |-> SetToSeq(Outcomes(LawOpd(k), pool0, hist[k]))]]]))
\* tables of <= 1 row only get single calls (the extremes); the histories run on the tables that tell filters apart
Depth(tt) == IF NRows(tt) <= 1 THEN 1 ELSE MaxCalls
GenBound == /\ Len(hist) <= Depth(t)
            /\ Len(hist) = Depth(t) => Emit
=============================================================================
